(* GLUE: base err main *)
(* Driver of component 'c14x' (coq/Proofs/C14xDef.v).  Nodes of problem 1 are 0..n-1 (position in
   list(G.nodes())), nodes of problem 2 are 0..n-1 (position in list(G2.nodes())).
   EQV sys n | G1: per node: deg nbrs.. | nodelist (n nodes of G1) | idx (n ints, by node of G1) | rc (n q) | ne, per ordered pair: u v q
             | G2: per node: deg nbrs.. | nl2 (n nodes of G1) | phi (n nodes of G2, by node of G1) | idx' (n ints, by node of G2) | rc' (n q) | ne', u v q
             | V (len q..) | t
       -> OK okb eqv | P V | rhs1 | rhs2
   IC sys n | G1 adj | nodelist | idx | G2 adj | nl2 | phi | X0 (len q..) | Y0 (len q..)
       -> OK V0 | P V0 | V0'
   PIC sys n | G1 adj | nodelist | idx | G2 adj | nl2 | phi | I0 (len nodes..) | R0 (len nodes..)      (the *_pure_IC entry points)
       -> OK V0 | P V0 | V0'
   ISO n | G1: per node: deg successors.. | G2: the same | tbl (n nodes of G2, by node of G1)      (hypotheses of the wrapper / simulator theorems)
       -> OK iso_okb *)
let pv l = String.concat " " (List.map sq l)
let nnat () = nat_of_int (nint ())
let zero = qi 0 1
let one = qi 1 1
let sb b = if b then "1" else "0"

let read_adj n = Array.init n (fun _ -> nlist nn)
let mk_graph n adj =
  { gnodes = List.init n n_of_int;
    gadj = (fun u -> let u = int_of_n u in if u < n then adj.(u) else []);
    gpred = (fun u -> let u = int_of_n u in if u < n then adj.(u) else []);
    gdirected = false; ew = (fun _ _ -> one); nw = (fun _ -> one); ewt = false; nwt = false }
let read_tr () =
  let ne = nint () in
  let trs = Hashtbl.create 64 in
  for _ = 1 to ne do
    let u = nint () in let v = nint () in let w = nq () in Hashtbl.replace trs (u, v) w
  done;
  (fun u v -> try Hashtbl.find trs (int_of_n u, int_of_n v) with Not_found -> zero)
let tab_nat n a = (fun u -> let u = int_of_n u in if u < n then a.(u) else O)
let tab_q n a = (fun u -> let u = int_of_n u in if u < n then a.(u) else zero)
let tab_n n a = (fun u -> let u = int_of_n u in if u < n then a.(u) else n_of_int (n + 7))

let run_eqv () =
  let sys = nnat () in
  let n = nint () in
  let adj = read_adj n in
  let nodelist = List.init n (fun _ -> nn ()) in
  let idx = Array.init n (fun _ -> nnat ()) in
  let rc = Array.init n (fun _ -> nq ()) in
  let trf = read_tr () in
  let adj2 = read_adj n in
  let nl2 = List.init n (fun _ -> nn ()) in
  let phi = Array.init n (fun _ -> nn ()) in
  let idx2 = Array.init n (fun _ -> nnat ()) in
  let rc2 = Array.init n (fun _ -> nq ()) in
  let trf2 = read_tr () in
  let v = nlist nq in
  let t = nq () in
  let ((okb, eqv), (pv0, (r1, r2))) =
    c14x_eval sys (mk_graph n adj) nodelist (tab_nat n idx) trf (tab_q n rc)
              (mk_graph n adj2) nl2 (tab_n n phi) (tab_nat n idx2) trf2 (tab_q n rc2) v t in
  out ("OK " ^ sb okb ^ " " ^ sb eqv ^ " | " ^ pv pv0 ^ " | " ^ pv r1 ^ " | " ^ pv r2)

let run_ic () =
  let sys = nnat () in
  let n = nint () in
  let adj = read_adj n in
  let nodelist = List.init n (fun _ -> nn ()) in
  let idx = Array.init n (fun _ -> nnat ()) in
  let adj2 = read_adj n in
  let nl2 = List.init n (fun _ -> nn ()) in
  let phi = Array.init n (fun _ -> nn ()) in
  let x0 = nlist nq in
  let y0 = nlist nq in
  let (v0, (pv0, v0')) = c14x_ic sys (mk_graph n adj) nodelist (tab_nat n idx) (mk_graph n adj2) nl2 (tab_n n phi) x0 y0 in
  out ("OK " ^ pv v0 ^ " | " ^ pv pv0 ^ " | " ^ pv v0')

let run_pic () =
  let sys = nnat () in
  let n = nint () in
  let adj = read_adj n in
  let nodelist = List.init n (fun _ -> nn ()) in
  let idx = Array.init n (fun _ -> nnat ()) in
  let adj2 = read_adj n in
  let nl2 = List.init n (fun _ -> nn ()) in
  let phi = Array.init n (fun _ -> nn ()) in
  let i0 = nlist nn in
  let r0 = nlist nn in
  let (v0, (pv0, v0')) = c14x_pure_ic sys (mk_graph n adj) nodelist (tab_nat n idx) (mk_graph n adj2) nl2 (tab_n n phi) i0 r0 in
  out ("OK " ^ pv v0 ^ " | " ^ pv pv0 ^ " | " ^ pv v0')

let run_iso () =
  let n = nint () in
  let adj = read_adj n in
  let adj2 = read_adj n in
  let tbl = List.init n (fun _ -> nn ()) in
  out ("OK " ^ sb (iso_okb (mk_graph n adj) (mk_graph n adj2) tbl))

let () = main (function
    | "EQV" -> run_eqv ()
    | "IC" -> run_ic ()
    | "PIC" -> run_pic ()
    | "ISO" -> run_iso ()
    | c -> out ("BADCMD " ^ c))
