(* GLUE: base err main *)
(* Driver of component 'ldf': _ListDict_ under binary64 rounding (C16f).
   LDF <nops> then ops  I k num den | U k num den | R k | S (update_total_weight) | G num den (guard with cutoff)
     -> after every op the state: "S n k:w ... T total M maxw" (exact rationals), or "E <err>"
   AR op a b : one rounded arithmetic operation (op in + - /) on two rationals *)
let print_ld (s : n ld) =
  let its = List.sort compare (List.map (fun k -> (zt_of_n k, k)) s.items) in
  out (Printf.sprintf "S %d" (List.length its));
  List.iter (fun (kz, k) -> out (" " ^ ZZ.to_string kz ^ ":" ^ sq (ldfN_wread s k))) its;
  out (" T " ^ sq s.total ^ " M " ^ sq s.maxw)

let run_ldf () =
  let nops = nint () in
  let s = ref (ldfN_empty true) in
  let dead = ref false in
  for _ = 1 to nops do
    let c = next () in
    let step o =
      if not !dead then begin
        (match ldfN_step !s o with
         | Ok s' -> s := s'; print_ld s'
         | Err e -> dead := true; out ("E " ^ err_name e));
        out " | " end in
    match c with
    | "I" -> let k = nn () in let q = nq () in step (OpInsert (k, q))
    | "U" -> let k = nn () in let q = nq () in step (OpUpdate (k, q))
    | "R" -> let k = nn () in step (OpRemove k)
    | "S" -> if not !dead then begin s := ldfN_resum !s; print_ld !s; out " | " end
    | "G" -> let c = nq () in if not !dead then begin s := ldfN_guard c !s; print_ld !s; out " | " end
    | "H" -> let k = nn () in if not !dead then begin out ("H " ^ sq (ldfN_threshold !s k)); out " | " end
    | _ -> failwith ("bad op " ^ c)
  done

let run_ar () =
  let n = nint () in
  for _ = 1 to n do
    let o = next () in
    let a = nq () in let b = nq () in
    let r = (match o with
        | "+" -> f_add a b | "-" -> f_sub a b | "/" -> f_div a b
        | _ -> failwith "bad arith") in
    out (sq r ^ " ")
  done

let () = main (function
    | "LDF" -> run_ldf ()
    | "AR" -> run_ar ()
    | c -> out ("BADCMD " ^ c))
