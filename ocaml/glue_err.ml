(* names of the Python failure modes of Base/Prelude.v *)
let err_name = function
  | EoNError -> "EoNError" | ZeroDivision -> "ZeroDivisionError" | IndexErr -> "IndexError"
  | KeyErr -> "KeyError" | TypeErr -> "TypeError" | NameErr -> "NameError"
  | ValueErr -> "ValueError" | PyException -> "Exception"
  | OutOfDraws -> "OutOfDraws" | OutOfFuel -> "OutOfFuel"

