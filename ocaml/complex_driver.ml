(* GLUE: base err samp graph main *)
(* Driver of component 'complex': Gillespie_complex_contagion (Model/Complex.v).
   CPX <graph> <model> nrs rs.. tmin tmax? full ic(n x opt) fuel <mode>
   <model> = F nrows (watch thr base slope low cwatch cthr ca cb)* src infl nfilt filt..
                 one of the parametric families, evaluated by the extracted Coq functions
           | T k   then for every status configuration c = sum_i st(i)*k^i, c = 0 .. k^n-1:
                   n rates, n new statuses, n influence lists (len nodes..)
                 arbitrary user functions as tables (lookup only)
   <mode>  = W <entropy> | A maxdraws maxpaths k d1..dk | D k q1..qk   (as the gil driver) *)
let print_calls (cs : ((n * n) * n list) list) =
  out " CALLS";
  List.iter (fun ((kind, u), sn_) ->
      out (" " ^ (match int_of_n kind with 0 -> "R" | 1 -> "C" | _ -> "I") ^ ":" ^ sn u ^ ":" ^
           String.concat "," (List.map sn sn_))) cs

let print_cout ((o, cs) : simout * ((n * n) * n list) list) =
  print_simout o; print_calls cs

let run_one m ds =
  let (res, tr) = exec m ds [] in
  print_result print_cout res; print_draws ds; print_trace tr

let read_family g =
  let rows = nlist (fun () ->
      let r_watch = nn () in let r_thr = nq () in let r_base = nq () in
      let r_slope = nq () in let r_low = nq () in
      let c_watch = nn () in let c_thr = nq () in let c_a = nn () in let c_b = nn () in
      { r_watch; r_thr; r_base; r_slope; r_low; c_watch; c_thr; c_a; c_b }) in
  let cm_src = nn () in let cm_infl = nn () in let cm_filt = nlist nn in
  let m = { cm_rows = rows; cm_src; cm_infl; cm_filt } in
  (fam_rate g m, fam_choice g m, fam_infl g m)

let read_tables g =
  let k = nint () in
  let nodes = List.map int_of_n g.gnodes in
  let n = List.length nodes in
  let rec pw b e = if e = 0 then 1 else b * pw b (e - 1) in
  let ncfg = pw k n in
  let rt = Array.make_matrix ncfg n (qi 0 1) in
  let ct = Array.make_matrix ncfg n (n_of_int 0) in
  let it = Array.make_matrix ncfg n [] in
  for c = 0 to ncfg - 1 do
    for u = 0 to n - 1 do rt.(c).(u) <- nq () done;
    for u = 0 to n - 1 do ct.(c).(u) <- nn () done;
    for u = 0 to n - 1 do it.(c).(u) <- nlist nn done
  done;
  let cfg st = List.fold_right (fun u acc -> acc * k + int_of_n (st (n_of_int u))) nodes 0 in
  let chk c u = if c < 0 || c >= ncfg || u < 0 || u >= n then failwith "table index" in
  ((fun st u -> let c = cfg st and u = int_of_n u in chk c u; rt.(c).(u)),
   (fun st u -> let c = cfg st and u = int_of_n u in chk c u; ct.(c).(u)),
   (fun st u -> let c = cfg st and u = int_of_n u in chk c u; it.(c).(u)))

let run_cpx () =
  let g = read_graph () in
  let (rate, choice, infl) =
    match next () with
    | "F" -> read_family g
    | "T" -> read_tables g
    | c -> failwith ("bad model kind " ^ c) in
  let rstats = nlist nn in
  let tmin = nq () in let tmax = nopt nq in
  let full = nbool () in
  let n = List.length g.gnodes in
  let ica = Array.init n (fun _ -> nopt nn) in
  let ic u = let u = int_of_n u in if u < n then ica.(u) else None in
  let fuel = nat_of_int (nint ()) in
  let m = complex g rate choice infl rstats tmin tmax full ic fuel in
  match next () with
  | "W" -> let ent = read_entropy () in run_one m (walk m ent 4000)
  | "D" -> run_one m (nlist nq)
  | "A" ->
    let maxdraws = nint () in let maxpaths = nint () in
    let delays = nlist nq in
    let paths = walk_all m delays maxdraws maxpaths in
    List.iteri (fun i ds -> if i > 0 then out " ## "; run_one m ds) paths
  | c -> failwith ("bad mode " ^ c)

let () = main (function
    | "CPX" -> run_cpx ()
    | c -> out ("BADCMD " ^ c))
