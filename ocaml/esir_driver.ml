(* GLUE: base err samp graph esir main *)
(* Driver of component 'esir': event-driven SIR (Model/EventSIR.v).
   ESIR <graph> i0 r0 tmin tmax? full fuel <tables>          fast_nonMarkov_SIR with table rules
        tables: per node an optional duration, then per node per neighbour (adjacency
        order) an optional delay  (optional = "0" for inf | "1 num den")
   NMS  <graph> i0? r0? rho? tmin tmax? full fuel <tables> MODE   the same through the sampler entry
        (initial_infecteds=None draws random.sample)
   FSIR <graph> tau gamma i0? r0? rho? tmin tmax? full fuel MODE   fast_SIR
   PERC <graph> <tables>                                     nonMarkov_directed_percolate_network_with_timing
   DPERC <graph> tau gamma MODE                              directed_percolate_network
   GINF <graph> tau gamma i0 r0 MODE                         get_infected_nodes
   MODE = W <entropy> | A maxdraws maxpaths k d1..dk | D k q1..qk   (as in gil_driver) *)
let sx = function Some t -> sq t | None -> "inf"

let read_tables (g : graph) =
  let nodes = g.gnodes in
  let durs = Hashtbl.create 16 and dels = Hashtbl.create 64 in
  List.iter (fun u -> Hashtbl.replace durs (int_of_n u) (nopt nq)) nodes;
  List.iter (fun u -> List.iter (fun v -> Hashtbl.replace dels (int_of_n u, int_of_n v) (nopt nq)) (g.gadj u)) nodes;
  ((fun u v -> try Hashtbl.find dels (int_of_n u, int_of_n v) with Not_found -> None),
   (fun u -> try Hashtbl.find durs (int_of_n u) with Not_found -> None))

let print_calls cs =
  out " CALLS";
  List.iter (fun (u, v) -> out (" " ^ sn u ^ ">" ^ (match v with Some v -> sn v | None -> "-"))) cs

let print_out_calls (o, cs) = print_simout o; print_calls cs

let print_pgraph (h : pgraph) =
  out " PG";
  List.iter (fun p ->
      out (" " ^ sn p.pn ^ "@" ^ sx p.pdur ^ "=" ^
           String.concat "," (List.map (fun (v, d) -> sn v ^ "@" ^ sx d) p.pout))) h

let print_nodes l = out " NODES"; List.iter (fun u -> out (" " ^ sn u)) l

let run_mode (pr : 'a -> unit) (m : 'a samp) =
  let run_one ds =
    let (res, tr) = exec m ds [] in
    print_result pr res; print_draws ds; print_trace tr in
  match next () with
  | "W" -> let ent = read_entropy () in run_one (walk m ent 4000)
  | "D" -> run_one (nlist nq)
  | "A" ->
    let maxdraws = nint () in let maxpaths = nint () in
    let delays = nlist nq in
    let paths = walk_all m delays maxdraws maxpaths in
    List.iteri (fun i ds -> if i > 0 then out " ## "; run_one ds) paths
  | c -> failwith ("bad mode " ^ c)

let run_mode_b (pr : 'a -> unit) (m : 'a bsamp) =
  let run_one ds =
    let (res, tr) = bexec m ds [] in
    print_result pr res; print_draws ds; print_btrace tr in
  match next () with
  | "W" -> let ent = read_entropy () in run_one (bwalk m ent 4000)
  | "D" -> run_one (nlist nq)
  | "A" ->
    let maxdraws = nint () in let maxpaths = nint () in
    let delays = nlist nq in
    let paths = bwalk_all m delays maxdraws maxpaths in
    List.iteri (fun i ds -> if i > 0 then out " ## "; run_one ds) paths
  | c -> failwith ("bad mode " ^ c)

let run_esir () =
  let g = read_graph () in
  let i0 = nlist nn in let r0 = nlist nn in
  let tmin = nq () in let tmax = nopt nq in
  let full = nbool () in
  let fuel = nint () in
  let (delay, dur) = read_tables g in
  let fuel = if fuel < 0 then esir_fuel g i0 else nat_of_int fuel in
  print_result print_out_calls (esir_det fifo g delay dur i0 r0 tmin tmax full fuel);
  print_draws []; print_trace []

let run_nms () =
  let g = read_graph () in
  let i0 = nopt (fun () -> nlist nn) in
  let r0 = nopt (fun () -> nlist nn) in
  let rho = nopt nq in
  let tmin = nq () in let tmax = nopt nq in
  let full = nbool () in
  let fuel = nat_of_int (nint ()) in
  let (delay, dur) = read_tables g in
  run_mode print_out_calls (fast_nonmarkov fifo g (det_provider delay dur) i0 r0 rho tmin tmax full fuel)

let run_fsir () =
  let g = read_graph () in
  let tau = nq () in let gamma = nq () in
  let i0 = nopt (fun () -> nlist nn) in
  let r0 = nopt (fun () -> nlist nn) in
  let rho = nopt nq in
  let tmin = nq () in let tmax = nopt nq in
  let full = nbool () in
  let fuel = nat_of_int (nint ()) in
  if uses_edge_path g tau gamma then
    run_mode (fun (o, _) -> print_simout o) (fast_sir_edge g tau gamma i0 r0 rho tmin tmax full fuel)
  else
    run_mode_b (fun (o, _) -> print_simout o) (fast_sir_const g tau gamma i0 r0 rho tmin tmax full fuel)

let run_perc () =
  let g = read_graph () in
  let (delay, dur) = read_tables g in
  out "OK"; print_pgraph (perc_build g delay dur); print_calls (perc_calls g);
  print_draws []; print_trace []

let run_dperc () =
  let g = read_graph () in
  let tau = nq () in let gamma = nq () in
  run_mode print_pgraph (perc_markov g tau gamma g.gnodes [] (fun h -> Ret h))

let run_ginf () =
  let g = read_graph () in
  let tau = nq () in let gamma = nq () in
  let i0 = nlist nn in let r0 = nlist nn in
  run_mode print_nodes (get_infected g tau gamma i0 r0)

let () = main (function
    | "ESIR" -> run_esir ()
    | "NMS" -> run_nms ()
    | "FSIR" -> run_fsir ()
    | "PERC" -> run_perc ()
    | "DPERC" -> run_dperc ()
    | "GINF" -> run_ginf ()
    | c -> out ("BADCMD " ^ c))
