(* ---------- sampler programs: choosing scripted draws, printing traces ----------
   [walk m ent] follows the program [m], choosing one draw per call from the
   entropy source [ent : unit -> int]; the chosen draws are then given to the
   extracted [exec], which is what produces the result and the trace.  *)
let eps30 = QQ.of_ints 1 (1 lsl 30)
let acc_draw = q_of_qq (QQ.of_ints 1 (1 lsl 40))   (* the scripted answer to every accept test *)

let expo_delay (e : int) : q =
  (* positive dyadic delays of varied magnitude *)
  (* mostly short (so that several events fit before tmax), sometimes long *)
  let num = if (e / 64) mod 8 = 0 then 1 + (e mod 16) else 1 + (e mod 3) in
  let den = 1 lsl (1 + (e / 4) mod 5) in
  qi num den

let flip_draw (p : q) (want_true : bool) (boundary : bool) : q option =
  let p = qq_of_q p in
  let zero = QQ.zero and one = QQ.one in
  if want_true then
    if QQ.leq p zero then None
    else if boundary && QQ.gt (QQ.sub p eps30) zero && QQ.leq p one then Some (q_of_qq (QQ.sub p eps30))
    else Some (q_of_qq (QQ.div (QQ.min p one) (QQ.of_int 2)))
  else
    if QQ.geq p one then None
    else if boundary && QQ.lt (QQ.add p eps30) one && QQ.geq p zero then Some (q_of_qq (QQ.add p eps30))
    else Some (q_of_qq (QQ.div (QQ.add (QQ.max p zero) one) (QQ.of_int 2)))

(* draw that makes the cascade stop in cell i (midpoint of the cell) *)
let casc_draw (ps : q list) (i : int) : q option =
  let rec go acc j = function
    | [] -> None
    | p :: t ->
      let p = qq_of_q p in
      if j = i then (if QQ.gt p QQ.zero then Some (q_of_qq (QQ.add acc (QQ.div p (QQ.of_int 2)))) else None)
      else go (QQ.add acc p) (j + 1) t in
  go QQ.zero 0 ps

exception Stop
let walk (m : 'a samp) (ent : unit -> int) (maxdraws : int) : q list =
  let ds = ref [] and nd = ref 0 in
  let push d = ds := d :: !ds; incr nd; if !nd > maxdraws then raise Stop in
  let rec go (m : 'a samp) : unit =
    match m with
    | Ret _ | Fail _ -> ()
    | Expo (r, k) ->
      if QQ.equal (qq_of_q r) QQ.zero then () else begin
        let d = expo_delay (ent ()) in push d; go (k d) end
    | Flip (p, kt, kf) ->
      let e = ent () in
      let want = e land 1 = 0 and boundary = e land 6 = 0 in
      (match flip_draw p want boundary with
       | Some d -> push d; go (if want then kt else kf)
       | None ->
         (match flip_draw p (not want) boundary with
          | Some d -> push d; go (if want then kf else kt)
          | None -> ()))
    | Casc (ps, k) ->
      let n = List.length ps in
      if n = 0 then () else begin
        let start = ent () mod n in
        let rec find j c = if c >= n then None else
            match casc_draw ps ((start + j) mod n) with Some d -> Some (d, (start + j) mod n) | None -> find (j + 1) (c + 1) in
        match find 0 0 with
        | Some (d, i) -> push d; go (k (nat_of_int i))
        | None -> push (qi 1 2); go (k (casc_index ps (qi 1 2) O))
      end
    | Choose (w, c, k) ->
      let n = List.length c in
      if n = 0 then () else begin
        let rec round tries =
          let i = ent () mod n in
          let (key, wt) = List.nth c i in
          push (qi i 1);
          if w then begin
            push acc_draw;
            if QQ.gt (qq_of_q wt) QQ.zero then go (k key)
            else if tries > 60 then raise Stop else round (tries + 1)
          end else go (k key) in
        round 0 end
    | Unif (c, k) ->
      let n = List.length c in
      if n = 0 then () else begin
        let i = ent () mod n in push (qi i 1); go (k (List.nth c i)) end
    | Sample (pop, n, k) ->
      let len = List.length pop in
      if len < int_of_nat n then () else begin
        let i = if len = 0 then 0 else ent () mod len in
        push (qi i 1);
        go (k (firstn n (rotate (nat_of_int i) pop))) end in
  (try go m with Stop -> ());
  List.rev !ds

(* all draw scripts of [m] up to [maxpaths] complete paths (DFS): both sides of
   every Flip at p -/+ 2^-30, every cell of every cascade, every candidate of
   every choice, the given delays for every Expo *)
let walk_all (m : 'a samp) (delays : q list) (maxdraws : int) (maxpaths : int) : q list list =
  let paths = ref [] and np = ref 0 in
  let rec go (m : 'a samp) (ds : q list) (nd : int) : unit =
    if !np >= maxpaths then () else
    if nd > maxdraws then (paths := List.rev ds :: !paths; incr np) else
    match m with
    | Ret _ | Fail _ -> paths := List.rev ds :: !paths; incr np
    | Expo (r, k) ->
      if QQ.equal (qq_of_q r) QQ.zero then (paths := List.rev ds :: !paths; incr np)
      else List.iter (fun d -> go (k d) (d :: ds) (nd + 1)) delays
    | Flip (p, kt, kf) ->
      let any = ref false in
      (match flip_draw p true true with Some d -> any := true; go kt (d :: ds) (nd + 1) | None -> ());
      (match flip_draw p false true with Some d -> any := true; go kf (d :: ds) (nd + 1) | None -> ());
      if not !any then (paths := List.rev ds :: !paths; incr np)
    | Casc (ps, k) ->
      List.iteri (fun i _ -> match casc_draw ps i with
          | Some d -> go (k (nat_of_int i)) (d :: ds) (nd + 1) | None -> ()) ps
    | Choose (w, c, k) ->
      if c = [] then (paths := List.rev ds :: !paths; incr np) else
      List.iteri (fun i (key, wt) ->
          if w then (if QQ.gt (qq_of_q wt) QQ.zero then go (k key) (acc_draw :: qi i 1 :: ds) (nd + 2))
          else go (k key) (qi i 1 :: ds) (nd + 1)) c
    | Unif (c, k) ->
      if c = [] then (paths := List.rev ds :: !paths; incr np) else
      List.iteri (fun i key -> go (k key) (qi i 1 :: ds) (nd + 1)) c
    | Sample (pop, n, k) ->
      let len = List.length pop in
      if len < int_of_nat n then (paths := List.rev ds :: !paths; incr np)
      else if len = 0 then go (k []) (qi 0 1 :: ds) (nd + 1)
      else List.iteri (fun i _ -> go (k (firstn n (rotate (nat_of_int i) pop))) (qi i 1 :: ds) (nd + 1)) pop in
  go m [] 0;
  List.rev !paths

let print_call = function
  | CExpo r -> out (" E:" ^ sq r)
  | CFlip p -> out (" U:" ^ sq p)
  | CCasc ps -> out (" U:" ^ String.concat "," (List.map sq ps))
  | CPick c -> out (" P:" ^ skeys c)
  | CAcc w -> out (" A:" ^ sq w)
  | CSample (pop, n) -> out (" S:" ^ string_of_int (int_of_nat n) ^ ":" ^ skeys pop)
let print_trace tr = out " | TRACE"; List.iter print_call tr
let print_draws ds = out " | DRAWS"; List.iter (fun d -> out (" " ^ sq d)) ds

(* entropy source from the tokens of the case line: "ENT k e1 .. ek" cycled *)
let read_entropy () : unit -> int =
  let l = Array.of_list (nlist nint) in
  let i = ref 0 in
  fun () -> if Array.length l = 0 then 0 else begin
      let v = l.(!i mod Array.length l) + (!i / Array.length l) in incr i; v end
