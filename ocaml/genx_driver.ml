(* GLUE: base err graph main *)
(* Driver of component 'genx': the extracted checkers of Model/GenxChk.v applied to GIVEN outputs
   (the implementation's) of Gillespie_simple_contagion.
   GENX <graph> nsp {A B rate} nin {A B A' C rate} {ic_u}(n) nrs rs.. tmin tmax? cov rows? hist? tx? wit?
        rows? = 0 | 1 k (t_num t_den c_1 .. c_nrs)*k          the arrays (one count per return status)
        hist? = 0 | 1 n (k (t_num t_den status)*k)*n           node_history of the nodes, in list(G.nodes()) order
        tx?   = 0 | 1 m (t_num t_den src? tgt)*m, src? = 0 | 1 u     transmissions()
        wit?  = 0 | 1 m (t_num t_den node old new src?)*m     a witness log (merged by the harness from hist and tx)
   prints  OK traj=<b|-> tx=<b|-> rowsw=<b|-> cons=<b|-> log=<b|->
     traj  = wf_gtrajb (order g) (moves_of H J) rstat cov tmin tmax rows            (Props/C04gen.v)
     tx    = gen_tx_okb g H J tmin tmax ic hist tx wit                              (Props/C09gen.v)
     rowsw = gen_rows_okb g rstat tmin ic rows wit                                  (Props/C10gen.v)
     cons  = consistent_b (histories, possible_statuses = rstat) rows tmin (moves_of H J)   (Props/C10gen.v, C10.v)
     log   = legal_logb g H J tmax ic tmin wit *)
let sb b = if b then "1" else "0"
let nz () = z_of_zt (nzt ())

let run_genx () =
  let g = read_graph () in
  let spont = nlist (fun () ->
      let a = nn () in let b = nn () in let r = nq () in
      { tr_from = [a]; tr_to = [b]; tr_rate = r; tr_w = WNone }) in
  let induced = nlist (fun () ->
      let a = nn () in let b = nn () in let a' = nn () in let c = nn () in let r = nq () in
      { tr_from = [a; b]; tr_to = [a'; c]; tr_rate = r; tr_w = WNone }) in
  let n = List.length g.gnodes in
  let ica = Array.init n (fun _ -> nn ()) in
  let ic = (fun u -> let u = int_of_n u in if u < n then ica.(u) else N0) in
  let rstat = nlist nn in
  let nrs = List.length rstat in
  let tmin = nq () in let tmax = nopt nq in
  let cov = nbool () in
  let rows = nopt (fun () -> nlist (fun () -> let t = nq () in let cs = List.init nrs (fun _ -> nz ()) in (t, cs))) in
  let hist = nopt (fun () -> nlist (fun () -> nlist (fun () -> let t = nq () in let s = nn () in (t, s)))) in
  let txs = nopt (fun () -> nlist (fun () -> let t = nq () in let s = nopt nn in let v = nn () in ((t, s), v))) in
  let wit = nopt (fun () -> nlist (fun () ->
      let t = nq () in let v = nn () in let o = nn () in let nw = nn () in let s = nopt nn in
      { ge_t = t; ge_node = v; ge_old = o; ge_new = nw; ge_src = s })) in
  let hs = match hist with Some hl -> Some (List.map2 (fun u h -> (u, h)) g.gnodes hl) | None -> None in
  let mv = moves_of spont induced in
  let order = z_of_zt (ZZ.of_int n) in
  out "OK";
  out (" traj=" ^ (match rows with Some r -> sb (wf_gtrajb order mv rstat cov tmin tmax r) | None -> "-"));
  out (" tx=" ^ (match hs, txs, wit with
      | Some h, Some x, Some w -> sb (gen_tx_okb g spont induced tmin tmax ic h x w)
      | _, _, _ -> "-"));
  out (" rowsw=" ^ (match rows, wit with Some r, Some w -> sb (gen_rows_okb g rstat tmin ic r w) | _, _ -> "-"));
  out (" cons=" ^ (match rows, hs with
      | Some r, Some h ->
        let iv = { iv_nodes = g.gnodes; iv_hist = h; iv_default = None; iv_ps = Some rstat } in
        sb (consistent_b iv r tmin mv)
      | _, _ -> "-"));
  out (" log=" ^ (match wit with Some w -> sb (legal_logb g spont induced tmax ic tmin w) | None -> "-"))

let () = main (function
    | "GENX" -> run_genx ()
    | c -> out ("BADCMD " ^ c))
