(* GLUE: base err main *)
(* Driver of component 'inv' (Model/Investigation.v, property C10, generic part).
   Parsing and printing only; every result is computed by the extracted definitions. *)
let read_hist () : (q * n) list = nlist (fun () -> let t = nq () in let s = nn () in (t, s))
(* object: nodes | histories | default | possible statuses *)
let read_inv () : inv =
  let nodes = nlist nn in
  let hist = nlist (fun () -> let u = nn () in let h = read_hist () in (u, h)) in
  let dflt = nopt read_hist in
  let ps = nopt (fun () -> nlist nn) in
  { iv_nodes = nodes; iv_hist = hist; iv_default = dflt; iv_ps = ps }
let read_rows () : (q * z list) list = nlist (fun () -> let t = nq () in let cs = nlist (fun () -> z_of_zt (nzt ())) in (t, cs))
let srow (t, cs) = sq t ^ ":" ^ String.concat "," (List.map sz cs)
let res pr = function Ok a -> out ("OK " ^ pr a) | Err e -> out ("ERR " ^ err_name e)
let srows rows = String.concat " " (List.map srow rows)
let shist h = String.concat "," (List.map (fun (t, s) -> sq t ^ "@" ^ sn s) h)
let sassoc l = String.concat " " (List.map (fun (u, h) -> sn u ^ "=" ^ shist h) l)

(* PS <obj> : the possible statuses (given, or those occurring in the histories), sorted *)
let run_ps () =
  let iv = read_inv () in
  out ("OK " ^ String.concat "," (List.map string_of_int (List.sort_uniq compare (List.map int_of_n (possible_statuses iv)))));
  out (" ORDER " ^ String.concat "," (List.map sn (possible_statuses iv)))
let run_sum () = let iv = read_inv () in let nl = nopt (fun () -> nlist nn) in res srows (summary iv nl)
let run_cols () =
  let iv = read_inv () in
  res (fun l -> String.concat "," (List.map sq l)) (iv_t iv); out " | ";
  let zl l = String.concat "," (List.map sz l) in
  res zl (iv_S iv); out " | "; res zl (iv_I iv); out " | "; res zl (iv_R iv)
let run_nst () = let iv = read_inv () in let u = nn () in let t = nq () in res sn (node_status iv u t)
let run_gst () =
  let iv = read_inv () in
  let nl = nopt (fun () -> nlist nn) in
  let t = nopt nq in
  res (fun l -> String.concat "," (List.sort compare (List.map (fun (u, s) -> sn u ^ "=" ^ sn s) l))) (get_statuses iv nl t)
let run_trsir () =
  let tmin = nq () in
  let pr () = nlist (fun () -> let u = nn () in let t = nq () in (u, t)) in
  let inf = pr () in let rc = pr () in
  out ("OK " ^ sassoc (transform_SIR tmin inf rc))
let run_trsis () =
  let tmin = nq () in
  let pr () = nlist (fun () -> let u = nn () in let l = nlist nq in (u, l)) in
  let inf = pr () in let rc = pr () in
  out ("OK " ^ sassoc (transform_SIS tmin inf rc))
(* INVCHK <obj> rows tmin moves : the checker of Props/C10.v on implementation outputs *)
let run_chk () =
  let iv = read_inv () in
  let rows = read_rows () in
  let tmin = nq () in
  let mv = nlist (fun () -> let a = nn () in let b = nn () in (a, b)) in
  match consistent iv rows tmin mv with
  | VOk -> out "OK"
  | VBadHistory u -> out ("BADHIST " ^ sn u)
  | VBadSummary t -> out ("BADSUM " ^ sq t)
  | VErr e -> out ("ERR " ^ err_name e)
(* LOG nodes ps tmin (init per node) events : arrays of a log and summary of its projections *)
let run_log () =
  let nodes = nlist nn in
  let ps = nlist nn in
  let tmin = nq () in
  let init = Array.of_list (List.map (fun _ -> nn ()) nodes) in
  let initf u = let i = int_of_n u in if i < Array.length init then init.(i) else N0 in
  let log = nlist (fun () -> let t = nq () in let u = nn () in let s = nn () in ((t, u), s)) in
  out ("ARR " ^ srows (log_arrays nodes ps tmin initf log) ^ " | SUM ");
  res srows (summary (log_inv nodes ps tmin initf log) None)

let () = main (function
    | "PS" -> run_ps ()
    | "SUM" -> run_sum ()
    | "COLS" -> run_cols ()
    | "NST" -> run_nst ()
    | "GST" -> run_gst ()
    | "TRSIR" -> run_trsir ()
    | "TRSIS" -> run_trsis ()
    | "INVCHK" -> run_chk ()
    | "LOG" -> run_log ()
    | c -> out ("BADCMD " ^ c))
