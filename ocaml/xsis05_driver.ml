(* GLUE: base main *)
(* Driver of component 'xsis05': the extracted checkers of Model/InitChkSIS.v applied to GIVEN
   outputs (the implementation's).  Nodes are 0..n-1.
   ICSIS n i0 tmin tmax? rows full?
        i0 = k u*k;  tmin = num den;  tmax? = 0 | 1 num den
        rows = k (t_num t_den m c*m)*k
        full? = 0 | 1 hist trans;  hist = n (k (t_num t_den status)*k)*n;
        trans = k (t_num t_den src? tgt)*k, src? = 0 | 1 u
        prints  OK dom=<b> chk=<b>
   ICRHO n rho? tmin rows full?        rho? = 0 | 1 num den
        prints  OK chk=<b> k=<int(round(N*rho)) or 1> i0=<nodes the source-less transmissions show>
   CALLS trans
        prints  OK calls=<v:k,v:k,...>   (one call of the user's rules per transmission entry) *)
let sb b = if b then "1" else "0"
let nz () = z_of_zt (nzt ())
let read_rows () = nlist (fun () -> let t = nq () in let c = nlist nz in (t, c))
let read_hist () = List.mapi (fun i h -> (n_of_int i, h)) (nlist (fun () -> nlist (fun () -> let t = nq () in let s = nn () in (t, s))))
let read_trans () = nlist (fun () -> let t = nq () in let s = nopt nn in let v = nn () in ((t, s), v))
let read_full () = nopt (fun () -> let h = read_hist () in let t = read_trans () in { fd_hist = h; fd_trans = t })

let run_icsis () =
  let n = nint () in
  let nodes = List.init n n_of_int in
  let i0 = nlist nn in
  let tmin = nq () in let tmax = nopt nq in
  let rows = read_rows () in
  let full = read_full () in
  out ("OK dom=" ^ sb (ic_sis_domb nodes i0 tmin tmax) ^ " chk=" ^ sb (ic_sisb nodes i0 tmin rows full))

let run_icrho () =
  let n = nint () in
  let nodes = List.init n n_of_int in
  let rho = nopt nq in
  let tmin = nq () in
  let rows = read_rows () in
  let full = read_full () in
  let i0 = match full with Some fd -> initial_of_trans fd.fd_trans | None -> [] in
  out ("OK chk=" ^ sb (ic_sis_rhob nodes rho tmin rows full) ^ " k=" ^ sz (requested_count (nat_of_int n) rho)
       ^ " i0=" ^ String.concat "," (List.map sn i0))

let run_calls () =
  let trans = read_trans () in
  out ("OK calls=" ^ String.concat "," (List.map (fun (v, k) -> sn v ^ ":" ^ string_of_int (int_of_nat k)) (rule_calls trans)))

let () = main (function
    | "ICSIS" -> run_icsis ()
    | "ICRHO" -> run_icrho ()
    | "CALLS" -> run_calls ()
    | c -> out ("BADCMD " ^ c))
