(* GLUE: base err samp graph main *)
(* Driver of component 'gil': Gillespie_SIR / Gillespie_SIS (Model/Gillespie.v).
   GIL kind <graph> tau gamma i0? r0? rho? tmin tmax? full fuel  then one of
     W <entropy>                    choose a draw script by walking the program
     A maxdraws maxpaths k d1..dk   every draw script (DFS), delays d1..dk
     D k q1..qk                     run on the given draws *)
let run_one m ds =
  let (res, tr) = exec m ds [] in
  print_result print_simout res; print_draws ds; print_trace tr

let run_gil () =
  let kind = if nint () = 0 then SIR else SIS in
  let g = read_graph () in
  let tau = nq () in let gamma = nq () in
  let i0 = nopt (fun () -> nlist nn) in
  let r0 = nopt (fun () -> nlist nn) in
  let rho = nopt nq in
  let tmin = nq () in let tmax = nopt nq in
  let full = nbool () in
  let fuel = nat_of_int (nint ()) in
  let m = gillespie g kind tau gamma i0 r0 rho tmin tmax full fuel in
  match next () with
  | "W" -> let ent = read_entropy () in run_one m (walk m ent 4000)
  | "D" -> run_one m (nlist nq)
  | "A" ->
    let maxdraws = nint () in let maxpaths = nint () in
    let delays = nlist nq in
    let paths = walk_all m delays maxdraws maxpaths in
    List.iteri (fun i ds -> if i > 0 then out " ## "; run_one m ds) paths
  | c -> failwith ("bad mode " ^ c)

let () = main (function
    | "GIL" -> run_gil ()
    | c -> out ("BADCMD " ^ c))
