
val negb : bool -> bool

type nat =
| O
| S of nat

val fst : ('a1 * 'a2) -> 'a1

val snd : ('a1 * 'a2) -> 'a2

val length : 'a1 list -> nat

val app : 'a1 list -> 'a1 list -> 'a1 list

type comparison =
| Eq
| Lt
| Gt

val compOpp : comparison -> comparison

val add : nat -> nat -> nat

type positive =
| XI of positive
| XO of positive
| XH

type n =
| N0
| Npos of positive

type z =
| Z0
| Zpos of positive
| Zneg of positive

module Nat :
 sig
  val pred : nat -> nat

  val leb : nat -> nat -> bool

  val ltb : nat -> nat -> bool
 end

module Pos :
 sig
  type mask =
  | IsNul
  | IsPos of positive
  | IsNeg
 end

module Coq_Pos :
 sig
  val succ : positive -> positive

  val add : positive -> positive -> positive

  val add_carry : positive -> positive -> positive

  val pred_double : positive -> positive

  type mask = Pos.mask =
  | IsNul
  | IsPos of positive
  | IsNeg

  val succ_double_mask : mask -> mask

  val double_mask : mask -> mask

  val double_pred_mask : positive -> mask

  val sub_mask : positive -> positive -> mask

  val sub_mask_carry : positive -> positive -> mask

  val sub : positive -> positive -> positive

  val mul : positive -> positive -> positive

  val size_nat : positive -> nat

  val compare_cont : comparison -> positive -> positive -> comparison

  val compare : positive -> positive -> comparison

  val eqb : positive -> positive -> bool

  val ggcdn : nat -> positive -> positive -> positive * (positive * positive)

  val ggcd : positive -> positive -> positive * (positive * positive)

  val iter_op : ('a1 -> 'a1 -> 'a1) -> positive -> 'a1 -> 'a1

  val to_nat : positive -> nat

  val of_succ_nat : nat -> positive
 end

module N :
 sig
  val eqb : n -> n -> bool
 end

module Z :
 sig
  val double : z -> z

  val succ_double : z -> z

  val pred_double : z -> z

  val pos_sub : positive -> positive -> z

  val add : z -> z -> z

  val opp : z -> z

  val sub : z -> z -> z

  val mul : z -> z -> z

  val compare : z -> z -> comparison

  val sgn : z -> z

  val leb : z -> z -> bool

  val ltb : z -> z -> bool

  val abs : z -> z

  val to_nat : z -> nat

  val of_nat : nat -> z

  val to_pos : z -> positive

  val pos_div_eucl : positive -> z -> z * z

  val div_eucl : z -> z -> z * z

  val div : z -> z -> z

  val modulo : z -> z -> z

  val even : z -> bool

  val ggcd : z -> z -> z * (z * z)
 end

val z_lt_dec : z -> z -> bool

val z_lt_ge_dec : z -> z -> bool

val z_lt_le_dec : z -> z -> bool

val zeq_bool : z -> z -> bool

val nth : nat -> 'a1 list -> 'a1 -> 'a1

val nth_error : 'a1 list -> nat -> 'a1 option

val rev : 'a1 list -> 'a1 list

val concat : 'a1 list list -> 'a1 list

val map : ('a1 -> 'a2) -> 'a1 list -> 'a2 list

val fold_left : ('a1 -> 'a2 -> 'a1) -> 'a2 list -> 'a1 -> 'a1

val forallb : ('a1 -> bool) -> 'a1 list -> bool

val filter : ('a1 -> bool) -> 'a1 list -> 'a1 list

val firstn : nat -> 'a1 list -> 'a1 list

val skipn : nat -> 'a1 list -> 'a1 list

type q = { qnum : z; qden : positive }

val inject_Z : z -> q

val qeq_bool : q -> q -> bool

val qplus : q -> q -> q

val qmult : q -> q -> q

val qopp : q -> q

val qminus : q -> q -> q

val qlt_le_dec : q -> q -> bool

val qred : q -> q

type err =
| EoNError
| ZeroDivision
| IndexErr
| KeyErr
| TypeErr
| NameErr
| ValueErr
| PyException
| OutOfDraws
| OutOfFuel

type 'a result =
| Ok of 'a
| Err of err

val rbind : 'a1 result -> ('a1 -> 'a2 result) -> 'a2 result

type xtime = q option

val xlt : q -> xtime -> bool

val qltb : q -> q -> bool

val qeqb : q -> q -> bool

val qnat : nat -> q

type key = n list

type 'a samp =
| Ret of 'a
| Fail of err
| Expo of q * (q -> 'a samp)
| Flip of q * 'a samp * 'a samp
| Casc of q list * (nat -> 'a samp)
| Choose of bool * (key * q) list * (key -> 'a samp)
| Unif of key list * (key -> 'a samp)
| Sample of key list * nat * (key list -> 'a samp)

type call =
| CExpo of q
| CFlip of q
| CCasc of q list
| CPick of key list
| CAcc of q
| CSample of key list * nat

val rank : q -> nat

val casc_index : q list -> q -> nat -> nat

val choose_exec :
  bool -> (key * q) list -> q list -> call list -> (key result * call
  list) * q list

val rotate : nat -> 'a1 list -> 'a1 list

val unit_draw : q -> bool

val exec : 'a1 samp -> q list -> call list -> 'a1 result * call list

type node = n

type graph = { gnodes : node list; gadj : (node -> node list);
               gpred : (node -> node list); gdirected : bool;
               ew : (node -> node -> q); nw : (node -> q); ewt : bool;
               nwt : bool }

val order : graph -> z

val stS : n

val stI : n

val fupdN : (node -> 'a1) -> node -> 'a1 -> node -> 'a1

type row = q * z list

type history = (q * n) list

type fulldata = { fd_hist : (node * history) list;
                  fd_trans : ((q * node option) * node) list }

type simout = { so_rows : row list; so_full : fulldata option }

val knode : node -> key

val tadd : q -> q -> q

type 'e qent = (q * nat) * 'e

val qtime : 'a1 qent -> q

val qctr : 'a1 qent -> nat

val qbefore : 'a1 qent -> 'a1 qent -> bool

val qins : 'a1 qent -> 'a1 qent list -> 'a1 qent list

type 'e queue = { q_items : 'e qent list; q_ctr : nat }

val q_empty : 'a1 queue

val q_add : xtime -> 'a1 queue -> q -> 'a1 -> 'a1 queue

type logs = { l_rows : row list; l_elog : ((q * node) * n) list;
              l_tlog : ((q * node option) * node) list }

val hd_counts : row list -> z list

val cnt : z list -> nat -> z

val push2 : row list -> q -> z -> z -> row list

val log_inf : logs -> q -> node option -> node -> logs

val log_rec : logs -> q -> node -> logs

val logs0 : graph -> q -> logs

val interleave : q list -> q list -> (q * n) list

val hist_sis : q -> (q * n) list -> history

val times_of : node -> n -> ((q * node) * n) list -> q list

val build_full : graph -> q -> logs -> fulldata

val finish : graph -> q -> bool -> nat -> logs -> simout

val round_half_even : q -> z

val with_initial :
  graph -> node list option -> q option -> (node list -> 'a1 samp) -> 'a1 samp

type nev =
| NRec of node
| NTrans of node option * node * q list

type nst = { ns_stat : (node -> n); ns_rec : (node -> q);
             ns_ord : (node -> nat); ns_q : nev queue; ns_log : logs }

val chain : xtime -> nev queue -> node option -> node -> q list -> nev queue

val n_sched :
  (node -> node -> nat -> q list) -> xtime -> q -> node -> nat -> (node -> n)
  -> (node -> q) -> nev queue -> node -> nev queue

val n_trans :
  graph -> (node -> nat -> q) -> (node -> node -> nat -> q list) -> xtime ->
  q -> node option -> node -> q list -> nst -> nst

val n_recover : q -> node -> nst -> nst

val n_event :
  graph -> (node -> nat -> q) -> (node -> node -> nat -> q list) -> xtime ->
  q -> nev -> nst -> nst

val n_loop :
  graph -> (node -> nat -> q) -> (node -> node -> nat -> q list) -> xtime ->
  nat -> nst -> nst result

val n_init : graph -> xtime -> q -> node list -> nst

val nm_run :
  graph -> (node -> nat -> q) -> (node -> node -> nat -> q list) -> xtime ->
  q -> bool -> nat -> node list -> simout result

val fast_nonMarkov_SIS :
  graph -> (node -> nat -> q) -> (node -> node -> nat -> q list) -> xtime ->
  node list option -> q option -> q -> bool -> nat -> simout samp

type aev =
| ARec of node
| AAtt of node * node

type rst = { r_stat : (node -> n); r_ord : (node -> nat);
             r_ag : (q * aev) list; r_log : logs; r_ok : bool }

val ains : (q * aev) -> (q * aev) list -> (q * aev) list

val fresh : q -> q -> (q * aev) list -> bool

val r_insert : xtime -> q -> rst -> q -> aev -> rst

val ascending : q list -> bool

val r_infect :
  graph -> (node -> nat -> q) -> (node -> node -> nat -> q list) -> xtime ->
  q -> node option -> node -> rst -> rst

val r_event :
  graph -> (node -> nat -> q) -> (node -> node -> nat -> q list) -> xtime ->
  q -> aev -> rst -> rst

val r_loop :
  graph -> (node -> nat -> q) -> (node -> node -> nat -> q list) -> xtime ->
  nat -> rst -> rst result

val r_init :
  graph -> (node -> nat -> q) -> (node -> node -> nat -> q list) -> xtime ->
  q -> node list -> rst

val ref_sis :
  graph -> (node -> nat -> q) -> (node -> node -> nat -> q list) -> xtime ->
  q -> bool -> nat -> node list -> (simout * bool) result

type mev =
| MRec of node
| MTrans of node option * node

val xtlt : xtime -> xtime -> bool

type mst = { ms_stat : (node -> n); ms_rec : (node -> xtime);
             ms_q : mev queue; ms_log : logs }

val trans_rate : graph -> q -> node -> node -> q

val rec_rate : graph -> q -> node -> q

val set_q : mst -> mev queue -> mst

val find_next :
  xtime -> q -> q -> node -> node -> mst -> (mst -> 'a1 samp) -> 'a1 samp

val find_next_all :
  graph -> q -> xtime -> q -> node -> node list -> mst -> (mst -> 'a1 samp)
  -> 'a1 samp

val m_trans :
  graph -> q -> q -> xtime -> q -> node option -> node -> mst -> (mst -> 'a1
  samp) -> 'a1 samp

val m_recover : q -> node -> mst -> mst

val m_loop :
  graph -> q -> q -> xtime -> q -> bool -> nat -> nat -> mst -> simout samp

val m_init : graph -> xtime -> q -> node list -> mst

val fast_SIS :
  graph -> q -> q -> xtime -> node list option -> q option -> q -> bool ->
  nat -> simout samp

val run_fast_SIS :
  graph -> q -> q -> xtime -> node list option -> q option -> q -> bool ->
  nat -> q list -> simout result * call list
