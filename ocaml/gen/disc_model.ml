
(** val negb : bool -> bool **)

let negb = function
| true -> false
| false -> true

type nat =
| O
| S of nat

(** val fst : ('a1 * 'a2) -> 'a1 **)

let fst = function
| (x, _) -> x

(** val snd : ('a1 * 'a2) -> 'a2 **)

let snd = function
| (_, y) -> y

(** val length : 'a1 list -> nat **)

let rec length = function
| [] -> O
| _ :: l' -> S (length l')

(** val app : 'a1 list -> 'a1 list -> 'a1 list **)

let rec app l m =
  match l with
  | [] -> m
  | a :: l1 -> a :: (app l1 m)

type comparison =
| Eq
| Lt
| Gt

(** val compOpp : comparison -> comparison **)

let compOpp = function
| Eq -> Eq
| Lt -> Gt
| Gt -> Lt

module Coq__1 = struct
 (** val add : nat -> nat -> nat **)
 let rec add n0 m =
   match n0 with
   | O -> m
   | S p -> S (add p m)
end
include Coq__1

type positive =
| XI of positive
| XO of positive
| XH

type n =
| N0
| Npos of positive

type z =
| Z0
| Zpos of positive
| Zneg of positive

module Nat =
 struct
  (** val pred : nat -> nat **)

  let pred n0 = match n0 with
  | O -> n0
  | S u -> u

  (** val sub : nat -> nat -> nat **)

  let rec sub n0 m =
    match n0 with
    | O -> n0
    | S k -> (match m with
              | O -> n0
              | S l -> sub k l)

  (** val leb : nat -> nat -> bool **)

  let rec leb n0 m =
    match n0 with
    | O -> true
    | S n' -> (match m with
               | O -> false
               | S m' -> leb n' m')

  (** val ltb : nat -> nat -> bool **)

  let ltb n0 m =
    leb (S n0) m

  (** val divmod : nat -> nat -> nat -> nat -> nat * nat **)

  let rec divmod x y q0 u =
    match x with
    | O -> (q0, u)
    | S x' ->
      (match u with
       | O -> divmod x' y (S q0) y
       | S u' -> divmod x' y q0 u')

  (** val modulo : nat -> nat -> nat **)

  let modulo x = function
  | O -> x
  | S y' -> sub y' (snd (divmod x y' O y'))
 end

module Pos =
 struct
  type mask =
  | IsNul
  | IsPos of positive
  | IsNeg
 end

module Coq_Pos =
 struct
  (** val succ : positive -> positive **)

  let rec succ = function
  | XI p -> XO (succ p)
  | XO p -> XI p
  | XH -> XO XH

  (** val add : positive -> positive -> positive **)

  let rec add x y =
    match x with
    | XI p ->
      (match y with
       | XI q0 -> XO (add_carry p q0)
       | XO q0 -> XI (add p q0)
       | XH -> XO (succ p))
    | XO p ->
      (match y with
       | XI q0 -> XI (add p q0)
       | XO q0 -> XO (add p q0)
       | XH -> XI p)
    | XH -> (match y with
             | XI q0 -> XO (succ q0)
             | XO q0 -> XI q0
             | XH -> XO XH)

  (** val add_carry : positive -> positive -> positive **)

  and add_carry x y =
    match x with
    | XI p ->
      (match y with
       | XI q0 -> XI (add_carry p q0)
       | XO q0 -> XO (add_carry p q0)
       | XH -> XI (succ p))
    | XO p ->
      (match y with
       | XI q0 -> XO (add_carry p q0)
       | XO q0 -> XI (add p q0)
       | XH -> XO (succ p))
    | XH ->
      (match y with
       | XI q0 -> XI (succ q0)
       | XO q0 -> XO (succ q0)
       | XH -> XI XH)

  (** val pred_double : positive -> positive **)

  let rec pred_double = function
  | XI p -> XI (XO p)
  | XO p -> XI (pred_double p)
  | XH -> XH

  type mask = Pos.mask =
  | IsNul
  | IsPos of positive
  | IsNeg

  (** val succ_double_mask : mask -> mask **)

  let succ_double_mask = function
  | IsNul -> IsPos XH
  | IsPos p -> IsPos (XI p)
  | IsNeg -> IsNeg

  (** val double_mask : mask -> mask **)

  let double_mask = function
  | IsPos p -> IsPos (XO p)
  | x0 -> x0

  (** val double_pred_mask : positive -> mask **)

  let double_pred_mask = function
  | XI p -> IsPos (XO (XO p))
  | XO p -> IsPos (XO (pred_double p))
  | XH -> IsNul

  (** val sub_mask : positive -> positive -> mask **)

  let rec sub_mask x y =
    match x with
    | XI p ->
      (match y with
       | XI q0 -> double_mask (sub_mask p q0)
       | XO q0 -> succ_double_mask (sub_mask p q0)
       | XH -> IsPos (XO p))
    | XO p ->
      (match y with
       | XI q0 -> succ_double_mask (sub_mask_carry p q0)
       | XO q0 -> double_mask (sub_mask p q0)
       | XH -> IsPos (pred_double p))
    | XH -> (match y with
             | XH -> IsNul
             | _ -> IsNeg)

  (** val sub_mask_carry : positive -> positive -> mask **)

  and sub_mask_carry x y =
    match x with
    | XI p ->
      (match y with
       | XI q0 -> succ_double_mask (sub_mask_carry p q0)
       | XO q0 -> double_mask (sub_mask p q0)
       | XH -> IsPos (pred_double p))
    | XO p ->
      (match y with
       | XI q0 -> double_mask (sub_mask_carry p q0)
       | XO q0 -> succ_double_mask (sub_mask_carry p q0)
       | XH -> double_pred_mask p)
    | XH -> IsNeg

  (** val sub : positive -> positive -> positive **)

  let sub x y =
    match sub_mask x y with
    | IsPos z0 -> z0
    | _ -> XH

  (** val mul : positive -> positive -> positive **)

  let rec mul x y =
    match x with
    | XI p -> add y (XO (mul p y))
    | XO p -> XO (mul p y)
    | XH -> y

  (** val size_nat : positive -> nat **)

  let rec size_nat = function
  | XI p0 -> S (size_nat p0)
  | XO p0 -> S (size_nat p0)
  | XH -> S O

  (** val compare_cont : comparison -> positive -> positive -> comparison **)

  let rec compare_cont r x y =
    match x with
    | XI p ->
      (match y with
       | XI q0 -> compare_cont r p q0
       | XO q0 -> compare_cont Gt p q0
       | XH -> Gt)
    | XO p ->
      (match y with
       | XI q0 -> compare_cont Lt p q0
       | XO q0 -> compare_cont r p q0
       | XH -> Gt)
    | XH -> (match y with
             | XH -> r
             | _ -> Lt)

  (** val compare : positive -> positive -> comparison **)

  let compare =
    compare_cont Eq

  (** val eqb : positive -> positive -> bool **)

  let rec eqb p q0 =
    match p with
    | XI p0 -> (match q0 with
                | XI q1 -> eqb p0 q1
                | _ -> false)
    | XO p0 -> (match q0 with
                | XO q1 -> eqb p0 q1
                | _ -> false)
    | XH -> (match q0 with
             | XH -> true
             | _ -> false)

  (** val ggcdn :
      nat -> positive -> positive -> positive * (positive * positive) **)

  let rec ggcdn n0 a b =
    match n0 with
    | O -> (XH, (a, b))
    | S n1 ->
      (match a with
       | XI a' ->
         (match b with
          | XI b' ->
            (match compare a' b' with
             | Eq -> (a, (XH, XH))
             | Lt ->
               let (g, p) = ggcdn n1 (sub b' a') a in
               let (ba, aa) = p in (g, (aa, (add aa (XO ba))))
             | Gt ->
               let (g, p) = ggcdn n1 (sub a' b') b in
               let (ab, bb) = p in (g, ((add bb (XO ab)), bb)))
          | XO b0 ->
            let (g, p) = ggcdn n1 a b0 in
            let (aa, bb) = p in (g, (aa, (XO bb)))
          | XH -> (XH, (a, XH)))
       | XO a0 ->
         (match b with
          | XI _ ->
            let (g, p) = ggcdn n1 a0 b in
            let (aa, bb) = p in (g, ((XO aa), bb))
          | XO b0 -> let (g, p) = ggcdn n1 a0 b0 in ((XO g), p)
          | XH -> (XH, (a, XH)))
       | XH -> (XH, (XH, b)))

  (** val ggcd : positive -> positive -> positive * (positive * positive) **)

  let ggcd a b =
    ggcdn (Coq__1.add (size_nat a) (size_nat b)) a b

  (** val iter_op : ('a1 -> 'a1 -> 'a1) -> positive -> 'a1 -> 'a1 **)

  let rec iter_op op p a =
    match p with
    | XI p0 -> op a (iter_op op p0 (op a a))
    | XO p0 -> iter_op op p0 (op a a)
    | XH -> a

  (** val to_nat : positive -> nat **)

  let to_nat x =
    iter_op Coq__1.add x (S O)

  (** val of_succ_nat : nat -> positive **)

  let rec of_succ_nat = function
  | O -> XH
  | S x -> succ (of_succ_nat x)
 end

module N =
 struct
  (** val compare : n -> n -> comparison **)

  let compare n0 m =
    match n0 with
    | N0 -> (match m with
             | N0 -> Eq
             | Npos _ -> Lt)
    | Npos n' -> (match m with
                  | N0 -> Gt
                  | Npos m' -> Coq_Pos.compare n' m')

  (** val eqb : n -> n -> bool **)

  let eqb n0 m =
    match n0 with
    | N0 -> (match m with
             | N0 -> true
             | Npos _ -> false)
    | Npos p -> (match m with
                 | N0 -> false
                 | Npos q0 -> Coq_Pos.eqb p q0)

  (** val leb : n -> n -> bool **)

  let leb x y =
    match compare x y with
    | Gt -> false
    | _ -> true
 end

module Z =
 struct
  (** val double : z -> z **)

  let double = function
  | Z0 -> Z0
  | Zpos p -> Zpos (XO p)
  | Zneg p -> Zneg (XO p)

  (** val succ_double : z -> z **)

  let succ_double = function
  | Z0 -> Zpos XH
  | Zpos p -> Zpos (XI p)
  | Zneg p -> Zneg (Coq_Pos.pred_double p)

  (** val pred_double : z -> z **)

  let pred_double = function
  | Z0 -> Zneg XH
  | Zpos p -> Zpos (Coq_Pos.pred_double p)
  | Zneg p -> Zneg (XI p)

  (** val pos_sub : positive -> positive -> z **)

  let rec pos_sub x y =
    match x with
    | XI p ->
      (match y with
       | XI q0 -> double (pos_sub p q0)
       | XO q0 -> succ_double (pos_sub p q0)
       | XH -> Zpos (XO p))
    | XO p ->
      (match y with
       | XI q0 -> pred_double (pos_sub p q0)
       | XO q0 -> double (pos_sub p q0)
       | XH -> Zpos (Coq_Pos.pred_double p))
    | XH ->
      (match y with
       | XI q0 -> Zneg (XO q0)
       | XO q0 -> Zneg (Coq_Pos.pred_double q0)
       | XH -> Z0)

  (** val add : z -> z -> z **)

  let add x y =
    match x with
    | Z0 -> y
    | Zpos x' ->
      (match y with
       | Z0 -> x
       | Zpos y' -> Zpos (Coq_Pos.add x' y')
       | Zneg y' -> pos_sub x' y')
    | Zneg x' ->
      (match y with
       | Z0 -> x
       | Zpos y' -> pos_sub y' x'
       | Zneg y' -> Zneg (Coq_Pos.add x' y'))

  (** val opp : z -> z **)

  let opp = function
  | Z0 -> Z0
  | Zpos x0 -> Zneg x0
  | Zneg x0 -> Zpos x0

  (** val sub : z -> z -> z **)

  let sub m n0 =
    add m (opp n0)

  (** val mul : z -> z -> z **)

  let mul x y =
    match x with
    | Z0 -> Z0
    | Zpos x' ->
      (match y with
       | Z0 -> Z0
       | Zpos y' -> Zpos (Coq_Pos.mul x' y')
       | Zneg y' -> Zneg (Coq_Pos.mul x' y'))
    | Zneg x' ->
      (match y with
       | Z0 -> Z0
       | Zpos y' -> Zneg (Coq_Pos.mul x' y')
       | Zneg y' -> Zpos (Coq_Pos.mul x' y'))

  (** val compare : z -> z -> comparison **)

  let compare x y =
    match x with
    | Z0 -> (match y with
             | Z0 -> Eq
             | Zpos _ -> Lt
             | Zneg _ -> Gt)
    | Zpos x' -> (match y with
                  | Zpos y' -> Coq_Pos.compare x' y'
                  | _ -> Gt)
    | Zneg x' ->
      (match y with
       | Zneg y' -> compOpp (Coq_Pos.compare x' y')
       | _ -> Lt)

  (** val sgn : z -> z **)

  let sgn = function
  | Z0 -> Z0
  | Zpos _ -> Zpos XH
  | Zneg _ -> Zneg XH

  (** val leb : z -> z -> bool **)

  let leb x y =
    match compare x y with
    | Gt -> false
    | _ -> true

  (** val ltb : z -> z -> bool **)

  let ltb x y =
    match compare x y with
    | Lt -> true
    | _ -> false

  (** val abs : z -> z **)

  let abs = function
  | Zneg p -> Zpos p
  | x -> x

  (** val to_nat : z -> nat **)

  let to_nat = function
  | Zpos p -> Coq_Pos.to_nat p
  | _ -> O

  (** val of_nat : nat -> z **)

  let of_nat = function
  | O -> Z0
  | S n1 -> Zpos (Coq_Pos.of_succ_nat n1)

  (** val to_pos : z -> positive **)

  let to_pos = function
  | Zpos p -> p
  | _ -> XH

  (** val pos_div_eucl : positive -> z -> z * z **)

  let rec pos_div_eucl a b =
    match a with
    | XI a' ->
      let (q0, r) = pos_div_eucl a' b in
      let r' = add (mul (Zpos (XO XH)) r) (Zpos XH) in
      if ltb r' b
      then ((mul (Zpos (XO XH)) q0), r')
      else ((add (mul (Zpos (XO XH)) q0) (Zpos XH)), (sub r' b))
    | XO a' ->
      let (q0, r) = pos_div_eucl a' b in
      let r' = mul (Zpos (XO XH)) r in
      if ltb r' b
      then ((mul (Zpos (XO XH)) q0), r')
      else ((add (mul (Zpos (XO XH)) q0) (Zpos XH)), (sub r' b))
    | XH -> if leb (Zpos (XO XH)) b then (Z0, (Zpos XH)) else ((Zpos XH), Z0)

  (** val div_eucl : z -> z -> z * z **)

  let div_eucl a b =
    match a with
    | Z0 -> (Z0, Z0)
    | Zpos a' ->
      (match b with
       | Z0 -> (Z0, a)
       | Zpos _ -> pos_div_eucl a' b
       | Zneg b' ->
         let (q0, r) = pos_div_eucl a' (Zpos b') in
         (match r with
          | Z0 -> ((opp q0), Z0)
          | _ -> ((opp (add q0 (Zpos XH))), (add b r))))
    | Zneg a' ->
      (match b with
       | Z0 -> (Z0, a)
       | Zpos _ ->
         let (q0, r) = pos_div_eucl a' b in
         (match r with
          | Z0 -> ((opp q0), Z0)
          | _ -> ((opp (add q0 (Zpos XH))), (sub b r)))
       | Zneg b' -> let (q0, r) = pos_div_eucl a' (Zpos b') in (q0, (opp r)))

  (** val div : z -> z -> z **)

  let div a b =
    let (q0, _) = div_eucl a b in q0

  (** val modulo : z -> z -> z **)

  let modulo a b =
    let (_, r) = div_eucl a b in r

  (** val even : z -> bool **)

  let even = function
  | Z0 -> true
  | Zpos p -> (match p with
               | XO _ -> true
               | _ -> false)
  | Zneg p -> (match p with
               | XO _ -> true
               | _ -> false)

  (** val ggcd : z -> z -> z * (z * z) **)

  let ggcd a b =
    match a with
    | Z0 -> ((abs b), (Z0, (sgn b)))
    | Zpos a0 ->
      (match b with
       | Z0 -> ((abs a), ((sgn a), Z0))
       | Zpos b0 ->
         let (g, p) = Coq_Pos.ggcd a0 b0 in
         let (aa, bb) = p in ((Zpos g), ((Zpos aa), (Zpos bb)))
       | Zneg b0 ->
         let (g, p) = Coq_Pos.ggcd a0 b0 in
         let (aa, bb) = p in ((Zpos g), ((Zpos aa), (Zneg bb))))
    | Zneg a0 ->
      (match b with
       | Z0 -> ((abs a), ((sgn a), Z0))
       | Zpos b0 ->
         let (g, p) = Coq_Pos.ggcd a0 b0 in
         let (aa, bb) = p in ((Zpos g), ((Zneg aa), (Zpos bb)))
       | Zneg b0 ->
         let (g, p) = Coq_Pos.ggcd a0 b0 in
         let (aa, bb) = p in ((Zpos g), ((Zneg aa), (Zneg bb))))
 end

(** val z_lt_dec : z -> z -> bool **)

let z_lt_dec x y =
  match Z.compare x y with
  | Lt -> true
  | _ -> false

(** val z_lt_ge_dec : z -> z -> bool **)

let z_lt_ge_dec =
  z_lt_dec

(** val z_lt_le_dec : z -> z -> bool **)

let z_lt_le_dec =
  z_lt_ge_dec

(** val zeq_bool : z -> z -> bool **)

let zeq_bool x y =
  match Z.compare x y with
  | Eq -> true
  | _ -> false

(** val nth_error : 'a1 list -> nat -> 'a1 option **)

let rec nth_error l = function
| O -> (match l with
        | [] -> None
        | x :: _ -> Some x)
| S n1 -> (match l with
           | [] -> None
           | _ :: l0 -> nth_error l0 n1)

(** val rev : 'a1 list -> 'a1 list **)

let rec rev = function
| [] -> []
| x :: l' -> app (rev l') (x :: [])

(** val concat : 'a1 list list -> 'a1 list **)

let rec concat = function
| [] -> []
| x :: l0 -> app x (concat l0)

(** val map : ('a1 -> 'a2) -> 'a1 list -> 'a2 list **)

let rec map f = function
| [] -> []
| a :: t -> (f a) :: (map f t)

(** val flat_map : ('a1 -> 'a2 list) -> 'a1 list -> 'a2 list **)

let rec flat_map f = function
| [] -> []
| x :: t -> app (f x) (flat_map f t)

(** val fold_left : ('a1 -> 'a2 -> 'a1) -> 'a2 list -> 'a1 -> 'a1 **)

let rec fold_left f l a0 =
  match l with
  | [] -> a0
  | b :: t -> fold_left f t (f a0 b)

(** val fold_right : ('a2 -> 'a1 -> 'a1) -> 'a1 -> 'a2 list -> 'a1 **)

let rec fold_right f a0 = function
| [] -> a0
| b :: t -> f b (fold_right f a0 t)

(** val existsb : ('a1 -> bool) -> 'a1 list -> bool **)

let rec existsb f = function
| [] -> false
| a :: l0 -> (||) (f a) (existsb f l0)

(** val filter : ('a1 -> bool) -> 'a1 list -> 'a1 list **)

let rec filter f = function
| [] -> []
| x :: l0 -> if f x then x :: (filter f l0) else filter f l0

(** val firstn : nat -> 'a1 list -> 'a1 list **)

let rec firstn n0 l =
  match n0 with
  | O -> []
  | S n1 -> (match l with
             | [] -> []
             | a :: l0 -> a :: (firstn n1 l0))

(** val skipn : nat -> 'a1 list -> 'a1 list **)

let rec skipn n0 l =
  match n0 with
  | O -> l
  | S n1 -> (match l with
             | [] -> []
             | _ :: l0 -> skipn n1 l0)

type q = { qnum : z; qden : positive }

(** val inject_Z : z -> q **)

let inject_Z x =
  { qnum = x; qden = XH }

(** val qeq_bool : q -> q -> bool **)

let qeq_bool x y =
  zeq_bool (Z.mul x.qnum (Zpos y.qden)) (Z.mul y.qnum (Zpos x.qden))

(** val qplus : q -> q -> q **)

let qplus x y =
  { qnum = (Z.add (Z.mul x.qnum (Zpos y.qden)) (Z.mul y.qnum (Zpos x.qden)));
    qden = (Coq_Pos.mul x.qden y.qden) }

(** val qmult : q -> q -> q **)

let qmult x y =
  { qnum = (Z.mul x.qnum y.qnum); qden = (Coq_Pos.mul x.qden y.qden) }

(** val qopp : q -> q **)

let qopp x =
  { qnum = (Z.opp x.qnum); qden = x.qden }

(** val qminus : q -> q -> q **)

let qminus x y =
  qplus x (qopp y)

(** val qlt_le_dec : q -> q -> bool **)

let qlt_le_dec x y =
  z_lt_le_dec (Z.mul x.qnum (Zpos y.qden)) (Z.mul y.qnum (Zpos x.qden))

(** val qred : q -> q **)

let qred q0 =
  let { qnum = q1; qden = q2 } = q0 in
  let (r1, r2) = snd (Z.ggcd q1 (Zpos q2)) in
  { qnum = r1; qden = (Z.to_pos r2) }

type err =
| EoNError
| ZeroDivision
| IndexErr
| KeyErr
| TypeErr
| NameErr
| ValueErr
| PyException
| OutOfDraws
| OutOfFuel

type 'a result =
| Ok of 'a
| Err of err

type xtime = q option

(** val xlt : q -> xtime -> bool **)

let xlt a = function
| Some m -> if qlt_le_dec a m then true else false
| None -> true

(** val qltb : q -> q -> bool **)

let qltb a b =
  if qlt_le_dec a b then true else false

(** val qleb : q -> q -> bool **)

let qleb a b =
  if qlt_le_dec b a then false else true

(** val qeqb : q -> q -> bool **)

let qeqb =
  qeq_bool

(** val qnat : nat -> q **)

let qnat n0 =
  inject_Z (Z.of_nat n0)

type key = n list

type 'a samp =
| Ret of 'a
| Fail of err
| Expo of q * (q -> 'a samp)
| Flip of q * 'a samp * 'a samp
| Casc of q list * (nat -> 'a samp)
| Choose of bool * (key * q) list * (key -> 'a samp)
| Unif of key list * (key -> 'a samp)
| Sample of key list * nat * (key list -> 'a samp)

(** val bind : 'a1 samp -> ('a1 -> 'a2 samp) -> 'a2 samp **)

let rec bind m f =
  match m with
  | Ret a -> f a
  | Fail e -> Fail e
  | Expo (r, k) -> Expo (r, (fun d -> bind (k d) f))
  | Flip (p, kt, kf) -> Flip (p, (bind kt f), (bind kf f))
  | Casc (ps, k) -> Casc (ps, (fun i -> bind (k i) f))
  | Choose (w, c, k) -> Choose (w, c, (fun x -> bind (k x) f))
  | Unif (c, k) -> Unif (c, (fun x -> bind (k x) f))
  | Sample (pop, n0, k) -> Sample (pop, n0, (fun l -> bind (k l) f))

type call =
| CExpo of q
| CFlip of q
| CCasc of q list
| CPick of key list
| CAcc of q
| CSample of key list * nat

(** val rank : q -> nat **)

let rank d =
  Z.to_nat (Z.div d.qnum (Zpos d.qden))

(** val casc_index : q list -> q -> nat -> nat **)

let rec casc_index ps d i =
  match ps with
  | [] -> Nat.pred i
  | p :: ps' ->
    if qltb (qminus d p) { qnum = Z0; qden = XH }
    then i
    else casc_index ps' (qminus d p) (S i)

(** val choose_exec :
    bool -> (key * q) list -> q list -> call list -> (key result * call
    list) * q list **)

let rec choose_exec weighted cands ds tr =
  match cands with
  | [] -> (((Err IndexErr), ((CPick []) :: tr)), ds)
  | _ :: _ ->
    (match ds with
     | [] -> (((Err OutOfDraws), tr), [])
     | r :: ds1 ->
       (match nth_error cands (rank r) with
        | Some p ->
          let (c, w) = p in
          let tr1 = (CPick (map fst cands)) :: tr in
          if weighted
          then (match ds1 with
                | [] -> (((Err OutOfDraws), tr1), [])
                | _ :: ds2 ->
                  if qltb { qnum = Z0; qden = XH } w
                  then (((Ok c), ((CAcc w) :: tr1)), ds2)
                  else choose_exec weighted cands ds2 ((CAcc w) :: tr1))
          else (((Ok c), tr1), ds1)
        | None -> (((Err OutOfDraws), tr), ds1)))

(** val rotate : nat -> 'a1 list -> 'a1 list **)

let rotate n0 l =
  app (skipn n0 l) (firstn n0 l)

(** val exec : 'a1 samp -> q list -> call list -> 'a1 result * call list **)

let rec exec m ds tr =
  match m with
  | Ret a -> ((Ok a), (rev tr))
  | Fail e -> ((Err e), (rev tr))
  | Expo (r, k) ->
    if qeqb r { qnum = Z0; qden = XH }
    then ((Err ZeroDivision), (rev ((CExpo r) :: tr)))
    else (match ds with
          | [] -> ((Err OutOfDraws), (rev tr))
          | d :: ds' -> exec (k d) ds' ((CExpo r) :: tr))
  | Flip (p, kt, kf) ->
    (match ds with
     | [] -> ((Err OutOfDraws), (rev tr))
     | d :: ds' -> exec (if qltb d p then kt else kf) ds' ((CFlip p) :: tr))
  | Casc (ps, k) ->
    (match ds with
     | [] -> ((Err OutOfDraws), (rev tr))
     | d :: ds' -> exec (k (casc_index ps d O)) ds' ((CCasc ps) :: tr))
  | Choose (w, c, k) ->
    let (p, ds') = choose_exec w c ds tr in
    let (r, tr') = p in
    (match r with
     | Ok x -> exec (k x) ds' tr'
     | Err e -> ((Err e), (rev tr')))
  | Unif (c, k) ->
    (match c with
     | [] -> ((Err IndexErr), (rev ((CPick []) :: tr)))
     | _ :: _ ->
       (match ds with
        | [] -> ((Err OutOfDraws), (rev tr))
        | d :: ds' ->
          (match nth_error c (rank d) with
           | Some x -> exec (k x) ds' ((CPick c) :: tr)
           | None -> ((Err OutOfDraws), (rev tr)))))
  | Sample (pop, n0, k) ->
    if Nat.ltb (length pop) n0
    then ((Err ValueErr), (rev ((CSample (pop, n0)) :: tr)))
    else (match ds with
          | [] -> ((Err OutOfDraws), (rev tr))
          | d :: ds' ->
            exec (k (firstn n0 (rotate (rank d) pop))) ds' ((CSample (pop,
              n0)) :: tr))

type node = n

type graph = { gnodes : node list; gadj : (node -> node list);
               gpred : (node -> node list); gdirected : bool;
               ew : (node -> node -> q); nw : (node -> q); ewt : bool;
               nwt : bool }

(** val mem : node -> node list -> bool **)

let mem x l =
  existsb (N.eqb x) l

(** val order : graph -> z **)

let order g =
  Z.of_nat (length g.gnodes)

(** val stS : n **)

let stS =
  N0

(** val stI : n **)

let stI =
  Npos XH

(** val stR : n **)

let stR =
  Npos (XO XH)

(** val fupdN : (node -> 'a1) -> node -> 'a1 -> node -> 'a1 **)

let fupdN f k v x =
  if N.eqb x k then v else f x

type row = q * z list

type history = (q * n) list

type fulldata = { fd_hist : (node * history) list;
                  fd_trans : ((q * node option) * node) list }

type simout = { so_rows : row list; so_full : fulldata option }

(** val knode : node -> key **)

let knode u =
  u :: []

(** val d_round_half_even : q -> z **)

let d_round_half_even x =
  let n0 = x.qnum in
  let d = Zpos x.qden in
  let q0 = Z.div n0 d in
  let r = Z.modulo n0 d in
  if Z.ltb (Z.mul (Zpos (XO XH)) r) d
  then q0
  else if Z.ltb d (Z.mul (Zpos (XO XH)) r)
       then Z.add q0 (Zpos XH)
       else if Z.even q0 then q0 else Z.add q0 (Zpos XH)

(** val canon : graph -> node list -> node list **)

let canon g l =
  filter (fun v -> mem v l) g.gnodes

(** val ninsert : node -> node list -> node list **)

let rec ninsert x l = match l with
| [] -> x :: []
| h :: t -> if N.leb x h then x :: l else h :: (ninsert x t)

(** val nsort : node list -> node list **)

let nsort l =
  fold_right ninsert [] l

type rules = { r_test : (node -> node -> nat -> bool samp);
               r_pick : (nat -> node -> node list -> node samp) }

(** val det_rules :
    (node -> node -> nat -> bool) -> (nat -> node -> nat) -> rules **)

let det_rules tt pick =
  { r_test = (fun u v a -> Ret (tt u v a)); r_pick = (fun k v c ->
    match nth_error (nsort c) (Nat.modulo (pick k v) (length c)) with
    | Some x -> Ret x
    | None -> Fail IndexErr) }

(** val simple_rules : q -> rules **)

let simple_rules p =
  { r_test = (fun _ _ _ -> Flip (p, (Ret true), (Ret false))); r_pick =
    (fun _ _ c -> Unif ((map knode (nsort c)), (fun k ->
    match k with
    | [] -> Fail TypeErr
    | x :: l -> (match l with
                 | [] -> Ret x
                 | _ :: _ -> Fail TypeErr)))) }

type qentry = (nat * node) * node

type pentry = (nat * node) * node list

type rentry = nat * node

type dlogs = { l_q : qentry list; l_p : pentry list; l_r : rentry list }

type dout = { o_sim : simout; o_logs : dlogs }

(** val contacts : graph -> node list -> (node * node) list **)

let contacts g us =
  flat_map (fun u -> map (fun v -> (u, v)) (g.gadj u)) us

(** val le_x : q -> xtime -> bool **)

let le_x a = function
| Some m -> qleb a m
| None -> true

(** val inf_append :
    (node * node list) list -> node -> node -> (node * node list) list **)

let inf_append inf v u =
  map (fun e ->
    if N.eqb (fst e) v then ((fst e), (app (snd e) (u :: []))) else e) inf

(** val nonempty : 'a1 list -> bool **)

let nonempty = function
| [] -> false
| _ :: _ -> true

(** val lenZ : 'a1 list -> z **)

let lenZ l =
  Z.of_nat (length l)

(** val picks :
    rules -> nat -> q -> (node * node list) list -> ((q * node
    option) * node) list -> pentry list -> (((q * node option) * node)
    list * pentry list) samp **)

let rec picks r k t inf tl pl =
  match inf with
  | [] -> Ret (tl, pl)
  | p :: r0 ->
    let (v, c) = p in
    bind (r.r_pick k v c) (fun s ->
      picks r k t r0 (((t, (Some s)), v) :: tl) (((k, v), (nsort c)) :: pl))

type cst = { c_sus : (node -> bool); c_new : node list;
             c_inf : (node * node list) list; c_nS : z; c_q : qentry list }

type dst = { d_sus : (node -> bool); d_infs : node list;
             d_age : (node -> nat); d_nS : z; d_totR : z; d_rows : row list;
             d_hlog : ((q * node) * n) list;
             d_tlog : ((q * node option) * node) list; d_logs : dlogs }

(** val cloop :
    rules -> bool -> nat -> (node -> nat) -> (node * node) list -> cst -> cst
    samp **)

let rec cloop r full k age cs c =
  match cs with
  | [] -> Ret c
  | p :: cs' ->
    let (u, v) = p in
    if c.c_sus v
    then bind (r.r_test u v (age u)) (fun b ->
           if b
           then cloop r full k age cs' { c_sus = (fupdN c.c_sus v false);
                  c_new = (v :: c.c_new); c_inf =
                  (app c.c_inf ((v, (u :: [])) :: [])); c_nS =
                  (Z.sub c.c_nS (Zpos XH)); c_q = (((k, u), v) :: c.c_q) }
           else cloop r full k age cs' { c_sus = c.c_sus; c_new = c.c_new;
                  c_inf = c.c_inf; c_nS = c.c_nS; c_q = (((k, u),
                  v) :: c.c_q) })
    else if (&&) full (mem v c.c_new)
         then bind (r.r_test u v (age u)) (fun b ->
                if b
                then cloop r full k age cs' { c_sus = c.c_sus; c_new =
                       c.c_new; c_inf = (inf_append c.c_inf v u); c_nS =
                       c.c_nS; c_q = (((k, u), v) :: c.c_q) }
                else cloop r full k age cs' { c_sus = c.c_sus; c_new =
                       c.c_new; c_inf = c.c_inf; c_nS = c.c_nS; c_q = (((k,
                       u), v) :: c.c_q) })
         else cloop r full k age cs' c

(** val rec_loop :
    bool -> (node -> nat -> bool) -> nat -> q -> (node -> nat) -> node list
    -> (((z * node list) * ((q * node) * n) list) * rentry list) ->
    ((z * node list) * ((q * node) * n) list) * rentry list **)

let rec_loop full f k next age us init =
  fold_left (fun acc u ->
    let (y, rl) = acc in
    let (y0, h) = y in
    let (totR, kept) = y0 in
    if f u (age u)
    then ((((Z.add totR (Zpos XH)), kept),
           (if full then ((next, u), stR) :: h else h)), ((k, u) :: rl))
    else (((totR, (u :: kept)), h), ((k, u) :: rl))) us init

(** val step :
    graph -> rules -> (node -> nat -> bool) option -> (nat -> node list ->
    node list) -> xtime -> bool -> nat -> q -> dst -> dst samp **)

let step g r trec ord tmax full k t s =
  let us = ord k s.d_infs in
  bind
    (cloop r full k s.d_age (contacts g us) { c_sus = s.d_sus; c_new = [];
      c_inf = []; c_nS = s.d_nS; c_q = s.d_logs.l_q }) (fun c ->
    let next = qplus t { qnum = (Zpos XH); qden = XH } in
    bind
      (if full
       then picks r k t c.c_inf s.d_tlog s.d_logs.l_p
       else Ret (s.d_tlog, s.d_logs.l_p)) (fun tp ->
      let newc = canon g c.c_new in
      let h1 =
        if (&&) full (le_x next tmax)
        then app (rev (map (fun v -> ((next, v), stI)) newc))
               (app
                 (match trec with
                  | Some _ -> []
                  | None -> rev (map (fun u -> ((next, u), stR)) us))
                 s.d_hlog)
        else s.d_hlog
      in
      (match trec with
       | Some f ->
         let (p, rl) =
           rec_loop full f k next s.d_age us (((s.d_totR, []), h1),
             s.d_logs.l_r)
         in
         let (p0, h2) = p in
         let (totR', kept) = p0 in
         let infs' = canon g (app c.c_new kept) in
         let age' = fun x -> if mem x us then S (s.d_age x) else s.d_age x in
         Ret { d_sus = c.c_sus; d_infs = infs'; d_age = age'; d_nS = c.c_nS;
         d_totR = totR'; d_rows = ((next,
         (c.c_nS :: ((lenZ infs') :: (totR' :: [])))) :: s.d_rows); d_hlog =
         h2; d_tlog = (fst tp); d_logs = { l_q = c.c_q; l_p = (snd tp); l_r =
         rl } }
       | None ->
         Ret { d_sus = c.c_sus; d_infs = newc; d_age = s.d_age; d_nS =
           c.c_nS; d_totR = (Z.add s.d_totR (lenZ s.d_infs)); d_rows =
           ((next,
           (c.c_nS :: ((lenZ newc) :: ((Z.add s.d_totR (lenZ s.d_infs)) :: [])))) :: s.d_rows);
           d_hlog = h1; d_tlog = (fst tp); d_logs = { l_q = c.c_q; l_p =
           (snd tp); l_r = s.d_logs.l_r } })))

(** val init_status : node list -> node list -> node -> n **)

let init_status i0 r0 u =
  if mem u r0 then stR else if mem u i0 then stI else stS

(** val node_events : node -> ((q * node) * n) list -> (q * n) list **)

let node_events u log =
  map (fun e -> ((fst (fst e)), (snd e)))
    (filter (fun e -> N.eqb (snd (fst e)) u) log)

(** val build_hist :
    graph -> q -> node list -> node list -> ((q * node) * n) list ->
    (node * history) list **)

let build_hist g tmin i0 r0 hlog =
  let log = rev hlog in
  map (fun u -> (u, ((tmin, (init_status i0 r0 u)) :: (node_events u log))))
    g.gnodes

(** val rev_logs : dlogs -> dlogs **)

let rev_logs l =
  { l_q = (rev l.l_q); l_p = (rev l.l_p); l_r = (rev l.l_r) }

(** val finish :
    graph -> q -> bool -> node list -> node list -> dst -> dout **)

let finish g tmin full i0 r0 s =
  { o_sim = { so_rows = (rev s.d_rows); so_full =
    (if full
     then Some { fd_hist = (build_hist g tmin i0 r0 s.d_hlog); fd_trans =
            (rev s.d_tlog) }
     else None) }; o_logs = (rev_logs s.d_logs) }

(** val dloop :
    graph -> rules -> (node -> nat -> bool) option -> (nat -> node list ->
    node list) -> q -> xtime -> bool -> node list -> node list -> nat -> nat
    -> q -> dst -> dout samp **)

let rec dloop g r trec ord tmin tmax full i0 r0 fuel k t s =
  if (&&) (nonempty s.d_infs) (xlt t tmax)
  then (match fuel with
        | O -> Fail OutOfFuel
        | S f ->
          bind (step g r trec ord tmax full k t s) (fun s' ->
            dloop g r trec ord tmin tmax full i0 r0 f (S k)
              (qplus t { qnum = (Zpos XH); qden = XH }) s'))
  else Ret (finish g tmin full i0 r0 s)

(** val init_state : graph -> q -> bool -> node list -> node list -> dst **)

let init_state g tmin full i0 r0 =
  let nI = lenZ i0 in
  let nR = lenZ r0 in
  let sus = fun v -> (&&) (negb (mem v i0)) (negb (mem v r0)) in
  { d_sus = sus; d_infs = (canon g i0); d_age = (fun _ -> O); d_nS =
  (Z.sub (Z.sub (order g) nI) nR); d_totR = nR; d_rows = ((tmin,
  ((Z.sub (Z.sub (order g) nI) nR) :: (nI :: (nR :: [])))) :: []); d_hlog =
  []; d_tlog =
  (if full
   then rev
          (map (fun u -> (((qminus tmin { qnum = (Zpos XH); qden = XH }),
            None), u)) i0)
   else []); d_logs = { l_q = []; l_p = []; l_r = [] } }

(** val opt_list : 'a1 list option -> 'a1 list **)

let opt_list = function
| Some l -> l
| None -> []

(** val with_initial :
    graph -> node list option -> q option -> (node list -> dout samp) -> dout
    samp **)

let with_initial g i0 rho k =
  match rho with
  | Some _ ->
    (match i0 with
     | Some _ -> Fail EoNError
     | None ->
       (match i0 with
        | Some l -> k l
        | None ->
          let n0 =
            match rho with
            | Some r -> d_round_half_even (qmult (qnat (length g.gnodes)) r)
            | None -> Zpos XH
          in
          if Z.ltb n0 Z0
          then Fail ValueErr
          else Sample ((map knode g.gnodes), (Z.to_nat n0), (fun ks ->
                 k (concat ks)))))
  | None ->
    (match i0 with
     | Some l -> k l
     | None ->
       let n0 =
         match rho with
         | Some r -> d_round_half_even (qmult (qnat (length g.gnodes)) r)
         | None -> Zpos XH
       in
       if Z.ltb n0 Z0
       then Fail ValueErr
       else Sample ((map knode g.gnodes), (Z.to_nat n0), (fun ks ->
              k (concat ks))))

(** val discrete_SIR :
    graph -> rules -> (node -> nat -> bool) option -> (nat -> node list ->
    node list) -> node list option -> node list option -> q option -> q ->
    xtime -> bool -> nat -> dout samp **)

let discrete_SIR g r trec ord i0 r0 rho tmin tmax full fuel =
  with_initial g i0 rho (fun l ->
    dloop g r trec ord tmin tmax full l (opt_list r0) fuel O tmin
      (init_state g tmin full l (opt_list r0)))

(** val basic_discrete_SIR_R :
    graph -> rules -> (nat -> node list -> node list) -> node list option ->
    node list option -> q option -> q -> xtime -> bool -> nat -> dout samp **)

let basic_discrete_SIR_R g r ord i0 r0 rho tmin tmax full fuel =
  discrete_SIR g r None ord i0 r0 rho tmin tmax full fuel

(** val basic_discrete_SIR :
    graph -> q -> (nat -> node list -> node list) -> node list option -> node
    list option -> q option -> q -> xtime -> bool -> nat -> dout samp **)

let basic_discrete_SIR g p ord i0 r0 rho tmin tmax full fuel =
  basic_discrete_SIR_R g (simple_rules p) ord i0 r0 rho tmin tmax full fuel

type sst = { s_infs : node list; s_rows : row list;
             s_hlog : ((q * node) * n) list;
             s_tlog : ((q * node option) * node) list; s_logs : dlogs }

(** val sis_cloop :
    rules -> nat -> node list -> (node * node) list -> node list ->
    (node * node list) list -> qentry list -> ((node list * (node * node
    list) list) * qentry list) samp **)

let rec sis_cloop r k infs cs new0 inf q0 =
  match cs with
  | [] -> Ret ((new0, inf), q0)
  | p :: cs' ->
    let (u, v) = p in
    if negb (mem v infs)
    then bind (r.r_test u v k) (fun b ->
           if b
           then if negb (mem v new0)
                then sis_cloop r k infs cs' (v :: new0)
                       (app inf ((v, (u :: [])) :: [])) (((k, u), v) :: q0)
                else sis_cloop r k infs cs' new0 (inf_append inf v u) (((k,
                       u), v) :: q0)
           else sis_cloop r k infs cs' new0 inf (((k, u), v) :: q0))
    else sis_cloop r k infs cs' new0 inf q0

(** val sis_step :
    graph -> rules -> (nat -> node list -> node list) -> xtime -> bool -> nat
    -> q -> sst -> sst samp **)

let sis_step g r ord tmax full k t s =
  let us = ord k s.s_infs in
  bind (sis_cloop r k s.s_infs (contacts g us) [] [] s.s_logs.l_q) (fun r0 ->
    let (p, q0) = r0 in
    let (new0, inf) = p in
    let next = qplus t { qnum = (Zpos XH); qden = XH } in
    bind
      (if full
       then picks r k t inf s.s_tlog s.s_logs.l_p
       else Ret (s.s_tlog, s.s_logs.l_p)) (fun tp ->
      let newc = canon g new0 in
      let h1 =
        if (&&) full (le_x next tmax)
        then app (rev (map (fun v -> ((next, v), stI)) newc))
               (app (rev (map (fun u -> ((next, u), stS)) us)) s.s_hlog)
        else s.s_hlog
      in
      Ret { s_infs = newc; s_rows = ((next,
      ((Z.sub (order g) (lenZ newc)) :: ((lenZ newc) :: []))) :: s.s_rows);
      s_hlog = h1; s_tlog = (fst tp); s_logs = { l_q = q0; l_p = (snd tp);
      l_r = s.s_logs.l_r } }))

(** val sis_finish : graph -> q -> bool -> node list -> sst -> dout **)

let sis_finish g tmin full i0 s =
  { o_sim = { so_rows = (rev s.s_rows); so_full =
    (if full
     then Some { fd_hist = (build_hist g tmin i0 [] s.s_hlog); fd_trans =
            (rev s.s_tlog) }
     else None) }; o_logs = (rev_logs s.s_logs) }

(** val sis_loop :
    graph -> rules -> (nat -> node list -> node list) -> q -> xtime -> bool
    -> node list -> nat -> nat -> q -> sst -> dout samp **)

let rec sis_loop g r ord tmin tmax full i0 fuel k t s =
  if (&&) (nonempty s.s_infs) (xlt t tmax)
  then (match fuel with
        | O -> Fail OutOfFuel
        | S f ->
          bind (sis_step g r ord tmax full k t s) (fun s' ->
            sis_loop g r ord tmin tmax full i0 f (S k)
              (qplus t { qnum = (Zpos XH); qden = XH }) s'))
  else Ret (sis_finish g tmin full i0 s)

(** val sis_init : graph -> q -> bool -> node list -> sst **)

let sis_init g tmin full i0 =
  { s_infs = (canon g i0); s_rows = ((tmin,
    ((Z.sub (order g) (lenZ i0)) :: ((lenZ i0) :: []))) :: []); s_hlog = [];
    s_tlog =
    (if full
     then rev
            (map (fun u -> (((qminus tmin { qnum = (Zpos XH); qden = XH }),
              None), u)) i0)
     else []); s_logs = { l_q = []; l_p = []; l_r = [] } }

(** val basic_discrete_SIS_R :
    graph -> rules -> (nat -> node list -> node list) -> node list option ->
    q option -> q -> xtime -> bool -> nat -> dout samp **)

let basic_discrete_SIS_R g r ord i0 rho tmin tmax full fuel =
  with_initial g i0 rho (fun l ->
    sis_loop g r ord tmin tmax full l fuel O tmin (sis_init g tmin full l))

(** val basic_discrete_SIS :
    graph -> q -> (nat -> node list -> node list) -> node list option -> q
    option -> q -> xtime -> bool -> nat -> dout samp **)

let basic_discrete_SIS g p ord i0 rho tmin tmax full fuel =
  basic_discrete_SIS_R g (simple_rules p) ord i0 rho tmin tmax full fuel

(** val edges_from : graph -> node list -> node list -> (node * node) list **)

let rec edges_from g nodes seen =
  match nodes with
  | [] -> []
  | u :: r ->
    app
      (map (fun v -> (u, v)) (filter (fun v -> negb (mem v seen)) (g.gadj u)))
      (edges_from g r (u :: seen))

(** val gedges : graph -> (node * node) list **)

let gedges g =
  if g.gdirected then contacts g g.gnodes else edges_from g g.gnodes []

(** val perc_loop :
    rules -> (node * node) list -> (node * node) list -> qentry list ->
    ((node * node) list * qentry list) samp **)

let rec perc_loop r es kept q0 =
  match es with
  | [] -> Ret (kept, q0)
  | p :: es' ->
    let (u, v) = p in
    bind (r.r_test u v O) (fun b ->
      perc_loop r es' (if b then app kept ((u, v) :: []) else kept) (((O, u),
        v) :: q0))

(** val add_nb : node list -> node -> node list **)

let add_nb l x =
  if mem x l then l else app l (x :: [])

(** val perc_adj : (node * node) list -> node -> node list **)

let perc_adj kept x =
  fold_left (fun l e ->
    if N.eqb (fst e) x
    then add_nb l (snd e)
    else if N.eqb (snd e) x then add_nb l (fst e) else l) kept []

(** val perc_graph : graph -> (node * node) list -> graph **)

let perc_graph g kept =
  { gnodes = g.gnodes; gadj = (perc_adj kept); gpred = (perc_adj kept);
    gdirected = false; ew = (fun _ _ -> { qnum = (Zpos XH); qden = XH });
    nw = (fun _ -> { qnum = (Zpos XH); qden = XH }); ewt = false; nwt =
    false }

(** val percolate_network_R : graph -> rules -> (graph * qentry list) samp **)

let percolate_network_R g r =
  bind (perc_loop r (gedges g) [] []) (fun kq -> Ret
    ((perc_graph g (fst kq)), (snd kq)))

(** val percolate_network : graph -> q -> (graph * qentry list) samp **)

let percolate_network g p =
  percolate_network_R g (simple_rules p)

(** val edge_exists : graph -> node -> node -> bool **)

let edge_exists h u v =
  mem v (h.gadj u)

(** val has_edge_rules : graph -> rules -> rules **)

let has_edge_rules h r =
  { r_test = (fun u v _ -> Ret (edge_exists h u v)); r_pick = r.r_pick }

(** val add_qlog : qentry list -> dout -> dout **)

let add_qlog pre o =
  { o_sim = o.o_sim; o_logs = { l_q = (app (rev pre) o.o_logs.l_q); l_p =
    o.o_logs.l_p; l_r = o.o_logs.l_r } }

(** val percolation_based_discrete_SIR_R :
    graph -> rules -> (nat -> node list -> node list) -> node list option ->
    node list option -> q option -> q -> xtime -> bool -> nat -> dout samp **)

let percolation_based_discrete_SIR_R g r ord i0 r0 rho tmin tmax full fuel =
  bind (percolate_network_R g r) (fun hq ->
    bind
      (discrete_SIR (fst hq) (has_edge_rules (fst hq) r) None ord i0 r0 rho
        tmin tmax full fuel) (fun o -> Ret (add_qlog (snd hq) o)))

(** val percolation_based_discrete_SIR :
    graph -> q -> (nat -> node list -> node list) -> node list option -> node
    list option -> q option -> q -> xtime -> bool -> nat -> dout samp **)

let percolation_based_discrete_SIR g p ord i0 r0 rho tmin tmax full fuel =
  percolation_based_discrete_SIR_R g (simple_rules p) ord i0 r0 rho tmin tmax
    full fuel
