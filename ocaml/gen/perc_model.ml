
(** val negb : bool -> bool **)

let negb = function
| true -> false
| false -> true

type nat =
| O
| S of nat

(** val fst : ('a1 * 'a2) -> 'a1 **)

let fst = function
| (x, _) -> x

(** val snd : ('a1 * 'a2) -> 'a2 **)

let snd = function
| (_, y) -> y

(** val length : 'a1 list -> nat **)

let rec length = function
| [] -> O
| _ :: l' -> S (length l')

(** val app : 'a1 list -> 'a1 list -> 'a1 list **)

let rec app l m =
  match l with
  | [] -> m
  | a :: l1 -> a :: (app l1 m)

type comparison =
| Eq
| Lt
| Gt

(** val compOpp : comparison -> comparison **)

let compOpp = function
| Eq -> Eq
| Lt -> Gt
| Gt -> Lt

module Coq__1 = struct
 (** val add : nat -> nat -> nat **)
 let rec add n0 m =
   match n0 with
   | O -> m
   | S p -> S (add p m)
end
include Coq__1

type positive =
| XI of positive
| XO of positive
| XH

type n =
| N0
| Npos of positive

type z =
| Z0
| Zpos of positive
| Zneg of positive

module Nat =
 struct
  (** val pred : nat -> nat **)

  let pred n0 = match n0 with
  | O -> n0
  | S u -> u

  (** val eqb : nat -> nat -> bool **)

  let rec eqb n0 m =
    match n0 with
    | O -> (match m with
            | O -> true
            | S _ -> false)
    | S n' -> (match m with
               | O -> false
               | S m' -> eqb n' m')

  (** val leb : nat -> nat -> bool **)

  let rec leb n0 m =
    match n0 with
    | O -> true
    | S n' -> (match m with
               | O -> false
               | S m' -> leb n' m')

  (** val ltb : nat -> nat -> bool **)

  let ltb n0 m =
    leb (S n0) m

  (** val max : nat -> nat -> nat **)

  let rec max n0 m =
    match n0 with
    | O -> m
    | S n' -> (match m with
               | O -> n0
               | S m' -> S (max n' m'))
 end

module Pos =
 struct
  type mask =
  | IsNul
  | IsPos of positive
  | IsNeg
 end

module Coq_Pos =
 struct
  (** val succ : positive -> positive **)

  let rec succ = function
  | XI p -> XO (succ p)
  | XO p -> XI p
  | XH -> XO XH

  (** val add : positive -> positive -> positive **)

  let rec add x y =
    match x with
    | XI p ->
      (match y with
       | XI q0 -> XO (add_carry p q0)
       | XO q0 -> XI (add p q0)
       | XH -> XO (succ p))
    | XO p ->
      (match y with
       | XI q0 -> XI (add p q0)
       | XO q0 -> XO (add p q0)
       | XH -> XI p)
    | XH -> (match y with
             | XI q0 -> XO (succ q0)
             | XO q0 -> XI q0
             | XH -> XO XH)

  (** val add_carry : positive -> positive -> positive **)

  and add_carry x y =
    match x with
    | XI p ->
      (match y with
       | XI q0 -> XI (add_carry p q0)
       | XO q0 -> XO (add_carry p q0)
       | XH -> XI (succ p))
    | XO p ->
      (match y with
       | XI q0 -> XO (add_carry p q0)
       | XO q0 -> XI (add p q0)
       | XH -> XO (succ p))
    | XH ->
      (match y with
       | XI q0 -> XI (succ q0)
       | XO q0 -> XO (succ q0)
       | XH -> XI XH)

  (** val pred_double : positive -> positive **)

  let rec pred_double = function
  | XI p -> XI (XO p)
  | XO p -> XI (pred_double p)
  | XH -> XH

  type mask = Pos.mask =
  | IsNul
  | IsPos of positive
  | IsNeg

  (** val succ_double_mask : mask -> mask **)

  let succ_double_mask = function
  | IsNul -> IsPos XH
  | IsPos p -> IsPos (XI p)
  | IsNeg -> IsNeg

  (** val double_mask : mask -> mask **)

  let double_mask = function
  | IsPos p -> IsPos (XO p)
  | x0 -> x0

  (** val double_pred_mask : positive -> mask **)

  let double_pred_mask = function
  | XI p -> IsPos (XO (XO p))
  | XO p -> IsPos (XO (pred_double p))
  | XH -> IsNul

  (** val sub_mask : positive -> positive -> mask **)

  let rec sub_mask x y =
    match x with
    | XI p ->
      (match y with
       | XI q0 -> double_mask (sub_mask p q0)
       | XO q0 -> succ_double_mask (sub_mask p q0)
       | XH -> IsPos (XO p))
    | XO p ->
      (match y with
       | XI q0 -> succ_double_mask (sub_mask_carry p q0)
       | XO q0 -> double_mask (sub_mask p q0)
       | XH -> IsPos (pred_double p))
    | XH -> (match y with
             | XH -> IsNul
             | _ -> IsNeg)

  (** val sub_mask_carry : positive -> positive -> mask **)

  and sub_mask_carry x y =
    match x with
    | XI p ->
      (match y with
       | XI q0 -> succ_double_mask (sub_mask_carry p q0)
       | XO q0 -> double_mask (sub_mask p q0)
       | XH -> IsPos (pred_double p))
    | XO p ->
      (match y with
       | XI q0 -> double_mask (sub_mask_carry p q0)
       | XO q0 -> succ_double_mask (sub_mask_carry p q0)
       | XH -> double_pred_mask p)
    | XH -> IsNeg

  (** val sub : positive -> positive -> positive **)

  let sub x y =
    match sub_mask x y with
    | IsPos z0 -> z0
    | _ -> XH

  (** val mul : positive -> positive -> positive **)

  let rec mul x y =
    match x with
    | XI p -> add y (XO (mul p y))
    | XO p -> XO (mul p y)
    | XH -> y

  (** val size_nat : positive -> nat **)

  let rec size_nat = function
  | XI p0 -> S (size_nat p0)
  | XO p0 -> S (size_nat p0)
  | XH -> S O

  (** val compare_cont : comparison -> positive -> positive -> comparison **)

  let rec compare_cont r x y =
    match x with
    | XI p ->
      (match y with
       | XI q0 -> compare_cont r p q0
       | XO q0 -> compare_cont Gt p q0
       | XH -> Gt)
    | XO p ->
      (match y with
       | XI q0 -> compare_cont Lt p q0
       | XO q0 -> compare_cont r p q0
       | XH -> Gt)
    | XH -> (match y with
             | XH -> r
             | _ -> Lt)

  (** val compare : positive -> positive -> comparison **)

  let compare =
    compare_cont Eq

  (** val eqb : positive -> positive -> bool **)

  let rec eqb p q0 =
    match p with
    | XI p0 -> (match q0 with
                | XI q1 -> eqb p0 q1
                | _ -> false)
    | XO p0 -> (match q0 with
                | XO q1 -> eqb p0 q1
                | _ -> false)
    | XH -> (match q0 with
             | XH -> true
             | _ -> false)

  (** val ggcdn :
      nat -> positive -> positive -> positive * (positive * positive) **)

  let rec ggcdn n0 a b =
    match n0 with
    | O -> (XH, (a, b))
    | S n1 ->
      (match a with
       | XI a' ->
         (match b with
          | XI b' ->
            (match compare a' b' with
             | Eq -> (a, (XH, XH))
             | Lt ->
               let (g, p) = ggcdn n1 (sub b' a') a in
               let (ba, aa) = p in (g, (aa, (add aa (XO ba))))
             | Gt ->
               let (g, p) = ggcdn n1 (sub a' b') b in
               let (ab, bb) = p in (g, ((add bb (XO ab)), bb)))
          | XO b0 ->
            let (g, p) = ggcdn n1 a b0 in
            let (aa, bb) = p in (g, (aa, (XO bb)))
          | XH -> (XH, (a, XH)))
       | XO a0 ->
         (match b with
          | XI _ ->
            let (g, p) = ggcdn n1 a0 b in
            let (aa, bb) = p in (g, ((XO aa), bb))
          | XO b0 -> let (g, p) = ggcdn n1 a0 b0 in ((XO g), p)
          | XH -> (XH, (a, XH)))
       | XH -> (XH, (XH, b)))

  (** val ggcd : positive -> positive -> positive * (positive * positive) **)

  let ggcd a b =
    ggcdn (Coq__1.add (size_nat a) (size_nat b)) a b

  (** val iter_op : ('a1 -> 'a1 -> 'a1) -> positive -> 'a1 -> 'a1 **)

  let rec iter_op op p a =
    match p with
    | XI p0 -> op a (iter_op op p0 (op a a))
    | XO p0 -> iter_op op p0 (op a a)
    | XH -> a

  (** val to_nat : positive -> nat **)

  let to_nat x =
    iter_op Coq__1.add x (S O)

  (** val of_succ_nat : nat -> positive **)

  let rec of_succ_nat = function
  | O -> XH
  | S x -> succ (of_succ_nat x)
 end

module N =
 struct
  (** val eqb : n -> n -> bool **)

  let eqb n0 m =
    match n0 with
    | N0 -> (match m with
             | N0 -> true
             | Npos _ -> false)
    | Npos p -> (match m with
                 | N0 -> false
                 | Npos q0 -> Coq_Pos.eqb p q0)
 end

module Z =
 struct
  (** val double : z -> z **)

  let double = function
  | Z0 -> Z0
  | Zpos p -> Zpos (XO p)
  | Zneg p -> Zneg (XO p)

  (** val succ_double : z -> z **)

  let succ_double = function
  | Z0 -> Zpos XH
  | Zpos p -> Zpos (XI p)
  | Zneg p -> Zneg (Coq_Pos.pred_double p)

  (** val pred_double : z -> z **)

  let pred_double = function
  | Z0 -> Zneg XH
  | Zpos p -> Zpos (Coq_Pos.pred_double p)
  | Zneg p -> Zneg (XI p)

  (** val pos_sub : positive -> positive -> z **)

  let rec pos_sub x y =
    match x with
    | XI p ->
      (match y with
       | XI q0 -> double (pos_sub p q0)
       | XO q0 -> succ_double (pos_sub p q0)
       | XH -> Zpos (XO p))
    | XO p ->
      (match y with
       | XI q0 -> pred_double (pos_sub p q0)
       | XO q0 -> double (pos_sub p q0)
       | XH -> Zpos (Coq_Pos.pred_double p))
    | XH ->
      (match y with
       | XI q0 -> Zneg (XO q0)
       | XO q0 -> Zneg (Coq_Pos.pred_double q0)
       | XH -> Z0)

  (** val add : z -> z -> z **)

  let add x y =
    match x with
    | Z0 -> y
    | Zpos x' ->
      (match y with
       | Z0 -> x
       | Zpos y' -> Zpos (Coq_Pos.add x' y')
       | Zneg y' -> pos_sub x' y')
    | Zneg x' ->
      (match y with
       | Z0 -> x
       | Zpos y' -> pos_sub y' x'
       | Zneg y' -> Zneg (Coq_Pos.add x' y'))

  (** val opp : z -> z **)

  let opp = function
  | Z0 -> Z0
  | Zpos x0 -> Zneg x0
  | Zneg x0 -> Zpos x0

  (** val sub : z -> z -> z **)

  let sub m n0 =
    add m (opp n0)

  (** val mul : z -> z -> z **)

  let mul x y =
    match x with
    | Z0 -> Z0
    | Zpos x' ->
      (match y with
       | Z0 -> Z0
       | Zpos y' -> Zpos (Coq_Pos.mul x' y')
       | Zneg y' -> Zneg (Coq_Pos.mul x' y'))
    | Zneg x' ->
      (match y with
       | Z0 -> Z0
       | Zpos y' -> Zneg (Coq_Pos.mul x' y')
       | Zneg y' -> Zpos (Coq_Pos.mul x' y'))

  (** val compare : z -> z -> comparison **)

  let compare x y =
    match x with
    | Z0 -> (match y with
             | Z0 -> Eq
             | Zpos _ -> Lt
             | Zneg _ -> Gt)
    | Zpos x' -> (match y with
                  | Zpos y' -> Coq_Pos.compare x' y'
                  | _ -> Gt)
    | Zneg x' ->
      (match y with
       | Zneg y' -> compOpp (Coq_Pos.compare x' y')
       | _ -> Lt)

  (** val sgn : z -> z **)

  let sgn = function
  | Z0 -> Z0
  | Zpos _ -> Zpos XH
  | Zneg _ -> Zneg XH

  (** val leb : z -> z -> bool **)

  let leb x y =
    match compare x y with
    | Gt -> false
    | _ -> true

  (** val ltb : z -> z -> bool **)

  let ltb x y =
    match compare x y with
    | Lt -> true
    | _ -> false

  (** val abs : z -> z **)

  let abs = function
  | Zneg p -> Zpos p
  | x -> x

  (** val to_nat : z -> nat **)

  let to_nat = function
  | Zpos p -> Coq_Pos.to_nat p
  | _ -> O

  (** val of_nat : nat -> z **)

  let of_nat = function
  | O -> Z0
  | S n1 -> Zpos (Coq_Pos.of_succ_nat n1)

  (** val to_pos : z -> positive **)

  let to_pos = function
  | Zpos p -> p
  | _ -> XH

  (** val pos_div_eucl : positive -> z -> z * z **)

  let rec pos_div_eucl a b =
    match a with
    | XI a' ->
      let (q0, r) = pos_div_eucl a' b in
      let r' = add (mul (Zpos (XO XH)) r) (Zpos XH) in
      if ltb r' b
      then ((mul (Zpos (XO XH)) q0), r')
      else ((add (mul (Zpos (XO XH)) q0) (Zpos XH)), (sub r' b))
    | XO a' ->
      let (q0, r) = pos_div_eucl a' b in
      let r' = mul (Zpos (XO XH)) r in
      if ltb r' b
      then ((mul (Zpos (XO XH)) q0), r')
      else ((add (mul (Zpos (XO XH)) q0) (Zpos XH)), (sub r' b))
    | XH -> if leb (Zpos (XO XH)) b then (Z0, (Zpos XH)) else ((Zpos XH), Z0)

  (** val div_eucl : z -> z -> z * z **)

  let div_eucl a b =
    match a with
    | Z0 -> (Z0, Z0)
    | Zpos a' ->
      (match b with
       | Z0 -> (Z0, a)
       | Zpos _ -> pos_div_eucl a' b
       | Zneg b' ->
         let (q0, r) = pos_div_eucl a' (Zpos b') in
         (match r with
          | Z0 -> ((opp q0), Z0)
          | _ -> ((opp (add q0 (Zpos XH))), (add b r))))
    | Zneg a' ->
      (match b with
       | Z0 -> (Z0, a)
       | Zpos _ ->
         let (q0, r) = pos_div_eucl a' b in
         (match r with
          | Z0 -> ((opp q0), Z0)
          | _ -> ((opp (add q0 (Zpos XH))), (sub b r)))
       | Zneg b' -> let (q0, r) = pos_div_eucl a' (Zpos b') in (q0, (opp r)))

  (** val div : z -> z -> z **)

  let div a b =
    let (q0, _) = div_eucl a b in q0

  (** val ggcd : z -> z -> z * (z * z) **)

  let ggcd a b =
    match a with
    | Z0 -> ((abs b), (Z0, (sgn b)))
    | Zpos a0 ->
      (match b with
       | Z0 -> ((abs a), ((sgn a), Z0))
       | Zpos b0 ->
         let (g, p) = Coq_Pos.ggcd a0 b0 in
         let (aa, bb) = p in ((Zpos g), ((Zpos aa), (Zpos bb)))
       | Zneg b0 ->
         let (g, p) = Coq_Pos.ggcd a0 b0 in
         let (aa, bb) = p in ((Zpos g), ((Zpos aa), (Zneg bb))))
    | Zneg a0 ->
      (match b with
       | Z0 -> ((abs a), ((sgn a), Z0))
       | Zpos b0 ->
         let (g, p) = Coq_Pos.ggcd a0 b0 in
         let (aa, bb) = p in ((Zpos g), ((Zneg aa), (Zpos bb)))
       | Zneg b0 ->
         let (g, p) = Coq_Pos.ggcd a0 b0 in
         let (aa, bb) = p in ((Zpos g), ((Zneg aa), (Zneg bb))))
 end

(** val z_lt_dec : z -> z -> bool **)

let z_lt_dec x y =
  match Z.compare x y with
  | Lt -> true
  | _ -> false

(** val z_lt_ge_dec : z -> z -> bool **)

let z_lt_ge_dec =
  z_lt_dec

(** val z_lt_le_dec : z -> z -> bool **)

let z_lt_le_dec =
  z_lt_ge_dec

(** val zeq_bool : z -> z -> bool **)

let zeq_bool x y =
  match Z.compare x y with
  | Eq -> true
  | _ -> false

(** val nth_error : 'a1 list -> nat -> 'a1 option **)

let rec nth_error l = function
| O -> (match l with
        | [] -> None
        | x :: _ -> Some x)
| S n1 -> (match l with
           | [] -> None
           | _ :: l0 -> nth_error l0 n1)

(** val rev : 'a1 list -> 'a1 list **)

let rec rev = function
| [] -> []
| x :: l' -> app (rev l') (x :: [])

(** val map : ('a1 -> 'a2) -> 'a1 list -> 'a2 list **)

let rec map f = function
| [] -> []
| a :: t -> (f a) :: (map f t)

(** val flat_map : ('a1 -> 'a2 list) -> 'a1 list -> 'a2 list **)

let rec flat_map f = function
| [] -> []
| x :: t -> app (f x) (flat_map f t)

(** val fold_left : ('a1 -> 'a2 -> 'a1) -> 'a2 list -> 'a1 -> 'a1 **)

let rec fold_left f l a0 =
  match l with
  | [] -> a0
  | b :: t -> fold_left f t (f a0 b)

(** val fold_right : ('a2 -> 'a1 -> 'a1) -> 'a1 -> 'a2 list -> 'a1 **)

let rec fold_right f a0 = function
| [] -> a0
| b :: t -> f b (fold_right f a0 t)

(** val existsb : ('a1 -> bool) -> 'a1 list -> bool **)

let rec existsb f = function
| [] -> false
| a :: l0 -> (||) (f a) (existsb f l0)

(** val forallb : ('a1 -> bool) -> 'a1 list -> bool **)

let rec forallb f = function
| [] -> true
| a :: l0 -> (&&) (f a) (forallb f l0)

(** val filter : ('a1 -> bool) -> 'a1 list -> 'a1 list **)

let rec filter f = function
| [] -> []
| x :: l0 -> if f x then x :: (filter f l0) else filter f l0

(** val firstn : nat -> 'a1 list -> 'a1 list **)

let rec firstn n0 l =
  match n0 with
  | O -> []
  | S n1 -> (match l with
             | [] -> []
             | a :: l0 -> a :: (firstn n1 l0))

(** val skipn : nat -> 'a1 list -> 'a1 list **)

let rec skipn n0 l =
  match n0 with
  | O -> l
  | S n1 -> (match l with
             | [] -> []
             | _ :: l0 -> skipn n1 l0)

type q = { qnum : z; qden : positive }

(** val inject_Z : z -> q **)

let inject_Z x =
  { qnum = x; qden = XH }

(** val qeq_bool : q -> q -> bool **)

let qeq_bool x y =
  zeq_bool (Z.mul x.qnum (Zpos y.qden)) (Z.mul y.qnum (Zpos x.qden))

(** val qplus : q -> q -> q **)

let qplus x y =
  { qnum = (Z.add (Z.mul x.qnum (Zpos y.qden)) (Z.mul y.qnum (Zpos x.qden)));
    qden = (Coq_Pos.mul x.qden y.qden) }

(** val qmult : q -> q -> q **)

let qmult x y =
  { qnum = (Z.mul x.qnum y.qnum); qden = (Coq_Pos.mul x.qden y.qden) }

(** val qopp : q -> q **)

let qopp x =
  { qnum = (Z.opp x.qnum); qden = x.qden }

(** val qminus : q -> q -> q **)

let qminus x y =
  qplus x (qopp y)

(** val qinv : q -> q **)

let qinv x =
  match x.qnum with
  | Z0 -> { qnum = Z0; qden = XH }
  | Zpos p -> { qnum = (Zpos x.qden); qden = p }
  | Zneg p -> { qnum = (Zneg x.qden); qden = p }

(** val qdiv : q -> q -> q **)

let qdiv x y =
  qmult x (qinv y)

(** val qlt_le_dec : q -> q -> bool **)

let qlt_le_dec x y =
  z_lt_le_dec (Z.mul x.qnum (Zpos y.qden)) (Z.mul y.qnum (Zpos x.qden))

(** val qred : q -> q **)

let qred q0 =
  let { qnum = q1; qden = q2 } = q0 in
  let (r1, r2) = snd (Z.ggcd q1 (Zpos q2)) in
  { qnum = r1; qden = (Z.to_pos r2) }

type err =
| EoNError
| ZeroDivision
| IndexErr
| KeyErr
| TypeErr
| NameErr
| ValueErr
| PyException
| OutOfDraws
| OutOfFuel

type 'a result =
| Ok of 'a
| Err of err

(** val rbind : 'a1 result -> ('a1 -> 'a2 result) -> 'a2 result **)

let rbind r f =
  match r with
  | Ok a -> f a
  | Err e -> Err e

type xtime = q option

(** val qltb : q -> q -> bool **)

let qltb a b =
  if qlt_le_dec a b then true else false

(** val qleb : q -> q -> bool **)

let qleb a b =
  if qlt_le_dec b a then false else true

(** val qeqb : q -> q -> bool **)

let qeqb =
  qeq_bool

type key = n list

type 'a samp =
| Ret of 'a
| Fail of err
| Expo of q * (q -> 'a samp)
| Flip of q * 'a samp * 'a samp
| Casc of q list * (nat -> 'a samp)
| Choose of bool * (key * q) list * (key -> 'a samp)
| Unif of key list * (key -> 'a samp)
| Sample of key list * nat * (key list -> 'a samp)

(** val bind : 'a1 samp -> ('a1 -> 'a2 samp) -> 'a2 samp **)

let rec bind m f =
  match m with
  | Ret a -> f a
  | Fail e -> Fail e
  | Expo (r, k) -> Expo (r, (fun d -> bind (k d) f))
  | Flip (p, kt, kf) -> Flip (p, (bind kt f), (bind kf f))
  | Casc (ps, k) -> Casc (ps, (fun i -> bind (k i) f))
  | Choose (w, c, k) -> Choose (w, c, (fun x -> bind (k x) f))
  | Unif (c, k) -> Unif (c, (fun x -> bind (k x) f))
  | Sample (pop, n0, k) -> Sample (pop, n0, (fun l -> bind (k l) f))

type call =
| CExpo of q
| CFlip of q
| CCasc of q list
| CPick of key list
| CAcc of q
| CSample of key list * nat

(** val rank : q -> nat **)

let rank d =
  Z.to_nat (Z.div d.qnum (Zpos d.qden))

(** val casc_index : q list -> q -> nat -> nat **)

let rec casc_index ps d i =
  match ps with
  | [] -> Nat.pred i
  | p :: ps' ->
    if qltb (qminus d p) { qnum = Z0; qden = XH }
    then i
    else casc_index ps' (qminus d p) (S i)

(** val choose_exec :
    bool -> (key * q) list -> q list -> call list -> (key result * call
    list) * q list **)

let rec choose_exec weighted cands ds tr =
  match cands with
  | [] -> (((Err IndexErr), ((CPick []) :: tr)), ds)
  | _ :: _ ->
    (match ds with
     | [] -> (((Err OutOfDraws), tr), [])
     | r :: ds1 ->
       (match nth_error cands (rank r) with
        | Some p ->
          let (c, w) = p in
          let tr1 = (CPick (map fst cands)) :: tr in
          if weighted
          then (match ds1 with
                | [] -> (((Err OutOfDraws), tr1), [])
                | _ :: ds2 ->
                  if qltb { qnum = Z0; qden = XH } w
                  then (((Ok c), ((CAcc w) :: tr1)), ds2)
                  else choose_exec weighted cands ds2 ((CAcc w) :: tr1))
          else (((Ok c), tr1), ds1)
        | None -> (((Err OutOfDraws), tr), ds1)))

(** val rotate : nat -> 'a1 list -> 'a1 list **)

let rotate n0 l =
  app (skipn n0 l) (firstn n0 l)

(** val exec : 'a1 samp -> q list -> call list -> 'a1 result * call list **)

let rec exec m ds tr =
  match m with
  | Ret a -> ((Ok a), (rev tr))
  | Fail e -> ((Err e), (rev tr))
  | Expo (r, k) ->
    if qeqb r { qnum = Z0; qden = XH }
    then ((Err ZeroDivision), (rev ((CExpo r) :: tr)))
    else (match ds with
          | [] -> ((Err OutOfDraws), (rev tr))
          | d :: ds' -> exec (k d) ds' ((CExpo r) :: tr))
  | Flip (p, kt, kf) ->
    (match ds with
     | [] -> ((Err OutOfDraws), (rev tr))
     | d :: ds' -> exec (if qltb d p then kt else kf) ds' ((CFlip p) :: tr))
  | Casc (ps, k) ->
    (match ds with
     | [] -> ((Err OutOfDraws), (rev tr))
     | d :: ds' -> exec (k (casc_index ps d O)) ds' ((CCasc ps) :: tr))
  | Choose (w, c, k) ->
    let (p, ds') = choose_exec w c ds tr in
    let (r, tr') = p in
    (match r with
     | Ok x -> exec (k x) ds' tr'
     | Err e -> ((Err e), (rev tr')))
  | Unif (c, k) ->
    (match c with
     | [] -> ((Err IndexErr), (rev ((CPick []) :: tr)))
     | _ :: _ ->
       (match ds with
        | [] -> ((Err OutOfDraws), (rev tr))
        | d :: ds' ->
          (match nth_error c (rank d) with
           | Some x -> exec (k x) ds' ((CPick c) :: tr)
           | None -> ((Err OutOfDraws), (rev tr)))))
  | Sample (pop, n0, k) ->
    if Nat.ltb (length pop) n0
    then ((Err ValueErr), (rev ((CSample (pop, n0)) :: tr)))
    else (match ds with
          | [] -> ((Err OutOfDraws), (rev tr))
          | d :: ds' ->
            exec (k (firstn n0 (rotate (rank d) pop))) ds' ((CSample (pop,
              n0)) :: tr))

type node = n

type graph = { gnodes : node list; gadj : (node -> node list);
               gpred : (node -> node list); gdirected : bool;
               ew : (node -> node -> q); nw : (node -> q); ewt : bool;
               nwt : bool }

(** val mem : node -> node list -> bool **)

let mem x l =
  existsb (N.eqb x) l

type row = q * z list

type history = (q * n) list

type fulldata = { fd_hist : (node * history) list;
                  fd_trans : ((q * node option) * node) list }

(** val fd_hist : fulldata -> (node * history) list **)

let fd_hist f =
  f.fd_hist

(** val fd_trans : fulldata -> ((q * node option) * node) list **)

let fd_trans f =
  f.fd_trans

type simout = { so_rows : row list; so_full : fulldata option }

(** val so_rows : simout -> row list **)

let so_rows s =
  s.so_rows

(** val so_full : simout -> fulldata option **)

let so_full s =
  s.so_full

(** val fresh : node list -> node list -> node list **)

let rec fresh l seen =
  match l with
  | [] -> []
  | y :: t -> if mem y seen then fresh t seen else y :: (fresh t (y :: seen))

(** val dedup : node list -> node list **)

let dedup l =
  fresh l []

(** val union : node list -> node list -> node list **)

let union a b =
  app a (fresh b a)

(** val drop : node -> node list -> node list **)

let drop s l =
  filter (fun y -> negb (N.eqb y s)) l

(** val bfs :
    (node -> node list) -> nat -> node list -> node list -> node list result **)

let rec bfs succ0 fuel work seen =
  match work with
  | [] -> Ok seen
  | x :: rest ->
    (match fuel with
     | O -> Err OutOfFuel
     | S f ->
       let nw0 = fresh (succ0 x) seen in
       bfs succ0 f (app rest nw0) (app seen nw0))

(** val closure : graph -> (node -> node list) -> node -> node list result **)

let closure g succ0 s =
  bfs succ0 (length g.gnodes) (s :: []) (s :: [])

(** val has_node : graph -> node -> bool **)

let has_node g u =
  mem u g.gnodes

(** val descendants : graph -> node -> node list result **)

let descendants g s =
  if has_node g s
  then rbind (closure g g.gadj s) (fun r -> Ok (drop s r))
  else Err PyException

(** val ancestors : graph -> node -> node list result **)

let ancestors g s =
  if has_node g s
  then rbind (closure g g.gpred s) (fun r -> Ok (drop s r))
  else Err PyException

type source =
| One of node
| Many of node list

(** val comp_loop :
    (node -> node list result) -> node list -> node list -> node list result **)

let rec comp_loop desc srcs acc =
  match srcs with
  | [] -> Ok acc
  | s :: t -> rbind (desc s) (fun d -> comp_loop desc t (union acc d))

(** val component :
    graph -> (node -> node list result) -> source -> node list result **)

let component g desc = function
| One u ->
  if has_node g u then comp_loop desc (u :: []) (u :: []) else Err TypeErr
| Many l -> let s = dedup l in comp_loop desc s s

(** val out_component : graph -> source -> node list result **)

let out_component g src =
  component g (descendants g) src

(** val in_component : graph -> source -> node list result **)

let in_component g src =
  component g (ancestors g) src

(** val scc_of : graph -> node -> node list result **)

let scc_of g u =
  rbind (closure g g.gadj u) (fun f ->
    rbind (closure g g.gpred u) (fun b -> Ok
      (filter (fun x -> (&&) (mem x f) (mem x b)) g.gnodes)))

(** val cc_of : graph -> node -> node list result **)

let cc_of g u =
  rbind (closure g g.gadj u) (fun f -> Ok
    (filter (fun x -> mem x f) g.gnodes))

(** val classes_loop :
    (node -> node list result) -> node list -> node list list -> node list
    list result **)

let rec classes_loop cls todo acc =
  match todo with
  | [] -> Ok (rev acc)
  | u :: t ->
    if existsb (mem u) acc
    then classes_loop cls t acc
    else rbind (cls u) (fun c -> classes_loop cls t (c :: acc))

(** val sccs : graph -> node list list result **)

let sccs g =
  classes_loop (scc_of g) g.gnodes []

(** val ccs : graph -> node list list result **)

let ccs g =
  classes_loop (cc_of g) g.gnodes []

(** val maxlen : node list list -> nat **)

let maxlen l =
  fold_right (fun c m -> Nat.max (length c) m) O l

(** val largest : node list list -> node list list **)

let largest l =
  filter (fun c -> Nat.eqb (length c) (maxlen l)) l

(** val frac : nat -> nat -> q **)

let frac k n0 =
  qdiv (inject_Z (Z.of_nat k)) (inject_Z (Z.of_nat n0))

(** val est_at : graph -> node -> (q * q) result **)

let est_at g u =
  rbind (in_component g (One u)) (fun inC ->
    rbind (out_component g (One u)) (fun outC -> Ok
      ((frac (length inC) (length g.gnodes)),
      (frac (length outC) (length g.gnodes)))))

(** val estimate_from_dir_perc : graph -> nat -> nat -> (q * q) result **)

let estimate_from_dir_perc g k j =
  rbind (sccs g) (fun l ->
    match l with
    | [] -> Err ValueErr
    | _ :: _ ->
      (match nth_error (largest l) k with
       | Some c ->
         (match nth_error c j with
          | Some u -> est_at g u
          | None -> Err OutOfDraws)
       | None -> Err OutOfDraws))

(** val collect : 'a1 result list -> 'a1 list result **)

let rec collect = function
| [] -> Ok []
| r :: t -> rbind r (fun a -> rbind (collect t) (fun l' -> Ok (a :: l')))

(** val estimate_answers : graph -> (q * q) list result **)

let estimate_answers g =
  rbind (sccs g) (fun l ->
    match l with
    | [] -> Err ValueErr
    | _ :: _ -> collect (flat_map (fun c -> map (est_at g) c) (largest l)))

(** val graph_of : node list -> (node * node) list -> bool -> graph **)

let graph_of nodes es directed =
  { gnodes = nodes; gadj = (fun x ->
    flat_map (fun e ->
      if N.eqb (fst e) x
      then (snd e) :: []
      else if (&&) (negb directed) (N.eqb (snd e) x)
           then (fst e) :: []
           else []) es); gpred = (fun x ->
    flat_map (fun e ->
      if N.eqb (snd e) x
      then (fst e) :: []
      else if (&&) (negb directed) (N.eqb (fst e) x)
           then (snd e) :: []
           else []) es); gdirected = directed; ew = (fun _ _ -> { qnum =
    (Zpos XH); qden = XH }); nw = (fun _ -> { qnum = (Zpos XH); qden = XH });
    ewt = false; nwt = false }

(** val edges_from : graph -> node list -> node list -> (node * node) list **)

let rec edges_from g todo seen =
  match todo with
  | [] -> []
  | u :: t ->
    app
      (map (fun x -> (u, x)) (filter (fun v -> negb (mem v seen)) (g.gadj u)))
      (edges_from g t (if g.gdirected then seen else u :: seen))

(** val edges : graph -> (node * node) list **)

let edges g =
  edges_from g g.gnodes []

(** val perc_edges :
    q -> (node * node) list -> q list -> (node * node) list -> (node * node)
    list result **)

let rec perc_edges p es us kept =
  match es with
  | [] -> Ok kept
  | e :: t ->
    (match us with
     | [] -> Err OutOfDraws
     | u :: us' ->
       perc_edges p t us' (if qltb u p then app kept (e :: []) else kept))

(** val percolate_network : graph -> q -> q list -> graph result **)

let percolate_network g p us =
  rbind (perc_edges p (edges g) us []) (fun kept -> Ok
    (graph_of g.gnodes kept false))

(** val largest_cc_size : graph -> nat result **)

let largest_cc_size h =
  rbind (ccs h) (fun l ->
    match l with
    | [] -> Err ValueErr
    | _ :: _ -> Ok (maxlen l))

(** val size_answer : nat -> graph -> (q * q) result **)

let size_answer n0 h =
  rbind (largest_cc_size h) (fun m -> Ok ((frac m n0), (frac m n0)))

(** val lift : 'a1 result -> 'a1 samp **)

let lift = function
| Ok a -> Ret a
| Err e -> Fail e

(** val estimate_SIR_prob_size : graph -> q -> q list -> (q * q) result **)

let estimate_SIR_prob_size g p us =
  rbind (percolate_network g p us) (size_answer (length g.gnodes))

type pgraph = { pg_nodes : node list; pg_edges : (node * node) list;
                pg_dur : (node * xtime) list;
                pg_delay : ((node * node) * xtime) list }

(** val pg_empty : pgraph **)

let pg_empty =
  { pg_nodes = []; pg_edges = []; pg_dur = []; pg_delay = [] }

(** val addn : node -> node list -> node list **)

let addn x l =
  if mem x l then l else app l (x :: [])

(** val eqe : (node * node) -> (node * node) -> bool **)

let eqe a b =
  (&&) (N.eqb (fst a) (fst b)) (N.eqb (snd a) (snd b))

(** val adde : (node * node) -> (node * node) list -> (node * node) list **)

let adde e l =
  if existsb (eqe e) l then l else app l (e :: [])

(** val p_add_node : bool -> pgraph -> node -> xtime -> pgraph **)

let p_add_node w h u d =
  { pg_nodes = (addn u h.pg_nodes); pg_edges = h.pg_edges; pg_dur =
    (if w
     then app (filter (fun nd -> negb (N.eqb (fst nd) u)) h.pg_dur) ((u,
            d) :: [])
     else h.pg_dur); pg_delay = h.pg_delay }

(** val p_add_edge : bool -> pgraph -> node -> node -> xtime -> pgraph **)

let p_add_edge w h u v d =
  { pg_nodes = (addn v (addn u h.pg_nodes)); pg_edges =
    (adde (u, v) h.pg_edges); pg_dur = h.pg_dur; pg_delay =
    (if w
     then app (filter (fun e -> negb (eqe (fst e) (u, v))) h.pg_delay) (((u,
            v), d) :: [])
     else h.pg_delay) }

(** val to_graph : pgraph -> graph **)

let to_graph h =
  graph_of h.pg_nodes h.pg_edges true

(** val xle : xtime -> xtime -> bool **)

let xle a b =
  match a with
  | Some x -> (match b with
               | Some y -> qleb x y
               | None -> true)
  | None -> (match b with
             | Some _ -> false
             | None -> true)

type rcall =
| CallRec of node
| CallTrans of node * node

(** val timing_inner :
    (node -> node -> xtime) -> bool -> node -> xtime -> node list -> pgraph
    -> pgraph **)

let timing_inner delay w u du nbrs h =
  fold_left (fun h0 v ->
    let d = delay u v in if xle d du then p_add_edge w h0 u v d else h0) nbrs
    h

(** val nm_perc_timing :
    (node -> xtime) -> (node -> node -> xtime) -> graph -> bool -> pgraph **)

let nm_perc_timing dur delay g w =
  fold_left (fun h u ->
    let du = dur u in
    timing_inner delay w u du (g.gadj u) (p_add_node w h u du)) g.gnodes
    pg_empty

(** val nm_perc_timing_calls : graph -> rcall list **)

let nm_perc_timing_calls g =
  flat_map (fun u -> (CallRec
    u) :: (map (fun x -> CallTrans (u, x)) (g.gadj u))) g.gnodes

(** val nm_inner :
    (node -> 'a1 option) -> (node -> 'a2 option) -> ('a1 -> 'a2 -> bool) ->
    node -> node list -> pgraph -> pgraph result **)

let rec nm_inner xi zeta transmission u nbrs h =
  match nbrs with
  | [] -> Ok h
  | v :: t ->
    (match xi u with
     | Some a ->
       (match zeta v with
        | Some b ->
          nm_inner xi zeta transmission u t
            (if transmission a b then p_add_edge false h u v None else h)
        | None -> Err KeyErr)
     | None -> Err KeyErr)

(** val nm_outer :
    (node -> 'a1 option) -> (node -> 'a2 option) -> ('a1 -> 'a2 -> bool) ->
    graph -> node list -> pgraph -> pgraph result **)

let rec nm_outer xi zeta transmission g nodes h =
  match nodes with
  | [] -> Ok h
  | u :: t ->
    rbind
      (nm_inner xi zeta transmission u (g.gadj u) (p_add_node false h u None))
      (nm_outer xi zeta transmission g t)

(** val nm_perc :
    (node -> 'a1 option) -> (node -> 'a2 option) -> ('a1 -> 'a2 -> bool) ->
    graph -> pgraph result **)

let nm_perc xi zeta transmission g =
  nm_outer xi zeta transmission g g.gnodes pg_empty

(** val draw_time : q -> (xtime -> 'a1 samp) -> 'a1 samp **)

let draw_time rate k =
  if qltb { qnum = Z0; qden = XH } rate
  then Expo (rate, (fun d -> k (Some d)))
  else k None

(** val dpn_inner :
    q -> bool -> node -> xtime -> node list -> pgraph -> pgraph samp **)

let rec dpn_inner tau w u du nbrs h =
  match nbrs with
  | [] -> Ret h
  | v :: t ->
    draw_time tau (fun d ->
      dpn_inner tau w u du t (if xle d du then p_add_edge w h u v d else h))

(** val dpn_outer :
    graph -> q -> q -> bool -> node list -> pgraph -> pgraph samp **)

let rec dpn_outer g tau gamma w nodes h =
  match nodes with
  | [] -> Ret h
  | u :: t ->
    draw_time gamma (fun du ->
      bind (dpn_inner tau w u du (g.gadj u) (p_add_node w h u du))
        (dpn_outer g tau gamma w t))

(** val directed_percolate_network :
    graph -> q -> q -> bool -> pgraph samp **)

let directed_percolate_network g tau gamma w =
  dpn_outer g tau gamma w g.gnodes pg_empty

(** val remove_nodes : pgraph -> node list -> pgraph **)

let remove_nodes h r0 =
  { pg_nodes = (filter (fun x -> negb (mem x r0)) h.pg_nodes); pg_edges =
    (filter (fun e -> (&&) (negb (mem (fst e) r0)) (negb (mem (snd e) r0)))
      h.pg_edges); pg_dur =
    (filter (fun nd -> negb (mem (fst nd) r0)) h.pg_dur); pg_delay =
    (filter (fun e ->
      (&&) (negb (mem (fst (fst e)) r0)) (negb (mem (snd (fst e)) r0)))
      h.pg_delay) }

(** val as_set : graph -> source -> node list result **)

let as_set g = function
| One u -> if has_node g u then Ok (u :: []) else Err TypeErr
| Many l -> Ok (dedup l)

(** val infected_nodes_in :
    pgraph -> node list -> node list -> node list result **)

let infected_nodes_in h i0 r0 =
  if forallb (fun x -> mem x h.pg_nodes) r0
  then out_component (to_graph (remove_nodes h r0)) (Many i0)
  else Err PyException

(** val get_infected_nodes :
    graph -> q -> q -> source -> source -> node list samp **)

let get_infected_nodes g tau gamma inf rec0 =
  match as_set g rec0 with
  | Ok r0 ->
    (match as_set g inf with
     | Ok i0 ->
       if existsb (fun x -> mem x r0) i0
       then Fail EoNError
       else bind (directed_percolate_network g tau gamma true) (fun h ->
              lift (infected_nodes_in h i0 r0))
     | Err e -> Fail e)
  | Err e -> Fail e

(** val nm_perc_tab :
    (node -> node option) -> (node -> node option) -> (node -> node -> bool)
    -> graph -> pgraph result **)

let nm_perc_tab =
  nm_perc

(** val exec_pgraph :
    pgraph samp -> q list -> call list -> pgraph result * call list **)

let exec_pgraph =
  exec

(** val exec_qq :
    (q * q) samp -> q list -> call list -> (q * q) result * call list **)

let exec_qq =
  exec

(** val exec_nodes :
    node list samp -> q list -> call list -> node list result * call list **)

let exec_nodes =
  exec
