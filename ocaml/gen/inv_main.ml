module ZZ = Z
module QQ = Q
open Inv_model
(* Shared glue for the drivers of the extracted models.  This text is pasted
   after "open <Comp>_model" by the build (harness/common.py build_driver), so
   the constructor names below refer to that component's extraction of
   Prelude/Samp/Graph.  Only conversion, parsing, printing and the choice of
   scripted draws live here; everything that decides a result is extracted Coq. *)

(* ---------- conversions ---------- *)
let rec pos_of_z (n : ZZ.t) : positive =
  if ZZ.equal n ZZ.one then XH
  else if ZZ.is_odd n then XI (pos_of_z (ZZ.shift_right n 1))
  else XO (pos_of_z (ZZ.shift_right n 1))
let z_of_zt (n : ZZ.t) : z =
  if ZZ.sign n = 0 then Z0 else if ZZ.sign n > 0 then Zpos (pos_of_z n) else Zneg (pos_of_z (ZZ.neg n))
let n_of_zt (n : ZZ.t) : n = if ZZ.sign n = 0 then N0 else Npos (pos_of_z n)
let n_of_int (i : int) : n = n_of_zt (ZZ.of_int i)
let rec zt_of_pos = function
  | XH -> ZZ.one
  | XO p -> ZZ.shift_left (zt_of_pos p) 1
  | XI p -> ZZ.succ (ZZ.shift_left (zt_of_pos p) 1)
let zt_of_z = function Z0 -> ZZ.zero | Zpos p -> zt_of_pos p | Zneg p -> ZZ.neg (zt_of_pos p)
let zt_of_n = function N0 -> ZZ.zero | Npos p -> zt_of_pos p
let int_of_n x = ZZ.to_int (zt_of_n x)
let rec nat_of_int n = if n <= 0 then O else S (nat_of_int (n - 1))
let int_of_nat x = let rec go a = function O -> a | S n -> go (a + 1) n in go 0 x
let mkq (a : ZZ.t) (b : ZZ.t) : q = { qnum = z_of_zt a; qden = pos_of_z b }
let qq_of_q (x : q) : QQ.t = QQ.make (zt_of_z x.qnum) (zt_of_pos x.qden)
let q_of_qq (x : QQ.t) : q = mkq (QQ.num x) (QQ.den x)
let sq (x : q) : string =
  let x = qq_of_q x in
  ZZ.to_string (QQ.num x) ^ "/" ^ ZZ.to_string (QQ.den x)
let sn (x : n) = ZZ.to_string (zt_of_n x)
let sz (x : z) = ZZ.to_string (zt_of_z x)
let qi (a : int) (b : int) : q = q_of_qq (QQ.of_ints a b)

(* ---------- token reader ---------- *)
let toks : string list ref = ref []
let next () = match !toks with t :: r -> toks := r; t | [] -> failwith "unexpected end of line"
let more () = !toks <> []
let nint () = int_of_string (next ())
let nzt () = ZZ.of_string (next ())
let nq () = let a = nzt () in let b = nzt () in mkq a b
let nn () = n_of_zt (nzt ())
let nbool () = nint () = 1
let nlist f = let k = nint () in List.init k (fun _ -> f ())
let nopt f = if nint () = 1 then Some (f ()) else None
let buf = Buffer.create 65536
let out s = Buffer.add_string buf s
let skey (k : n list) = String.concat "," (List.map sn k)
let skeys (ks : n list list) = String.concat ";" (List.map skey ks)

(* names of the Python failure modes of Base/Prelude.v *)
let err_name = function
  | EoNError -> "EoNError" | ZeroDivision -> "ZeroDivisionError" | IndexErr -> "IndexError"
  | KeyErr -> "KeyError" | TypeErr -> "TypeError" | NameErr -> "NameError"
  | ValueErr -> "ValueError" | PyException -> "Exception"
  | OutOfDraws -> "OutOfDraws" | OutOfFuel -> "OutOfFuel"


(* ---------- main loop: one case per line, dispatch on the first token ---------- *)
let main (dispatch : string -> unit) =
  try
    while true do
      let line = input_line stdin in
      toks := List.filter (fun s -> s <> "") (String.split_on_char ' ' line);
      Buffer.clear buf;
      (try dispatch (next ())
       with Failure m -> out (" DRIVERFAIL " ^ m)
          | Stack_overflow -> out " DRIVERFAIL stack_overflow"
          | Not_found -> out " DRIVERFAIL not_found"
          | Invalid_argument m -> out (" DRIVERFAIL invalid_argument " ^ m));
      print_endline (Buffer.contents buf)
    done
  with End_of_file -> ()

(* GLUE: base err main *)
(* Driver of component 'inv' (Model/Investigation.v, property C10, generic part).
   Parsing and printing only; every result is computed by the extracted definitions. *)
let read_hist () : (q * n) list = nlist (fun () -> let t = nq () in let s = nn () in (t, s))
(* object: nodes | histories | default | possible statuses *)
let read_inv () : inv =
  let nodes = nlist nn in
  let hist = nlist (fun () -> let u = nn () in let h = read_hist () in (u, h)) in
  let dflt = nopt read_hist in
  let ps = nopt (fun () -> nlist nn) in
  { iv_nodes = nodes; iv_hist = hist; iv_default = dflt; iv_ps = ps }
let read_rows () : (q * z list) list = nlist (fun () -> let t = nq () in let cs = nlist (fun () -> z_of_zt (nzt ())) in (t, cs))
let srow (t, cs) = sq t ^ ":" ^ String.concat "," (List.map sz cs)
let res pr = function Ok a -> out ("OK " ^ pr a) | Err e -> out ("ERR " ^ err_name e)
let srows rows = String.concat " " (List.map srow rows)
let shist h = String.concat "," (List.map (fun (t, s) -> sq t ^ "@" ^ sn s) h)
let sassoc l = String.concat " " (List.map (fun (u, h) -> sn u ^ "=" ^ shist h) l)

let run_sum () = let iv = read_inv () in let nl = nopt (fun () -> nlist nn) in res srows (summary iv nl)
let run_cols () =
  let iv = read_inv () in
  res (fun l -> String.concat "," (List.map sq l)) (iv_t iv); out " | ";
  let zl l = String.concat "," (List.map sz l) in
  res zl (iv_S iv); out " | "; res zl (iv_I iv); out " | "; res zl (iv_R iv)
let run_nst () = let iv = read_inv () in let u = nn () in let t = nq () in res sn (node_status iv u t)
let run_gst () =
  let iv = read_inv () in
  let nl = nopt (fun () -> nlist nn) in
  let t = nopt nq in
  res (fun l -> String.concat "," (List.sort compare (List.map (fun (u, s) -> sn u ^ "=" ^ sn s) l))) (get_statuses iv nl t)
let run_trsir () =
  let tmin = nq () in
  let pr () = nlist (fun () -> let u = nn () in let t = nq () in (u, t)) in
  let inf = pr () in let rc = pr () in
  out ("OK " ^ sassoc (transform_SIR tmin inf rc))
let run_trsis () =
  let tmin = nq () in
  let pr () = nlist (fun () -> let u = nn () in let l = nlist nq in (u, l)) in
  let inf = pr () in let rc = pr () in
  out ("OK " ^ sassoc (transform_SIS tmin inf rc))
(* INVCHK <obj> rows tmin moves : the checker of Props/C10.v on implementation outputs *)
let run_chk () =
  let iv = read_inv () in
  let rows = read_rows () in
  let tmin = nq () in
  let mv = nlist (fun () -> let a = nn () in let b = nn () in (a, b)) in
  match consistent iv rows tmin mv with
  | VOk -> out "OK"
  | VBadHistory u -> out ("BADHIST " ^ sn u)
  | VBadSummary t -> out ("BADSUM " ^ sq t)
  | VErr e -> out ("ERR " ^ err_name e)
(* LOG nodes ps tmin (init per node) events : arrays of a log and summary of its projections *)
let run_log () =
  let nodes = nlist nn in
  let ps = nlist nn in
  let tmin = nq () in
  let init = Array.of_list (List.map (fun _ -> nn ()) nodes) in
  let initf u = let i = int_of_n u in if i < Array.length init then init.(i) else N0 in
  let log = nlist (fun () -> let t = nq () in let u = nn () in let s = nn () in ((t, u), s)) in
  out ("ARR " ^ srows (log_arrays nodes ps tmin initf log) ^ " | SUM ");
  res srows (summary (log_inv nodes ps tmin initf log) None)

let () = main (function
    | "SUM" -> run_sum ()
    | "COLS" -> run_cols ()
    | "NST" -> run_nst ()
    | "GST" -> run_gst ()
    | "TRSIR" -> run_trsir ()
    | "TRSIS" -> run_trsis ()
    | "INVCHK" -> run_chk ()
    | "LOG" -> run_log ()
    | c -> out ("BADCMD " ^ c))
