
(** val negb : bool -> bool **)

let negb = function
| true -> false
| false -> true

type nat =
| O
| S of nat

(** val fst : ('a1 * 'a2) -> 'a1 **)

let fst = function
| (x, _) -> x

(** val snd : ('a1 * 'a2) -> 'a2 **)

let snd = function
| (_, y) -> y

(** val length : 'a1 list -> nat **)

let rec length = function
| [] -> O
| _ :: l' -> S (length l')

(** val app : 'a1 list -> 'a1 list -> 'a1 list **)

let rec app l m =
  match l with
  | [] -> m
  | a :: l1 -> a :: (app l1 m)

type comparison =
| Eq
| Lt
| Gt

(** val compOpp : comparison -> comparison **)

let compOpp = function
| Eq -> Eq
| Lt -> Gt
| Gt -> Lt

module Coq__1 = struct
 (** val add : nat -> nat -> nat **)
 let rec add n0 m =
   match n0 with
   | O -> m
   | S p -> S (add p m)
end
include Coq__1

type positive =
| XI of positive
| XO of positive
| XH

type n =
| N0
| Npos of positive

type z =
| Z0
| Zpos of positive
| Zneg of positive

module Nat =
 struct
  (** val pred : nat -> nat **)

  let pred n0 = match n0 with
  | O -> n0
  | S u -> u

  (** val leb : nat -> nat -> bool **)

  let rec leb n0 m =
    match n0 with
    | O -> true
    | S n' -> (match m with
               | O -> false
               | S m' -> leb n' m')

  (** val ltb : nat -> nat -> bool **)

  let ltb n0 m =
    leb (S n0) m
 end

module Pos =
 struct
  type mask =
  | IsNul
  | IsPos of positive
  | IsNeg
 end

module Coq_Pos =
 struct
  (** val succ : positive -> positive **)

  let rec succ = function
  | XI p -> XO (succ p)
  | XO p -> XI p
  | XH -> XO XH

  (** val add : positive -> positive -> positive **)

  let rec add x y =
    match x with
    | XI p ->
      (match y with
       | XI q0 -> XO (add_carry p q0)
       | XO q0 -> XI (add p q0)
       | XH -> XO (succ p))
    | XO p ->
      (match y with
       | XI q0 -> XI (add p q0)
       | XO q0 -> XO (add p q0)
       | XH -> XI p)
    | XH -> (match y with
             | XI q0 -> XO (succ q0)
             | XO q0 -> XI q0
             | XH -> XO XH)

  (** val add_carry : positive -> positive -> positive **)

  and add_carry x y =
    match x with
    | XI p ->
      (match y with
       | XI q0 -> XI (add_carry p q0)
       | XO q0 -> XO (add_carry p q0)
       | XH -> XI (succ p))
    | XO p ->
      (match y with
       | XI q0 -> XO (add_carry p q0)
       | XO q0 -> XI (add p q0)
       | XH -> XO (succ p))
    | XH ->
      (match y with
       | XI q0 -> XI (succ q0)
       | XO q0 -> XO (succ q0)
       | XH -> XI XH)

  (** val pred_double : positive -> positive **)

  let rec pred_double = function
  | XI p -> XI (XO p)
  | XO p -> XI (pred_double p)
  | XH -> XH

  type mask = Pos.mask =
  | IsNul
  | IsPos of positive
  | IsNeg

  (** val succ_double_mask : mask -> mask **)

  let succ_double_mask = function
  | IsNul -> IsPos XH
  | IsPos p -> IsPos (XI p)
  | IsNeg -> IsNeg

  (** val double_mask : mask -> mask **)

  let double_mask = function
  | IsPos p -> IsPos (XO p)
  | x0 -> x0

  (** val double_pred_mask : positive -> mask **)

  let double_pred_mask = function
  | XI p -> IsPos (XO (XO p))
  | XO p -> IsPos (XO (pred_double p))
  | XH -> IsNul

  (** val sub_mask : positive -> positive -> mask **)

  let rec sub_mask x y =
    match x with
    | XI p ->
      (match y with
       | XI q0 -> double_mask (sub_mask p q0)
       | XO q0 -> succ_double_mask (sub_mask p q0)
       | XH -> IsPos (XO p))
    | XO p ->
      (match y with
       | XI q0 -> succ_double_mask (sub_mask_carry p q0)
       | XO q0 -> double_mask (sub_mask p q0)
       | XH -> IsPos (pred_double p))
    | XH -> (match y with
             | XH -> IsNul
             | _ -> IsNeg)

  (** val sub_mask_carry : positive -> positive -> mask **)

  and sub_mask_carry x y =
    match x with
    | XI p ->
      (match y with
       | XI q0 -> succ_double_mask (sub_mask_carry p q0)
       | XO q0 -> double_mask (sub_mask p q0)
       | XH -> IsPos (pred_double p))
    | XO p ->
      (match y with
       | XI q0 -> double_mask (sub_mask_carry p q0)
       | XO q0 -> succ_double_mask (sub_mask_carry p q0)
       | XH -> double_pred_mask p)
    | XH -> IsNeg

  (** val sub : positive -> positive -> positive **)

  let sub x y =
    match sub_mask x y with
    | IsPos z0 -> z0
    | _ -> XH

  (** val mul : positive -> positive -> positive **)

  let rec mul x y =
    match x with
    | XI p -> add y (XO (mul p y))
    | XO p -> XO (mul p y)
    | XH -> y

  (** val size_nat : positive -> nat **)

  let rec size_nat = function
  | XI p0 -> S (size_nat p0)
  | XO p0 -> S (size_nat p0)
  | XH -> S O

  (** val compare_cont : comparison -> positive -> positive -> comparison **)

  let rec compare_cont r x y =
    match x with
    | XI p ->
      (match y with
       | XI q0 -> compare_cont r p q0
       | XO q0 -> compare_cont Gt p q0
       | XH -> Gt)
    | XO p ->
      (match y with
       | XI q0 -> compare_cont Lt p q0
       | XO q0 -> compare_cont r p q0
       | XH -> Gt)
    | XH -> (match y with
             | XH -> r
             | _ -> Lt)

  (** val compare : positive -> positive -> comparison **)

  let compare =
    compare_cont Eq

  (** val eqb : positive -> positive -> bool **)

  let rec eqb p q0 =
    match p with
    | XI p0 -> (match q0 with
                | XI q1 -> eqb p0 q1
                | _ -> false)
    | XO p0 -> (match q0 with
                | XO q1 -> eqb p0 q1
                | _ -> false)
    | XH -> (match q0 with
             | XH -> true
             | _ -> false)

  (** val ggcdn :
      nat -> positive -> positive -> positive * (positive * positive) **)

  let rec ggcdn n0 a b =
    match n0 with
    | O -> (XH, (a, b))
    | S n1 ->
      (match a with
       | XI a' ->
         (match b with
          | XI b' ->
            (match compare a' b' with
             | Eq -> (a, (XH, XH))
             | Lt ->
               let (g, p) = ggcdn n1 (sub b' a') a in
               let (ba, aa) = p in (g, (aa, (add aa (XO ba))))
             | Gt ->
               let (g, p) = ggcdn n1 (sub a' b') b in
               let (ab, bb) = p in (g, ((add bb (XO ab)), bb)))
          | XO b0 ->
            let (g, p) = ggcdn n1 a b0 in
            let (aa, bb) = p in (g, (aa, (XO bb)))
          | XH -> (XH, (a, XH)))
       | XO a0 ->
         (match b with
          | XI _ ->
            let (g, p) = ggcdn n1 a0 b in
            let (aa, bb) = p in (g, ((XO aa), bb))
          | XO b0 -> let (g, p) = ggcdn n1 a0 b0 in ((XO g), p)
          | XH -> (XH, (a, XH)))
       | XH -> (XH, (XH, b)))

  (** val ggcd : positive -> positive -> positive * (positive * positive) **)

  let ggcd a b =
    ggcdn (Coq__1.add (size_nat a) (size_nat b)) a b

  (** val iter_op : ('a1 -> 'a1 -> 'a1) -> positive -> 'a1 -> 'a1 **)

  let rec iter_op op p a =
    match p with
    | XI p0 -> op a (iter_op op p0 (op a a))
    | XO p0 -> iter_op op p0 (op a a)
    | XH -> a

  (** val to_nat : positive -> nat **)

  let to_nat x =
    iter_op Coq__1.add x (S O)

  (** val of_succ_nat : nat -> positive **)

  let rec of_succ_nat = function
  | O -> XH
  | S x -> succ (of_succ_nat x)
 end

module N =
 struct
  (** val eqb : n -> n -> bool **)

  let eqb n0 m =
    match n0 with
    | N0 -> (match m with
             | N0 -> true
             | Npos _ -> false)
    | Npos p -> (match m with
                 | N0 -> false
                 | Npos q0 -> Coq_Pos.eqb p q0)
 end

module Z =
 struct
  (** val double : z -> z **)

  let double = function
  | Z0 -> Z0
  | Zpos p -> Zpos (XO p)
  | Zneg p -> Zneg (XO p)

  (** val succ_double : z -> z **)

  let succ_double = function
  | Z0 -> Zpos XH
  | Zpos p -> Zpos (XI p)
  | Zneg p -> Zneg (Coq_Pos.pred_double p)

  (** val pred_double : z -> z **)

  let pred_double = function
  | Z0 -> Zneg XH
  | Zpos p -> Zpos (Coq_Pos.pred_double p)
  | Zneg p -> Zneg (XI p)

  (** val pos_sub : positive -> positive -> z **)

  let rec pos_sub x y =
    match x with
    | XI p ->
      (match y with
       | XI q0 -> double (pos_sub p q0)
       | XO q0 -> succ_double (pos_sub p q0)
       | XH -> Zpos (XO p))
    | XO p ->
      (match y with
       | XI q0 -> pred_double (pos_sub p q0)
       | XO q0 -> double (pos_sub p q0)
       | XH -> Zpos (Coq_Pos.pred_double p))
    | XH ->
      (match y with
       | XI q0 -> Zneg (XO q0)
       | XO q0 -> Zneg (Coq_Pos.pred_double q0)
       | XH -> Z0)

  (** val add : z -> z -> z **)

  let add x y =
    match x with
    | Z0 -> y
    | Zpos x' ->
      (match y with
       | Z0 -> x
       | Zpos y' -> Zpos (Coq_Pos.add x' y')
       | Zneg y' -> pos_sub x' y')
    | Zneg x' ->
      (match y with
       | Z0 -> x
       | Zpos y' -> pos_sub y' x'
       | Zneg y' -> Zneg (Coq_Pos.add x' y'))

  (** val opp : z -> z **)

  let opp = function
  | Z0 -> Z0
  | Zpos x0 -> Zneg x0
  | Zneg x0 -> Zpos x0

  (** val sub : z -> z -> z **)

  let sub m n0 =
    add m (opp n0)

  (** val mul : z -> z -> z **)

  let mul x y =
    match x with
    | Z0 -> Z0
    | Zpos x' ->
      (match y with
       | Z0 -> Z0
       | Zpos y' -> Zpos (Coq_Pos.mul x' y')
       | Zneg y' -> Zneg (Coq_Pos.mul x' y'))
    | Zneg x' ->
      (match y with
       | Z0 -> Z0
       | Zpos y' -> Zneg (Coq_Pos.mul x' y')
       | Zneg y' -> Zpos (Coq_Pos.mul x' y'))

  (** val compare : z -> z -> comparison **)

  let compare x y =
    match x with
    | Z0 -> (match y with
             | Z0 -> Eq
             | Zpos _ -> Lt
             | Zneg _ -> Gt)
    | Zpos x' -> (match y with
                  | Zpos y' -> Coq_Pos.compare x' y'
                  | _ -> Gt)
    | Zneg x' ->
      (match y with
       | Zneg y' -> compOpp (Coq_Pos.compare x' y')
       | _ -> Lt)

  (** val sgn : z -> z **)

  let sgn = function
  | Z0 -> Z0
  | Zpos _ -> Zpos XH
  | Zneg _ -> Zneg XH

  (** val leb : z -> z -> bool **)

  let leb x y =
    match compare x y with
    | Gt -> false
    | _ -> true

  (** val ltb : z -> z -> bool **)

  let ltb x y =
    match compare x y with
    | Lt -> true
    | _ -> false

  (** val abs : z -> z **)

  let abs = function
  | Zneg p -> Zpos p
  | x -> x

  (** val to_nat : z -> nat **)

  let to_nat = function
  | Zpos p -> Coq_Pos.to_nat p
  | _ -> O

  (** val of_nat : nat -> z **)

  let of_nat = function
  | O -> Z0
  | S n1 -> Zpos (Coq_Pos.of_succ_nat n1)

  (** val to_pos : z -> positive **)

  let to_pos = function
  | Zpos p -> p
  | _ -> XH

  (** val pos_div_eucl : positive -> z -> z * z **)

  let rec pos_div_eucl a b =
    match a with
    | XI a' ->
      let (q0, r) = pos_div_eucl a' b in
      let r' = add (mul (Zpos (XO XH)) r) (Zpos XH) in
      if ltb r' b
      then ((mul (Zpos (XO XH)) q0), r')
      else ((add (mul (Zpos (XO XH)) q0) (Zpos XH)), (sub r' b))
    | XO a' ->
      let (q0, r) = pos_div_eucl a' b in
      let r' = mul (Zpos (XO XH)) r in
      if ltb r' b
      then ((mul (Zpos (XO XH)) q0), r')
      else ((add (mul (Zpos (XO XH)) q0) (Zpos XH)), (sub r' b))
    | XH -> if leb (Zpos (XO XH)) b then (Z0, (Zpos XH)) else ((Zpos XH), Z0)

  (** val div_eucl : z -> z -> z * z **)

  let div_eucl a b =
    match a with
    | Z0 -> (Z0, Z0)
    | Zpos a' ->
      (match b with
       | Z0 -> (Z0, a)
       | Zpos _ -> pos_div_eucl a' b
       | Zneg b' ->
         let (q0, r) = pos_div_eucl a' (Zpos b') in
         (match r with
          | Z0 -> ((opp q0), Z0)
          | _ -> ((opp (add q0 (Zpos XH))), (add b r))))
    | Zneg a' ->
      (match b with
       | Z0 -> (Z0, a)
       | Zpos _ ->
         let (q0, r) = pos_div_eucl a' b in
         (match r with
          | Z0 -> ((opp q0), Z0)
          | _ -> ((opp (add q0 (Zpos XH))), (sub b r)))
       | Zneg b' -> let (q0, r) = pos_div_eucl a' (Zpos b') in (q0, (opp r)))

  (** val div : z -> z -> z **)

  let div a b =
    let (q0, _) = div_eucl a b in q0

  (** val modulo : z -> z -> z **)

  let modulo a b =
    let (_, r) = div_eucl a b in r

  (** val even : z -> bool **)

  let even = function
  | Z0 -> true
  | Zpos p -> (match p with
               | XO _ -> true
               | _ -> false)
  | Zneg p -> (match p with
               | XO _ -> true
               | _ -> false)

  (** val ggcd : z -> z -> z * (z * z) **)

  let ggcd a b =
    match a with
    | Z0 -> ((abs b), (Z0, (sgn b)))
    | Zpos a0 ->
      (match b with
       | Z0 -> ((abs a), ((sgn a), Z0))
       | Zpos b0 ->
         let (g, p) = Coq_Pos.ggcd a0 b0 in
         let (aa, bb) = p in ((Zpos g), ((Zpos aa), (Zpos bb)))
       | Zneg b0 ->
         let (g, p) = Coq_Pos.ggcd a0 b0 in
         let (aa, bb) = p in ((Zpos g), ((Zpos aa), (Zneg bb))))
    | Zneg a0 ->
      (match b with
       | Z0 -> ((abs a), ((sgn a), Z0))
       | Zpos b0 ->
         let (g, p) = Coq_Pos.ggcd a0 b0 in
         let (aa, bb) = p in ((Zpos g), ((Zneg aa), (Zpos bb)))
       | Zneg b0 ->
         let (g, p) = Coq_Pos.ggcd a0 b0 in
         let (aa, bb) = p in ((Zpos g), ((Zneg aa), (Zneg bb))))
 end

(** val z_lt_dec : z -> z -> bool **)

let z_lt_dec x y =
  match Z.compare x y with
  | Lt -> true
  | _ -> false

(** val z_lt_ge_dec : z -> z -> bool **)

let z_lt_ge_dec =
  z_lt_dec

(** val z_lt_le_dec : z -> z -> bool **)

let z_lt_le_dec =
  z_lt_ge_dec

(** val zeq_bool : z -> z -> bool **)

let zeq_bool x y =
  match Z.compare x y with
  | Eq -> true
  | _ -> false

(** val nth : nat -> 'a1 list -> 'a1 -> 'a1 **)

let rec nth n0 l default =
  match n0 with
  | O -> (match l with
          | [] -> default
          | x :: _ -> x)
  | S m -> (match l with
            | [] -> default
            | _ :: t -> nth m t default)

(** val nth_error : 'a1 list -> nat -> 'a1 option **)

let rec nth_error l = function
| O -> (match l with
        | [] -> None
        | x :: _ -> Some x)
| S n1 -> (match l with
           | [] -> None
           | _ :: l0 -> nth_error l0 n1)

(** val rev : 'a1 list -> 'a1 list **)

let rec rev = function
| [] -> []
| x :: l' -> app (rev l') (x :: [])

(** val concat : 'a1 list list -> 'a1 list **)

let rec concat = function
| [] -> []
| x :: l0 -> app x (concat l0)

(** val map : ('a1 -> 'a2) -> 'a1 list -> 'a2 list **)

let rec map f = function
| [] -> []
| a :: t -> (f a) :: (map f t)

(** val fold_left : ('a1 -> 'a2 -> 'a1) -> 'a2 list -> 'a1 -> 'a1 **)

let rec fold_left f l a0 =
  match l with
  | [] -> a0
  | b :: t -> fold_left f t (f a0 b)

(** val forallb : ('a1 -> bool) -> 'a1 list -> bool **)

let rec forallb f = function
| [] -> true
| a :: l0 -> (&&) (f a) (forallb f l0)

(** val filter : ('a1 -> bool) -> 'a1 list -> 'a1 list **)

let rec filter f = function
| [] -> []
| x :: l0 -> if f x then x :: (filter f l0) else filter f l0

(** val firstn : nat -> 'a1 list -> 'a1 list **)

let rec firstn n0 l =
  match n0 with
  | O -> []
  | S n1 -> (match l with
             | [] -> []
             | a :: l0 -> a :: (firstn n1 l0))

(** val skipn : nat -> 'a1 list -> 'a1 list **)

let rec skipn n0 l =
  match n0 with
  | O -> l
  | S n1 -> (match l with
             | [] -> []
             | _ :: l0 -> skipn n1 l0)

type q = { qnum : z; qden : positive }

(** val inject_Z : z -> q **)

let inject_Z x =
  { qnum = x; qden = XH }

(** val qeq_bool : q -> q -> bool **)

let qeq_bool x y =
  zeq_bool (Z.mul x.qnum (Zpos y.qden)) (Z.mul y.qnum (Zpos x.qden))

(** val qplus : q -> q -> q **)

let qplus x y =
  { qnum = (Z.add (Z.mul x.qnum (Zpos y.qden)) (Z.mul y.qnum (Zpos x.qden)));
    qden = (Coq_Pos.mul x.qden y.qden) }

(** val qmult : q -> q -> q **)

let qmult x y =
  { qnum = (Z.mul x.qnum y.qnum); qden = (Coq_Pos.mul x.qden y.qden) }

(** val qopp : q -> q **)

let qopp x =
  { qnum = (Z.opp x.qnum); qden = x.qden }

(** val qminus : q -> q -> q **)

let qminus x y =
  qplus x (qopp y)

(** val qlt_le_dec : q -> q -> bool **)

let qlt_le_dec x y =
  z_lt_le_dec (Z.mul x.qnum (Zpos y.qden)) (Z.mul y.qnum (Zpos x.qden))

(** val qred : q -> q **)

let qred q0 =
  let { qnum = q1; qden = q2 } = q0 in
  let (r1, r2) = snd (Z.ggcd q1 (Zpos q2)) in
  { qnum = r1; qden = (Z.to_pos r2) }

type err =
| EoNError
| ZeroDivision
| IndexErr
| KeyErr
| TypeErr
| NameErr
| ValueErr
| PyException
| OutOfDraws
| OutOfFuel

type 'a result =
| Ok of 'a
| Err of err

(** val rbind : 'a1 result -> ('a1 -> 'a2 result) -> 'a2 result **)

let rbind r f =
  match r with
  | Ok a -> f a
  | Err e -> Err e

type xtime = q option

(** val xlt : q -> xtime -> bool **)

let xlt a = function
| Some m -> if qlt_le_dec a m then true else false
| None -> true

(** val qltb : q -> q -> bool **)

let qltb a b =
  if qlt_le_dec a b then true else false

(** val qeqb : q -> q -> bool **)

let qeqb =
  qeq_bool

(** val qnat : nat -> q **)

let qnat n0 =
  inject_Z (Z.of_nat n0)

type key = n list

type 'a samp =
| Ret of 'a
| Fail of err
| Expo of q * (q -> 'a samp)
| Flip of q * 'a samp * 'a samp
| Casc of q list * (nat -> 'a samp)
| Choose of bool * (key * q) list * (key -> 'a samp)
| Unif of key list * (key -> 'a samp)
| Sample of key list * nat * (key list -> 'a samp)

type call =
| CExpo of q
| CFlip of q
| CCasc of q list
| CPick of key list
| CAcc of q
| CSample of key list * nat

(** val rank : q -> nat **)

let rank d =
  Z.to_nat (Z.div d.qnum (Zpos d.qden))

(** val casc_index : q list -> q -> nat -> nat **)

let rec casc_index ps d i =
  match ps with
  | [] -> Nat.pred i
  | p :: ps' ->
    if qltb (qminus d p) { qnum = Z0; qden = XH }
    then i
    else casc_index ps' (qminus d p) (S i)

(** val choose_exec :
    bool -> (key * q) list -> q list -> call list -> (key result * call
    list) * q list **)

let rec choose_exec weighted cands ds tr =
  match cands with
  | [] -> (((Err IndexErr), ((CPick []) :: tr)), ds)
  | _ :: _ ->
    (match ds with
     | [] -> (((Err OutOfDraws), tr), [])
     | r :: ds1 ->
       (match nth_error cands (rank r) with
        | Some p ->
          let (c, w) = p in
          let tr1 = (CPick (map fst cands)) :: tr in
          if weighted
          then (match ds1 with
                | [] -> (((Err OutOfDraws), tr1), [])
                | _ :: ds2 ->
                  if qltb { qnum = Z0; qden = XH } w
                  then (((Ok c), ((CAcc w) :: tr1)), ds2)
                  else choose_exec weighted cands ds2 ((CAcc w) :: tr1))
          else (((Ok c), tr1), ds1)
        | None -> (((Err OutOfDraws), tr), ds1)))

(** val rotate : nat -> 'a1 list -> 'a1 list **)

let rotate n0 l =
  app (skipn n0 l) (firstn n0 l)

(** val unit_draw : q -> bool **)

let unit_draw d =
  (&&) (negb (qltb d { qnum = Z0; qden = XH }))
    (qltb d { qnum = (Zpos XH); qden = XH })

(** val exec : 'a1 samp -> q list -> call list -> 'a1 result * call list **)

let rec exec m ds tr =
  match m with
  | Ret a -> ((Ok a), (rev tr))
  | Fail e -> ((Err e), (rev tr))
  | Expo (r, k) ->
    if qeqb r { qnum = Z0; qden = XH }
    then ((Err ZeroDivision), (rev ((CExpo r) :: tr)))
    else (match ds with
          | [] -> ((Err OutOfDraws), (rev tr))
          | d :: ds' ->
            if qltb d { qnum = Z0; qden = XH }
            then ((Err OutOfDraws), (rev tr))
            else exec (k d) ds' ((CExpo r) :: tr))
  | Flip (p, kt, kf) ->
    (match ds with
     | [] -> ((Err OutOfDraws), (rev tr))
     | d :: ds' ->
       if unit_draw d
       then exec (if qltb d p then kt else kf) ds' ((CFlip p) :: tr)
       else ((Err OutOfDraws), (rev tr)))
  | Casc (ps, k) ->
    (match ds with
     | [] -> ((Err OutOfDraws), (rev tr))
     | d :: ds' ->
       if unit_draw d
       then exec (k (casc_index ps d O)) ds' ((CCasc ps) :: tr)
       else ((Err OutOfDraws), (rev tr)))
  | Choose (w, c, k) ->
    let (p, ds') = choose_exec w c ds tr in
    let (r, tr') = p in
    (match r with
     | Ok x -> exec (k x) ds' tr'
     | Err e -> ((Err e), (rev tr')))
  | Unif (c, k) ->
    (match c with
     | [] -> ((Err IndexErr), (rev ((CPick []) :: tr)))
     | _ :: _ ->
       (match ds with
        | [] -> ((Err OutOfDraws), (rev tr))
        | d :: ds' ->
          (match nth_error c (rank d) with
           | Some x -> exec (k x) ds' ((CPick c) :: tr)
           | None -> ((Err OutOfDraws), (rev tr)))))
  | Sample (pop, n0, k) ->
    if Nat.ltb (length pop) n0
    then ((Err ValueErr), (rev ((CSample (pop, n0)) :: tr)))
    else (match ds with
          | [] -> ((Err OutOfDraws), (rev tr))
          | d :: ds' ->
            exec (k (firstn n0 (rotate (rank d) pop))) ds' ((CSample (pop,
              n0)) :: tr))

type node = n

type graph = { gnodes : node list; gadj : (node -> node list);
               gpred : (node -> node list); gdirected : bool;
               ew : (node -> node -> q); nw : (node -> q); ewt : bool;
               nwt : bool }

(** val order : graph -> z **)

let order g =
  Z.of_nat (length g.gnodes)

(** val stS : n **)

let stS =
  N0

(** val stI : n **)

let stI =
  Npos XH

(** val fupdN : (node -> 'a1) -> node -> 'a1 -> node -> 'a1 **)

let fupdN f k v x =
  if N.eqb x k then v else f x

type row = q * z list

type history = (q * n) list

type fulldata = { fd_hist : (node * history) list;
                  fd_trans : ((q * node option) * node) list }

type simout = { so_rows : row list; so_full : fulldata option }

(** val knode : node -> key **)

let knode u =
  u :: []

(** val tadd : q -> q -> q **)

let tadd a b =
  qred (qplus a b)

type 'e qent = (q * nat) * 'e

(** val qtime : 'a1 qent -> q **)

let qtime x =
  fst (fst x)

(** val qctr : 'a1 qent -> nat **)

let qctr x =
  snd (fst x)

(** val qbefore : 'a1 qent -> 'a1 qent -> bool **)

let qbefore x y =
  (||) (qltb (qtime x) (qtime y))
    ((&&) (qeqb (qtime x) (qtime y)) (Nat.ltb (qctr x) (qctr y)))

(** val qins : 'a1 qent -> 'a1 qent list -> 'a1 qent list **)

let rec qins x l = match l with
| [] -> x :: []
| h :: t -> if qbefore x h then x :: l else h :: (qins x t)

type 'e queue = { q_items : 'e qent list; q_ctr : nat }

(** val q_empty : 'a1 queue **)

let q_empty =
  { q_items = []; q_ctr = O }

(** val q_add : xtime -> 'a1 queue -> q -> 'a1 -> 'a1 queue **)

let q_add tmax q0 t e =
  if xlt t tmax
  then { q_items = (qins ((t, q0.q_ctr), e) q0.q_items); q_ctr = (S
         q0.q_ctr) }
  else q0

type logs = { l_rows : row list; l_elog : ((q * node) * n) list;
              l_tlog : ((q * node option) * node) list }

(** val hd_counts : row list -> z list **)

let hd_counts = function
| [] -> []
| r :: _ -> let (_, c) = r in c

(** val cnt : z list -> nat -> z **)

let cnt c i =
  nth i c Z0

(** val push2 : row list -> q -> z -> z -> row list **)

let push2 rs t dS dI =
  let c = hd_counts rs in
  (t, ((Z.add (cnt c O) dS) :: ((Z.add (cnt c (S O)) dI) :: []))) :: rs

(** val log_inf : logs -> q -> node option -> node -> logs **)

let log_inf l t src v =
  { l_rows = (push2 l.l_rows t (Zneg XH) (Zpos XH)); l_elog = (((t, v),
    stI) :: l.l_elog); l_tlog = (((t, src), v) :: l.l_tlog) }

(** val log_rec : logs -> q -> node -> logs **)

let log_rec l t v =
  { l_rows = (push2 l.l_rows t (Zpos XH) (Zneg XH)); l_elog = (((t, v),
    stS) :: l.l_elog); l_tlog = l.l_tlog }

(** val logs0 : graph -> q -> logs **)

let logs0 g tmin =
  { l_rows = ((tmin, ((order g) :: (Z0 :: []))) :: []); l_elog = []; l_tlog =
    [] }

(** val interleave : q list -> q list -> (q * n) list **)

let rec interleave its rts =
  match its with
  | [] -> []
  | i :: its' ->
    (match rts with
     | [] -> (i, stI) :: (interleave its' [])
     | r :: rts' -> (i, stI) :: ((r, stS) :: (interleave its' rts')))

(** val hist_sis : q -> (q * n) list -> history **)

let hist_sis tmin evs =
  fold_left (fun h e ->
    if (&&) (qeqb (fst e) tmin) (N.eqb (snd e) stI)
    then e :: []
    else app h (e :: [])) evs ((tmin, stS) :: [])

(** val times_of : node -> n -> ((q * node) * n) list -> q list **)

let times_of u s log =
  map (fun e -> fst (fst e))
    (filter (fun e -> (&&) (N.eqb (snd (fst e)) u) (N.eqb (snd e) s)) log)

(** val build_full : graph -> q -> logs -> fulldata **)

let build_full g tmin l =
  let log = rev l.l_elog in
  { fd_hist =
  (map (fun u -> (u,
    (hist_sis tmin (interleave (times_of u stI log) (times_of u stS log)))))
    g.gnodes); fd_trans = (rev l.l_tlog) }

(** val finish : graph -> q -> bool -> nat -> logs -> simout **)

let finish g tmin full ni0 l =
  { so_rows = (skipn ni0 (rev l.l_rows)); so_full =
    (if full then Some (build_full g tmin l) else None) }

(** val round_half_even : q -> z **)

let round_half_even x =
  let n0 = x.qnum in
  let d = Zpos x.qden in
  let q0 = Z.div n0 d in
  let r = Z.modulo n0 d in
  if Z.ltb (Z.mul (Zpos (XO XH)) r) d
  then q0
  else if Z.ltb d (Z.mul (Zpos (XO XH)) r)
       then Z.add q0 (Zpos XH)
       else if Z.even q0 then q0 else Z.add q0 (Zpos XH)

(** val with_initial :
    graph -> node list option -> q option -> (node list -> 'a1 samp) -> 'a1
    samp **)

let with_initial g i0 rho k =
  match rho with
  | Some _ ->
    (match i0 with
     | Some _ -> Fail EoNError
     | None ->
       let n0 =
         match rho with
         | Some r -> round_half_even (qmult (qnat (length g.gnodes)) r)
         | None -> Zpos XH
       in
       if Z.ltb n0 Z0
       then Fail ValueErr
       else Sample ((map knode g.gnodes), (Z.to_nat n0), (fun ks ->
              k (concat ks))))
  | None ->
    (match i0 with
     | Some l -> k l
     | None ->
       let n0 =
         match rho with
         | Some r -> round_half_even (qmult (qnat (length g.gnodes)) r)
         | None -> Zpos XH
       in
       if Z.ltb n0 Z0
       then Fail ValueErr
       else Sample ((map knode g.gnodes), (Z.to_nat n0), (fun ks ->
              k (concat ks))))

type nev =
| NRec of node
| NTrans of node option * node * q list

type nst = { ns_stat : (node -> n); ns_rec : (node -> q);
             ns_ord : (node -> nat); ns_q : nev queue; ns_log : logs }

(** val chain :
    xtime -> nev queue -> node option -> node -> q list -> nev queue **)

let chain tmax q0 src tgt = function
| [] -> q0
| h :: tl -> q_add tmax q0 h (NTrans (src, tgt, tl))

(** val n_sched :
    (node -> node -> nat -> q list) -> xtime -> q -> node -> nat -> (node ->
    n) -> (node -> q) -> nev queue -> node -> nev queue **)

let n_sched delays tmax time u k stat rec0 q0 v =
  match delays u v k with
  | [] -> q0
  | q1 :: l ->
    let tt = map (fun d -> tadd time d) (q1 :: l) in
    let tt0 =
      if N.eqb (stat v) stI then filter (fun t -> qltb (rec0 v) t) tt else tt
    in
    chain tmax q0 (Some u) v tt0

(** val n_trans :
    graph -> (node -> nat -> q) -> (node -> node -> nat -> q list) -> xtime
    -> q -> node option -> node -> q list -> nst -> nst **)

let n_trans g dur delays tmax time src tgt fut s =
  let s1 =
    if N.eqb (s.ns_stat tgt) stS
    then let k = s.ns_ord tgt in
         let stat' = fupdN s.ns_stat tgt stI in
         let rt = tadd time (dur tgt k) in
         let rec' = fupdN s.ns_rec tgt rt in
         let q1 =
           if xlt rt tmax then q_add tmax s.ns_q rt (NRec tgt) else s.ns_q
         in
         let q2 =
           fold_left (n_sched delays tmax time tgt k stat' rec') (g.gadj tgt)
             q1
         in
         { ns_stat = stat'; ns_rec = rec'; ns_ord =
         (fupdN s.ns_ord tgt (S k)); ns_q = q2; ns_log =
         (log_inf s.ns_log time src tgt) }
    else s
  in
  let tt = filter (fun t -> qltb (s1.ns_rec tgt) t) fut in
  { ns_stat = s1.ns_stat; ns_rec = s1.ns_rec; ns_ord = s1.ns_ord; ns_q =
  (chain tmax s1.ns_q src tgt tt); ns_log = s1.ns_log }

(** val n_recover : q -> node -> nst -> nst **)

let n_recover time v s =
  { ns_stat = (fupdN s.ns_stat v stS); ns_rec = s.ns_rec; ns_ord = s.ns_ord;
    ns_q = s.ns_q; ns_log = (log_rec s.ns_log time v) }

(** val n_event :
    graph -> (node -> nat -> q) -> (node -> node -> nat -> q list) -> xtime
    -> q -> nev -> nst -> nst **)

let n_event g dur delays tmax time e s =
  match e with
  | NRec v -> n_recover time v s
  | NTrans (src, tgt, fut) -> n_trans g dur delays tmax time src tgt fut s

(** val n_loop :
    graph -> (node -> nat -> q) -> (node -> node -> nat -> q list) -> xtime
    -> nat -> nst -> nst result **)

let rec n_loop g dur delays tmax fuel s =
  match s.ns_q.q_items with
  | [] -> Ok s
  | q0 :: rest ->
    let (p, e) = q0 in
    let (t, _) = p in
    (match fuel with
     | O -> Err OutOfFuel
     | S f ->
       n_loop g dur delays tmax f
         (n_event g dur delays tmax t e { ns_stat = s.ns_stat; ns_rec =
           s.ns_rec; ns_ord = s.ns_ord; ns_q = { q_items = rest; q_ctr =
           s.ns_q.q_ctr }; ns_log = s.ns_log }))

(** val n_init : graph -> xtime -> q -> node list -> nst **)

let n_init g tmax tmin i0 =
  { ns_stat = (fun _ -> stS); ns_rec = (fun _ ->
    qminus tmin { qnum = (Zpos XH); qden = XH }); ns_ord = (fun _ -> O);
    ns_q =
    (fold_left (fun q0 u -> q_add tmax q0 tmin (NTrans (None, u, []))) i0
      q_empty); ns_log = (logs0 g tmin) }

(** val nm_run :
    graph -> (node -> nat -> q) -> (node -> node -> nat -> q list) -> xtime
    -> q -> bool -> nat -> node list -> simout result **)

let nm_run g dur delays tmax tmin full fuel i0 =
  rbind (n_loop g dur delays tmax fuel (n_init g tmax tmin i0)) (fun s -> Ok
    (finish g tmin full (length i0) s.ns_log))

(** val fast_nonMarkov_SIS :
    graph -> (node -> nat -> q) -> (node -> node -> nat -> q list) -> xtime
    -> node list option -> q option -> q -> bool -> nat -> simout samp **)

let fast_nonMarkov_SIS g dur delays tmax i0 rho tmin full fuel =
  with_initial g i0 rho (fun l ->
    match nm_run g dur delays tmax tmin full fuel l with
    | Ok o -> Ret o
    | Err e -> Fail e)

type aev =
| ARec of node
| AAtt of node * node

type rst = { r_stat : (node -> n); r_ord : (node -> nat);
             r_ag : (q * aev) list; r_log : logs; r_ok : bool }

(** val ains : (q * aev) -> (q * aev) list -> (q * aev) list **)

let rec ains x l = match l with
| [] -> x :: []
| h :: t -> if qltb (fst x) (fst h) then x :: l else h :: (ains x t)

(** val fresh : q -> q -> (q * aev) list -> bool **)

let fresh now t ag =
  (&&) (qltb now t) (forallb (fun x -> negb (qeqb (fst x) t)) ag)

(** val r_insert : xtime -> q -> rst -> q -> aev -> rst **)

let r_insert tmax now s t a =
  if xlt t tmax
  then { r_stat = s.r_stat; r_ord = s.r_ord; r_ag = (ains (t, a) s.r_ag);
         r_log = s.r_log; r_ok = ((&&) s.r_ok (fresh now t s.r_ag)) }
  else s

(** val ascending : q list -> bool **)

let rec ascending = function
| [] -> true
| a :: t ->
  (match t with
   | [] -> true
   | b :: _ -> (&&) (qltb a b) (ascending t))

(** val r_infect :
    graph -> (node -> nat -> q) -> (node -> node -> nat -> q list) -> xtime
    -> q -> node option -> node -> rst -> rst **)

let r_infect g dur delays tmax time src v s =
  let k = s.r_ord v in
  let s0 = { r_stat = (fupdN s.r_stat v stI); r_ord =
    (fupdN s.r_ord v (S k)); r_ag = s.r_ag; r_log =
    (log_inf s.r_log time src v); r_ok = s.r_ok }
  in
  let s1 = r_insert tmax time s0 (tadd time (dur v k)) (ARec v) in
  fold_left (fun s2 w ->
    let dl = delays v w k in
    fold_left (fun s3 d -> r_insert tmax time s3 (tadd time d) (AAtt (v, w)))
      dl { r_stat = s2.r_stat; r_ord = s2.r_ord; r_ag = s2.r_ag; r_log =
      s2.r_log; r_ok = ((&&) s2.r_ok (ascending dl)) }) (g.gadj v) s1

(** val r_event :
    graph -> (node -> nat -> q) -> (node -> node -> nat -> q list) -> xtime
    -> q -> aev -> rst -> rst **)

let r_event g dur delays tmax time a s =
  match a with
  | ARec v ->
    { r_stat = (fupdN s.r_stat v stS); r_ord = s.r_ord; r_ag = s.r_ag;
      r_log = (log_rec s.r_log time v); r_ok = s.r_ok }
  | AAtt (u, v) ->
    if N.eqb (s.r_stat v) stS
    then r_infect g dur delays tmax time (Some u) v s
    else s

(** val r_loop :
    graph -> (node -> nat -> q) -> (node -> node -> nat -> q list) -> xtime
    -> nat -> rst -> rst result **)

let rec r_loop g dur delays tmax fuel s =
  match s.r_ag with
  | [] -> Ok s
  | p :: rest ->
    let (t, a) = p in
    (match fuel with
     | O -> Err OutOfFuel
     | S f ->
       r_loop g dur delays tmax f
         (r_event g dur delays tmax t a { r_stat = s.r_stat; r_ord = s.r_ord;
           r_ag = rest; r_log = s.r_log; r_ok = s.r_ok }))

(** val r_init :
    graph -> (node -> nat -> q) -> (node -> node -> nat -> q list) -> xtime
    -> q -> node list -> rst **)

let r_init g dur delays tmax tmin i0 =
  fold_left (fun s u ->
    if N.eqb (s.r_stat u) stS
    then r_infect g dur delays tmax tmin None u s
    else { r_stat = s.r_stat; r_ord = s.r_ord; r_ag = s.r_ag; r_log =
           s.r_log; r_ok = false }) i0 { r_stat = (fun _ -> stS); r_ord =
    (fun _ -> O); r_ag = []; r_log = (logs0 g tmin); r_ok = true }

(** val ref_sis :
    graph -> (node -> nat -> q) -> (node -> node -> nat -> q list) -> xtime
    -> q -> bool -> nat -> node list -> (simout * bool) result **)

let ref_sis g dur delays tmax tmin full fuel i0 =
  rbind (r_loop g dur delays tmax fuel (r_init g dur delays tmax tmin i0))
    (fun s -> Ok ((finish g tmin full (length i0) s.r_log), s.r_ok))

type mev =
| MRec of node
| MTrans of node option * node

(** val xtlt : xtime -> xtime -> bool **)

let xtlt a b =
  match a with
  | Some x -> (match b with
               | Some y -> qltb x y
               | None -> true)
  | None -> false

type mst = { ms_stat : (node -> n); ms_rec : (node -> xtime);
             ms_q : mev queue; ms_log : logs }

(** val trans_rate : graph -> q -> node -> node -> q **)

let trans_rate g tau u v =
  if g.ewt then qmult tau (g.ew u v) else tau

(** val rec_rate : graph -> q -> node -> q **)

let rec_rate g gamma u =
  if g.nwt then qmult gamma (g.nw u) else gamma

(** val set_q : mst -> mev queue -> mst **)

let set_q s q0 =
  { ms_stat = s.ms_stat; ms_rec = s.ms_rec; ms_q = q0; ms_log = s.ms_log }

(** val find_next :
    xtime -> q -> q -> node -> node -> mst -> (mst -> 'a1 samp) -> 'a1 samp **)

let find_next tmax time rate src tgt s k =
  if xtlt (s.ms_rec tgt) (s.ms_rec src)
  then let fin = fun tt ->
         match tt with
         | Some t ->
           if (&&) (xtlt tt (s.ms_rec src)) (xlt t tmax)
           then k (set_q s (q_add tmax s.ms_q t (MTrans ((Some src), tgt))))
           else k s
         | None -> k s
       in
       let redraw = fun tt ->
         if xtlt tt (s.ms_rec tgt)
         then Expo (rate, (fun d2 ->
                match s.ms_rec tgt with
                | Some r -> fin (Some (tadd r d2))
                | None -> fin None))
         else fin tt
       in
       if qltb { qnum = Z0; qden = XH } rate
       then Expo (rate, (fun d -> redraw (Some (tadd time d))))
       else if qeqb rate { qnum = Z0; qden = XH }
            then redraw None
            else Fail EoNError
  else k s

(** val find_next_all :
    graph -> q -> xtime -> q -> node -> node list -> mst -> (mst -> 'a1 samp)
    -> 'a1 samp **)

let rec find_next_all g tau tmax time u nbrs s k =
  match nbrs with
  | [] -> k s
  | v :: rest ->
    find_next tmax time (trans_rate g tau u v) u v s (fun s' ->
      find_next_all g tau tmax time u rest s' k)

(** val m_trans :
    graph -> q -> q -> xtime -> q -> node option -> node -> mst -> (mst ->
    'a1 samp) -> 'a1 samp **)

let m_trans g tau gamma tmax time src tgt s k =
  let after = fun s1 ->
    match src with
    | Some u -> find_next tmax time (trans_rate g tau u tgt) u tgt s1 k
    | None -> k s1
  in
  if N.eqb (s.ms_stat tgt) stS
  then let stat' = fupdN s.ms_stat tgt stI in
       let lg = log_inf s.ms_log time src tgt in
       let rr = rec_rate g gamma tgt in
       let cont = fun rt ->
         let q1 =
           match rt with
           | Some r ->
             if xtlt rt tmax then q_add tmax s.ms_q r (MRec tgt) else s.ms_q
           | None -> s.ms_q
         in
         find_next_all g tau tmax time tgt (g.gadj tgt) { ms_stat = stat';
           ms_rec = (fupdN s.ms_rec tgt rt); ms_q = q1; ms_log = lg } after
       in
       if qltb { qnum = Z0; qden = XH } rr
       then Expo (rr, (fun d -> cont (Some (tadd time d))))
       else if qeqb rr { qnum = Z0; qden = XH }
            then cont None
            else Fail EoNError
  else after s

(** val m_recover : q -> node -> mst -> mst **)

let m_recover time v s =
  { ms_stat = (fupdN s.ms_stat v stS); ms_rec = s.ms_rec; ms_q = s.ms_q;
    ms_log = (log_rec s.ms_log time v) }

(** val m_loop :
    graph -> q -> q -> xtime -> q -> bool -> nat -> nat -> mst -> simout samp **)

let rec m_loop g tau gamma tmax tmin full ni0 fuel s =
  match s.ms_q.q_items with
  | [] -> Ret (finish g tmin full ni0 s.ms_log)
  | q0 :: rest ->
    let (p, e) = q0 in
    let (t, _) = p in
    (match fuel with
     | O -> Fail OutOfFuel
     | S f ->
       let s0 = set_q s { q_items = rest; q_ctr = s.ms_q.q_ctr } in
       (match e with
        | MRec v -> m_loop g tau gamma tmax tmin full ni0 f (m_recover t v s0)
        | MTrans (src, tgt) ->
          m_trans g tau gamma tmax t src tgt s0 (fun s' ->
            m_loop g tau gamma tmax tmin full ni0 f s')))

(** val m_init : graph -> xtime -> q -> node list -> mst **)

let m_init g tmax tmin i0 =
  { ms_stat = (fun _ -> stS); ms_rec = (fun _ -> Some
    (qminus tmin { qnum = (Zpos XH); qden = XH })); ms_q =
    (fold_left (fun q0 u -> q_add tmax q0 tmin (MTrans (None, u))) i0 q_empty);
    ms_log = (logs0 g tmin) }

(** val fast_SIS :
    graph -> q -> q -> xtime -> node list option -> q option -> q -> bool ->
    nat -> simout samp **)

let fast_SIS g tau gamma tmax i0 rho tmin full fuel =
  with_initial g i0 rho (fun l ->
    m_loop g tau gamma tmax tmin full (length l) fuel (m_init g tmax tmin l))

(** val run_fast_SIS :
    graph -> q -> q -> xtime -> node list option -> q option -> q -> bool ->
    nat -> q list -> simout result * call list **)

let run_fast_SIS g tau gamma tmax i0 rho tmin full fuel ds =
  exec (fast_SIS g tau gamma tmax i0 rho tmin full fuel) ds []
