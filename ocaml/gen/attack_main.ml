module ZZ = Z
module QQ = Q
open Attack_model
(* Shared glue for the drivers of the extracted models.  This text is pasted
   after "open <Comp>_model" by the build (harness/common.py build_driver), so
   the constructor names below refer to that component's extraction of
   Prelude/Samp/Graph.  Only conversion, parsing, printing and the choice of
   scripted draws live here; everything that decides a result is extracted Coq. *)

(* ---------- conversions ---------- *)
let rec pos_of_z (n : ZZ.t) : positive =
  if ZZ.equal n ZZ.one then XH
  else if ZZ.is_odd n then XI (pos_of_z (ZZ.shift_right n 1))
  else XO (pos_of_z (ZZ.shift_right n 1))
let z_of_zt (n : ZZ.t) : z =
  if ZZ.sign n = 0 then Z0 else if ZZ.sign n > 0 then Zpos (pos_of_z n) else Zneg (pos_of_z (ZZ.neg n))
let n_of_zt (n : ZZ.t) : n = if ZZ.sign n = 0 then N0 else Npos (pos_of_z n)
let n_of_int (i : int) : n = n_of_zt (ZZ.of_int i)
let rec zt_of_pos = function
  | XH -> ZZ.one
  | XO p -> ZZ.shift_left (zt_of_pos p) 1
  | XI p -> ZZ.succ (ZZ.shift_left (zt_of_pos p) 1)
let zt_of_z = function Z0 -> ZZ.zero | Zpos p -> zt_of_pos p | Zneg p -> ZZ.neg (zt_of_pos p)
let zt_of_n = function N0 -> ZZ.zero | Npos p -> zt_of_pos p
let int_of_n x = ZZ.to_int (zt_of_n x)
let rec nat_of_int n = if n <= 0 then O else S (nat_of_int (n - 1))
let int_of_nat x = let rec go a = function O -> a | S n -> go (a + 1) n in go 0 x
let mkq (a : ZZ.t) (b : ZZ.t) : q = { qnum = z_of_zt a; qden = pos_of_z b }
let qq_of_q (x : q) : QQ.t = QQ.make (zt_of_z x.qnum) (zt_of_pos x.qden)
let q_of_qq (x : QQ.t) : q = mkq (QQ.num x) (QQ.den x)
let sq (x : q) : string =
  let x = qq_of_q x in
  ZZ.to_string (QQ.num x) ^ "/" ^ ZZ.to_string (QQ.den x)
let sn (x : n) = ZZ.to_string (zt_of_n x)
let sz (x : z) = ZZ.to_string (zt_of_z x)
let qi (a : int) (b : int) : q = q_of_qq (QQ.of_ints a b)

(* ---------- token reader ---------- *)
let toks : string list ref = ref []
let next () = match !toks with t :: r -> toks := r; t | [] -> failwith "unexpected end of line"
let more () = !toks <> []
let nint () = int_of_string (next ())
let nzt () = ZZ.of_string (next ())
let nq () = let a = nzt () in let b = nzt () in mkq a b
let nn () = n_of_zt (nzt ())
let nbool () = nint () = 1
let nlist f = let k = nint () in List.init k (fun _ -> f ())
let nopt f = if nint () = 1 then Some (f ()) else None
let buf = Buffer.create 65536
let out s = Buffer.add_string buf s
let skey (k : n list) = String.concat "," (List.map sn k)
let skeys (ks : n list list) = String.concat ";" (List.map skey ks)

(* names of the Python failure modes of Base/Prelude.v *)
let err_name = function
  | EoNError -> "EoNError" | ZeroDivision -> "ZeroDivisionError" | IndexErr -> "IndexError"
  | KeyErr -> "KeyError" | TypeErr -> "TypeError" | NameErr -> "NameError"
  | ValueErr -> "ValueError" | PyException -> "Exception"
  | OutOfDraws -> "OutOfDraws" | OutOfFuel -> "OutOfFuel"


(* ---------- main loop: one case per line, dispatch on the first token ---------- *)
let main (dispatch : string -> unit) =
  try
    while true do
      let line = input_line stdin in
      toks := List.filter (fun s -> s <> "") (String.split_on_char ' ' line);
      Buffer.clear buf;
      (try dispatch (next ())
       with Failure m -> out (" DRIVERFAIL " ^ m)
          | Stack_overflow -> out " DRIVERFAIL stack_overflow"
          | Not_found -> out " DRIVERFAIL not_found"
          | Invalid_argument m -> out (" DRIVERFAIL invalid_argument " ^ m));
      print_endline (Buffer.contents buf)
    done
  with End_of_file -> ()

(* GLUE: base err main *)
(* Driver of component 'attack': the hand-written wrappers of Model/Attack.v (C08).
   Function parameters arrive as polynomial coefficient lists. *)
let pv l = String.concat " " (List.map sq l)
let nnat () = nat_of_int (nint ())
let npoly () = let c = nlist nq in (fun x -> peval c x)

(* degree distribution as list of (k, Pk) in dict order *)
let npk () = nlist (fun () -> let k = nnat () in let p = nq () in (k, p))

(* ARD pk p rho? number_its *)
let run_ard () =
  let pk = npk () in let p = nq () in let rho = nopt nq in let n = nnat () in
  out ("OK " ^ sq (attack_rate_discrete pk p rho n))
let run_arc () =
  let pk = npk () in let tau = nq () in let gamma = nq () in let rho = nopt nq in let n = nnat () in
  out ("OK " ^ sq (attack_rate_cts_time pk tau gamma rho n))
(* EBD N psihat psihatPrime p phiS0 phiR0 R0 nsteps -> rows theta R S I *)
let run_ebd () =
  let nn_ = nq () in let f = npoly () in let fp = npoly () in
  let p = nq () in let phis = nq () in let phir = nq () in let r0 = nq () in let n = nnat () in
  let rows = ebcm_discrete_rows nn_ f fp p phis phir r0 n in
  out ("OK " ^ String.concat " ; " (List.map (fun (((a, b), c), d) -> pv [a; b; c; d]) rows))

let () = main (function
    | "ARD" -> run_ard ()
    | "ARC" -> run_arc ()
    | "EBD" -> run_ebd ()
    | c -> out ("BADCMD " ^ c))
