
val negb : bool -> bool

type nat =
| O
| S of nat

val option_map : ('a1 -> 'a2) -> 'a1 option -> 'a2 option

val fst : ('a1 * 'a2) -> 'a1

val snd : ('a1 * 'a2) -> 'a2

val length : 'a1 list -> nat

val app : 'a1 list -> 'a1 list -> 'a1 list

type comparison =
| Eq
| Lt
| Gt

val compOpp : comparison -> comparison

val add : nat -> nat -> nat

type positive =
| XI of positive
| XO of positive
| XH

type n =
| N0
| Npos of positive

type z =
| Z0
| Zpos of positive
| Zneg of positive

module Pos :
 sig
  type mask =
  | IsNul
  | IsPos of positive
  | IsNeg
 end

module Coq_Pos :
 sig
  val succ : positive -> positive

  val add : positive -> positive -> positive

  val add_carry : positive -> positive -> positive

  val pred_double : positive -> positive

  type mask = Pos.mask =
  | IsNul
  | IsPos of positive
  | IsNeg

  val succ_double_mask : mask -> mask

  val double_mask : mask -> mask

  val double_pred_mask : positive -> mask

  val sub_mask : positive -> positive -> mask

  val sub_mask_carry : positive -> positive -> mask

  val sub : positive -> positive -> positive

  val mul : positive -> positive -> positive

  val size_nat : positive -> nat

  val compare_cont : comparison -> positive -> positive -> comparison

  val compare : positive -> positive -> comparison

  val eqb : positive -> positive -> bool

  val ggcdn : nat -> positive -> positive -> positive * (positive * positive)

  val ggcd : positive -> positive -> positive * (positive * positive)

  val of_succ_nat : nat -> positive
 end

module N :
 sig
  val eqb : n -> n -> bool
 end

module Z :
 sig
  val double : z -> z

  val succ_double : z -> z

  val pred_double : z -> z

  val pos_sub : positive -> positive -> z

  val add : z -> z -> z

  val mul : z -> z -> z

  val compare : z -> z -> comparison

  val sgn : z -> z

  val eqb : z -> z -> bool

  val abs : z -> z

  val of_nat : nat -> z

  val to_pos : z -> positive

  val ggcd : z -> z -> z * (z * z)
 end

val z_lt_dec : z -> z -> bool

val z_lt_ge_dec : z -> z -> bool

val z_lt_le_dec : z -> z -> bool

val zeq_bool : z -> z -> bool

val nth : nat -> 'a1 list -> 'a1 -> 'a1

val nth_error : 'a1 list -> nat -> 'a1 option

val rev : 'a1 list -> 'a1 list

val map : ('a1 -> 'a2) -> 'a1 list -> 'a2 list

val fold_left : ('a1 -> 'a2 -> 'a1) -> 'a2 list -> 'a1 -> 'a1

val fold_right : ('a2 -> 'a1 -> 'a1) -> 'a1 -> 'a2 list -> 'a1

val existsb : ('a1 -> bool) -> 'a1 list -> bool

val forallb : ('a1 -> bool) -> 'a1 list -> bool

val filter : ('a1 -> bool) -> 'a1 list -> 'a1 list

val find : ('a1 -> bool) -> 'a1 list -> 'a1 option

val combine : 'a1 list -> 'a2 list -> ('a1 * 'a2) list

type q = { qnum : z; qden : positive }

val qcompare : q -> q -> comparison

val qeq_bool : q -> q -> bool

val qlt_le_dec : q -> q -> bool

val qred : q -> q

type err =
| EoNError
| ZeroDivision
| IndexErr
| KeyErr
| TypeErr
| NameErr
| ValueErr
| PyException
| OutOfDraws
| OutOfFuel

type 'a result =
| Ok of 'a
| Err of err

val rbind : 'a1 result -> ('a1 -> 'a2 result) -> 'a2 result

val qleb : q -> q -> bool

val qeqb : q -> q -> bool

val sumZ : z list -> z

type node = n

val mem : node -> node list -> bool

val stS : n

val stI : n

val stR : n

val fupdN : (node -> 'a1) -> node -> 'a1 -> node -> 'a1

type row = q * z list

type history = (q * n) list

type fulldata = { fd_hist : (node * history) list;
                  fd_trans : ((q * node option) * node) list }

val fd_hist : fulldata -> (node * history) list

val fd_trans : fulldata -> ((q * node option) * node) list

type simout = { so_rows : row list; so_full : fulldata option }

val so_rows : simout -> row list

val so_full : simout -> fulldata option

val assoc : (node * 'a1) list -> node -> 'a1 option

val hupd : (node * 'a1) list -> node -> 'a1 -> (node * 'a1) list

type inv = { iv_nodes : node list; iv_hist : (node * history) list;
             iv_default : history option; iv_ps : n list option }

val hist_of : inv -> node -> history result

val possible_statuses : inv -> n list result

type dent = (n * q) * z

val de_s : dent -> n

val de_t : dent -> q

val de_d : dent -> z

val moves : n list -> n -> history -> dent list result

val node_entries : n list -> history -> dent list result

val all_entries : inv -> n list -> node list -> dent list result

val delta : dent list -> n -> q -> z

val tinsert : q -> q list -> q list

val times_of : dent list -> q list

val running : dent list -> n list -> z list -> q list -> row list

val rows_of : dent list -> n list -> row list result

val summary : inv -> node list option -> row list result

val iv_t : inv -> q list result

val index_of : n -> n list -> nat option

val column : inv -> n -> z list result

val iv_S : inv -> z list result

val iv_I : inv -> z list result

val iv_R : inv -> z list result

val status_at : history -> q -> n result

val node_status : inv -> node -> q -> n result

val statuses_of : inv -> node list -> q -> (node * n) list result

val get_statuses :
  inv -> node list option -> q option -> (node * n) list result

val hget : q -> (node * history) list -> node -> history

val tr_step :
  q -> n -> (node * history) list -> (node * q) -> (node * history) list

val transform_SIR :
  q -> (node * q) list -> (node * q) list -> (node * history) list

val sis_hist : q -> q list -> q list -> history -> history

val transform_SIS :
  q -> (node * q list) list -> (node * q list) list -> (node * history) list

val investigation_SIR :
  node list -> q -> (node * q) list -> (node * q) list -> inv

val investigation_SIS :
  node list -> q -> (node * q list) list -> (node * q list) list -> inv

val sortedb : history -> bool

val move_ok : (n * n) list -> n -> n -> bool

val legalb : (n * n) list -> history -> bool

val wf_histb : n list -> q -> history -> bool

val good_histb : n list -> (n * n) list -> q -> history -> bool

val step_at : row list -> q -> z list option -> z list option

val zlist_eqb : z list -> z list -> bool

val opt_eqb : z list option -> z list option -> bool

type verdict =
| VOk
| VBadHistory of node
| VBadSummary of q
| VErr of err

val first_bad_hist :
  inv -> n list -> (n * n) list -> q -> node list -> node option

val first_diff : row list -> row list -> q option

val consistent : inv -> row list -> q -> (n * n) list -> verdict

val consistent_b : inv -> row list -> q -> (n * n) list -> bool

type event = (q * node) * n

val ev_t : event -> q

val ev_u : event -> node

val ev_s : event -> n

val project : q -> (node -> n) -> event list -> node -> history

val count_status : node list -> (node -> n) -> n -> z

val log_rows : node list -> n list -> (node -> n) -> event list -> row list

val log_arrays :
  node list -> n list -> q -> (node -> n) -> event list -> row list

val log_inv : node list -> n list -> q -> (node -> n) -> event list -> inv
