
val negb : bool -> bool

type nat =
| O
| S of nat

val fst : ('a1 * 'a2) -> 'a1

val snd : ('a1 * 'a2) -> 'a2

val length : 'a1 list -> nat

val app : 'a1 list -> 'a1 list -> 'a1 list

type comparison =
| Eq
| Lt
| Gt

val compOpp : comparison -> comparison

val add : nat -> nat -> nat

type positive =
| XI of positive
| XO of positive
| XH

type n =
| N0
| Npos of positive

type z =
| Z0
| Zpos of positive
| Zneg of positive

module Nat :
 sig
  val pred : nat -> nat

  val eqb : nat -> nat -> bool

  val leb : nat -> nat -> bool

  val ltb : nat -> nat -> bool
 end

module Pos :
 sig
  type mask =
  | IsNul
  | IsPos of positive
  | IsNeg
 end

module Coq_Pos :
 sig
  val succ : positive -> positive

  val add : positive -> positive -> positive

  val add_carry : positive -> positive -> positive

  val pred_double : positive -> positive

  type mask = Pos.mask =
  | IsNul
  | IsPos of positive
  | IsNeg

  val succ_double_mask : mask -> mask

  val double_mask : mask -> mask

  val double_pred_mask : positive -> mask

  val sub_mask : positive -> positive -> mask

  val sub_mask_carry : positive -> positive -> mask

  val sub : positive -> positive -> positive

  val mul : positive -> positive -> positive

  val size_nat : positive -> nat

  val compare_cont : comparison -> positive -> positive -> comparison

  val compare : positive -> positive -> comparison

  val eqb : positive -> positive -> bool

  val ggcdn : nat -> positive -> positive -> positive * (positive * positive)

  val ggcd : positive -> positive -> positive * (positive * positive)

  val iter_op : ('a1 -> 'a1 -> 'a1) -> positive -> 'a1 -> 'a1

  val to_nat : positive -> nat

  val of_succ_nat : nat -> positive
 end

module N :
 sig
  val compare : n -> n -> comparison

  val eqb : n -> n -> bool

  val ltb : n -> n -> bool
 end

module Z :
 sig
  val double : z -> z

  val succ_double : z -> z

  val pred_double : z -> z

  val pos_sub : positive -> positive -> z

  val add : z -> z -> z

  val opp : z -> z

  val sub : z -> z -> z

  val mul : z -> z -> z

  val compare : z -> z -> comparison

  val sgn : z -> z

  val leb : z -> z -> bool

  val ltb : z -> z -> bool

  val abs : z -> z

  val to_nat : z -> nat

  val of_nat : nat -> z

  val to_pos : z -> positive

  val pos_div_eucl : positive -> z -> z * z

  val div_eucl : z -> z -> z * z

  val div : z -> z -> z

  val modulo : z -> z -> z

  val even : z -> bool

  val ggcd : z -> z -> z * (z * z)
 end

val z_lt_dec : z -> z -> bool

val z_lt_ge_dec : z -> z -> bool

val z_lt_le_dec : z -> z -> bool

val zeq_bool : z -> z -> bool

val nth : nat -> 'a1 list -> 'a1 -> 'a1

val nth_error : 'a1 list -> nat -> 'a1 option

val rev : 'a1 list -> 'a1 list

val concat : 'a1 list list -> 'a1 list

val map : ('a1 -> 'a2) -> 'a1 list -> 'a2 list

val fold_left : ('a1 -> 'a2 -> 'a1) -> 'a2 list -> 'a1 -> 'a1

val fold_right : ('a2 -> 'a1 -> 'a1) -> 'a1 -> 'a2 list -> 'a1

val existsb : ('a1 -> bool) -> 'a1 list -> bool

val filter : ('a1 -> bool) -> 'a1 list -> 'a1 list

val firstn : nat -> 'a1 list -> 'a1 list

val skipn : nat -> 'a1 list -> 'a1 list

type q = { qnum : z; qden : positive }

val inject_Z : z -> q

val qeq_bool : q -> q -> bool

val qplus : q -> q -> q

val qmult : q -> q -> q

val qopp : q -> q

val qminus : q -> q -> q

val qinv : q -> q

val qdiv : q -> q -> q

val qlt_le_dec : q -> q -> bool

val qred : q -> q

type err =
| EoNError
| ZeroDivision
| IndexErr
| KeyErr
| TypeErr
| NameErr
| ValueErr
| PyException
| OutOfDraws
| OutOfFuel

type 'a result =
| Ok of 'a
| Err of err

val rbind : 'a1 result -> ('a1 -> 'a2 result) -> 'a2 result

type xtime = q option

val qltb : q -> q -> bool

val qleb : q -> q -> bool

val qeqb : q -> q -> bool

val qnat : nat -> q

type key = n list

type 'a samp =
| Ret of 'a
| Fail of err
| Expo of q * (q -> 'a samp)
| Flip of q * 'a samp * 'a samp
| Casc of q list * (nat -> 'a samp)
| Choose of bool * (key * q) list * (key -> 'a samp)
| Unif of key list * (key -> 'a samp)
| Sample of key list * nat * (key list -> 'a samp)

val bind : 'a1 samp -> ('a1 -> 'a2 samp) -> 'a2 samp

type call =
| CExpo of q
| CFlip of q
| CCasc of q list
| CPick of key list
| CAcc of q
| CSample of key list * nat

val rank : q -> nat

val casc_index : q list -> q -> nat -> nat

val choose_exec :
  bool -> (key * q) list -> q list -> call list -> (key result * call
  list) * q list

val rotate : nat -> 'a1 list -> 'a1 list

val unit_draw : q -> bool

val exec : 'a1 samp -> q list -> call list -> 'a1 result * call list

type node = n

type graph = { gnodes : node list; gadj : (node -> node list);
               gpred : (node -> node list); gdirected : bool;
               ew : (node -> node -> q); nw : (node -> q); ewt : bool;
               nwt : bool }

val mem : node -> node list -> bool

val order : graph -> z

val stS : n

val stI : n

val stR : n

val fupdN : (node -> 'a1) -> node -> 'a1 -> node -> 'a1

type row = q * z list

type history = (q * n) list

type fulldata = { fd_hist : (node * history) list;
                  fd_trans : ((q * node option) * node) list }

type simout = { so_rows : row list; so_full : fulldata option }

val knode : node -> key

val xadd : q -> xtime -> xtime

val xleb : xtime -> xtime -> bool

val xltb : xtime -> xtime -> bool

type ev =
| ETrans of node option * node
| ERec of node

type qent = { qt : q; qc : nat; qe : ev }

type tiepolicy = qent -> qent -> bool

val fifo : tiepolicy

val goes_before : tiepolicy -> qent -> qent -> bool

val qinsert : tiepolicy -> qent -> qent list -> qent list

val qadd :
  tiepolicy -> xtime -> xtime -> ev -> (qent list * nat) -> qent list * nat

type est = { stat : (node -> n); rect : (node -> xtime option);
             predt : (node -> xtime option); qu : qent list; ctr : nat;
             rows : row list; tlog : ((q * node option) * node) list;
             olog : (node * node option) list }

val pget : (node -> xtime option) -> node -> xtime

val push_row : row list -> q -> z -> z -> z -> row list

val sched_one :
  tiepolicy -> xtime -> q -> xtime -> node -> ((qent list * nat) * (node ->
  xtime option)) -> (node * xtime) -> (qent list * nat) * (node -> xtime
  option)

val sus_nbrs : graph -> (node -> n) -> node -> node list

val apply_inf :
  tiepolicy -> xtime -> q -> node option -> node -> (node * xtime) list ->
  xtime -> (node * node option) list -> est -> est

val apply_rec : q -> node -> est -> est

val det_delays :
  (node -> node -> xtime) -> node -> node list -> (node * xtime) list

val det_calls : node -> node list -> (node * node option) list

val step_det :
  tiepolicy -> graph -> xtime -> (node -> node -> xtime) -> (node -> xtime)
  -> qent -> est -> est

val set_qu : est -> qent list -> est

val loop_det :
  tiepolicy -> graph -> xtime -> (node -> node -> xtime) -> (node -> xtime)
  -> nat -> est -> est result

val set_all : (node -> 'a1) -> node list -> 'a1 -> node -> 'a1

val init_inf : tiepolicy -> q -> xtime -> est -> node -> est

val init_state :
  tiepolicy -> graph -> q -> xtime -> node list -> node list -> est

val hist_step : q -> history -> (q * n) -> history

val node_hist : q -> est -> node -> history result

val all_ok : 'a1 result list -> 'a1 list result

val finish :
  graph -> q -> bool -> nat -> est -> (simout * (node * node option) list)
  result

val esir_fuel : graph -> node list -> nat

val esir_run :
  tiepolicy -> graph -> (node -> node -> xtime) -> (node -> xtime) -> node
  list -> node list -> q -> xtime -> nat -> est result

val esir_det :
  tiepolicy -> graph -> (node -> node -> xtime) -> (node -> xtime) -> node
  list -> node list -> q -> xtime -> bool -> nat -> (simout * (node * node
  option) list) result

type provider = node -> node list -> ((node * xtime) list * xtime) samp

val lift : 'a1 result -> ('a1 -> 'a2 samp) -> 'a2 samp

val gloop :
  tiepolicy -> graph -> q -> xtime -> provider -> bool -> nat -> nat -> est
  -> (simout * (node * node option) list) samp

val round_half_even : q -> z

val fast_nonmarkov :
  tiepolicy -> graph -> provider -> node list option -> node list option -> q
  option -> q -> xtime -> bool -> nat -> (simout * (node * node option) list)
  samp

val det_provider : (node -> node -> xtime) -> (node -> xtime) -> provider

val draw_time : q -> (xtime -> 'a1 samp) -> 'a1 samp

val draw_delays :
  (node -> q) -> node list -> (node * xtime) list -> ((node * xtime) list ->
  'a1 samp) -> 'a1 samp

val trans_rate : graph -> q -> node -> node -> q

val rec_rate : graph -> q -> node -> q

val markov_provider : graph -> q -> q -> provider

val uses_edge_path : graph -> q -> q -> bool

val fast_sir_edge :
  graph -> q -> q -> node list option -> node list option -> q option -> q ->
  xtime -> bool -> nat -> (simout * (node * node option) list) samp

type pnode = { pn : node; pdur : xtime; pout : (node * xtime) list }

type pgraph = pnode list

val perc_node :
  graph -> (node -> node -> xtime) -> (node -> xtime) -> node -> pnode

val perc_build : graph -> (node -> node -> xtime) -> (node -> xtime) -> pgraph

val perc_calls : graph -> (node * node option) list

val perc_markov :
  graph -> q -> q -> node list -> pgraph -> (pgraph -> 'a1 samp) -> 'a1 samp

val psucc : pgraph -> node list -> node -> node list

val reach : pgraph -> node list -> nat -> node list -> node list

val out_component : pgraph -> node list -> node list -> node list

val get_infected : graph -> q -> q -> node list -> node list -> node list samp

val get_infected_det :
  graph -> (node -> node -> xtime) -> (node -> xtime) -> node list -> node
  list -> node list

val qfloor : q -> z

type 'a bsamp =
| BRet of 'a
| BFail of err
| BExpo of q * (q -> 'a bsamp)
| BSample of key list * nat * (key list -> 'a bsamp)
| BBinom of nat * q * xtime * (nat -> 'a bsamp)

val bbind : 'a1 bsamp -> ('a1 -> 'a2 bsamp) -> 'a2 bsamp

type bcall =
| BCExpo of q
| BCSample of key list * nat
| BCBinom of nat * q * xtime

val binom_possible : nat -> q -> xtime -> nat -> bool

val bexec : 'a1 bsamp -> q list -> bcall list -> 'a1 result * bcall list

val trunc_exp : q -> xtime -> q result

val ninsert : n -> n list -> n list

val nsort : n list -> n list

type bprovider = node -> node list -> ((node * xtime) list * xtime) bsamp

val draw_trunc :
  q -> xtime -> node list -> (node * xtime) list -> ((node * xtime) list ->
  'a1 bsamp) -> 'a1 bsamp

val const_provider : graph -> q -> q -> bprovider

val blift : 'a1 result -> ('a1 -> 'a2 bsamp) -> 'a2 bsamp

val bgloop :
  graph -> q -> xtime -> bprovider -> bool -> nat -> nat -> est ->
  (simout * (node * node option) list) bsamp

val fast_sir_const :
  graph -> q -> q -> node list option -> node list option -> q option -> q ->
  xtime -> bool -> nat -> (simout * (node * node option) list) bsamp
