module ZZ = Z
module QQ = Q
open Disc_model
(* Shared glue for the drivers of the extracted models.  This text is pasted
   after "open <Comp>_model" by the build (harness/common.py build_driver), so
   the constructor names below refer to that component's extraction of
   Prelude/Samp/Graph.  Only conversion, parsing, printing and the choice of
   scripted draws live here; everything that decides a result is extracted Coq. *)

(* ---------- conversions ---------- *)
let rec pos_of_z (n : ZZ.t) : positive =
  if ZZ.equal n ZZ.one then XH
  else if ZZ.is_odd n then XI (pos_of_z (ZZ.shift_right n 1))
  else XO (pos_of_z (ZZ.shift_right n 1))
let z_of_zt (n : ZZ.t) : z =
  if ZZ.sign n = 0 then Z0 else if ZZ.sign n > 0 then Zpos (pos_of_z n) else Zneg (pos_of_z (ZZ.neg n))
let n_of_zt (n : ZZ.t) : n = if ZZ.sign n = 0 then N0 else Npos (pos_of_z n)
let n_of_int (i : int) : n = n_of_zt (ZZ.of_int i)
let rec zt_of_pos = function
  | XH -> ZZ.one
  | XO p -> ZZ.shift_left (zt_of_pos p) 1
  | XI p -> ZZ.succ (ZZ.shift_left (zt_of_pos p) 1)
let zt_of_z = function Z0 -> ZZ.zero | Zpos p -> zt_of_pos p | Zneg p -> ZZ.neg (zt_of_pos p)
let zt_of_n = function N0 -> ZZ.zero | Npos p -> zt_of_pos p
let int_of_n x = ZZ.to_int (zt_of_n x)
let rec nat_of_int n = if n <= 0 then O else S (nat_of_int (n - 1))
let int_of_nat x = let rec go a = function O -> a | S n -> go (a + 1) n in go 0 x
let mkq (a : ZZ.t) (b : ZZ.t) : q = { qnum = z_of_zt a; qden = pos_of_z b }
let qq_of_q (x : q) : QQ.t = QQ.make (zt_of_z x.qnum) (zt_of_pos x.qden)
let q_of_qq (x : QQ.t) : q = mkq (QQ.num x) (QQ.den x)
let sq (x : q) : string =
  let x = qq_of_q x in
  ZZ.to_string (QQ.num x) ^ "/" ^ ZZ.to_string (QQ.den x)
let sn (x : n) = ZZ.to_string (zt_of_n x)
let sz (x : z) = ZZ.to_string (zt_of_z x)
let qi (a : int) (b : int) : q = q_of_qq (QQ.of_ints a b)

(* ---------- token reader ---------- *)
let toks : string list ref = ref []
let next () = match !toks with t :: r -> toks := r; t | [] -> failwith "unexpected end of line"
let more () = !toks <> []
let nint () = int_of_string (next ())
let nzt () = ZZ.of_string (next ())
let nq () = let a = nzt () in let b = nzt () in mkq a b
let nn () = n_of_zt (nzt ())
let nbool () = nint () = 1
let nlist f = let k = nint () in List.init k (fun _ -> f ())
let nopt f = if nint () = 1 then Some (f ()) else None
let buf = Buffer.create 65536
let out s = Buffer.add_string buf s
let skey (k : n list) = String.concat "," (List.map sn k)
let skeys (ks : n list list) = String.concat ";" (List.map skey ks)

(* names of the Python failure modes of Base/Prelude.v *)
let err_name = function
  | EoNError -> "EoNError" | ZeroDivision -> "ZeroDivisionError" | IndexErr -> "IndexError"
  | KeyErr -> "KeyError" | TypeErr -> "TypeError" | NameErr -> "NameError"
  | ValueErr -> "ValueError" | PyException -> "Exception"
  | OutOfDraws -> "OutOfDraws" | OutOfFuel -> "OutOfFuel"


(* ---------- sampler programs: choosing scripted draws, printing traces ----------
   [walk m ent] follows the program [m], choosing one draw per call from the
   entropy source [ent : unit -> int]; the chosen draws are then given to the
   extracted [exec], which is what produces the result and the trace.  *)
let eps30 = QQ.of_ints 1 (1 lsl 30)
let acc_draw = q_of_qq (QQ.of_ints 1 (1 lsl 40))   (* the scripted answer to every accept test *)

let expo_delay (e : int) : q =
  (* positive dyadic delays of varied magnitude *)
  (* mostly short (so that several events fit before tmax), sometimes long *)
  let num = if (e / 64) mod 8 = 0 then 1 + (e mod 16) else 1 + (e mod 3) in
  let den = 1 lsl (1 + (e / 4) mod 5) in
  qi num den

let flip_draw (p : q) (want_true : bool) (boundary : bool) : q option =
  let p = qq_of_q p in
  let zero = QQ.zero and one = QQ.one in
  if want_true then
    if QQ.leq p zero then None
    else if boundary && QQ.gt (QQ.sub p eps30) zero && QQ.leq p one then Some (q_of_qq (QQ.sub p eps30))
    else Some (q_of_qq (QQ.div (QQ.min p one) (QQ.of_int 2)))
  else
    if QQ.geq p one then None
    else if boundary && QQ.lt (QQ.add p eps30) one && QQ.geq p zero then Some (q_of_qq (QQ.add p eps30))
    else Some (q_of_qq (QQ.div (QQ.add (QQ.max p zero) one) (QQ.of_int 2)))

(* draw that makes the cascade stop in cell i (midpoint of the cell) *)
let casc_draw (ps : q list) (i : int) : q option =
  let rec go acc j = function
    | [] -> None
    | p :: t ->
      let p = qq_of_q p in
      if j = i then (if QQ.gt p QQ.zero then Some (q_of_qq (QQ.add acc (QQ.div p (QQ.of_int 2)))) else None)
      else go (QQ.add acc p) (j + 1) t in
  go QQ.zero 0 ps

exception Stop
let walk (m : 'a samp) (ent : unit -> int) (maxdraws : int) : q list =
  let ds = ref [] and nd = ref 0 in
  let push d = ds := d :: !ds; incr nd; if !nd > maxdraws then raise Stop in
  let rec go (m : 'a samp) : unit =
    match m with
    | Ret _ | Fail _ -> ()
    | Expo (r, k) ->
      if QQ.equal (qq_of_q r) QQ.zero then () else begin
        let d = expo_delay (ent ()) in push d; go (k d) end
    | Flip (p, kt, kf) ->
      let e = ent () in
      let want = e land 1 = 0 and boundary = e land 6 = 0 in
      (match flip_draw p want boundary with
       | Some d -> push d; go (if want then kt else kf)
       | None ->
         (match flip_draw p (not want) boundary with
          | Some d -> push d; go (if want then kf else kt)
          | None -> ()))
    | Casc (ps, k) ->
      let n = List.length ps in
      if n = 0 then () else begin
        let start = ent () mod n in
        let rec find j c = if c >= n then None else
            match casc_draw ps ((start + j) mod n) with Some d -> Some (d, (start + j) mod n) | None -> find (j + 1) (c + 1) in
        match find 0 0 with
        | Some (d, i) -> push d; go (k (nat_of_int i))
        | None -> push (qi 1 2); go (k (casc_index ps (qi 1 2) O))
      end
    | Choose (w, c, k) ->
      let n = List.length c in
      if n = 0 then () else begin
        let rec round tries =
          let i = ent () mod n in
          let (key, wt) = List.nth c i in
          push (qi i 1);
          if w then begin
            push acc_draw;
            if QQ.gt (qq_of_q wt) QQ.zero then go (k key)
            else if tries > 60 then raise Stop else round (tries + 1)
          end else go (k key) in
        round 0 end
    | Unif (c, k) ->
      let n = List.length c in
      if n = 0 then () else begin
        let i = ent () mod n in push (qi i 1); go (k (List.nth c i)) end
    | Sample (pop, n, k) ->
      let len = List.length pop in
      if len < int_of_nat n then () else begin
        let i = if len = 0 then 0 else ent () mod len in
        push (qi i 1);
        go (k (firstn n (rotate (nat_of_int i) pop))) end in
  (try go m with Stop -> ());
  List.rev !ds

(* all draw scripts of [m] up to [maxpaths] complete paths (DFS): both sides of
   every Flip at p -/+ 2^-30, every cell of every cascade, every candidate of
   every choice, the given delays for every Expo *)
let walk_all (m : 'a samp) (delays : q list) (maxdraws : int) (maxpaths : int) : q list list =
  let paths = ref [] and np = ref 0 in
  let rec go (m : 'a samp) (ds : q list) (nd : int) : unit =
    if !np >= maxpaths then () else
    if nd > maxdraws then (paths := List.rev ds :: !paths; incr np) else
    match m with
    | Ret _ | Fail _ -> paths := List.rev ds :: !paths; incr np
    | Expo (r, k) ->
      if QQ.equal (qq_of_q r) QQ.zero then (paths := List.rev ds :: !paths; incr np)
      else List.iter (fun d -> go (k d) (d :: ds) (nd + 1)) delays
    | Flip (p, kt, kf) ->
      let any = ref false in
      (match flip_draw p true true with Some d -> any := true; go kt (d :: ds) (nd + 1) | None -> ());
      (match flip_draw p false true with Some d -> any := true; go kf (d :: ds) (nd + 1) | None -> ());
      if not !any then (paths := List.rev ds :: !paths; incr np)
    | Casc (ps, k) ->
      List.iteri (fun i _ -> match casc_draw ps i with
          | Some d -> go (k (nat_of_int i)) (d :: ds) (nd + 1) | None -> ()) ps
    | Choose (w, c, k) ->
      if c = [] then (paths := List.rev ds :: !paths; incr np) else
      List.iteri (fun i (key, wt) ->
          if w then (if QQ.gt (qq_of_q wt) QQ.zero then go (k key) (acc_draw :: qi i 1 :: ds) (nd + 2))
          else go (k key) (qi i 1 :: ds) (nd + 1)) c
    | Unif (c, k) ->
      if c = [] then (paths := List.rev ds :: !paths; incr np) else
      List.iteri (fun i key -> go (k key) (qi i 1 :: ds) (nd + 1)) c
    | Sample (pop, n, k) ->
      let len = List.length pop in
      if len < int_of_nat n then (paths := List.rev ds :: !paths; incr np)
      else if len = 0 then go (k []) (qi 0 1 :: ds) (nd + 1)
      else List.iteri (fun i _ -> go (k (firstn n (rotate (nat_of_int i) pop))) (qi i 1 :: ds) (nd + 1)) pop in
  go m [] 0;
  List.rev !paths

let print_call = function
  | CExpo r -> out (" E:" ^ sq r)
  | CFlip p -> out (" U:" ^ sq p)
  | CCasc ps -> out (" U:" ^ String.concat "," (List.map sq ps))
  | CPick c -> out (" P:" ^ skeys c)
  | CAcc w -> out (" A:" ^ sq w)
  | CSample (pop, n) -> out (" S:" ^ string_of_int (int_of_nat n) ^ ":" ^ skeys pop)
let print_trace tr = out " | TRACE"; List.iter print_call tr
let print_draws ds = out " | DRAWS"; List.iter (fun d -> out (" " ^ sq d)) ds

(* entropy source from the tokens of the case line: "ENT k e1 .. ek" cycled *)
let read_entropy () : unit -> int =
  let l = Array.of_list (nlist nint) in
  let i = ref 0 in
  fun () -> if Array.length l = 0 then 0 else begin
      let v = l.(!i mod Array.length l) + (!i / Array.length l) in incr i; v end

(* ---------- graphs and simulator outputs ---------- *)
(* graph tokens: n directed | per node: deg nbrs.. | per node: pdeg preds.. |
   ewt nwt | per node: nw | ne, per edge: u v w   (nodes are 0..n-1) *)
let read_graph () : graph =
  let n = nint () in
  let directed = nbool () in
  let adj = Array.init n (fun _ -> nlist nn) in
  let pred = Array.init n (fun _ -> nlist nn) in
  let ewt = nbool () in let nwt = nbool () in
  let nwa = Array.init n (fun _ -> nq ()) in
  let ne = nint () in
  let ews = Hashtbl.create 64 in
  for _ = 1 to ne do
    let u = nint () in let v = nint () in let w = nq () in
    Hashtbl.replace ews (u, v) w;
    if not directed then Hashtbl.replace ews (v, u) w
  done;
  let one = qi 1 1 in
  { gnodes = List.init n n_of_int;
    gadj = (fun u -> let u = int_of_n u in if u < n then adj.(u) else []);
    gpred = (fun u -> let u = int_of_n u in if u < n then pred.(u) else []);
    gdirected = directed;
    ew = (fun u v -> try Hashtbl.find ews (int_of_n u, int_of_n v) with Not_found -> one);
    nw = (fun u -> let u = int_of_n u in if u < n then nwa.(u) else one);
    ewt; nwt }

let print_rows (rows : (q * z list) list) =
  out " ROWS";
  List.iter (fun (t, cs) -> out (" " ^ sq t ^ ":" ^ String.concat "," (List.map sz cs))) rows

let print_full (f : fulldata) =
  out " HIST";
  List.iter (fun (u, h) ->
      out (" " ^ sn u ^ "=" ^ String.concat "," (List.map (fun (t, s) -> sq t ^ "@" ^ sn s) h))) f.fd_hist;
  out " TRANS";
  List.iter (fun ((t, src), tgt) ->
      out (" " ^ sq t ^ ":" ^ (match src with Some s -> sn s | None -> "-") ^ ">" ^ sn tgt)) f.fd_trans

let print_simout (o : simout) =
  print_rows o.so_rows;
  (match o.so_full with Some f -> print_full f | None -> ())

let print_result (pr : 'a -> unit) (r : 'a result) =
  match r with
  | Ok a -> out "OK"; pr a
  | Err e -> out ("ERR " ^ err_name e)

(* ---------- main loop: one case per line, dispatch on the first token ---------- *)
let main (dispatch : string -> unit) =
  try
    while true do
      let line = input_line stdin in
      toks := List.filter (fun s -> s <> "") (String.split_on_char ' ' line);
      Buffer.clear buf;
      (try dispatch (next ())
       with Failure m -> out (" DRIVERFAIL " ^ m)
          | Stack_overflow -> out " DRIVERFAIL stack_overflow"
          | Not_found -> out " DRIVERFAIL not_found"
          | Invalid_argument m -> out (" DRIVERFAIL invalid_argument " ^ m));
      print_endline (Buffer.contents buf)
    done
  with End_of_file -> ()

(* GLUE: base err samp graph main *)
(* Driver of component 'disc': the discrete-time simulators (Model/Discrete.v).
   <CMD> <graph> <rules> <trec> <ord> i0? r0? rho? tmin tmax? full fuel <mode>
     CMD   DSIR  discrete_SIR            BSIR basic_discrete_SIR_R / basic_discrete_SIR
           SIS   basic_discrete_SIS      PSIR percolation_based_discrete_SIR
   PERC <graph> <rules> <mode>           percolate_network
     rules T cap ntrue (u v a).. c0 c1 c2   table rule: test u v a = ((u,v,min a (cap-1)) listed),
                                            choice for target v at step k has rank c0+c1*k+c2*v (mod #candidates)
           P num den                        the code's default rule: random.random()<p, random.choice
     trec  0 | 1 cap ntrue (u a)..          test_recovery(u) at its a-th call (a capped at cap-1)
     ord   nsteps (len nodes..)..           iteration order of the set `infecteds` at step k: listed nodes
                                            first (in that order), the others after them in canonical order
     mode  W <entropy> | D k q1..qk | A maxdraws maxpaths k d1..dk *)
let run_one pr m ds =
  let (res, tr) = exec m ds [] in
  print_result pr res; print_draws ds; print_trace tr

let read_rules () : rules =
  match next () with
  | "T" ->
    let cap = nint () in
    let tbl = Hashtbl.create 64 in
    let k = nint () in
    for _ = 1 to k do
      let u = nint () in let v = nint () in let a = nint () in Hashtbl.replace tbl (u, v, a) ()
    done;
    let c0 = nint () in let c1 = nint () in let c2 = nint () in
    det_rules
      (fun u v a -> Hashtbl.mem tbl (int_of_n u, int_of_n v, min (int_of_nat a) (cap - 1)))
      (fun k v -> nat_of_int (c0 + c1 * int_of_nat k + c2 * int_of_n v))
  | "P" -> let p = nq () in simple_rules p
  | c -> failwith ("bad rules " ^ c)

let read_trec () : (n -> nat -> bool) option =
  if nint () = 0 then None else begin
    let cap = nint () in
    let tbl = Hashtbl.create 64 in
    let k = nint () in
    for _ = 1 to k do
      let u = nint () in let a = nint () in Hashtbl.replace tbl (u, a) ()
    done;
    Some (fun u a -> Hashtbl.mem tbl (int_of_n u, min (int_of_nat a) (cap - 1)))
  end

let read_ord () : nat -> n list -> n list =
  let steps = Array.of_list (nlist (fun () -> nlist nint)) in
  fun k l ->
    let k = int_of_nat k in
    if k >= Array.length steps then l else begin
      let li = List.map int_of_n l in
      let seen = Hashtbl.create 16 in
      let first = List.filter (fun x -> if List.mem x li && not (Hashtbl.mem seen x) then (Hashtbl.replace seen x (); true) else false) steps.(k) in
      let rest = List.filter (fun x -> not (Hashtbl.mem seen x)) li in
      List.map n_of_int (first @ rest)
    end

let print_logs (l : dlogs) =
  out " QLOG";
  List.iter (fun ((k, u), v) -> out (" " ^ string_of_int (int_of_nat k) ^ ":" ^ sn u ^ ">" ^ sn v)) l.l_q;
  out " PLOG";
  List.iter (fun ((k, v), c) -> out (" " ^ string_of_int (int_of_nat k) ^ ":" ^ sn v ^ "=" ^ String.concat "," (List.map sn c))) l.l_p;
  out " RLOG";
  List.iter (fun (k, u) -> out (" " ^ string_of_int (int_of_nat k) ^ ":" ^ sn u)) l.l_r

let print_dout (o : dout) = print_simout o.o_sim; print_logs o.o_logs

let print_perc ((h, q) : graph * ((nat * n) * n) list) =
  out " NODES"; List.iter (fun u -> out (" " ^ sn u)) h.gnodes;
  out " ADJ"; List.iter (fun u -> out (" " ^ sn u ^ "=" ^ String.concat "," (List.map sn (h.gadj u)))) h.gnodes;
  out " QLOG";
  List.iter (fun ((k, u), v) -> out (" " ^ string_of_int (int_of_nat k) ^ ":" ^ sn u ^ ">" ^ sn v)) (List.rev q)

let modes pr m =
  match next () with
  | "W" -> let ent = read_entropy () in run_one pr m (walk m ent 4000)
  | "D" -> run_one pr m (nlist nq)
  | "A" ->
    let maxdraws = nint () in let maxpaths = nint () in
    let delays = nlist nq in
    let paths = walk_all m delays maxdraws maxpaths in
    List.iteri (fun i ds -> if i > 0 then out " ## "; run_one pr m ds) paths
  | c -> failwith ("bad mode " ^ c)

let run_sim cmd =
  let g = read_graph () in
  let r = read_rules () in
  let trec = read_trec () in
  let ord = read_ord () in
  let i0 = nopt (fun () -> nlist nn) in
  let r0 = nopt (fun () -> nlist nn) in
  let rho = nopt nq in
  let tmin = nq () in let tmax = nopt nq in
  let full = nbool () in
  let fuel = nat_of_int (nint ()) in
  let m = match cmd with
    | "DSIR" -> discrete_SIR g r trec ord i0 r0 rho tmin tmax full fuel
    | "BSIR" -> basic_discrete_SIR_R g r ord i0 r0 rho tmin tmax full fuel
    | "SIS" -> basic_discrete_SIS_R g r ord i0 rho tmin tmax full fuel
    | "PSIR" -> percolation_based_discrete_SIR_R g r ord i0 r0 rho tmin tmax full fuel
    | c -> failwith ("bad cmd " ^ c) in
  modes print_dout m

let run_perc () =
  let g = read_graph () in
  let r = read_rules () in
  modes print_perc (percolate_network_R g r)

let () = main (function
    | "PERC" -> run_perc ()
    | ("DSIR" | "BSIR" | "SIS" | "PSIR") as c -> run_sim c
    | c -> out ("BADCMD " ^ c))
