module ZZ = Z
module QQ = Q
open Base_model
(* Shared glue for the drivers of the extracted models.  This text is pasted
   after "open <Comp>_model" by the build (harness/common.py build_driver), so
   the constructor names below refer to that component's extraction of
   Prelude/Samp/Graph.  Only conversion, parsing, printing and the choice of
   scripted draws live here; everything that decides a result is extracted Coq. *)

(* ---------- conversions ---------- *)
let rec pos_of_z (n : ZZ.t) : positive =
  if ZZ.equal n ZZ.one then XH
  else if ZZ.is_odd n then XI (pos_of_z (ZZ.shift_right n 1))
  else XO (pos_of_z (ZZ.shift_right n 1))
let z_of_zt (n : ZZ.t) : z =
  if ZZ.sign n = 0 then Z0 else if ZZ.sign n > 0 then Zpos (pos_of_z n) else Zneg (pos_of_z (ZZ.neg n))
let n_of_zt (n : ZZ.t) : n = if ZZ.sign n = 0 then N0 else Npos (pos_of_z n)
let n_of_int (i : int) : n = n_of_zt (ZZ.of_int i)
let rec zt_of_pos = function
  | XH -> ZZ.one
  | XO p -> ZZ.shift_left (zt_of_pos p) 1
  | XI p -> ZZ.succ (ZZ.shift_left (zt_of_pos p) 1)
let zt_of_z = function Z0 -> ZZ.zero | Zpos p -> zt_of_pos p | Zneg p -> ZZ.neg (zt_of_pos p)
let zt_of_n = function N0 -> ZZ.zero | Npos p -> zt_of_pos p
let int_of_n x = ZZ.to_int (zt_of_n x)
let rec nat_of_int n = if n <= 0 then O else S (nat_of_int (n - 1))
let int_of_nat x = let rec go a = function O -> a | S n -> go (a + 1) n in go 0 x
let mkq (a : ZZ.t) (b : ZZ.t) : q = { qnum = z_of_zt a; qden = pos_of_z b }
let qq_of_q (x : q) : QQ.t = QQ.make (zt_of_z x.qnum) (zt_of_pos x.qden)
let q_of_qq (x : QQ.t) : q = mkq (QQ.num x) (QQ.den x)
let sq (x : q) : string =
  let x = qq_of_q x in
  ZZ.to_string (QQ.num x) ^ "/" ^ ZZ.to_string (QQ.den x)
let sn (x : n) = ZZ.to_string (zt_of_n x)
let sz (x : z) = ZZ.to_string (zt_of_z x)
let qi (a : int) (b : int) : q = q_of_qq (QQ.of_ints a b)

(* ---------- token reader ---------- *)
let toks : string list ref = ref []
let next () = match !toks with t :: r -> toks := r; t | [] -> failwith "unexpected end of line"
let more () = !toks <> []
let nint () = int_of_string (next ())
let nzt () = ZZ.of_string (next ())
let nq () = let a = nzt () in let b = nzt () in mkq a b
let nn () = n_of_zt (nzt ())
let nbool () = nint () = 1
let nlist f = let k = nint () in List.init k (fun _ -> f ())
let nopt f = if nint () = 1 then Some (f ()) else None
let buf = Buffer.create 65536
let out s = Buffer.add_string buf s
let skey (k : n list) = String.concat "," (List.map sn k)
let skeys (ks : n list list) = String.concat ";" (List.map skey ks)

(* names of the Python failure modes of Base/Prelude.v *)
let err_name = function
  | EoNError -> "EoNError" | ZeroDivision -> "ZeroDivisionError" | IndexErr -> "IndexError"
  | KeyErr -> "KeyError" | TypeErr -> "TypeError" | NameErr -> "NameError"
  | ValueErr -> "ValueError" | PyException -> "Exception"
  | OutOfDraws -> "OutOfDraws" | OutOfFuel -> "OutOfFuel"


(* ---------- main loop: one case per line, dispatch on the first token ---------- *)
let main (dispatch : string -> unit) =
  try
    while true do
      let line = input_line stdin in
      toks := List.filter (fun s -> s <> "") (String.split_on_char ' ' line);
      Buffer.clear buf;
      (try dispatch (next ())
       with Failure m -> out (" DRIVERFAIL " ^ m)
          | Stack_overflow -> out " DRIVERFAIL stack_overflow"
          | Not_found -> out " DRIVERFAIL not_found"
          | Invalid_argument m -> out (" DRIVERFAIL invalid_argument " ^ m));
      print_endline (Buffer.contents buf)
    done
  with End_of_file -> ()

(* GLUE: base err main *)
(* Driver of component 'base': _ListDict_ (C16) and the helpers of auxiliary.py / get_Pk, PGFs (C20). *)
(* ---------- C16: _ListDict_ ---------- *)
let print_ld (s : n ld) =
  let its = List.sort compare (List.map (fun k -> (zt_of_n k, k)) s.items) in
  out (Printf.sprintf "S %d" (List.length its));
  List.iter (fun (kz, k) ->
      out (" " ^ ZZ.to_string kz);
      if s.weighted then out (":" ^ sq (ldN_wread s k))) its;
  out (" T " ^ sq (ldN_total s));
  if s.weighted then out (" M " ^ sq s.maxw)

let run_ld () =
  let w = nint () = 1 in
  let nops = nint () in
  let s = ref (ldN_empty w) in
  let dead = ref false in
  for _ = 1 to nops do
    let c = next () in
    let step o =
      if not !dead then begin
        (match ldN_step !s o with
         | Ok s' -> s := s'; print_ld s'
         | Err e -> dead := true; out ("E " ^ err_name e));
        out " | " end in
    match c with
    | "I" -> let k = nn () in let q = nq () in step (OpInsert (k, q))
    | "U" -> let k = nn () in let q = nq () in step (OpUpdate (k, q))
    | "R" -> let k = nn () in step (OpRemove k)
    | "A" -> let k = nn () in step (OpAdd k)
    | "C" ->
      (* one round of choose_random in which random.choice returned key k *)
      let k = nn () in let u = nq () in
      if not !dead then begin
        let rec idx i = function [] -> -1 | x :: t -> if zt_of_n x = zt_of_n k then i else idx (i + 1) t in
        let r = idx 0 (!s).items in
        if r < 0 then out "X absent" else
        (match ldN_round !s (nat_of_int r) u with
         | Accept k -> out ("A " ^ sn k)
         | Reject -> out "R"
         | Crash e -> out ("X " ^ err_name e));
        out " | " end
    | _ -> failwith ("bad op " ^ c)
  done

(* ---------- C20: helpers ---------- *)
let run_sub () =
  let reports = nlist nq in
  let times = nlist nq in
  let nser = nint () in
  let sers = List.init nser (fun _ -> nlist nq) in
  let pl l = String.concat " " (List.map sq l) in
  (match sers with
   | [a] -> (match subsample reports times a with
       | Ok r -> out ("OK " ^ pl r) | Err e -> out ("ERR " ^ err_name e))
   | [a; b] -> (match subsample2 reports times a b with
       | Ok (r1, r2) -> out ("OK " ^ pl r1 ^ " ; " ^ pl r2) | Err e -> out ("ERR " ^ err_name e))
   | [a; b; c] -> (match subsample3 reports times a b c with
       | Ok ((r1, r2), r3) -> out ("OK " ^ pl r1 ^ " ; " ^ pl r2 ^ " ; " ^ pl r3)
       | Err e -> out ("ERR " ^ err_name e))
   | _ -> failwith "nser")

let run_ts () =
  let times = nlist nq in
  let l = nlist nq in
  let thr = nq () in
  match get_time_shift times l thr with
  | Ok t -> out ("OK " ^ sq t) | Err e -> out ("ERR " ^ err_name e)

let run_deg () =
  let ds = nlist (fun () -> nat_of_int (nint ())) in
  let x = nq () in
  let t = nq () in
  let m = int_of_nat (maxdeg ds) in
  out "PK";
  for k = 0 to m do out (" " ^ sq (pk ds (nat_of_int k))) done;
  out (" PSI " ^ sq (psi ds x) ^ " " ^ sq (psiP ds x) ^ " " ^ sq (psiDP ds x));
  out (" R0 " ^ sq (estimate_R0 ds t))

let run_pnk () =
  let nd = nlist (fun () -> let d = nat_of_int (nint ()) in let l = nlist (fun () -> nat_of_int (nint ())) in (d, l)) in
  let m = int_of_nat (maxdeg (List.map fst nd)) in
  out "PNK";
  for k1 = 0 to m do for k2 = 0 to m do
      out (" " ^ sq (pnk nd (nat_of_int k1) (nat_of_int k2))) done done

let () = main (function
    | "LD" -> run_ld ()
    | "SUB" -> run_sub ()
    | "TS" -> run_ts ()
    | "DEG" -> run_deg ()
    | "PNK" -> run_pnk ()
    | c -> out ("BADCMD " ^ c))
