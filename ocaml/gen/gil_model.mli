
val negb : bool -> bool

type nat =
| O
| S of nat

val fst : ('a1 * 'a2) -> 'a1

val snd : ('a1 * 'a2) -> 'a2

val length : 'a1 list -> nat

val app : 'a1 list -> 'a1 list -> 'a1 list

type comparison =
| Eq
| Lt
| Gt

val compOpp : comparison -> comparison

val add : nat -> nat -> nat

type positive =
| XI of positive
| XO of positive
| XH

type n =
| N0
| Npos of positive

type z =
| Z0
| Zpos of positive
| Zneg of positive

module Nat :
 sig
  val pred : nat -> nat

  val eqb : nat -> nat -> bool

  val leb : nat -> nat -> bool

  val ltb : nat -> nat -> bool
 end

module Pos :
 sig
  type mask =
  | IsNul
  | IsPos of positive
  | IsNeg
 end

module Coq_Pos :
 sig
  val succ : positive -> positive

  val add : positive -> positive -> positive

  val add_carry : positive -> positive -> positive

  val pred_double : positive -> positive

  type mask = Pos.mask =
  | IsNul
  | IsPos of positive
  | IsNeg

  val succ_double_mask : mask -> mask

  val double_mask : mask -> mask

  val double_pred_mask : positive -> mask

  val sub_mask : positive -> positive -> mask

  val sub_mask_carry : positive -> positive -> mask

  val sub : positive -> positive -> positive

  val mul : positive -> positive -> positive

  val size_nat : positive -> nat

  val compare_cont : comparison -> positive -> positive -> comparison

  val compare : positive -> positive -> comparison

  val eqb : positive -> positive -> bool

  val ggcdn : nat -> positive -> positive -> positive * (positive * positive)

  val ggcd : positive -> positive -> positive * (positive * positive)

  val iter_op : ('a1 -> 'a1 -> 'a1) -> positive -> 'a1 -> 'a1

  val to_nat : positive -> nat

  val of_succ_nat : nat -> positive
 end

module N :
 sig
  val compare : n -> n -> comparison

  val eqb : n -> n -> bool

  val ltb : n -> n -> bool
 end

module Z :
 sig
  val double : z -> z

  val succ_double : z -> z

  val pred_double : z -> z

  val pos_sub : positive -> positive -> z

  val add : z -> z -> z

  val opp : z -> z

  val sub : z -> z -> z

  val mul : z -> z -> z

  val compare : z -> z -> comparison

  val sgn : z -> z

  val leb : z -> z -> bool

  val ltb : z -> z -> bool

  val eqb : z -> z -> bool

  val abs : z -> z

  val to_nat : z -> nat

  val of_nat : nat -> z

  val to_pos : z -> positive

  val pos_div_eucl : positive -> z -> z * z

  val div_eucl : z -> z -> z * z

  val div : z -> z -> z

  val modulo : z -> z -> z

  val even : z -> bool

  val ggcd : z -> z -> z * (z * z)
 end

val z_lt_dec : z -> z -> bool

val z_lt_ge_dec : z -> z -> bool

val z_lt_le_dec : z -> z -> bool

val zeq_bool : z -> z -> bool

val nth : nat -> 'a1 list -> 'a1 -> 'a1

val nth_error : 'a1 list -> nat -> 'a1 option

val rev : 'a1 list -> 'a1 list

val concat : 'a1 list list -> 'a1 list

val map : ('a1 -> 'a2) -> 'a1 list -> 'a2 list

val fold_left : ('a1 -> 'a2 -> 'a1) -> 'a2 list -> 'a1 -> 'a1

val fold_right : ('a2 -> 'a1 -> 'a1) -> 'a1 -> 'a2 list -> 'a1

val filter : ('a1 -> bool) -> 'a1 list -> 'a1 list

val firstn : nat -> 'a1 list -> 'a1 list

val skipn : nat -> 'a1 list -> 'a1 list

type q = { qnum : z; qden : positive }

val inject_Z : z -> q

val qeq_bool : q -> q -> bool

val qplus : q -> q -> q

val qmult : q -> q -> q

val qopp : q -> q

val qminus : q -> q -> q

val qinv : q -> q

val qdiv : q -> q -> q

val qlt_le_dec : q -> q -> bool

val qred : q -> q

type err =
| EoNError
| ZeroDivision
| IndexErr
| KeyErr
| TypeErr
| NameErr
| ValueErr
| PyException
| OutOfDraws
| OutOfFuel

type 'a result =
| Ok of 'a
| Err of err

val rbind : 'a1 result -> ('a1 -> 'a2 result) -> 'a2 result

type xtime = q option

val xlt : q -> xtime -> bool

val qltb : q -> q -> bool

val qeqb : q -> q -> bool

val qnat : nat -> q

type key = n list

val keqb : key -> key -> bool

type 'a samp =
| Ret of 'a
| Fail of err
| Expo of q * (q -> 'a samp)
| Flip of q * 'a samp * 'a samp
| Casc of q list * (nat -> 'a samp)
| Choose of bool * (key * q) list * (key -> 'a samp)
| Unif of key list * (key -> 'a samp)
| Sample of key list * nat * (key list -> 'a samp)

val bind : 'a1 samp -> ('a1 -> 'a2 samp) -> 'a2 samp

type call =
| CExpo of q
| CFlip of q
| CCasc of q list
| CPick of key list
| CAcc of q
| CSample of key list * nat

val rank : q -> nat

val casc_index : q list -> q -> nat -> nat

val choose_exec :
  bool -> (key * q) list -> q list -> call list -> (key result * call
  list) * q list

val rotate : nat -> 'a1 list -> 'a1 list

val unit_draw : q -> bool

val exec : 'a1 samp -> q list -> call list -> 'a1 result * call list

type node = n

type graph = { gnodes : node list; gadj : (node -> node list);
               gpred : (node -> node list); gdirected : bool;
               ew : (node -> node -> q); nw : (node -> q); ewt : bool;
               nwt : bool }

val order : graph -> z

val stS : n

val stI : n

val stR : n

val fupdN : (node -> 'a1) -> node -> 'a1 -> node -> 'a1

type row = q * z list

type history = (q * n) list

type fulldata = { fd_hist : (node * history) list;
                  fd_trans : ((q * node option) * node) list }

type simout = { so_rows : row list; so_full : fulldata option }

val knode : node -> key

val kpair : node -> node -> key

val kltb : key -> key -> bool

val kinsert : (key * 'a1) -> (key * 'a1) list -> (key * 'a1) list

val ksort : (key * 'a1) list -> (key * 'a1) list

val fupd : ('a1 -> 'a1 -> bool) -> ('a1 -> 'a2) -> 'a1 -> 'a2 -> 'a1 -> 'a2

type 'k ld = { weighted : bool; items : 'k list; pos : ('k -> nat option);
               wt : ('k -> q option); maxw : q; maxc : z; total : q }

val ld_empty : bool -> 'a1 ld

val contains : 'a1 ld -> 'a1 -> bool

val wread : 'a1 ld -> 'a1 -> q

val set_nth : 'a1 list -> nat -> 'a1 -> 'a1 list

val qmax : q -> q -> q

val list_max : q list -> q

val count_eq : q -> q list -> z

val recompute_max : 'a1 ld -> 'a1 list -> ('a1 -> q option) -> q * z

val ld_update :
  ('a1 -> 'a1 -> bool) -> 'a1 ld -> 'a1 -> q option -> 'a1 ld result

val ld_remove : ('a1 -> 'a1 -> bool) -> 'a1 ld -> 'a1 -> 'a1 ld result

val ld_total_weight : 'a1 ld -> q

type kld = key ld

val kl_update : kld -> key -> q option -> kld result

val kl_remove : kld -> key -> kld result

val kl_empty : bool -> kld

val kl_cands : kld -> (key * q) list

val wopt : bool -> q -> q option

type model_kind =
| SIR
| SIS

type gst = { stat : (node -> n); infs : kld; links : kld; rows : row list;
             elog : ((q * node) * n) list;
             tlog : ((q * node option) * node) list }

val hd_counts : row list -> z list

val cnt : z list -> nat -> z

val round_half_even : q -> z

val set_all : (node -> n) -> node list -> n -> node -> n

val init_sets : graph -> (node -> n) -> node list -> (kld * kld) result

val total_rec : q -> gst -> q

val total_tr : q -> gst -> q

val keynode : key -> node result

val keypair : key -> (node * node) result

val push_row : gst -> q -> z -> z -> z -> row list

val push_row2 : gst -> q -> z -> z -> row list

val sir_recover : graph -> bool -> q -> node -> gst -> gst result

val transmit :
  graph -> model_kind -> bool -> q -> node -> node -> gst -> gst result

val sis_recover : graph -> bool -> q -> node -> gst -> gst result

val lift : 'a1 result -> ('a1 -> simout samp) -> simout samp

val hist_of : model_kind -> q -> (q * n) list -> history

val node_events : node -> ((q * node) * n) list -> (q * n) list

val first_with : n -> (q * n) list -> (q * n) list

val build_full : graph -> model_kind -> q -> gst -> fulldata

val finish : graph -> model_kind -> q -> bool -> gst -> simout

val is_empty : kld -> bool

val liftr : 'a1 result -> 'a1 samp

val event_st : graph -> model_kind -> bool -> q -> q -> q -> gst -> gst samp

val event :
  graph -> model_kind -> bool -> q -> q -> q -> gst -> (gst -> simout samp)
  -> simout samp

val loop :
  graph -> model_kind -> q -> q -> q -> xtime -> bool -> nat -> q -> gst ->
  simout samp

val gillespie :
  graph -> model_kind -> q -> q -> node list option -> node list option -> q
  option -> q -> xtime -> bool -> nat -> simout samp

val run_gillespie :
  graph -> model_kind -> q -> q -> node list option -> node list option -> q
  option -> q -> xtime -> bool -> nat -> q list -> simout result * call list
