
(** val negb : bool -> bool **)

let negb = function
| true -> false
| false -> true

type nat =
| O
| S of nat

(** val fst : ('a1 * 'a2) -> 'a1 **)

let fst = function
| (x, _) -> x

(** val snd : ('a1 * 'a2) -> 'a2 **)

let snd = function
| (_, y) -> y

(** val length : 'a1 list -> nat **)

let rec length = function
| [] -> O
| _ :: l' -> S (length l')

(** val app : 'a1 list -> 'a1 list -> 'a1 list **)

let rec app l m =
  match l with
  | [] -> m
  | a :: l1 -> a :: (app l1 m)

type comparison =
| Eq
| Lt
| Gt

(** val compOpp : comparison -> comparison **)

let compOpp = function
| Eq -> Eq
| Lt -> Gt
| Gt -> Lt

module Coq__1 = struct
 (** val add : nat -> nat -> nat **)
 let rec add n0 m =
   match n0 with
   | O -> m
   | S p -> S (add p m)
end
include Coq__1

type positive =
| XI of positive
| XO of positive
| XH

type n =
| N0
| Npos of positive

type z =
| Z0
| Zpos of positive
| Zneg of positive

module Nat =
 struct
  (** val eqb : nat -> nat -> bool **)

  let rec eqb n0 m =
    match n0 with
    | O -> (match m with
            | O -> true
            | S _ -> false)
    | S n' -> (match m with
               | O -> false
               | S m' -> eqb n' m')

  (** val max : nat -> nat -> nat **)

  let rec max n0 m =
    match n0 with
    | O -> m
    | S n' -> (match m with
               | O -> n0
               | S m' -> S (max n' m'))

  (** val eq_dec : nat -> nat -> bool **)

  let rec eq_dec n0 m =
    match n0 with
    | O -> (match m with
            | O -> true
            | S _ -> false)
    | S n1 -> (match m with
               | O -> false
               | S n2 -> eq_dec n1 n2)
 end

module Pos =
 struct
  type mask =
  | IsNul
  | IsPos of positive
  | IsNeg
 end

module Coq_Pos =
 struct
  (** val succ : positive -> positive **)

  let rec succ = function
  | XI p -> XO (succ p)
  | XO p -> XI p
  | XH -> XO XH

  (** val add : positive -> positive -> positive **)

  let rec add x y =
    match x with
    | XI p ->
      (match y with
       | XI q0 -> XO (add_carry p q0)
       | XO q0 -> XI (add p q0)
       | XH -> XO (succ p))
    | XO p ->
      (match y with
       | XI q0 -> XI (add p q0)
       | XO q0 -> XO (add p q0)
       | XH -> XI p)
    | XH -> (match y with
             | XI q0 -> XO (succ q0)
             | XO q0 -> XI q0
             | XH -> XO XH)

  (** val add_carry : positive -> positive -> positive **)

  and add_carry x y =
    match x with
    | XI p ->
      (match y with
       | XI q0 -> XI (add_carry p q0)
       | XO q0 -> XO (add_carry p q0)
       | XH -> XI (succ p))
    | XO p ->
      (match y with
       | XI q0 -> XO (add_carry p q0)
       | XO q0 -> XI (add p q0)
       | XH -> XO (succ p))
    | XH ->
      (match y with
       | XI q0 -> XI (succ q0)
       | XO q0 -> XO (succ q0)
       | XH -> XI XH)

  (** val pred_double : positive -> positive **)

  let rec pred_double = function
  | XI p -> XI (XO p)
  | XO p -> XI (pred_double p)
  | XH -> XH

  type mask = Pos.mask =
  | IsNul
  | IsPos of positive
  | IsNeg

  (** val succ_double_mask : mask -> mask **)

  let succ_double_mask = function
  | IsNul -> IsPos XH
  | IsPos p -> IsPos (XI p)
  | IsNeg -> IsNeg

  (** val double_mask : mask -> mask **)

  let double_mask = function
  | IsPos p -> IsPos (XO p)
  | x0 -> x0

  (** val double_pred_mask : positive -> mask **)

  let double_pred_mask = function
  | XI p -> IsPos (XO (XO p))
  | XO p -> IsPos (XO (pred_double p))
  | XH -> IsNul

  (** val sub_mask : positive -> positive -> mask **)

  let rec sub_mask x y =
    match x with
    | XI p ->
      (match y with
       | XI q0 -> double_mask (sub_mask p q0)
       | XO q0 -> succ_double_mask (sub_mask p q0)
       | XH -> IsPos (XO p))
    | XO p ->
      (match y with
       | XI q0 -> succ_double_mask (sub_mask_carry p q0)
       | XO q0 -> double_mask (sub_mask p q0)
       | XH -> IsPos (pred_double p))
    | XH -> (match y with
             | XH -> IsNul
             | _ -> IsNeg)

  (** val sub_mask_carry : positive -> positive -> mask **)

  and sub_mask_carry x y =
    match x with
    | XI p ->
      (match y with
       | XI q0 -> succ_double_mask (sub_mask_carry p q0)
       | XO q0 -> double_mask (sub_mask p q0)
       | XH -> IsPos (pred_double p))
    | XO p ->
      (match y with
       | XI q0 -> double_mask (sub_mask_carry p q0)
       | XO q0 -> succ_double_mask (sub_mask_carry p q0)
       | XH -> double_pred_mask p)
    | XH -> IsNeg

  (** val sub : positive -> positive -> positive **)

  let sub x y =
    match sub_mask x y with
    | IsPos z0 -> z0
    | _ -> XH

  (** val mul : positive -> positive -> positive **)

  let rec mul x y =
    match x with
    | XI p -> add y (XO (mul p y))
    | XO p -> XO (mul p y)
    | XH -> y

  (** val size_nat : positive -> nat **)

  let rec size_nat = function
  | XI p0 -> S (size_nat p0)
  | XO p0 -> S (size_nat p0)
  | XH -> S O

  (** val compare_cont : comparison -> positive -> positive -> comparison **)

  let rec compare_cont r x y =
    match x with
    | XI p ->
      (match y with
       | XI q0 -> compare_cont r p q0
       | XO q0 -> compare_cont Gt p q0
       | XH -> Gt)
    | XO p ->
      (match y with
       | XI q0 -> compare_cont Lt p q0
       | XO q0 -> compare_cont r p q0
       | XH -> Gt)
    | XH -> (match y with
             | XH -> r
             | _ -> Lt)

  (** val compare : positive -> positive -> comparison **)

  let compare =
    compare_cont Eq

  (** val eqb : positive -> positive -> bool **)

  let rec eqb p q0 =
    match p with
    | XI p0 -> (match q0 with
                | XI q1 -> eqb p0 q1
                | _ -> false)
    | XO p0 -> (match q0 with
                | XO q1 -> eqb p0 q1
                | _ -> false)
    | XH -> (match q0 with
             | XH -> true
             | _ -> false)

  (** val ggcdn :
      nat -> positive -> positive -> positive * (positive * positive) **)

  let rec ggcdn n0 a b =
    match n0 with
    | O -> (XH, (a, b))
    | S n1 ->
      (match a with
       | XI a' ->
         (match b with
          | XI b' ->
            (match compare a' b' with
             | Eq -> (a, (XH, XH))
             | Lt ->
               let (g, p) = ggcdn n1 (sub b' a') a in
               let (ba, aa) = p in (g, (aa, (add aa (XO ba))))
             | Gt ->
               let (g, p) = ggcdn n1 (sub a' b') b in
               let (ab, bb) = p in (g, ((add bb (XO ab)), bb)))
          | XO b0 ->
            let (g, p) = ggcdn n1 a b0 in
            let (aa, bb) = p in (g, (aa, (XO bb)))
          | XH -> (XH, (a, XH)))
       | XO a0 ->
         (match b with
          | XI _ ->
            let (g, p) = ggcdn n1 a0 b in
            let (aa, bb) = p in (g, ((XO aa), bb))
          | XO b0 -> let (g, p) = ggcdn n1 a0 b0 in ((XO g), p)
          | XH -> (XH, (a, XH)))
       | XH -> (XH, (XH, b)))

  (** val ggcd : positive -> positive -> positive * (positive * positive) **)

  let ggcd a b =
    ggcdn (Coq__1.add (size_nat a) (size_nat b)) a b

  (** val of_succ_nat : nat -> positive **)

  let rec of_succ_nat = function
  | O -> XH
  | S x -> succ (of_succ_nat x)
 end

module N =
 struct
  (** val eqb : n -> n -> bool **)

  let eqb n0 m =
    match n0 with
    | N0 -> (match m with
             | N0 -> true
             | Npos _ -> false)
    | Npos p -> (match m with
                 | N0 -> false
                 | Npos q0 -> Coq_Pos.eqb p q0)
 end

module Z =
 struct
  (** val double : z -> z **)

  let double = function
  | Z0 -> Z0
  | Zpos p -> Zpos (XO p)
  | Zneg p -> Zneg (XO p)

  (** val succ_double : z -> z **)

  let succ_double = function
  | Z0 -> Zpos XH
  | Zpos p -> Zpos (XI p)
  | Zneg p -> Zneg (Coq_Pos.pred_double p)

  (** val pred_double : z -> z **)

  let pred_double = function
  | Z0 -> Zneg XH
  | Zpos p -> Zpos (Coq_Pos.pred_double p)
  | Zneg p -> Zneg (XI p)

  (** val pos_sub : positive -> positive -> z **)

  let rec pos_sub x y =
    match x with
    | XI p ->
      (match y with
       | XI q0 -> double (pos_sub p q0)
       | XO q0 -> succ_double (pos_sub p q0)
       | XH -> Zpos (XO p))
    | XO p ->
      (match y with
       | XI q0 -> pred_double (pos_sub p q0)
       | XO q0 -> double (pos_sub p q0)
       | XH -> Zpos (Coq_Pos.pred_double p))
    | XH ->
      (match y with
       | XI q0 -> Zneg (XO q0)
       | XO q0 -> Zneg (Coq_Pos.pred_double q0)
       | XH -> Z0)

  (** val add : z -> z -> z **)

  let add x y =
    match x with
    | Z0 -> y
    | Zpos x' ->
      (match y with
       | Z0 -> x
       | Zpos y' -> Zpos (Coq_Pos.add x' y')
       | Zneg y' -> pos_sub x' y')
    | Zneg x' ->
      (match y with
       | Z0 -> x
       | Zpos y' -> pos_sub y' x'
       | Zneg y' -> Zneg (Coq_Pos.add x' y'))

  (** val opp : z -> z **)

  let opp = function
  | Z0 -> Z0
  | Zpos x0 -> Zneg x0
  | Zneg x0 -> Zpos x0

  (** val sub : z -> z -> z **)

  let sub m n0 =
    add m (opp n0)

  (** val mul : z -> z -> z **)

  let mul x y =
    match x with
    | Z0 -> Z0
    | Zpos x' ->
      (match y with
       | Z0 -> Z0
       | Zpos y' -> Zpos (Coq_Pos.mul x' y')
       | Zneg y' -> Zneg (Coq_Pos.mul x' y'))
    | Zneg x' ->
      (match y with
       | Z0 -> Z0
       | Zpos y' -> Zneg (Coq_Pos.mul x' y')
       | Zneg y' -> Zpos (Coq_Pos.mul x' y'))

  (** val compare : z -> z -> comparison **)

  let compare x y =
    match x with
    | Z0 -> (match y with
             | Z0 -> Eq
             | Zpos _ -> Lt
             | Zneg _ -> Gt)
    | Zpos x' -> (match y with
                  | Zpos y' -> Coq_Pos.compare x' y'
                  | _ -> Gt)
    | Zneg x' ->
      (match y with
       | Zneg y' -> compOpp (Coq_Pos.compare x' y')
       | _ -> Lt)

  (** val sgn : z -> z **)

  let sgn = function
  | Z0 -> Z0
  | Zpos _ -> Zpos XH
  | Zneg _ -> Zneg XH

  (** val eqb : z -> z -> bool **)

  let eqb x y =
    match x with
    | Z0 -> (match y with
             | Z0 -> true
             | _ -> false)
    | Zpos p -> (match y with
                 | Zpos q0 -> Coq_Pos.eqb p q0
                 | _ -> false)
    | Zneg p -> (match y with
                 | Zneg q0 -> Coq_Pos.eqb p q0
                 | _ -> false)

  (** val abs : z -> z **)

  let abs = function
  | Zneg p -> Zpos p
  | x -> x

  (** val of_nat : nat -> z **)

  let of_nat = function
  | O -> Z0
  | S n1 -> Zpos (Coq_Pos.of_succ_nat n1)

  (** val to_pos : z -> positive **)

  let to_pos = function
  | Zpos p -> p
  | _ -> XH

  (** val ggcd : z -> z -> z * (z * z) **)

  let ggcd a b =
    match a with
    | Z0 -> ((abs b), (Z0, (sgn b)))
    | Zpos a0 ->
      (match b with
       | Z0 -> ((abs a), ((sgn a), Z0))
       | Zpos b0 ->
         let (g, p) = Coq_Pos.ggcd a0 b0 in
         let (aa, bb) = p in ((Zpos g), ((Zpos aa), (Zpos bb)))
       | Zneg b0 ->
         let (g, p) = Coq_Pos.ggcd a0 b0 in
         let (aa, bb) = p in ((Zpos g), ((Zpos aa), (Zneg bb))))
    | Zneg a0 ->
      (match b with
       | Z0 -> ((abs a), ((sgn a), Z0))
       | Zpos b0 ->
         let (g, p) = Coq_Pos.ggcd a0 b0 in
         let (aa, bb) = p in ((Zpos g), ((Zneg aa), (Zpos bb)))
       | Zneg b0 ->
         let (g, p) = Coq_Pos.ggcd a0 b0 in
         let (aa, bb) = p in ((Zpos g), ((Zneg aa), (Zneg bb))))
 end

(** val z_lt_dec : z -> z -> bool **)

let z_lt_dec x y =
  match Z.compare x y with
  | Lt -> true
  | _ -> false

(** val z_lt_ge_dec : z -> z -> bool **)

let z_lt_ge_dec =
  z_lt_dec

(** val z_lt_le_dec : z -> z -> bool **)

let z_lt_le_dec =
  z_lt_ge_dec

(** val zeq_bool : z -> z -> bool **)

let zeq_bool x y =
  match Z.compare x y with
  | Eq -> true
  | _ -> false

(** val pow_pos : ('a1 -> 'a1 -> 'a1) -> 'a1 -> positive -> 'a1 **)

let rec pow_pos rmul x = function
| XI i0 -> let p = pow_pos rmul x i0 in rmul x (rmul p p)
| XO i0 -> let p = pow_pos rmul x i0 in rmul p p
| XH -> x

(** val nth_error : 'a1 list -> nat -> 'a1 option **)

let rec nth_error l = function
| O -> (match l with
        | [] -> None
        | x :: _ -> Some x)
| S n1 -> (match l with
           | [] -> None
           | _ :: l0 -> nth_error l0 n1)

(** val count_occ : ('a1 -> 'a1 -> bool) -> 'a1 list -> 'a1 -> nat **)

let rec count_occ eq_dec0 l x =
  match l with
  | [] -> O
  | y :: tl ->
    let n0 = count_occ eq_dec0 tl x in if eq_dec0 y x then S n0 else n0

(** val rev : 'a1 list -> 'a1 list **)

let rec rev = function
| [] -> []
| x :: l' -> app (rev l') (x :: [])

(** val map : ('a1 -> 'a2) -> 'a1 list -> 'a2 list **)

let rec map f = function
| [] -> []
| a :: t -> (f a) :: (map f t)

(** val fold_left : ('a1 -> 'a2 -> 'a1) -> 'a2 list -> 'a1 -> 'a1 **)

let rec fold_left f l a0 =
  match l with
  | [] -> a0
  | b :: t -> fold_left f t (f a0 b)

(** val fold_right : ('a2 -> 'a1 -> 'a1) -> 'a1 -> 'a2 list -> 'a1 **)

let rec fold_right f a0 = function
| [] -> a0
| b :: t -> f b (fold_right f a0 t)

(** val filter : ('a1 -> bool) -> 'a1 list -> 'a1 list **)

let rec filter f = function
| [] -> []
| x :: l0 -> if f x then x :: (filter f l0) else filter f l0

(** val combine : 'a1 list -> 'a2 list -> ('a1 * 'a2) list **)

let rec combine l l' =
  match l with
  | [] -> []
  | x :: tl ->
    (match l' with
     | [] -> []
     | y :: tl' -> (x, y) :: (combine tl tl'))

(** val seq : nat -> nat -> nat list **)

let rec seq start = function
| O -> []
| S len0 -> start :: (seq (S start) len0)

type q = { qnum : z; qden : positive }

(** val inject_Z : z -> q **)

let inject_Z x =
  { qnum = x; qden = XH }

(** val qeq_bool : q -> q -> bool **)

let qeq_bool x y =
  zeq_bool (Z.mul x.qnum (Zpos y.qden)) (Z.mul y.qnum (Zpos x.qden))

(** val qplus : q -> q -> q **)

let qplus x y =
  { qnum = (Z.add (Z.mul x.qnum (Zpos y.qden)) (Z.mul y.qnum (Zpos x.qden)));
    qden = (Coq_Pos.mul x.qden y.qden) }

(** val qmult : q -> q -> q **)

let qmult x y =
  { qnum = (Z.mul x.qnum y.qnum); qden = (Coq_Pos.mul x.qden y.qden) }

(** val qopp : q -> q **)

let qopp x =
  { qnum = (Z.opp x.qnum); qden = x.qden }

(** val qminus : q -> q -> q **)

let qminus x y =
  qplus x (qopp y)

(** val qinv : q -> q **)

let qinv x =
  match x.qnum with
  | Z0 -> { qnum = Z0; qden = XH }
  | Zpos p -> { qnum = (Zpos x.qden); qden = p }
  | Zneg p -> { qnum = (Zneg x.qden); qden = p }

(** val qdiv : q -> q -> q **)

let qdiv x y =
  qmult x (qinv y)

(** val qlt_le_dec : q -> q -> bool **)

let qlt_le_dec x y =
  z_lt_le_dec (Z.mul x.qnum (Zpos y.qden)) (Z.mul y.qnum (Zpos x.qden))

(** val qpower_positive : q -> positive -> q **)

let qpower_positive =
  pow_pos qmult

(** val qpower : q -> z -> q **)

let qpower q0 = function
| Z0 -> { qnum = (Zpos XH); qden = XH }
| Zpos p -> qpower_positive q0 p
| Zneg p -> qinv (qpower_positive q0 p)

(** val qred : q -> q **)

let qred q0 =
  let { qnum = q1; qden = q2 } = q0 in
  let (r1, r2) = snd (Z.ggcd q1 (Zpos q2)) in
  { qnum = r1; qden = (Z.to_pos r2) }

type err =
| EoNError
| ZeroDivision
| IndexErr
| KeyErr
| TypeErr
| NameErr
| ValueErr
| PyException
| OutOfDraws
| OutOfFuel

type 'a result =
| Ok of 'a
| Err of err

(** val rbind : 'a1 result -> ('a1 -> 'a2 result) -> 'a2 result **)

let rbind r f =
  match r with
  | Ok a -> f a
  | Err e -> Err e

(** val qltb : q -> q -> bool **)

let qltb a b =
  if qlt_le_dec a b then true else false

(** val qleb : q -> q -> bool **)

let qleb a b =
  if qlt_le_dec b a then false else true

(** val qeqb : q -> q -> bool **)

let qeqb =
  qeq_bool

(** val sumQ : q list -> q **)

let sumQ l =
  fold_right qplus { qnum = Z0; qden = XH } l

(** val qnat : nat -> q **)

let qnat n0 =
  inject_Z (Z.of_nat n0)

(** val fupd :
    ('a1 -> 'a1 -> bool) -> ('a1 -> 'a2) -> 'a1 -> 'a2 -> 'a1 -> 'a2 **)

let fupd keqb f k v x =
  if keqb x k then v else f x

type 'k ld = { weighted : bool; items : 'k list; pos : ('k -> nat option);
               wt : ('k -> q option); maxw : q; maxc : z; total : q }

(** val ld_empty : bool -> 'a1 ld **)

let ld_empty w =
  { weighted = w; items = []; pos = (fun _ -> None); wt = (fun _ -> None);
    maxw = { qnum = Z0; qden = XH }; maxc = Z0; total = { qnum = Z0; qden =
    XH } }

(** val contains : 'a1 ld -> 'a1 -> bool **)

let contains s k =
  match s.pos k with
  | Some _ -> true
  | None -> false

(** val wread : 'a1 ld -> 'a1 -> q **)

let wread s k =
  match s.wt k with
  | Some w -> w
  | None -> { qnum = Z0; qden = XH }

(** val set_nth : 'a1 list -> nat -> 'a1 -> 'a1 list **)

let rec set_nth l i x =
  match l with
  | [] -> []
  | h :: t -> (match i with
               | O -> x :: t
               | S j -> h :: (set_nth t j x))

(** val qmax : q -> q -> q **)

let qmax a b =
  if qltb a b then b else a

(** val list_max : q list -> q **)

let list_max = function
| [] -> { qnum = Z0; qden = XH }
| x :: t -> fold_left qmax t x

(** val count_eq : q -> q list -> z **)

let count_eq m l =
  Z.of_nat (length (filter (fun w -> qeqb w m) l))

(** val recompute_max : 'a1 ld -> 'a1 list -> ('a1 -> q option) -> q * z **)

let recompute_max _ its wt' =
  let ws =
    map (fun k ->
      match wt' k with
      | Some w -> w
      | None -> { qnum = Z0; qden = XH }) its
  in
  let m = list_max ws in (m, (count_eq m ws))

(** val ld_update :
    ('a1 -> 'a1 -> bool) -> 'a1 ld -> 'a1 -> q option -> 'a1 ld result **)

let ld_update keqb s k = function
| Some d ->
  if negb s.weighted
  then Err TypeErr
  else let w0 = wread s k in
       let w1 = qplus w0 d in
       if (||) (qltb { qnum = Z0; qden = XH } d) (negb (qeqb w0 s.maxw))
       then if qltb s.maxw w1
            then let mc = Zpos XH in
                 let wt' = fupd keqb s.wt k (Some w1) in
                 if contains s k
                 then Ok { weighted = s.weighted; items = s.items; pos =
                        s.pos; wt = wt'; maxw = w1; maxc = mc; total =
                        (qplus s.total d) }
                 else Ok { weighted = s.weighted; items =
                        (app s.items (k :: [])); pos =
                        (fupd keqb s.pos k (Some (length s.items))); wt =
                        wt'; maxw = w1; maxc = mc; total = (qplus s.total d) }
            else if qeqb w1 s.maxw
                 then let mw = s.maxw in
                      let mc = Z.add s.maxc (Zpos XH) in
                      let wt' = fupd keqb s.wt k (Some w1) in
                      if contains s k
                      then Ok { weighted = s.weighted; items = s.items; pos =
                             s.pos; wt = wt'; maxw = mw; maxc = mc; total =
                             (qplus s.total d) }
                      else Ok { weighted = s.weighted; items =
                             (app s.items (k :: [])); pos =
                             (fupd keqb s.pos k (Some (length s.items)));
                             wt = wt'; maxw = mw; maxc = mc; total =
                             (qplus s.total d) }
                 else let mw = s.maxw in
                      let mc = s.maxc in
                      let wt' = fupd keqb s.wt k (Some w1) in
                      if contains s k
                      then Ok { weighted = s.weighted; items = s.items; pos =
                             s.pos; wt = wt'; maxw = mw; maxc = mc; total =
                             (qplus s.total d) }
                      else Ok { weighted = s.weighted; items =
                             (app s.items (k :: [])); pos =
                             (fupd keqb s.pos k (Some (length s.items)));
                             wt = wt'; maxw = mw; maxc = mc; total =
                             (qplus s.total d) }
       else let mw = s.maxw in
            let mc = Z.sub s.maxc (Zpos (XO XH)) in
            let wt' = fupd keqb s.wt k (Some w1) in
            if contains s k
            then Ok { weighted = s.weighted; items = s.items; pos = s.pos;
                   wt = wt'; maxw = mw; maxc = mc; total = (qplus s.total d) }
            else Ok { weighted = s.weighted; items = (app s.items (k :: []));
                   pos = (fupd keqb s.pos k (Some (length s.items))); wt =
                   wt'; maxw = mw; maxc = mc; total = (qplus s.total d) }
| None ->
  if s.weighted
  then Err PyException
  else if contains s k
       then Ok s
       else Ok { weighted = s.weighted; items = (app s.items (k :: []));
              pos = (fupd keqb s.pos k (Some (length s.items))); wt = s.wt;
              maxw = s.maxw; maxc = s.maxc; total = s.total }

(** val ld_remove : ('a1 -> 'a1 -> bool) -> 'a1 ld -> 'a1 -> 'a1 ld result **)

let ld_remove keqb s k =
  match s.pos k with
  | Some p ->
    (match rev s.items with
     | [] -> Err IndexErr
     | last :: rest_rev ->
       let its0 = rev rest_rev in
       let pos0 = fupd keqb s.pos k None in
       if Nat.eqb p (length its0)
       then if s.weighted
            then (match s.wt k with
                  | Some w ->
                    let wt1 = fupd keqb s.wt k None in
                    let tot = qminus s.total w in
                    if qeqb w s.maxw
                    then let mc = Z.sub s.maxc (Zpos XH) in
                         if (&&) (Z.eqb mc Z0)
                              (negb (Nat.eqb (length its0) O))
                         then let (m, c) = recompute_max s its0 wt1 in
                              Ok { weighted = true; items = its0; pos = pos0;
                              wt = wt1; maxw = m; maxc = c; total = tot }
                         else Ok { weighted = true; items = its0; pos = pos0;
                                wt = wt1; maxw = s.maxw; maxc = mc; total =
                                tot }
                    else Ok { weighted = true; items = its0; pos = pos0; wt =
                           wt1; maxw = s.maxw; maxc = s.maxc; total = tot }
                  | None -> Err KeyErr)
            else Ok { weighted = false; items = its0; pos = pos0; wt = s.wt;
                   maxw = s.maxw; maxc = s.maxc; total = s.total }
       else let its1 = set_nth its0 p last in
            let pos1 = fupd keqb pos0 last (Some p) in
            if s.weighted
            then (match s.wt k with
                  | Some w ->
                    let wt1 = fupd keqb s.wt k None in
                    let tot = qminus s.total w in
                    if qeqb w s.maxw
                    then let mc = Z.sub s.maxc (Zpos XH) in
                         if (&&) (Z.eqb mc Z0)
                              (negb (Nat.eqb (length its1) O))
                         then let (m, c) = recompute_max s its1 wt1 in
                              Ok { weighted = true; items = its1; pos = pos1;
                              wt = wt1; maxw = m; maxc = c; total = tot }
                         else Ok { weighted = true; items = its1; pos = pos1;
                                wt = wt1; maxw = s.maxw; maxc = mc; total =
                                tot }
                    else Ok { weighted = true; items = its1; pos = pos1; wt =
                           wt1; maxw = s.maxw; maxc = s.maxc; total = tot }
                  | None -> Err KeyErr)
            else Ok { weighted = false; items = its1; pos = pos1; wt = s.wt;
                   maxw = s.maxw; maxc = s.maxc; total = s.total })
  | None -> Err KeyErr

(** val ld_insert :
    ('a1 -> 'a1 -> bool) -> 'a1 ld -> 'a1 -> q option -> 'a1 ld result **)

let ld_insert keqb s k w =
  rbind (if contains s k then ld_remove keqb s k else Ok s) (fun s1 ->
    match w with
    | Some q0 ->
      if qeqb q0 { qnum = Z0; qden = XH }
      then Ok s1
      else ld_update keqb s1 k w
    | None -> ld_update keqb s1 k None)

(** val ld_total_weight : 'a1 ld -> q **)

let ld_total_weight s =
  if s.weighted then s.total else qnat (length s.items)

type 'k round_result =
| Accept of 'k
| Reject
| Crash of err

(** val ld_choose_round : 'a1 ld -> nat -> q -> 'a1 round_result **)

let ld_choose_round s r u =
  match nth_error s.items r with
  | Some k ->
    if s.weighted
    then if qeqb s.maxw { qnum = Z0; qden = XH }
         then Crash ZeroDivision
         else if qltb u (qdiv (wread s k) s.maxw) then Accept k else Reject
    else Accept k
  | None -> Crash IndexErr

type 'k op =
| OpInsert of 'k * q
| OpUpdate of 'k * q
| OpRemove of 'k
| OpAdd of 'k

(** val ld_step :
    ('a1 -> 'a1 -> bool) -> 'a1 ld -> 'a1 op -> 'a1 ld result **)

let ld_step keqb s = function
| OpInsert (k, w) -> ld_insert keqb s k (Some w)
| OpUpdate (k, d) -> ld_update keqb s k (Some d)
| OpRemove k -> ld_remove keqb s k
| OpAdd k -> ld_update keqb s k None

(** val adv :
    (q * 'a1) list -> q -> 'a1 option -> (q * 'a1) list * 'a1 option **)

let rec adv obs r cand =
  match obs with
  | [] -> ([], cand)
  | p :: obs' ->
    let (t, v) = p in if qleb t r then adv obs' r (Some v) else (obs, cand)

(** val scan : q list -> (q * 'a1) list -> 'a1 option -> 'a1 list result **)

let rec scan reports obs cand =
  match reports with
  | [] -> Ok []
  | r :: rs ->
    let (obs', c') = adv obs r cand in
    (match c' with
     | Some v -> rbind (scan rs obs' c') (fun l -> Ok (v :: l))
     | None -> Err NameErr)

(** val subsample : q list -> q list -> 'a1 list -> 'a1 list result **)

let subsample reports times vals =
  match reports with
  | [] -> Err IndexErr
  | r0 :: _ ->
    (match times with
     | [] -> Err IndexErr
     | t0 :: _ ->
       if qltb r0 t0
       then Err EoNError
       else scan reports (combine times vals) None)

(** val subsample2 :
    q list -> q list -> 'a1 list -> 'a1 list -> ('a1 list * 'a1 list) result **)

let subsample2 reports times v1 v2 =
  rbind (subsample reports times v1) (fun a ->
    rbind (subsample reports times v2) (fun b -> Ok (a, b)))

(** val subsample3 :
    q list -> q list -> 'a1 list -> 'a1 list -> 'a1 list -> (('a1 list * 'a1
    list) * 'a1 list) result **)

let subsample3 reports times v1 v2 v3 =
  rbind (subsample reports times v1) (fun a ->
    rbind (subsample2 reports times v2 v3) (fun bc -> Ok ((a, (fst bc)),
      (snd bc))))

(** val time_shift_from : q list -> q list -> q -> q option -> q result **)

let rec time_shift_from times l thr last =
  match times with
  | [] -> (match last with
           | Some t -> Ok t
           | None -> Err NameErr)
  | t :: ts ->
    (match l with
     | [] -> Err IndexErr
     | l0 :: ls ->
       if qleb thr l0 then Ok t else time_shift_from ts ls thr (Some t))

(** val get_time_shift : q list -> q list -> q -> q result **)

let get_time_shift times l thr =
  time_shift_from times l thr None

(** val count : nat -> nat list -> nat **)

let count k ds =
  count_occ Nat.eq_dec ds k

(** val pk : nat list -> nat -> q **)

let pk ds k =
  qdiv (qnat (count k ds)) (qnat (length ds))

(** val maxdeg : nat list -> nat **)

let maxdeg ds =
  fold_right Nat.max O ds

(** val ks : nat list -> nat list **)

let ks ds =
  seq O (S (maxdeg ds))

(** val qpow : q -> z -> q **)

let qpow =
  qpower

(** val psi : nat list -> q -> q **)

let psi ds x =
  sumQ (map (fun k -> qmult (pk ds k) (qpow x (Z.of_nat k))) (ks ds))

(** val psiP : nat list -> q -> q **)

let psiP ds x =
  sumQ
    (map (fun k ->
      qmult (pk ds k) (qmult (qnat k) (qpow x (Z.sub (Z.of_nat k) (Zpos XH)))))
      (ks ds))

(** val psiDP : nat list -> q -> q **)

let psiDP ds x =
  sumQ
    (map (fun k ->
      qmult (pk ds k)
        (qmult
          (qmult (qnat k) (qminus (qnat k) { qnum = (Zpos XH); qden = XH }))
          (qpow x (Z.sub (Z.of_nat k) (Zpos (XO XH)))))) (ks ds))

(** val estimate_R0 : nat list -> q -> q **)

let estimate_R0 ds t =
  qdiv (qmult t (psiDP ds { qnum = (Zpos XH); qden = XH }))
    (psiP ds { qnum = (Zpos XH); qden = XH })

(** val pnk : (nat * nat list) list -> nat -> nat -> q **)

let pnk nd k1 k2 =
  let ds = map fst nd in
  sumQ
    (map (fun dn ->
      if Nat.eqb (fst dn) k1
      then qmult (qnat (count k2 (snd dn)))
             (qdiv { qnum = (Zpos XH); qden = XH }
               (qmult (qnat k1) (qnat (count k1 ds))))
      else { qnum = Z0; qden = XH }) nd)

(** val ldN_empty : bool -> n ld **)

let ldN_empty =
  ld_empty

(** val ldN_step : n ld -> n op -> n ld result **)

let ldN_step =
  ld_step N.eqb

(** val ldN_total : n ld -> q **)

let ldN_total =
  ld_total_weight

(** val ldN_round : n ld -> nat -> q -> n round_result **)

let ldN_round =
  ld_choose_round

(** val ldN_wread : n ld -> n -> q **)

let ldN_wread =
  wread
