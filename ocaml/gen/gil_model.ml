
(** val negb : bool -> bool **)

let negb = function
| true -> false
| false -> true

type nat =
| O
| S of nat

(** val fst : ('a1 * 'a2) -> 'a1 **)

let fst = function
| (x, _) -> x

(** val snd : ('a1 * 'a2) -> 'a2 **)

let snd = function
| (_, y) -> y

(** val length : 'a1 list -> nat **)

let rec length = function
| [] -> O
| _ :: l' -> S (length l')

(** val app : 'a1 list -> 'a1 list -> 'a1 list **)

let rec app l m =
  match l with
  | [] -> m
  | a :: l1 -> a :: (app l1 m)

type comparison =
| Eq
| Lt
| Gt

(** val compOpp : comparison -> comparison **)

let compOpp = function
| Eq -> Eq
| Lt -> Gt
| Gt -> Lt

module Coq__1 = struct
 (** val add : nat -> nat -> nat **)
 let rec add n0 m =
   match n0 with
   | O -> m
   | S p -> S (add p m)
end
include Coq__1

type positive =
| XI of positive
| XO of positive
| XH

type n =
| N0
| Npos of positive

type z =
| Z0
| Zpos of positive
| Zneg of positive

module Nat =
 struct
  (** val pred : nat -> nat **)

  let pred n0 = match n0 with
  | O -> n0
  | S u -> u

  (** val eqb : nat -> nat -> bool **)

  let rec eqb n0 m =
    match n0 with
    | O -> (match m with
            | O -> true
            | S _ -> false)
    | S n' -> (match m with
               | O -> false
               | S m' -> eqb n' m')

  (** val leb : nat -> nat -> bool **)

  let rec leb n0 m =
    match n0 with
    | O -> true
    | S n' -> (match m with
               | O -> false
               | S m' -> leb n' m')

  (** val ltb : nat -> nat -> bool **)

  let ltb n0 m =
    leb (S n0) m
 end

module Pos =
 struct
  type mask =
  | IsNul
  | IsPos of positive
  | IsNeg
 end

module Coq_Pos =
 struct
  (** val succ : positive -> positive **)

  let rec succ = function
  | XI p -> XO (succ p)
  | XO p -> XI p
  | XH -> XO XH

  (** val add : positive -> positive -> positive **)

  let rec add x y =
    match x with
    | XI p ->
      (match y with
       | XI q0 -> XO (add_carry p q0)
       | XO q0 -> XI (add p q0)
       | XH -> XO (succ p))
    | XO p ->
      (match y with
       | XI q0 -> XI (add p q0)
       | XO q0 -> XO (add p q0)
       | XH -> XI p)
    | XH -> (match y with
             | XI q0 -> XO (succ q0)
             | XO q0 -> XI q0
             | XH -> XO XH)

  (** val add_carry : positive -> positive -> positive **)

  and add_carry x y =
    match x with
    | XI p ->
      (match y with
       | XI q0 -> XI (add_carry p q0)
       | XO q0 -> XO (add_carry p q0)
       | XH -> XI (succ p))
    | XO p ->
      (match y with
       | XI q0 -> XO (add_carry p q0)
       | XO q0 -> XI (add p q0)
       | XH -> XO (succ p))
    | XH ->
      (match y with
       | XI q0 -> XI (succ q0)
       | XO q0 -> XO (succ q0)
       | XH -> XI XH)

  (** val pred_double : positive -> positive **)

  let rec pred_double = function
  | XI p -> XI (XO p)
  | XO p -> XI (pred_double p)
  | XH -> XH

  type mask = Pos.mask =
  | IsNul
  | IsPos of positive
  | IsNeg

  (** val succ_double_mask : mask -> mask **)

  let succ_double_mask = function
  | IsNul -> IsPos XH
  | IsPos p -> IsPos (XI p)
  | IsNeg -> IsNeg

  (** val double_mask : mask -> mask **)

  let double_mask = function
  | IsPos p -> IsPos (XO p)
  | x0 -> x0

  (** val double_pred_mask : positive -> mask **)

  let double_pred_mask = function
  | XI p -> IsPos (XO (XO p))
  | XO p -> IsPos (XO (pred_double p))
  | XH -> IsNul

  (** val sub_mask : positive -> positive -> mask **)

  let rec sub_mask x y =
    match x with
    | XI p ->
      (match y with
       | XI q0 -> double_mask (sub_mask p q0)
       | XO q0 -> succ_double_mask (sub_mask p q0)
       | XH -> IsPos (XO p))
    | XO p ->
      (match y with
       | XI q0 -> succ_double_mask (sub_mask_carry p q0)
       | XO q0 -> double_mask (sub_mask p q0)
       | XH -> IsPos (pred_double p))
    | XH -> (match y with
             | XH -> IsNul
             | _ -> IsNeg)

  (** val sub_mask_carry : positive -> positive -> mask **)

  and sub_mask_carry x y =
    match x with
    | XI p ->
      (match y with
       | XI q0 -> succ_double_mask (sub_mask_carry p q0)
       | XO q0 -> double_mask (sub_mask p q0)
       | XH -> IsPos (pred_double p))
    | XO p ->
      (match y with
       | XI q0 -> double_mask (sub_mask_carry p q0)
       | XO q0 -> succ_double_mask (sub_mask_carry p q0)
       | XH -> double_pred_mask p)
    | XH -> IsNeg

  (** val sub : positive -> positive -> positive **)

  let sub x y =
    match sub_mask x y with
    | IsPos z0 -> z0
    | _ -> XH

  (** val mul : positive -> positive -> positive **)

  let rec mul x y =
    match x with
    | XI p -> add y (XO (mul p y))
    | XO p -> XO (mul p y)
    | XH -> y

  (** val size_nat : positive -> nat **)

  let rec size_nat = function
  | XI p0 -> S (size_nat p0)
  | XO p0 -> S (size_nat p0)
  | XH -> S O

  (** val compare_cont : comparison -> positive -> positive -> comparison **)

  let rec compare_cont r x y =
    match x with
    | XI p ->
      (match y with
       | XI q0 -> compare_cont r p q0
       | XO q0 -> compare_cont Gt p q0
       | XH -> Gt)
    | XO p ->
      (match y with
       | XI q0 -> compare_cont Lt p q0
       | XO q0 -> compare_cont r p q0
       | XH -> Gt)
    | XH -> (match y with
             | XH -> r
             | _ -> Lt)

  (** val compare : positive -> positive -> comparison **)

  let compare =
    compare_cont Eq

  (** val eqb : positive -> positive -> bool **)

  let rec eqb p q0 =
    match p with
    | XI p0 -> (match q0 with
                | XI q1 -> eqb p0 q1
                | _ -> false)
    | XO p0 -> (match q0 with
                | XO q1 -> eqb p0 q1
                | _ -> false)
    | XH -> (match q0 with
             | XH -> true
             | _ -> false)

  (** val ggcdn :
      nat -> positive -> positive -> positive * (positive * positive) **)

  let rec ggcdn n0 a b =
    match n0 with
    | O -> (XH, (a, b))
    | S n1 ->
      (match a with
       | XI a' ->
         (match b with
          | XI b' ->
            (match compare a' b' with
             | Eq -> (a, (XH, XH))
             | Lt ->
               let (g, p) = ggcdn n1 (sub b' a') a in
               let (ba, aa) = p in (g, (aa, (add aa (XO ba))))
             | Gt ->
               let (g, p) = ggcdn n1 (sub a' b') b in
               let (ab, bb) = p in (g, ((add bb (XO ab)), bb)))
          | XO b0 ->
            let (g, p) = ggcdn n1 a b0 in
            let (aa, bb) = p in (g, (aa, (XO bb)))
          | XH -> (XH, (a, XH)))
       | XO a0 ->
         (match b with
          | XI _ ->
            let (g, p) = ggcdn n1 a0 b in
            let (aa, bb) = p in (g, ((XO aa), bb))
          | XO b0 -> let (g, p) = ggcdn n1 a0 b0 in ((XO g), p)
          | XH -> (XH, (a, XH)))
       | XH -> (XH, (XH, b)))

  (** val ggcd : positive -> positive -> positive * (positive * positive) **)

  let ggcd a b =
    ggcdn (Coq__1.add (size_nat a) (size_nat b)) a b

  (** val iter_op : ('a1 -> 'a1 -> 'a1) -> positive -> 'a1 -> 'a1 **)

  let rec iter_op op p a =
    match p with
    | XI p0 -> op a (iter_op op p0 (op a a))
    | XO p0 -> iter_op op p0 (op a a)
    | XH -> a

  (** val to_nat : positive -> nat **)

  let to_nat x =
    iter_op Coq__1.add x (S O)

  (** val of_succ_nat : nat -> positive **)

  let rec of_succ_nat = function
  | O -> XH
  | S x -> succ (of_succ_nat x)
 end

module N =
 struct
  (** val compare : n -> n -> comparison **)

  let compare n0 m =
    match n0 with
    | N0 -> (match m with
             | N0 -> Eq
             | Npos _ -> Lt)
    | Npos n' -> (match m with
                  | N0 -> Gt
                  | Npos m' -> Coq_Pos.compare n' m')

  (** val eqb : n -> n -> bool **)

  let eqb n0 m =
    match n0 with
    | N0 -> (match m with
             | N0 -> true
             | Npos _ -> false)
    | Npos p -> (match m with
                 | N0 -> false
                 | Npos q0 -> Coq_Pos.eqb p q0)

  (** val ltb : n -> n -> bool **)

  let ltb x y =
    match compare x y with
    | Lt -> true
    | _ -> false
 end

module Z =
 struct
  (** val double : z -> z **)

  let double = function
  | Z0 -> Z0
  | Zpos p -> Zpos (XO p)
  | Zneg p -> Zneg (XO p)

  (** val succ_double : z -> z **)

  let succ_double = function
  | Z0 -> Zpos XH
  | Zpos p -> Zpos (XI p)
  | Zneg p -> Zneg (Coq_Pos.pred_double p)

  (** val pred_double : z -> z **)

  let pred_double = function
  | Z0 -> Zneg XH
  | Zpos p -> Zpos (Coq_Pos.pred_double p)
  | Zneg p -> Zneg (XI p)

  (** val pos_sub : positive -> positive -> z **)

  let rec pos_sub x y =
    match x with
    | XI p ->
      (match y with
       | XI q0 -> double (pos_sub p q0)
       | XO q0 -> succ_double (pos_sub p q0)
       | XH -> Zpos (XO p))
    | XO p ->
      (match y with
       | XI q0 -> pred_double (pos_sub p q0)
       | XO q0 -> double (pos_sub p q0)
       | XH -> Zpos (Coq_Pos.pred_double p))
    | XH ->
      (match y with
       | XI q0 -> Zneg (XO q0)
       | XO q0 -> Zneg (Coq_Pos.pred_double q0)
       | XH -> Z0)

  (** val add : z -> z -> z **)

  let add x y =
    match x with
    | Z0 -> y
    | Zpos x' ->
      (match y with
       | Z0 -> x
       | Zpos y' -> Zpos (Coq_Pos.add x' y')
       | Zneg y' -> pos_sub x' y')
    | Zneg x' ->
      (match y with
       | Z0 -> x
       | Zpos y' -> pos_sub y' x'
       | Zneg y' -> Zneg (Coq_Pos.add x' y'))

  (** val opp : z -> z **)

  let opp = function
  | Z0 -> Z0
  | Zpos x0 -> Zneg x0
  | Zneg x0 -> Zpos x0

  (** val sub : z -> z -> z **)

  let sub m n0 =
    add m (opp n0)

  (** val mul : z -> z -> z **)

  let mul x y =
    match x with
    | Z0 -> Z0
    | Zpos x' ->
      (match y with
       | Z0 -> Z0
       | Zpos y' -> Zpos (Coq_Pos.mul x' y')
       | Zneg y' -> Zneg (Coq_Pos.mul x' y'))
    | Zneg x' ->
      (match y with
       | Z0 -> Z0
       | Zpos y' -> Zneg (Coq_Pos.mul x' y')
       | Zneg y' -> Zpos (Coq_Pos.mul x' y'))

  (** val compare : z -> z -> comparison **)

  let compare x y =
    match x with
    | Z0 -> (match y with
             | Z0 -> Eq
             | Zpos _ -> Lt
             | Zneg _ -> Gt)
    | Zpos x' -> (match y with
                  | Zpos y' -> Coq_Pos.compare x' y'
                  | _ -> Gt)
    | Zneg x' ->
      (match y with
       | Zneg y' -> compOpp (Coq_Pos.compare x' y')
       | _ -> Lt)

  (** val sgn : z -> z **)

  let sgn = function
  | Z0 -> Z0
  | Zpos _ -> Zpos XH
  | Zneg _ -> Zneg XH

  (** val leb : z -> z -> bool **)

  let leb x y =
    match compare x y with
    | Gt -> false
    | _ -> true

  (** val ltb : z -> z -> bool **)

  let ltb x y =
    match compare x y with
    | Lt -> true
    | _ -> false

  (** val eqb : z -> z -> bool **)

  let eqb x y =
    match x with
    | Z0 -> (match y with
             | Z0 -> true
             | _ -> false)
    | Zpos p -> (match y with
                 | Zpos q0 -> Coq_Pos.eqb p q0
                 | _ -> false)
    | Zneg p -> (match y with
                 | Zneg q0 -> Coq_Pos.eqb p q0
                 | _ -> false)

  (** val abs : z -> z **)

  let abs = function
  | Zneg p -> Zpos p
  | x -> x

  (** val to_nat : z -> nat **)

  let to_nat = function
  | Zpos p -> Coq_Pos.to_nat p
  | _ -> O

  (** val of_nat : nat -> z **)

  let of_nat = function
  | O -> Z0
  | S n1 -> Zpos (Coq_Pos.of_succ_nat n1)

  (** val to_pos : z -> positive **)

  let to_pos = function
  | Zpos p -> p
  | _ -> XH

  (** val pos_div_eucl : positive -> z -> z * z **)

  let rec pos_div_eucl a b =
    match a with
    | XI a' ->
      let (q0, r) = pos_div_eucl a' b in
      let r' = add (mul (Zpos (XO XH)) r) (Zpos XH) in
      if ltb r' b
      then ((mul (Zpos (XO XH)) q0), r')
      else ((add (mul (Zpos (XO XH)) q0) (Zpos XH)), (sub r' b))
    | XO a' ->
      let (q0, r) = pos_div_eucl a' b in
      let r' = mul (Zpos (XO XH)) r in
      if ltb r' b
      then ((mul (Zpos (XO XH)) q0), r')
      else ((add (mul (Zpos (XO XH)) q0) (Zpos XH)), (sub r' b))
    | XH -> if leb (Zpos (XO XH)) b then (Z0, (Zpos XH)) else ((Zpos XH), Z0)

  (** val div_eucl : z -> z -> z * z **)

  let div_eucl a b =
    match a with
    | Z0 -> (Z0, Z0)
    | Zpos a' ->
      (match b with
       | Z0 -> (Z0, a)
       | Zpos _ -> pos_div_eucl a' b
       | Zneg b' ->
         let (q0, r) = pos_div_eucl a' (Zpos b') in
         (match r with
          | Z0 -> ((opp q0), Z0)
          | _ -> ((opp (add q0 (Zpos XH))), (add b r))))
    | Zneg a' ->
      (match b with
       | Z0 -> (Z0, a)
       | Zpos _ ->
         let (q0, r) = pos_div_eucl a' b in
         (match r with
          | Z0 -> ((opp q0), Z0)
          | _ -> ((opp (add q0 (Zpos XH))), (sub b r)))
       | Zneg b' -> let (q0, r) = pos_div_eucl a' (Zpos b') in (q0, (opp r)))

  (** val div : z -> z -> z **)

  let div a b =
    let (q0, _) = div_eucl a b in q0

  (** val modulo : z -> z -> z **)

  let modulo a b =
    let (_, r) = div_eucl a b in r

  (** val even : z -> bool **)

  let even = function
  | Z0 -> true
  | Zpos p -> (match p with
               | XO _ -> true
               | _ -> false)
  | Zneg p -> (match p with
               | XO _ -> true
               | _ -> false)

  (** val ggcd : z -> z -> z * (z * z) **)

  let ggcd a b =
    match a with
    | Z0 -> ((abs b), (Z0, (sgn b)))
    | Zpos a0 ->
      (match b with
       | Z0 -> ((abs a), ((sgn a), Z0))
       | Zpos b0 ->
         let (g, p) = Coq_Pos.ggcd a0 b0 in
         let (aa, bb) = p in ((Zpos g), ((Zpos aa), (Zpos bb)))
       | Zneg b0 ->
         let (g, p) = Coq_Pos.ggcd a0 b0 in
         let (aa, bb) = p in ((Zpos g), ((Zpos aa), (Zneg bb))))
    | Zneg a0 ->
      (match b with
       | Z0 -> ((abs a), ((sgn a), Z0))
       | Zpos b0 ->
         let (g, p) = Coq_Pos.ggcd a0 b0 in
         let (aa, bb) = p in ((Zpos g), ((Zneg aa), (Zpos bb)))
       | Zneg b0 ->
         let (g, p) = Coq_Pos.ggcd a0 b0 in
         let (aa, bb) = p in ((Zpos g), ((Zneg aa), (Zneg bb))))
 end

(** val z_lt_dec : z -> z -> bool **)

let z_lt_dec x y =
  match Z.compare x y with
  | Lt -> true
  | _ -> false

(** val z_lt_ge_dec : z -> z -> bool **)

let z_lt_ge_dec =
  z_lt_dec

(** val z_lt_le_dec : z -> z -> bool **)

let z_lt_le_dec =
  z_lt_ge_dec

(** val zeq_bool : z -> z -> bool **)

let zeq_bool x y =
  match Z.compare x y with
  | Eq -> true
  | _ -> false

(** val nth : nat -> 'a1 list -> 'a1 -> 'a1 **)

let rec nth n0 l default =
  match n0 with
  | O -> (match l with
          | [] -> default
          | x :: _ -> x)
  | S m -> (match l with
            | [] -> default
            | _ :: t -> nth m t default)

(** val nth_error : 'a1 list -> nat -> 'a1 option **)

let rec nth_error l = function
| O -> (match l with
        | [] -> None
        | x :: _ -> Some x)
| S n1 -> (match l with
           | [] -> None
           | _ :: l0 -> nth_error l0 n1)

(** val rev : 'a1 list -> 'a1 list **)

let rec rev = function
| [] -> []
| x :: l' -> app (rev l') (x :: [])

(** val concat : 'a1 list list -> 'a1 list **)

let rec concat = function
| [] -> []
| x :: l0 -> app x (concat l0)

(** val map : ('a1 -> 'a2) -> 'a1 list -> 'a2 list **)

let rec map f = function
| [] -> []
| a :: t -> (f a) :: (map f t)

(** val fold_left : ('a1 -> 'a2 -> 'a1) -> 'a2 list -> 'a1 -> 'a1 **)

let rec fold_left f l a0 =
  match l with
  | [] -> a0
  | b :: t -> fold_left f t (f a0 b)

(** val fold_right : ('a2 -> 'a1 -> 'a1) -> 'a1 -> 'a2 list -> 'a1 **)

let rec fold_right f a0 = function
| [] -> a0
| b :: t -> f b (fold_right f a0 t)

(** val filter : ('a1 -> bool) -> 'a1 list -> 'a1 list **)

let rec filter f = function
| [] -> []
| x :: l0 -> if f x then x :: (filter f l0) else filter f l0

(** val firstn : nat -> 'a1 list -> 'a1 list **)

let rec firstn n0 l =
  match n0 with
  | O -> []
  | S n1 -> (match l with
             | [] -> []
             | a :: l0 -> a :: (firstn n1 l0))

(** val skipn : nat -> 'a1 list -> 'a1 list **)

let rec skipn n0 l =
  match n0 with
  | O -> l
  | S n1 -> (match l with
             | [] -> []
             | _ :: l0 -> skipn n1 l0)

type q = { qnum : z; qden : positive }

(** val inject_Z : z -> q **)

let inject_Z x =
  { qnum = x; qden = XH }

(** val qeq_bool : q -> q -> bool **)

let qeq_bool x y =
  zeq_bool (Z.mul x.qnum (Zpos y.qden)) (Z.mul y.qnum (Zpos x.qden))

(** val qplus : q -> q -> q **)

let qplus x y =
  { qnum = (Z.add (Z.mul x.qnum (Zpos y.qden)) (Z.mul y.qnum (Zpos x.qden)));
    qden = (Coq_Pos.mul x.qden y.qden) }

(** val qmult : q -> q -> q **)

let qmult x y =
  { qnum = (Z.mul x.qnum y.qnum); qden = (Coq_Pos.mul x.qden y.qden) }

(** val qopp : q -> q **)

let qopp x =
  { qnum = (Z.opp x.qnum); qden = x.qden }

(** val qminus : q -> q -> q **)

let qminus x y =
  qplus x (qopp y)

(** val qinv : q -> q **)

let qinv x =
  match x.qnum with
  | Z0 -> { qnum = Z0; qden = XH }
  | Zpos p -> { qnum = (Zpos x.qden); qden = p }
  | Zneg p -> { qnum = (Zneg x.qden); qden = p }

(** val qdiv : q -> q -> q **)

let qdiv x y =
  qmult x (qinv y)

(** val qlt_le_dec : q -> q -> bool **)

let qlt_le_dec x y =
  z_lt_le_dec (Z.mul x.qnum (Zpos y.qden)) (Z.mul y.qnum (Zpos x.qden))

(** val qred : q -> q **)

let qred q0 =
  let { qnum = q1; qden = q2 } = q0 in
  let (r1, r2) = snd (Z.ggcd q1 (Zpos q2)) in
  { qnum = r1; qden = (Z.to_pos r2) }

type err =
| EoNError
| ZeroDivision
| IndexErr
| KeyErr
| TypeErr
| NameErr
| ValueErr
| PyException
| OutOfDraws
| OutOfFuel

type 'a result =
| Ok of 'a
| Err of err

(** val rbind : 'a1 result -> ('a1 -> 'a2 result) -> 'a2 result **)

let rbind r f =
  match r with
  | Ok a -> f a
  | Err e -> Err e

type xtime = q option

(** val xlt : q -> xtime -> bool **)

let xlt a = function
| Some m -> if qlt_le_dec a m then true else false
| None -> true

(** val qltb : q -> q -> bool **)

let qltb a b =
  if qlt_le_dec a b then true else false

(** val qeqb : q -> q -> bool **)

let qeqb =
  qeq_bool

(** val qnat : nat -> q **)

let qnat n0 =
  inject_Z (Z.of_nat n0)

type key = n list

(** val keqb : key -> key -> bool **)

let rec keqb a b =
  match a with
  | [] -> (match b with
           | [] -> true
           | _ :: _ -> false)
  | x :: a' ->
    (match b with
     | [] -> false
     | y :: b' -> (&&) (N.eqb x y) (keqb a' b'))

type 'a samp =
| Ret of 'a
| Fail of err
| Expo of q * (q -> 'a samp)
| Flip of q * 'a samp * 'a samp
| Casc of q list * (nat -> 'a samp)
| Choose of bool * (key * q) list * (key -> 'a samp)
| Unif of key list * (key -> 'a samp)
| Sample of key list * nat * (key list -> 'a samp)

(** val bind : 'a1 samp -> ('a1 -> 'a2 samp) -> 'a2 samp **)

let rec bind m f =
  match m with
  | Ret a -> f a
  | Fail e -> Fail e
  | Expo (r, k) -> Expo (r, (fun d -> bind (k d) f))
  | Flip (p, kt, kf) -> Flip (p, (bind kt f), (bind kf f))
  | Casc (ps, k) -> Casc (ps, (fun i -> bind (k i) f))
  | Choose (w, c, k) -> Choose (w, c, (fun x -> bind (k x) f))
  | Unif (c, k) -> Unif (c, (fun x -> bind (k x) f))
  | Sample (pop, n0, k) -> Sample (pop, n0, (fun l -> bind (k l) f))

type call =
| CExpo of q
| CFlip of q
| CCasc of q list
| CPick of key list
| CAcc of q
| CSample of key list * nat

(** val rank : q -> nat **)

let rank d =
  Z.to_nat (Z.div d.qnum (Zpos d.qden))

(** val casc_index : q list -> q -> nat -> nat **)

let rec casc_index ps d i =
  match ps with
  | [] -> Nat.pred i
  | p :: ps' ->
    if qltb (qminus d p) { qnum = Z0; qden = XH }
    then i
    else casc_index ps' (qminus d p) (S i)

(** val choose_exec :
    bool -> (key * q) list -> q list -> call list -> (key result * call
    list) * q list **)

let rec choose_exec weighted0 cands ds tr =
  match cands with
  | [] -> (((Err IndexErr), ((CPick []) :: tr)), ds)
  | _ :: _ ->
    (match ds with
     | [] -> (((Err OutOfDraws), tr), [])
     | r :: ds1 ->
       (match nth_error cands (rank r) with
        | Some p ->
          let (c, w) = p in
          let tr1 = (CPick (map fst cands)) :: tr in
          if weighted0
          then (match ds1 with
                | [] -> (((Err OutOfDraws), tr1), [])
                | _ :: ds2 ->
                  if qltb { qnum = Z0; qden = XH } w
                  then (((Ok c), ((CAcc w) :: tr1)), ds2)
                  else choose_exec weighted0 cands ds2 ((CAcc w) :: tr1))
          else (((Ok c), tr1), ds1)
        | None -> (((Err OutOfDraws), tr), ds1)))

(** val rotate : nat -> 'a1 list -> 'a1 list **)

let rotate n0 l =
  app (skipn n0 l) (firstn n0 l)

(** val unit_draw : q -> bool **)

let unit_draw d =
  (&&) (negb (qltb d { qnum = Z0; qden = XH }))
    (qltb d { qnum = (Zpos XH); qden = XH })

(** val exec : 'a1 samp -> q list -> call list -> 'a1 result * call list **)

let rec exec m ds tr =
  match m with
  | Ret a -> ((Ok a), (rev tr))
  | Fail e -> ((Err e), (rev tr))
  | Expo (r, k) ->
    if qeqb r { qnum = Z0; qden = XH }
    then ((Err ZeroDivision), (rev ((CExpo r) :: tr)))
    else (match ds with
          | [] -> ((Err OutOfDraws), (rev tr))
          | d :: ds' ->
            if qltb d { qnum = Z0; qden = XH }
            then ((Err OutOfDraws), (rev tr))
            else exec (k d) ds' ((CExpo r) :: tr))
  | Flip (p, kt, kf) ->
    (match ds with
     | [] -> ((Err OutOfDraws), (rev tr))
     | d :: ds' ->
       if unit_draw d
       then exec (if qltb d p then kt else kf) ds' ((CFlip p) :: tr)
       else ((Err OutOfDraws), (rev tr)))
  | Casc (ps, k) ->
    (match ds with
     | [] -> ((Err OutOfDraws), (rev tr))
     | d :: ds' ->
       if unit_draw d
       then exec (k (casc_index ps d O)) ds' ((CCasc ps) :: tr)
       else ((Err OutOfDraws), (rev tr)))
  | Choose (w, c, k) ->
    let (p, ds') = choose_exec w c ds tr in
    let (r, tr') = p in
    (match r with
     | Ok x -> exec (k x) ds' tr'
     | Err e -> ((Err e), (rev tr')))
  | Unif (c, k) ->
    (match c with
     | [] -> ((Err IndexErr), (rev ((CPick []) :: tr)))
     | _ :: _ ->
       (match ds with
        | [] -> ((Err OutOfDraws), (rev tr))
        | d :: ds' ->
          (match nth_error c (rank d) with
           | Some x -> exec (k x) ds' ((CPick c) :: tr)
           | None -> ((Err OutOfDraws), (rev tr)))))
  | Sample (pop, n0, k) ->
    if Nat.ltb (length pop) n0
    then ((Err ValueErr), (rev ((CSample (pop, n0)) :: tr)))
    else (match ds with
          | [] -> ((Err OutOfDraws), (rev tr))
          | d :: ds' ->
            exec (k (firstn n0 (rotate (rank d) pop))) ds' ((CSample (pop,
              n0)) :: tr))

type node = n

type graph = { gnodes : node list; gadj : (node -> node list);
               gpred : (node -> node list); gdirected : bool;
               ew : (node -> node -> q); nw : (node -> q); ewt : bool;
               nwt : bool }

(** val order : graph -> z **)

let order g =
  Z.of_nat (length g.gnodes)

(** val stS : n **)

let stS =
  N0

(** val stI : n **)

let stI =
  Npos XH

(** val stR : n **)

let stR =
  Npos (XO XH)

(** val fupdN : (node -> 'a1) -> node -> 'a1 -> node -> 'a1 **)

let fupdN f k v x =
  if N.eqb x k then v else f x

type row = q * z list

type history = (q * n) list

type fulldata = { fd_hist : (node * history) list;
                  fd_trans : ((q * node option) * node) list }

type simout = { so_rows : row list; so_full : fulldata option }

(** val knode : node -> key **)

let knode u =
  u :: []

(** val kpair : node -> node -> key **)

let kpair u v =
  u :: (v :: [])

(** val kltb : key -> key -> bool **)

let rec kltb a b =
  match a with
  | [] -> (match b with
           | [] -> false
           | _ :: _ -> true)
  | x :: a' ->
    (match b with
     | [] -> false
     | y :: b' ->
       if N.ltb x y then true else if N.ltb y x then false else kltb a' b')

(** val kinsert : (key * 'a1) -> (key * 'a1) list -> (key * 'a1) list **)

let rec kinsert kv l = match l with
| [] -> kv :: []
| h :: t -> if kltb (fst kv) (fst h) then kv :: l else h :: (kinsert kv t)

(** val ksort : (key * 'a1) list -> (key * 'a1) list **)

let ksort l =
  fold_right kinsert [] l

(** val fupd :
    ('a1 -> 'a1 -> bool) -> ('a1 -> 'a2) -> 'a1 -> 'a2 -> 'a1 -> 'a2 **)

let fupd keqb0 f k v x =
  if keqb0 x k then v else f x

type 'k ld = { weighted : bool; items : 'k list; pos : ('k -> nat option);
               wt : ('k -> q option); maxw : q; maxc : z; total : q }

(** val ld_empty : bool -> 'a1 ld **)

let ld_empty w =
  { weighted = w; items = []; pos = (fun _ -> None); wt = (fun _ -> None);
    maxw = { qnum = Z0; qden = XH }; maxc = Z0; total = { qnum = Z0; qden =
    XH } }

(** val contains : 'a1 ld -> 'a1 -> bool **)

let contains s k =
  match s.pos k with
  | Some _ -> true
  | None -> false

(** val wread : 'a1 ld -> 'a1 -> q **)

let wread s k =
  match s.wt k with
  | Some w -> w
  | None -> { qnum = Z0; qden = XH }

(** val set_nth : 'a1 list -> nat -> 'a1 -> 'a1 list **)

let rec set_nth l i x =
  match l with
  | [] -> []
  | h :: t -> (match i with
               | O -> x :: t
               | S j -> h :: (set_nth t j x))

(** val qmax : q -> q -> q **)

let qmax a b =
  if qltb a b then b else a

(** val list_max : q list -> q **)

let list_max = function
| [] -> { qnum = Z0; qden = XH }
| x :: t -> fold_left qmax t x

(** val count_eq : q -> q list -> z **)

let count_eq m l =
  Z.of_nat (length (filter (fun w -> qeqb w m) l))

(** val recompute_max : 'a1 ld -> 'a1 list -> ('a1 -> q option) -> q * z **)

let recompute_max _ its wt' =
  let ws =
    map (fun k ->
      match wt' k with
      | Some w -> w
      | None -> { qnum = Z0; qden = XH }) its
  in
  let m = list_max ws in (m, (count_eq m ws))

(** val ld_update :
    ('a1 -> 'a1 -> bool) -> 'a1 ld -> 'a1 -> q option -> 'a1 ld result **)

let ld_update keqb0 s k = function
| Some d ->
  if negb s.weighted
  then Err TypeErr
  else let w0 = wread s k in
       let w1 = qplus w0 d in
       if (||) (qltb { qnum = Z0; qden = XH } d) (negb (qeqb w0 s.maxw))
       then if qltb s.maxw w1
            then let mc = Zpos XH in
                 let wt' = fupd keqb0 s.wt k (Some w1) in
                 if contains s k
                 then Ok { weighted = s.weighted; items = s.items; pos =
                        s.pos; wt = wt'; maxw = w1; maxc = mc; total =
                        (qplus s.total d) }
                 else Ok { weighted = s.weighted; items =
                        (app s.items (k :: [])); pos =
                        (fupd keqb0 s.pos k (Some (length s.items))); wt =
                        wt'; maxw = w1; maxc = mc; total = (qplus s.total d) }
            else if qeqb w1 s.maxw
                 then let mw = s.maxw in
                      let mc = Z.add s.maxc (Zpos XH) in
                      let wt' = fupd keqb0 s.wt k (Some w1) in
                      if contains s k
                      then Ok { weighted = s.weighted; items = s.items; pos =
                             s.pos; wt = wt'; maxw = mw; maxc = mc; total =
                             (qplus s.total d) }
                      else Ok { weighted = s.weighted; items =
                             (app s.items (k :: [])); pos =
                             (fupd keqb0 s.pos k (Some (length s.items)));
                             wt = wt'; maxw = mw; maxc = mc; total =
                             (qplus s.total d) }
                 else let mw = s.maxw in
                      let mc = s.maxc in
                      let wt' = fupd keqb0 s.wt k (Some w1) in
                      if contains s k
                      then Ok { weighted = s.weighted; items = s.items; pos =
                             s.pos; wt = wt'; maxw = mw; maxc = mc; total =
                             (qplus s.total d) }
                      else Ok { weighted = s.weighted; items =
                             (app s.items (k :: [])); pos =
                             (fupd keqb0 s.pos k (Some (length s.items)));
                             wt = wt'; maxw = mw; maxc = mc; total =
                             (qplus s.total d) }
       else let mw = s.maxw in
            let mc = Z.sub s.maxc (Zpos (XO XH)) in
            let wt' = fupd keqb0 s.wt k (Some w1) in
            if contains s k
            then Ok { weighted = s.weighted; items = s.items; pos = s.pos;
                   wt = wt'; maxw = mw; maxc = mc; total = (qplus s.total d) }
            else Ok { weighted = s.weighted; items = (app s.items (k :: []));
                   pos = (fupd keqb0 s.pos k (Some (length s.items))); wt =
                   wt'; maxw = mw; maxc = mc; total = (qplus s.total d) }
| None ->
  if s.weighted
  then Err PyException
  else if contains s k
       then Ok s
       else Ok { weighted = s.weighted; items = (app s.items (k :: []));
              pos = (fupd keqb0 s.pos k (Some (length s.items))); wt = s.wt;
              maxw = s.maxw; maxc = s.maxc; total = s.total }

(** val ld_remove : ('a1 -> 'a1 -> bool) -> 'a1 ld -> 'a1 -> 'a1 ld result **)

let ld_remove keqb0 s k =
  match s.pos k with
  | Some p ->
    (match rev s.items with
     | [] -> Err IndexErr
     | last :: rest_rev ->
       let its0 = rev rest_rev in
       let pos0 = fupd keqb0 s.pos k None in
       if Nat.eqb p (length its0)
       then if s.weighted
            then (match s.wt k with
                  | Some w ->
                    let wt1 = fupd keqb0 s.wt k None in
                    let tot = qminus s.total w in
                    if qeqb w s.maxw
                    then let mc = Z.sub s.maxc (Zpos XH) in
                         if (&&) (Z.eqb mc Z0)
                              (negb (Nat.eqb (length its0) O))
                         then let (m, c) = recompute_max s its0 wt1 in
                              Ok { weighted = true; items = its0; pos = pos0;
                              wt = wt1; maxw = m; maxc = c; total = tot }
                         else Ok { weighted = true; items = its0; pos = pos0;
                                wt = wt1; maxw = s.maxw; maxc = mc; total =
                                tot }
                    else Ok { weighted = true; items = its0; pos = pos0; wt =
                           wt1; maxw = s.maxw; maxc = s.maxc; total = tot }
                  | None -> Err KeyErr)
            else Ok { weighted = false; items = its0; pos = pos0; wt = s.wt;
                   maxw = s.maxw; maxc = s.maxc; total = s.total }
       else let its1 = set_nth its0 p last in
            let pos1 = fupd keqb0 pos0 last (Some p) in
            if s.weighted
            then (match s.wt k with
                  | Some w ->
                    let wt1 = fupd keqb0 s.wt k None in
                    let tot = qminus s.total w in
                    if qeqb w s.maxw
                    then let mc = Z.sub s.maxc (Zpos XH) in
                         if (&&) (Z.eqb mc Z0)
                              (negb (Nat.eqb (length its1) O))
                         then let (m, c) = recompute_max s its1 wt1 in
                              Ok { weighted = true; items = its1; pos = pos1;
                              wt = wt1; maxw = m; maxc = c; total = tot }
                         else Ok { weighted = true; items = its1; pos = pos1;
                                wt = wt1; maxw = s.maxw; maxc = mc; total =
                                tot }
                    else Ok { weighted = true; items = its1; pos = pos1; wt =
                           wt1; maxw = s.maxw; maxc = s.maxc; total = tot }
                  | None -> Err KeyErr)
            else Ok { weighted = false; items = its1; pos = pos1; wt = s.wt;
                   maxw = s.maxw; maxc = s.maxc; total = s.total })
  | None -> Err KeyErr

(** val ld_total_weight : 'a1 ld -> q **)

let ld_total_weight s =
  if s.weighted then s.total else qnat (length s.items)

type kld = key ld

(** val kl_update : kld -> key -> q option -> kld result **)

let kl_update s k w =
  ld_update keqb s k w

(** val kl_remove : kld -> key -> kld result **)

let kl_remove s k =
  ld_remove keqb s k

(** val kl_empty : bool -> kld **)

let kl_empty =
  ld_empty

(** val kl_cands : kld -> (key * q) list **)

let kl_cands s =
  ksort
    (map (fun k -> (k,
      (if s.weighted then wread s k else { qnum = (Zpos XH); qden = XH })))
      s.items)

(** val wopt : bool -> q -> q option **)

let wopt flag w =
  if flag then Some w else None

type model_kind =
| SIR
| SIS

type gst = { stat : (node -> n); infs : kld; links : kld; rows : row list;
             elog : ((q * node) * n) list;
             tlog : ((q * node option) * node) list }

(** val hd_counts : row list -> z list **)

let hd_counts = function
| [] -> []
| r :: _ -> let (_, c) = r in c

(** val cnt : z list -> nat -> z **)

let cnt c i =
  nth i c Z0

(** val round_half_even : q -> z **)

let round_half_even x =
  let n0 = x.qnum in
  let d = Zpos x.qden in
  let q0 = Z.div n0 d in
  let r = Z.modulo n0 d in
  if Z.ltb (Z.mul (Zpos (XO XH)) r) d
  then q0
  else if Z.ltb d (Z.mul (Zpos (XO XH)) r)
       then Z.add q0 (Zpos XH)
       else if Z.even q0 then q0 else Z.add q0 (Zpos XH)

(** val set_all : (node -> n) -> node list -> n -> node -> n **)

let set_all f l s =
  fold_left (fun f0 u -> fupdN f0 u s) l f

(** val init_sets :
    graph -> (node -> n) -> node list -> (kld * kld) result **)

let init_sets g st i0 =
  fold_left (fun acc u ->
    rbind acc (fun il ->
      rbind (kl_update (fst il) (knode u) (wopt g.nwt (g.nw u)))
        (fun infs' ->
        rbind
          (fold_left (fun accl v ->
            rbind accl (fun l ->
              if N.eqb (st v) stS
              then kl_update l (kpair u v) (wopt g.ewt (g.ew u v))
              else Ok l)) (g.gadj u) (Ok (snd il))) (fun links' -> Ok (infs',
          links'))))) i0 (Ok ((kl_empty g.nwt), (kl_empty g.ewt)))

(** val total_rec : q -> gst -> q **)

let total_rec gamma s =
  qmult gamma (ld_total_weight s.infs)

(** val total_tr : q -> gst -> q **)

let total_tr tau s =
  qmult tau (ld_total_weight s.links)

(** val keynode : key -> node result **)

let keynode = function
| [] -> Err TypeErr
| u :: l -> (match l with
             | [] -> Ok u
             | _ :: _ -> Err TypeErr)

(** val keypair : key -> (node * node) result **)

let keypair = function
| [] -> Err TypeErr
| u :: l ->
  (match l with
   | [] -> Err TypeErr
   | v :: l0 -> (match l0 with
                 | [] -> Ok (u, v)
                 | _ :: _ -> Err TypeErr))

(** val push_row : gst -> q -> z -> z -> z -> row list **)

let push_row s t dS dI dR =
  let c = hd_counts s.rows in
  (t,
  ((Z.add (cnt c O) dS) :: ((Z.add (cnt c (S O)) dI) :: ((Z.add
                                                           (cnt c (S (S O)))
                                                           dR) :: [])))) :: s.rows

(** val push_row2 : gst -> q -> z -> z -> row list **)

let push_row2 s t dS dI =
  let c = hd_counts s.rows in
  (t, ((Z.add (cnt c O) dS) :: ((Z.add (cnt c (S O)) dI) :: []))) :: s.rows

(** val sir_recover : graph -> bool -> q -> node -> gst -> gst result **)

let sir_recover g full t u s =
  rbind (kl_remove s.infs (knode u)) (fun infs' ->
    let st' = fupdN s.stat u stR in
    rbind
      (fold_left (fun accl v ->
        rbind accl (fun l ->
          if N.eqb (st' v) stS then kl_remove l (kpair u v) else Ok l))
        (g.gadj u) (Ok s.links)) (fun links' -> Ok { stat = st'; infs =
      infs'; links = links'; rows = (push_row s t Z0 (Zneg XH) (Zpos XH));
      elog = (if full then ((t, u), stR) :: s.elog else s.elog); tlog =
      s.tlog }))

(** val transmit :
    graph -> model_kind -> bool -> q -> node -> node -> gst -> gst result **)

let transmit g kind full t u v s =
  let st' = fupdN s.stat v stI in
  rbind (kl_update s.infs (knode v) (wopt g.nwt (g.nw v))) (fun infs' ->
    rbind
      (fold_left (fun accl x ->
        rbind accl (fun l ->
          if N.eqb (st' x) stS
          then kl_update l (kpair v x) (wopt g.ewt (g.ew v x))
          else (match kind with
                | SIR ->
                  if (&&) (N.eqb (st' x) stI) (negb (N.eqb x v))
                  then kl_remove l (kpair x v)
                  else Ok l
                | SIS ->
                  if negb (N.eqb x v) then kl_remove l (kpair x v) else Ok l)))
        (g.gadj v) (Ok s.links)) (fun links' -> Ok { stat = st'; infs =
      infs'; links = links'; rows =
      (match kind with
       | SIR -> push_row s t (Zneg XH) (Zpos XH) Z0
       | SIS -> push_row2 s t (Zneg XH) (Zpos XH)); elog =
      (if full then ((t, v), stI) :: s.elog else s.elog); tlog =
      (if full then ((t, (Some u)), v) :: s.tlog else s.tlog) }))

(** val sis_recover : graph -> bool -> q -> node -> gst -> gst result **)

let sis_recover g full t u s =
  rbind (kl_remove s.infs (knode u)) (fun infs' ->
    let st' = fupdN s.stat u stS in
    rbind
      (fold_left (fun accl v ->
        rbind accl (fun l ->
          if N.eqb v u
          then Ok l
          else if N.eqb (st' v) stS
               then kl_remove l (kpair u v)
               else kl_update l (kpair v u) (wopt g.ewt (g.ew u v))))
        (g.gadj u) (Ok s.links)) (fun links' -> Ok { stat = st'; infs =
      infs'; links = links'; rows = (push_row2 s t (Zpos XH) (Zneg XH));
      elog = (if full then ((t, u), stS) :: s.elog else s.elog); tlog =
      s.tlog }))

(** val lift : 'a1 result -> ('a1 -> simout samp) -> simout samp **)

let lift r k =
  match r with
  | Ok a -> k a
  | Err e -> Fail e

(** val hist_of : model_kind -> q -> (q * n) list -> history **)

let hist_of kind tmin evs =
  fold_left (fun h e ->
    if (&&) (qeqb (fst e) tmin)
         (match kind with
          | SIR -> true
          | SIS -> N.eqb (snd e) stI)
    then e :: []
    else app h (e :: [])) evs ((tmin, stS) :: [])

(** val node_events : node -> ((q * node) * n) list -> (q * n) list **)

let node_events u log =
  map (fun e -> ((fst (fst e)), (snd e)))
    (filter (fun e -> N.eqb (snd (fst e)) u) log)

(** val first_with : n -> (q * n) list -> (q * n) list **)

let first_with s evs =
  match filter (fun e -> N.eqb (snd e) s) evs with
  | [] -> []
  | e :: _ -> e :: []

(** val build_full : graph -> model_kind -> q -> gst -> fulldata **)

let build_full g kind tmin s =
  let log = rev s.elog in
  { fd_hist =
  (map (fun u ->
    let evs = node_events u log in
    (u,
    (hist_of kind tmin
      (match kind with
       | SIR -> app (first_with stI evs) (first_with stR evs)
       | SIS -> evs)))) g.gnodes); fd_trans = (rev s.tlog) }

(** val finish : graph -> model_kind -> q -> bool -> gst -> simout **)

let finish g kind tmin full s =
  { so_rows = (rev s.rows); so_full =
    (if full then Some (build_full g kind tmin s) else None) }

(** val is_empty : kld -> bool **)

let is_empty l =
  match l.items with
  | [] -> true
  | _ :: _ -> false

(** val liftr : 'a1 result -> 'a1 samp **)

let liftr = function
| Ok a -> Ret a
| Err e -> Fail e

(** val event_st :
    graph -> model_kind -> bool -> q -> q -> q -> gst -> gst samp **)

let event_st g kind full t trec ttot s =
  Flip ((qdiv trec ttot), (Choose (s.infs.weighted, (kl_cands s.infs),
    (fun c ->
    liftr
      (rbind (keynode c) (fun u ->
        match kind with
        | SIR -> sir_recover g full t u s
        | SIS -> sis_recover g full t u s))))), (Choose (s.links.weighted,
    (kl_cands s.links), (fun c ->
    liftr
      (rbind (keypair c) (fun uv ->
        transmit g kind full t (fst uv) (snd uv) s))))))

(** val event :
    graph -> model_kind -> bool -> q -> q -> q -> gst -> (gst -> simout samp)
    -> simout samp **)

let event g kind full t trec ttot s k =
  bind (event_st g kind full t trec ttot s) k

(** val loop :
    graph -> model_kind -> q -> q -> q -> xtime -> bool -> nat -> q -> gst ->
    simout samp **)

let rec loop g kind tau gamma tmin tmax full fuel t s =
  let trec = total_rec gamma s in
  let ttot = qplus trec (total_tr tau s) in
  if qltb { qnum = Z0; qden = XH } ttot
  then Expo (ttot, (fun d ->
         let t1 = qplus t d in
         if (&&) (negb (is_empty s.infs)) (xlt t1 tmax)
         then (match fuel with
               | O -> Fail OutOfFuel
               | S f ->
                 event g kind full t1 trec ttot s (fun s' ->
                   loop g kind tau gamma tmin tmax full f t1 s'))
         else Ret (finish g kind tmin full s)))
  else Ret (finish g kind tmin full s)

(** val gillespie :
    graph -> model_kind -> q -> q -> node list option -> node list option ->
    q option -> q -> xtime -> bool -> nat -> simout samp **)

let gillespie g kind tau gamma i0 r0 rho tmin tmax full fuel =
  match rho with
  | Some _ ->
    (match i0 with
     | Some _ -> Fail EoNError
     | None ->
       let with_i0 = fun i1 ->
         let r0l =
           match kind with
           | SIR -> (match r0 with
                     | Some l -> l
                     | None -> [])
           | SIS -> []
         in
         let nI = Z.of_nat (length i1) in
         let nR = Z.of_nat (length r0l) in
         let st0 = set_all (set_all (fun _ -> stS) i1 stI) r0l stR in
         let rows0 =
           match kind with
           | SIR ->
             (tmin,
               ((Z.sub (Z.sub (order g) nI) nR) :: (nI :: (nR :: [])))) :: []
           | SIS -> (tmin, ((Z.sub (order g) nI) :: (nI :: []))) :: []
         in
         let elog0 =
           if full
           then rev
                  (app (map (fun u -> ((tmin, u), stI)) i1)
                    (map (fun u -> ((tmin, u), stR)) r0l))
           else []
         in
         let tlog0 =
           if full then rev (map (fun u -> ((tmin, None), u)) i1) else []
         in
         lift (init_sets g st0 i1) (fun il ->
           loop g kind tau gamma tmin tmax full fuel tmin { stat = st0;
             infs = (fst il); links = (snd il); rows = rows0; elog = elog0;
             tlog = tlog0 })
       in
       (match i0 with
        | Some l -> with_i0 l
        | None ->
          let n0 =
            match rho with
            | Some r -> round_half_even (qmult (qnat (length g.gnodes)) r)
            | None -> Zpos XH
          in
          if Z.ltb n0 Z0
          then Fail ValueErr
          else Sample ((map knode g.gnodes), (Z.to_nat n0), (fun ks ->
                 with_i0 (concat ks)))))
  | None ->
    let with_i0 = fun i1 ->
      let r0l =
        match kind with
        | SIR -> (match r0 with
                  | Some l -> l
                  | None -> [])
        | SIS -> []
      in
      let nI = Z.of_nat (length i1) in
      let nR = Z.of_nat (length r0l) in
      let st0 = set_all (set_all (fun _ -> stS) i1 stI) r0l stR in
      let rows0 =
        match kind with
        | SIR ->
          (tmin,
            ((Z.sub (Z.sub (order g) nI) nR) :: (nI :: (nR :: [])))) :: []
        | SIS -> (tmin, ((Z.sub (order g) nI) :: (nI :: []))) :: []
      in
      let elog0 =
        if full
        then rev
               (app (map (fun u -> ((tmin, u), stI)) i1)
                 (map (fun u -> ((tmin, u), stR)) r0l))
        else []
      in
      let tlog0 =
        if full then rev (map (fun u -> ((tmin, None), u)) i1) else []
      in
      lift (init_sets g st0 i1) (fun il ->
        loop g kind tau gamma tmin tmax full fuel tmin { stat = st0; infs =
          (fst il); links = (snd il); rows = rows0; elog = elog0; tlog =
          tlog0 })
    in
    (match i0 with
     | Some l -> with_i0 l
     | None ->
       let n0 =
         match rho with
         | Some r -> round_half_even (qmult (qnat (length g.gnodes)) r)
         | None -> Zpos XH
       in
       if Z.ltb n0 Z0
       then Fail ValueErr
       else Sample ((map knode g.gnodes), (Z.to_nat n0), (fun ks ->
              with_i0 (concat ks))))

(** val run_gillespie :
    graph -> model_kind -> q -> q -> node list option -> node list option ->
    q option -> q -> xtime -> bool -> nat -> q list -> simout result * call
    list **)

let run_gillespie g kind tau gamma i0 r0 rho tmin tmax full fuel ds =
  exec (gillespie g kind tau gamma i0 r0 rho tmin tmax full fuel) ds []
