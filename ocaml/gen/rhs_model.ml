
type nat =
| O
| S of nat

(** val snd : ('a1 * 'a2) -> 'a2 **)

let snd = function
| (_, y) -> y

(** val length : 'a1 list -> nat **)

let rec length = function
| [] -> O
| _ :: l' -> S (length l')

(** val app : 'a1 list -> 'a1 list -> 'a1 list **)

let rec app l m =
  match l with
  | [] -> m
  | a :: l1 -> a :: (app l1 m)

type comparison =
| Eq
| Lt
| Gt

module Coq__1 = struct
 (** val add : nat -> nat -> nat **)
 let rec add n0 m =
   match n0 with
   | O -> m
   | S p -> S (add p m)
end
include Coq__1

(** val sub : nat -> nat -> nat **)

let rec sub n0 m =
  match n0 with
  | O -> n0
  | S k -> (match m with
            | O -> n0
            | S l -> sub k l)

type positive =
| XI of positive
| XO of positive
| XH

type n =
| N0
| Npos of positive

type z =
| Z0
| Zpos of positive
| Zneg of positive

module Pos =
 struct
  type mask =
  | IsNul
  | IsPos of positive
  | IsNeg
 end

module Coq_Pos =
 struct
  (** val succ : positive -> positive **)

  let rec succ = function
  | XI p -> XO (succ p)
  | XO p -> XI p
  | XH -> XO XH

  (** val add : positive -> positive -> positive **)

  let rec add x y =
    match x with
    | XI p ->
      (match y with
       | XI q0 -> XO (add_carry p q0)
       | XO q0 -> XI (add p q0)
       | XH -> XO (succ p))
    | XO p ->
      (match y with
       | XI q0 -> XI (add p q0)
       | XO q0 -> XO (add p q0)
       | XH -> XI p)
    | XH -> (match y with
             | XI q0 -> XO (succ q0)
             | XO q0 -> XI q0
             | XH -> XO XH)

  (** val add_carry : positive -> positive -> positive **)

  and add_carry x y =
    match x with
    | XI p ->
      (match y with
       | XI q0 -> XI (add_carry p q0)
       | XO q0 -> XO (add_carry p q0)
       | XH -> XI (succ p))
    | XO p ->
      (match y with
       | XI q0 -> XO (add_carry p q0)
       | XO q0 -> XI (add p q0)
       | XH -> XO (succ p))
    | XH ->
      (match y with
       | XI q0 -> XI (succ q0)
       | XO q0 -> XO (succ q0)
       | XH -> XI XH)

  (** val pred_double : positive -> positive **)

  let rec pred_double = function
  | XI p -> XI (XO p)
  | XO p -> XI (pred_double p)
  | XH -> XH

  type mask = Pos.mask =
  | IsNul
  | IsPos of positive
  | IsNeg

  (** val succ_double_mask : mask -> mask **)

  let succ_double_mask = function
  | IsNul -> IsPos XH
  | IsPos p -> IsPos (XI p)
  | IsNeg -> IsNeg

  (** val double_mask : mask -> mask **)

  let double_mask = function
  | IsPos p -> IsPos (XO p)
  | x0 -> x0

  (** val double_pred_mask : positive -> mask **)

  let double_pred_mask = function
  | XI p -> IsPos (XO (XO p))
  | XO p -> IsPos (XO (pred_double p))
  | XH -> IsNul

  (** val sub_mask : positive -> positive -> mask **)

  let rec sub_mask x y =
    match x with
    | XI p ->
      (match y with
       | XI q0 -> double_mask (sub_mask p q0)
       | XO q0 -> succ_double_mask (sub_mask p q0)
       | XH -> IsPos (XO p))
    | XO p ->
      (match y with
       | XI q0 -> succ_double_mask (sub_mask_carry p q0)
       | XO q0 -> double_mask (sub_mask p q0)
       | XH -> IsPos (pred_double p))
    | XH -> (match y with
             | XH -> IsNul
             | _ -> IsNeg)

  (** val sub_mask_carry : positive -> positive -> mask **)

  and sub_mask_carry x y =
    match x with
    | XI p ->
      (match y with
       | XI q0 -> succ_double_mask (sub_mask_carry p q0)
       | XO q0 -> double_mask (sub_mask p q0)
       | XH -> IsPos (pred_double p))
    | XO p ->
      (match y with
       | XI q0 -> double_mask (sub_mask_carry p q0)
       | XO q0 -> succ_double_mask (sub_mask_carry p q0)
       | XH -> double_pred_mask p)
    | XH -> IsNeg

  (** val sub : positive -> positive -> positive **)

  let sub x y =
    match sub_mask x y with
    | IsPos z0 -> z0
    | _ -> XH

  (** val mul : positive -> positive -> positive **)

  let rec mul x y =
    match x with
    | XI p -> add y (XO (mul p y))
    | XO p -> XO (mul p y)
    | XH -> y

  (** val size_nat : positive -> nat **)

  let rec size_nat = function
  | XI p0 -> S (size_nat p0)
  | XO p0 -> S (size_nat p0)
  | XH -> S O

  (** val compare_cont : comparison -> positive -> positive -> comparison **)

  let rec compare_cont r x y =
    match x with
    | XI p ->
      (match y with
       | XI q0 -> compare_cont r p q0
       | XO q0 -> compare_cont Gt p q0
       | XH -> Gt)
    | XO p ->
      (match y with
       | XI q0 -> compare_cont Lt p q0
       | XO q0 -> compare_cont r p q0
       | XH -> Gt)
    | XH -> (match y with
             | XH -> r
             | _ -> Lt)

  (** val compare : positive -> positive -> comparison **)

  let compare =
    compare_cont Eq

  (** val ggcdn :
      nat -> positive -> positive -> positive * (positive * positive) **)

  let rec ggcdn n0 a b =
    match n0 with
    | O -> (XH, (a, b))
    | S n1 ->
      (match a with
       | XI a' ->
         (match b with
          | XI b' ->
            (match compare a' b' with
             | Eq -> (a, (XH, XH))
             | Lt ->
               let (g, p) = ggcdn n1 (sub b' a') a in
               let (ba, aa) = p in (g, (aa, (add aa (XO ba))))
             | Gt ->
               let (g, p) = ggcdn n1 (sub a' b') b in
               let (ab, bb) = p in (g, ((add bb (XO ab)), bb)))
          | XO b0 ->
            let (g, p) = ggcdn n1 a b0 in
            let (aa, bb) = p in (g, (aa, (XO bb)))
          | XH -> (XH, (a, XH)))
       | XO a0 ->
         (match b with
          | XI _ ->
            let (g, p) = ggcdn n1 a0 b in
            let (aa, bb) = p in (g, ((XO aa), bb))
          | XO b0 -> let (g, p) = ggcdn n1 a0 b0 in ((XO g), p)
          | XH -> (XH, (a, XH)))
       | XH -> (XH, (XH, b)))

  (** val ggcd : positive -> positive -> positive * (positive * positive) **)

  let ggcd a b =
    ggcdn (Coq__1.add (size_nat a) (size_nat b)) a b

  (** val of_succ_nat : nat -> positive **)

  let rec of_succ_nat = function
  | O -> XH
  | S x -> succ (of_succ_nat x)
 end

module Z =
 struct
  (** val double : z -> z **)

  let double = function
  | Z0 -> Z0
  | Zpos p -> Zpos (XO p)
  | Zneg p -> Zneg (XO p)

  (** val succ_double : z -> z **)

  let succ_double = function
  | Z0 -> Zpos XH
  | Zpos p -> Zpos (XI p)
  | Zneg p -> Zneg (Coq_Pos.pred_double p)

  (** val pred_double : z -> z **)

  let pred_double = function
  | Z0 -> Zneg XH
  | Zpos p -> Zpos (Coq_Pos.pred_double p)
  | Zneg p -> Zneg (XI p)

  (** val pos_sub : positive -> positive -> z **)

  let rec pos_sub x y =
    match x with
    | XI p ->
      (match y with
       | XI q0 -> double (pos_sub p q0)
       | XO q0 -> succ_double (pos_sub p q0)
       | XH -> Zpos (XO p))
    | XO p ->
      (match y with
       | XI q0 -> pred_double (pos_sub p q0)
       | XO q0 -> double (pos_sub p q0)
       | XH -> Zpos (Coq_Pos.pred_double p))
    | XH ->
      (match y with
       | XI q0 -> Zneg (XO q0)
       | XO q0 -> Zneg (Coq_Pos.pred_double q0)
       | XH -> Z0)

  (** val add : z -> z -> z **)

  let add x y =
    match x with
    | Z0 -> y
    | Zpos x' ->
      (match y with
       | Z0 -> x
       | Zpos y' -> Zpos (Coq_Pos.add x' y')
       | Zneg y' -> pos_sub x' y')
    | Zneg x' ->
      (match y with
       | Z0 -> x
       | Zpos y' -> pos_sub y' x'
       | Zneg y' -> Zneg (Coq_Pos.add x' y'))

  (** val opp : z -> z **)

  let opp = function
  | Z0 -> Z0
  | Zpos x0 -> Zneg x0
  | Zneg x0 -> Zpos x0

  (** val mul : z -> z -> z **)

  let mul x y =
    match x with
    | Z0 -> Z0
    | Zpos x' ->
      (match y with
       | Z0 -> Z0
       | Zpos y' -> Zpos (Coq_Pos.mul x' y')
       | Zneg y' -> Zneg (Coq_Pos.mul x' y'))
    | Zneg x' ->
      (match y with
       | Z0 -> Z0
       | Zpos y' -> Zneg (Coq_Pos.mul x' y')
       | Zneg y' -> Zpos (Coq_Pos.mul x' y'))

  (** val sgn : z -> z **)

  let sgn = function
  | Z0 -> Z0
  | Zpos _ -> Zpos XH
  | Zneg _ -> Zneg XH

  (** val abs : z -> z **)

  let abs = function
  | Zneg p -> Zpos p
  | x -> x

  (** val of_nat : nat -> z **)

  let of_nat = function
  | O -> Z0
  | S n1 -> Zpos (Coq_Pos.of_succ_nat n1)

  (** val to_pos : z -> positive **)

  let to_pos = function
  | Zpos p -> p
  | _ -> XH

  (** val ggcd : z -> z -> z * (z * z) **)

  let ggcd a b =
    match a with
    | Z0 -> ((abs b), (Z0, (sgn b)))
    | Zpos a0 ->
      (match b with
       | Z0 -> ((abs a), ((sgn a), Z0))
       | Zpos b0 ->
         let (g, p) = Coq_Pos.ggcd a0 b0 in
         let (aa, bb) = p in ((Zpos g), ((Zpos aa), (Zpos bb)))
       | Zneg b0 ->
         let (g, p) = Coq_Pos.ggcd a0 b0 in
         let (aa, bb) = p in ((Zpos g), ((Zpos aa), (Zneg bb))))
    | Zneg a0 ->
      (match b with
       | Z0 -> ((abs a), ((sgn a), Z0))
       | Zpos b0 ->
         let (g, p) = Coq_Pos.ggcd a0 b0 in
         let (aa, bb) = p in ((Zpos g), ((Zneg aa), (Zpos bb)))
       | Zneg b0 ->
         let (g, p) = Coq_Pos.ggcd a0 b0 in
         let (aa, bb) = p in ((Zpos g), ((Zneg aa), (Zneg bb))))
 end

(** val pow_pos : ('a1 -> 'a1 -> 'a1) -> 'a1 -> positive -> 'a1 **)

let rec pow_pos rmul x = function
| XI i0 -> let p = pow_pos rmul x i0 in rmul x (rmul p p)
| XO i0 -> let p = pow_pos rmul x i0 in rmul p p
| XH -> x

(** val nth : nat -> 'a1 list -> 'a1 -> 'a1 **)

let rec nth n0 l default =
  match n0 with
  | O -> (match l with
          | [] -> default
          | x :: _ -> x)
  | S m -> (match l with
            | [] -> default
            | _ :: t -> nth m t default)

(** val map : ('a1 -> 'a2) -> 'a1 list -> 'a2 list **)

let rec map f = function
| [] -> []
| a :: t -> (f a) :: (map f t)

(** val fold_right : ('a2 -> 'a1 -> 'a1) -> 'a1 -> 'a2 list -> 'a1 **)

let rec fold_right f a0 = function
| [] -> a0
| b :: t -> f b (fold_right f a0 t)

(** val firstn : nat -> 'a1 list -> 'a1 list **)

let rec firstn n0 l =
  match n0 with
  | O -> []
  | S n1 -> (match l with
             | [] -> []
             | a :: l0 -> a :: (firstn n1 l0))

(** val skipn : nat -> 'a1 list -> 'a1 list **)

let rec skipn n0 l =
  match n0 with
  | O -> l
  | S n1 -> (match l with
             | [] -> []
             | _ :: l0 -> skipn n1 l0)

(** val seq : nat -> nat -> nat list **)

let rec seq start = function
| O -> []
| S len0 -> start :: (seq (S start) len0)

type q = { qnum : z; qden : positive }

(** val inject_Z : z -> q **)

let inject_Z x =
  { qnum = x; qden = XH }

(** val qplus : q -> q -> q **)

let qplus x y =
  { qnum = (Z.add (Z.mul x.qnum (Zpos y.qden)) (Z.mul y.qnum (Zpos x.qden)));
    qden = (Coq_Pos.mul x.qden y.qden) }

(** val qmult : q -> q -> q **)

let qmult x y =
  { qnum = (Z.mul x.qnum y.qnum); qden = (Coq_Pos.mul x.qden y.qden) }

(** val qopp : q -> q **)

let qopp x =
  { qnum = (Z.opp x.qnum); qden = x.qden }

(** val qminus : q -> q -> q **)

let qminus x y =
  qplus x (qopp y)

(** val qinv : q -> q **)

let qinv x =
  match x.qnum with
  | Z0 -> { qnum = Z0; qden = XH }
  | Zpos p -> { qnum = (Zpos x.qden); qden = p }
  | Zneg p -> { qnum = (Zneg x.qden); qden = p }

(** val qdiv : q -> q -> q **)

let qdiv x y =
  qmult x (qinv y)

(** val qpower_positive : q -> positive -> q **)

let qpower_positive =
  pow_pos qmult

(** val qpower : q -> z -> q **)

let qpower q0 = function
| Z0 -> { qnum = (Zpos XH); qden = XH }
| Zpos p -> qpower_positive q0 p
| Zneg p -> qinv (qpower_positive q0 p)

(** val qred : q -> q **)

let qred q0 =
  let { qnum = q1; qden = q2 } = q0 in
  let (r1, r2) = snd (Z.ggcd q1 (Zpos q2)) in
  { qnum = r1; qden = (Z.to_pos r2) }

type err =
| EoNError
| ZeroDivision
| IndexErr
| KeyErr
| TypeErr
| NameErr
| ValueErr
| PyException
| OutOfDraws
| OutOfFuel

type 'a result =
| Ok of 'a
| Err of err

(** val sumQ : q list -> q **)

let sumQ l =
  fold_right qplus { qnum = Z0; qden = XH } l

(** val qnat : nat -> q **)

let qnat n0 =
  inject_Z (Z.of_nat n0)

type vec = q list

(** val zipWith : (q -> q -> q) -> vec -> vec -> vec **)

let rec zipWith f a b =
  match a with
  | [] -> []
  | x :: a' ->
    (match b with
     | [] -> []
     | y :: b' -> (f x y) :: (zipWith f a' b'))

(** val vadd : vec -> vec -> vec **)

let vadd =
  zipWith qplus

(** val vsub : vec -> vec -> vec **)

let vsub =
  zipWith qminus

(** val vmul : vec -> vec -> vec **)

let vmul =
  zipWith qmult

(** val smul : q -> vec -> vec **)

let smul c a =
  map (fun x -> qmult c x) a

(** val vmuls : vec -> q -> vec **)

let vmuls a c =
  map (fun x -> qmult x c) a

(** val vdivs : vec -> q -> vec **)

let vdivs a c =
  map (fun x -> qdiv x c) a

(** val vsubs : vec -> q -> vec **)

let vsubs a c =
  map (fun x -> qminus x c) a

(** val vsum : vec -> q **)

let vsum =
  sumQ

(** val dot : vec -> vec -> q **)

let dot a b =
  vsum (vmul a b)

(** val qpow : q -> z -> q **)

let qpow =
  qpower

(** val arange : nat -> vec **)

let arange n0 =
  map qnat (seq O n0)

(** val spow_arange : q -> nat -> vec **)

let spow_arange x n0 =
  map (fun k -> qpow x (Z.of_nat k)) (seq O n0)

(** val vnth : nat -> vec -> q **)

let vnth i a =
  nth i a { qnum = Z0; qden = XH }

(** val slice_from : nat -> vec -> vec **)

let slice_from =
  skipn

(** val slice_to : nat -> vec -> vec **)

let slice_to =
  firstn

(** val drop_last : nat -> vec -> vec **)

let drop_last k x =
  firstn (sub (length x) k) x

(** val take_last : nat -> vec -> vec **)

let take_last k x =
  skipn (sub (length x) k) x

(** val shift_m1 : vec -> vec **)

let shift_m1 = function
| [] -> []
| _ :: t -> app t ({ qnum = Z0; qden = XH } :: [])

(** val iter : nat -> ('a1 -> 'a1) -> 'a1 -> 'a1 **)

let rec iter n0 f x =
  match n0 with
  | O -> x
  | S n' -> f (iter n' f x)

(** val peval : q list -> q -> q **)

let rec peval c x =
  match c with
  | [] -> { qnum = Z0; qden = XH }
  | a :: c' -> qplus a (qmult x (peval c' x))

(** val dSIS_homogeneous_meanfield : vec -> q -> q -> q -> q -> vec **)

let dSIS_homogeneous_meanfield v_X _ v_n_over_N v_tau v_gamma =
  let v_S = vnth O v_X in
  let v_I = vnth (S O) v_X in
  let v_dSdt =
    qminus (qmult v_gamma v_I)
      (qmult (qmult (qmult v_tau v_n_over_N) v_S) v_I)
  in
  let v_dIdt = qopp v_dSdt in v_dSdt :: (v_dIdt :: [])

(** val dSIR_homogeneous_meanfield : vec -> q -> q -> q -> q -> vec **)

let dSIR_homogeneous_meanfield v_X _ v_n_over_N v_tau v_gamma =
  let v_S = vnth O v_X in
  let v_I = vnth (S O) v_X in
  let v_dSdt = qmult (qmult (qmult (qopp v_tau) v_n_over_N) v_S) v_I in
  let v_dIdt =
    qminus (qmult (qmult (qmult v_tau v_n_over_N) v_S) v_I)
      (qmult v_gamma v_I)
  in
  v_dSdt :: (v_dIdt :: [])

(** val dSIS_homogeneous_pairwise : vec -> q -> q -> q -> q -> q -> vec **)

let dSIS_homogeneous_pairwise v_X _ v_N v_n v_tau v_gamma =
  let v_S = vnth O v_X in
  let v_SI = vnth (S O) v_X in
  let v_SS = vnth (S (S O)) v_X in
  let v_I = qminus v_N v_S in
  let v_II =
    qminus (qminus (qmult v_N v_n) v_SS)
      (qmult { qnum = (Zpos (XO XH)); qden = XH } v_SI)
  in
  let v_nm1_over_n = qdiv (qminus v_n { qnum = (Zpos XH); qden = XH }) v_n in
  let v_dSdt = qminus (qmult v_gamma v_I) (qmult v_tau v_SI) in
  let v_dSIdt =
    qminus
      (qplus (qmult v_gamma (qminus v_II v_SI))
        (qdiv
          (qmult (qmult (qmult v_tau v_nm1_over_n) v_SI) (qminus v_SS v_SI))
          v_S)) (qmult v_tau v_SI)
  in
  let v_dSSdt =
    qminus (qmult (qmult { qnum = (Zpos (XO XH)); qden = XH } v_gamma) v_SI)
      (qdiv
        (qmult
          (qmult
            (qmult (qmult { qnum = (Zpos (XO XH)); qden = XH } v_tau)
              v_nm1_over_n) v_SI) v_SS) v_S)
  in
  v_dSdt :: (v_dSIdt :: (v_dSSdt :: []))

(** val dSIR_homogeneous_pairwise : vec -> q -> q -> q -> q -> vec **)

let dSIR_homogeneous_pairwise v_X _ v_n v_tau v_gamma =
  let v_S = vnth O v_X in
  let v_I = vnth (S O) v_X in
  let v_SI = vnth (S (S O)) v_X in
  let v_SS = vnth (S (S (S O))) v_X in
  let v_nm1_over_n = qdiv (qminus v_n { qnum = (Zpos XH); qden = XH }) v_n in
  let v_dSdt = qmult (qopp v_tau) v_SI in
  let v_dIdt = qminus (qmult v_tau v_SI) (qmult v_gamma v_I) in
  let v_dSIdt =
    qminus
      (qplus (qmult (qopp v_gamma) v_SI)
        (qdiv
          (qmult (qmult (qmult v_tau v_nm1_over_n) v_SI) (qminus v_SS v_SI))
          v_S)) (qmult v_tau v_SI)
  in
  let v_dSSdt =
    qdiv
      (qmult
        (qmult
          (qmult (qmult { qnum = (Zneg (XO XH)); qden = XH } v_tau)
            v_nm1_over_n) v_SI) v_SS) v_S
  in
  v_dSdt :: (v_dIdt :: (v_dSIdt :: (v_dSSdt :: [])))

(** val dSIS_super_compact_pairwise :
    vec -> q -> q -> q -> q -> q -> q -> q -> vec **)

let dSIS_super_compact_pairwise v_X _ v_tau v_gamma v_N v_k_ave v_ksquare_ave v_kcube_ave =
  let v_I = vnth O v_X in
  let v_SS = vnth (S O) v_X in
  let v_SI = vnth (S (S O)) v_X in
  let v_II = vnth (S (S (S O))) v_X in
  let v_S = qminus v_N v_I in
  let v_n_S = qdiv (qplus v_SS v_SI) v_S in
  let v_Q =
    qdiv
      (qminus
        (qdiv
          (qplus
            (qmult v_ksquare_ave (qminus v_ksquare_ave (qmult v_n_S v_k_ave)))
            (qmult v_kcube_ave (qminus v_n_S v_k_ave)))
          (qmult v_n_S (qminus v_ksquare_ave (qpow v_k_ave (Zpos (XO XH))))))
        { qnum = (Zpos XH); qden = XH }) (qmult v_S v_n_S)
  in
  let v_dIdt = qminus (qmult v_tau v_SI) (qmult v_gamma v_I) in
  let v_dSSdt =
    qminus (qmult (qmult { qnum = (Zpos (XO XH)); qden = XH } v_gamma) v_SI)
      (qmult
        (qmult
          (qmult (qmult { qnum = (Zpos (XO XH)); qden = XH } v_tau) v_SI)
          v_SS) v_Q)
  in
  let v_dSIdt =
    qminus
      (qplus (qmult v_gamma (qminus v_II v_SI))
        (qmult (qmult (qmult v_tau v_SI) (qminus v_SS v_SI)) v_Q))
      (qmult v_tau v_SI)
  in
  let v_dIIdt =
    qplus
      (qplus
        (qmult (qmult { qnum = (Zneg (XO XH)); qden = XH } v_gamma) v_II)
        (qmult
          (qmult (qmult { qnum = (Zpos (XO XH)); qden = XH } v_tau)
            (qpow v_SI (Zpos (XO XH)))) v_Q))
      (qmult (qmult { qnum = (Zpos (XO XH)); qden = XH } v_tau) v_SI)
  in
  v_dIdt :: (v_dSSdt :: (v_dSIdt :: (v_dIIdt :: [])))

(** val dSIR_super_compact_pairwise :
    vec -> q -> q -> q -> (q -> q) -> (q -> q) -> (q -> q) -> q -> vec **)

let dSIR_super_compact_pairwise v_X _ v_tau v_gamma v_psihat v_psihatPrime v_psihatDPrime v_N =
  let v_theta = vnth O v_X in
  let v_SS = vnth (S O) v_X in
  let v_SI = vnth (S (S O)) v_X in
  let v_R = vnth (S (S (S O))) v_X in
  let v_S = qmult v_N (v_psihat v_theta) in
  let v_I = qminus (qminus v_N v_S) v_R in
  let v_Q =
    qdiv (v_psihatDPrime v_theta)
      (qmult v_N (qpow (v_psihatPrime v_theta) (Zpos (XO XH))))
  in
  let v_dThetadt =
    qdiv (qmult (qopp v_tau) v_SI) (qmult v_N (v_psihatPrime v_theta))
  in
  let v_dSSdt =
    qmult
      (qmult (qmult (qmult { qnum = (Zneg (XO XH)); qden = XH } v_tau) v_SS)
        v_SI) v_Q
  in
  let v_dSIdt =
    qminus
      (qplus (qmult (qopp v_gamma) v_SI)
        (qmult (qmult (qmult v_tau (qminus v_SS v_SI)) v_SI) v_Q))
      (qmult v_tau v_SI)
  in
  let v_dRdt = qmult v_gamma v_I in
  v_dThetadt :: (v_dSSdt :: (v_dSIdt :: (v_dRdt :: [])))

(** val dEBCM :
    vec -> q -> q -> q -> q -> (q -> q) -> (q -> q) -> q -> q -> vec **)

let dEBCM v_X _ v_N v_tau v_gamma v_psihat v_psihatPrime v_phiS0 v_phiR0 =
  let v_theta = vnth O v_X in
  let v_R = vnth (S O) v_X in
  let v_dtheta =
    qplus
      (qplus
        (qplus (qmult (qopp v_tau) v_theta)
          (qdiv (qmult (qmult v_tau v_phiS0) (v_psihatPrime v_theta))
            (v_psihatPrime { qnum = (Zpos XH); qden = XH })))
        (qmult v_gamma (qminus { qnum = (Zpos XH); qden = XH } v_theta)))
      (qmult v_tau v_phiR0)
  in
  let v_S = qmult v_N (v_psihat v_theta) in
  let v_I = qminus (qminus v_N v_S) v_R in
  let v_dR = qmult v_gamma v_I in v_dtheta :: (v_dR :: [])

(** val dSIS_compact_pairwise : vec -> q -> vec -> q -> q -> q -> vec **)

let dSIS_compact_pairwise v_X _ v_Nk v_twoM v_tau v_gamma =
  let v_Sk = drop_last (S (S O)) v_X in
  let v_SI = vnth O (take_last (S (S O)) v_X) in
  let v_SS = vnth (S O) (take_last (S (S O)) v_X) in
  let v_Ik = vsub v_Nk v_Sk in
  let v_II =
    qminus (qminus v_twoM v_SS)
      (qmult { qnum = (Zpos (XO XH)); qden = XH } v_SI)
  in
  let v_SX = dot (arange (length v_Sk)) v_Sk in
  let v_Q =
    qmult (qdiv { qnum = (Zpos XH); qden = XH } (qpow v_SX (Zpos (XO XH))))
      (dot
        (vmul (arange (length v_Sk))
          (vsubs (arange (length v_Sk)) { qnum = (Zpos XH); qden = XH }))
        v_Sk)
  in
  let v_dSk =
    vsub (smul v_gamma v_Ik)
      (vdivs (vmuls (vmul (smul v_tau (arange (length v_Sk))) v_Sk) v_SI)
        v_SX)
  in
  let v_dSI =
    qminus
      (qplus (qmult v_gamma (qminus v_II v_SI))
        (qmult (qmult (qmult v_tau (qminus v_SS v_SI)) v_SI) v_Q))
      (qmult v_tau v_SI)
  in
  let v_dSS =
    qminus (qmult (qmult { qnum = (Zpos (XO XH)); qden = XH } v_gamma) v_SI)
      (qmult
        (qmult
          (qmult (qmult { qnum = (Zpos (XO XH)); qden = XH } v_tau) v_SS)
          v_SI) v_Q)
  in
  app v_dSk (v_dSI :: (v_dSS :: []))

(** val dSIR_compact_pairwise : vec -> q -> q -> q -> q -> vec **)

let dSIR_compact_pairwise v_X _ v_N v_tau v_gamma =
  let v_Sk = drop_last (S (S (S O))) v_X in
  let v_SS = vnth O (take_last (S (S (S O))) v_X) in
  let v_SI = vnth (S O) (take_last (S (S (S O))) v_X) in
  let v_R = vnth (S (S O)) (take_last (S (S (S O))) v_X) in
  let v_SX = dot (arange (length v_Sk)) v_Sk in
  let v_Q =
    qdiv
      (dot
        (vmul (arange (length v_Sk))
          (vsubs (arange (length v_Sk)) { qnum = (Zpos XH); qden = XH }))
        v_Sk) (qpow v_SX (Zpos (XO XH)))
  in
  let v_I = qminus (qminus v_N (vsum v_Sk)) v_R in
  let v_dSk =
    vdivs (vmuls (vmul (smul (qopp v_tau) (arange (length v_Sk))) v_Sk) v_SI)
      v_SX
  in
  let v_dSS =
    qmult
      (qmult (qmult (qmult { qnum = (Zneg (XO XH)); qden = XH } v_tau) v_SS)
        v_SI) v_Q
  in
  let v_dSI =
    qminus
      (qplus (qmult (qopp v_gamma) v_SI)
        (qmult (qmult (qmult v_tau (qminus v_SS v_SI)) v_SI) v_Q))
      (qmult v_tau v_SI)
  in
  let v_dR = qmult v_gamma v_I in app v_dSk (v_dSS :: (v_dSI :: (v_dR :: [])))

(** val dSIS_heterogeneous_meanfield : vec -> q -> nat -> q -> q -> vec **)

let dSIS_heterogeneous_meanfield v_X _ v_kcount v_tau v_gamma =
  let v_S = slice_to v_kcount v_X in
  let v_I = slice_from v_kcount v_X in
  let v_pi_I =
    qdiv (dot (arange v_kcount) v_I) (dot (arange v_kcount) (vadd v_I v_S))
  in
  let v_Sdot =
    vsub (smul v_gamma v_I)
      (vmuls (vmul (smul v_tau (arange v_kcount)) v_S) v_pi_I)
  in
  let v_Idot =
    vsub (vmuls (vmul (smul v_tau (arange v_kcount)) v_S) v_pi_I)
      (smul v_gamma v_I)
  in
  app v_Sdot v_Idot

(** val dSIR_heterogeneous_meanfield :
    vec -> q -> vec -> vec -> q -> q -> vec **)

let dSIR_heterogeneous_meanfield v_X _ v_S0 v_Nk v_tau v_gamma =
  let v_theta = vnth O v_X in
  let v_Rk = slice_from (S O) v_X in
  let v_Sk = vmul v_S0 (spow_arange v_theta (length v_Rk)) in
  let v_Ik = vsub (vsub v_Nk v_Sk) v_Rk in
  let v_pi_I =
    qdiv (dot (arange (length v_Rk)) v_Ik) (dot (arange (length v_Rk)) v_Nk)
  in
  let v_dRkdt = smul v_gamma v_Ik in
  let v_dThetadt = qmult (qmult (qopp v_tau) v_pi_I) v_theta in
  app (v_dThetadt :: []) v_dRkdt

(** val dSIR_compact_effective_degree : vec -> q -> q -> q -> q -> vec **)

let dSIR_compact_effective_degree v_X _ v_N v_tau v_gamma =
  let v_Skappa = drop_last (S (S O)) v_X in
  let v_R = vnth O (take_last (S (S O)) v_X) in
  let v_SI = vnth (S O) (take_last (S (S O)) v_X) in
  let v_I = qminus (qminus v_N v_R) (vsum v_Skappa) in
  let v_effectiveI = qdiv v_SI (dot v_Skappa (arange (length v_Skappa))) in
  let v_dSkappa =
    smul v_effectiveI
      (vadd
        (vmul (smul (qopp (qplus v_tau v_gamma)) (arange (length v_Skappa)))
          v_Skappa)
        (smul v_gamma (shift_m1 (vmul (arange (length v_Skappa)) v_Skappa))))
  in
  let v_dSI =
    qplus (qmult (qopp (qplus v_tau v_gamma)) v_SI)
      (qmult
        (qmult v_tau
          (qminus v_effectiveI
            (qmult { qnum = (Zpos (XO XH)); qden = XH }
              (qpow v_effectiveI (Zpos (XO XH))))))
        (vsum
          (vmul
            (vmul (arange (length v_Skappa))
              (vsubs (arange (length v_Skappa)) { qnum = (Zpos XH); qden =
                XH })) v_Skappa)))
  in
  let v_dR = qmult v_gamma v_I in app v_dSkappa (v_dR :: (v_dSI :: []))

(** val attack_rate_discrete_init :
    q -> q -> q -> (q -> q) -> (q -> q) -> q **)

let attack_rate_discrete_init _ _ _ _ _ =
  { qnum = (Zpos XH); qden = XH }

(** val attack_rate_discrete_step :
    q -> q -> q -> (q -> q) -> (q -> q) -> q -> q **)

let attack_rate_discrete_step v_p v_phiR0 v_phiS0 v_psihatPrime _ v_theta =
  qplus (qminus { qnum = (Zpos XH); qden = XH } v_p)
    (qmult v_p
      (qplus v_phiR0
        (qdiv (qmult v_phiS0 (v_psihatPrime v_theta))
          (v_psihatPrime { qnum = (Zpos XH); qden = XH }))))

(** val attack_rate_discrete_ret :
    q -> q -> q -> (q -> q) -> (q -> q) -> q -> q **)

let attack_rate_discrete_ret _ _ _ _ v_psihat v_theta =
  qminus { qnum = (Zpos XH); qden = XH } (v_psihat v_theta)

(** val attack_rate_discrete_loop :
    q -> q -> q -> (q -> q) -> (q -> q) -> nat -> q **)

let attack_rate_discrete_loop v_p v_phiR0 v_phiS0 v_psihatPrime v_psihat v_number_its =
  attack_rate_discrete_ret v_p v_phiR0 v_phiS0 v_psihatPrime v_psihat
    (iter v_number_its
      (attack_rate_discrete_step v_p v_phiR0 v_phiS0 v_psihatPrime v_psihat)
      (attack_rate_discrete_init v_p v_phiR0 v_phiS0 v_psihatPrime v_psihat))

(** val attack_rate_cts_time_init :
    q -> q -> q -> q -> (q -> q) -> (q -> q) -> q **)

let attack_rate_cts_time_init v_gamma v_tau _ _ _ _ =
  qdiv v_gamma (qplus v_gamma v_tau)

(** val attack_rate_cts_time_step :
    q -> q -> q -> q -> (q -> q) -> (q -> q) -> q -> q **)

let attack_rate_cts_time_step v_gamma v_tau v_phiR0 v_phiS0 v_psihatPrime _ v_omega =
  qplus
    (qplus (qdiv v_gamma (qplus v_gamma v_tau))
      (qdiv (qmult (qmult v_tau v_phiS0) (v_psihatPrime v_omega))
        (qmult (v_psihatPrime { qnum = (Zpos XH); qden = XH })
          (qplus v_gamma v_tau))))
    (qdiv (qmult v_tau v_phiR0) (qplus v_gamma v_tau))

(** val attack_rate_cts_time_ret :
    q -> q -> q -> q -> (q -> q) -> (q -> q) -> q -> q **)

let attack_rate_cts_time_ret _ _ _ _ _ v_psihat v_omega =
  qminus { qnum = (Zpos XH); qden = XH } (v_psihat v_omega)

(** val attack_rate_cts_time_loop :
    q -> q -> q -> q -> (q -> q) -> (q -> q) -> nat -> q **)

let attack_rate_cts_time_loop v_gamma v_tau v_phiR0 v_phiS0 v_psihatPrime v_psihat v_number_its =
  attack_rate_cts_time_ret v_gamma v_tau v_phiR0 v_phiS0 v_psihatPrime
    v_psihat
    (iter v_number_its
      (attack_rate_cts_time_step v_gamma v_tau v_phiR0 v_phiS0 v_psihatPrime
        v_psihat)
      (attack_rate_cts_time_init v_gamma v_tau v_phiR0 v_phiS0 v_psihatPrime
        v_psihat))

(** val eBCM_discrete_init :
    q -> q -> (q -> q) -> q -> q -> q -> (q -> q) -> ((q * q) * q) * q **)

let eBCM_discrete_init v_R0 v_N v_psihat _ _ _ _ =
  let i_theta = { qnum = (Zpos XH); qden = XH } in
  let i_S = qmult v_N (v_psihat { qnum = (Zpos XH); qden = XH }) in
  let i_I = qminus (qminus v_N i_S) v_R0 in (((i_theta, v_R0), i_S), i_I)

(** val eBCM_discrete_step :
    q -> q -> (q -> q) -> q -> q -> q -> (q -> q) -> (((q * q) * q) * q) ->
    ((q * q) * q) * q **)

let eBCM_discrete_step _ v_N v_psihat v_p v_phiR0 v_phiS0 v_psihatPrime = function
| (p, v_I) ->
  let (p0, _) = p in
  let (v_theta, v_R) = p0 in
  let v_newtheta =
    qplus (qminus { qnum = (Zpos XH); qden = XH } v_p)
      (qmult v_p
        (qplus v_phiR0
          (qdiv (qmult v_phiS0 (v_psihatPrime v_theta))
            (v_psihatPrime { qnum = (Zpos XH); qden = XH }))))
  in
  let v_newR = qplus v_R v_I in
  let v_newS = qmult v_N (v_psihat v_newtheta) in
  let v_newI = qminus (qminus v_N v_newR) v_newS in
  (((v_newtheta, v_newR), v_newS), v_newI)

(** val eBCM_discrete_loop :
    q -> q -> (q -> q) -> q -> q -> q -> (q -> q) -> nat -> ((q * q) * q) * q **)

let eBCM_discrete_loop v_R0 v_N v_psihat v_p v_phiR0 v_phiS0 v_psihatPrime n0 =
  iter n0
    (eBCM_discrete_step v_R0 v_N v_psihat v_p v_phiR0 v_phiS0 v_psihatPrime)
    (eBCM_discrete_init v_R0 v_N v_psihat v_p v_phiR0 v_phiS0 v_psihatPrime)

(** val rhs_call :
    nat -> q list -> vec list -> nat list -> (q -> q) list -> vec **)

let rhs_call i qs vs ns fs =
  match i with
  | O ->
    dSIS_homogeneous_meanfield (nth O vs [])
      (nth O qs { qnum = Z0; qden = XH })
      (nth (S O) qs { qnum = Z0; qden = XH })
      (nth (S (S O)) qs { qnum = Z0; qden = XH })
      (nth (S (S (S O))) qs { qnum = Z0; qden = XH })
  | S n0 ->
    (match n0 with
     | O ->
       dSIR_homogeneous_meanfield (nth O vs [])
         (nth O qs { qnum = Z0; qden = XH })
         (nth (S O) qs { qnum = Z0; qden = XH })
         (nth (S (S O)) qs { qnum = Z0; qden = XH })
         (nth (S (S (S O))) qs { qnum = Z0; qden = XH })
     | S n1 ->
       (match n1 with
        | O ->
          dSIS_homogeneous_pairwise (nth O vs [])
            (nth O qs { qnum = Z0; qden = XH })
            (nth (S O) qs { qnum = Z0; qden = XH })
            (nth (S (S O)) qs { qnum = Z0; qden = XH })
            (nth (S (S (S O))) qs { qnum = Z0; qden = XH })
            (nth (S (S (S (S O)))) qs { qnum = Z0; qden = XH })
        | S n2 ->
          (match n2 with
           | O ->
             dSIR_homogeneous_pairwise (nth O vs [])
               (nth O qs { qnum = Z0; qden = XH })
               (nth (S O) qs { qnum = Z0; qden = XH })
               (nth (S (S O)) qs { qnum = Z0; qden = XH })
               (nth (S (S (S O))) qs { qnum = Z0; qden = XH })
           | S n3 ->
             (match n3 with
              | O ->
                dSIS_super_compact_pairwise (nth O vs [])
                  (nth O qs { qnum = Z0; qden = XH })
                  (nth (S O) qs { qnum = Z0; qden = XH })
                  (nth (S (S O)) qs { qnum = Z0; qden = XH })
                  (nth (S (S (S O))) qs { qnum = Z0; qden = XH })
                  (nth (S (S (S (S O)))) qs { qnum = Z0; qden = XH })
                  (nth (S (S (S (S (S O))))) qs { qnum = Z0; qden = XH })
                  (nth (S (S (S (S (S (S O)))))) qs { qnum = Z0; qden = XH })
              | S n4 ->
                (match n4 with
                 | O ->
                   dSIR_super_compact_pairwise (nth O vs [])
                     (nth O qs { qnum = Z0; qden = XH })
                     (nth (S O) qs { qnum = Z0; qden = XH })
                     (nth (S (S O)) qs { qnum = Z0; qden = XH })
                     (nth O fs (fun _ -> { qnum = Z0; qden = XH }))
                     (nth (S O) fs (fun _ -> { qnum = Z0; qden = XH }))
                     (nth (S (S O)) fs (fun _ -> { qnum = Z0; qden = XH }))
                     (nth (S (S (S O))) qs { qnum = Z0; qden = XH })
                 | S n5 ->
                   (match n5 with
                    | O ->
                      dEBCM (nth O vs []) (nth O qs { qnum = Z0; qden = XH })
                        (nth (S O) qs { qnum = Z0; qden = XH })
                        (nth (S (S O)) qs { qnum = Z0; qden = XH })
                        (nth (S (S (S O))) qs { qnum = Z0; qden = XH })
                        (nth O fs (fun _ -> { qnum = Z0; qden = XH }))
                        (nth (S O) fs (fun _ -> { qnum = Z0; qden = XH }))
                        (nth (S (S (S (S O)))) qs { qnum = Z0; qden = XH })
                        (nth (S (S (S (S (S O))))) qs { qnum = Z0; qden =
                          XH })
                    | S n6 ->
                      (match n6 with
                       | O ->
                         dSIS_compact_pairwise (nth O vs [])
                           (nth O qs { qnum = Z0; qden = XH })
                           (nth (S O) vs [])
                           (nth (S O) qs { qnum = Z0; qden = XH })
                           (nth (S (S O)) qs { qnum = Z0; qden = XH })
                           (nth (S (S (S O))) qs { qnum = Z0; qden = XH })
                       | S n7 ->
                         (match n7 with
                          | O ->
                            dSIR_compact_pairwise (nth O vs [])
                              (nth O qs { qnum = Z0; qden = XH })
                              (nth (S O) qs { qnum = Z0; qden = XH })
                              (nth (S (S O)) qs { qnum = Z0; qden = XH })
                              (nth (S (S (S O))) qs { qnum = Z0; qden = XH })
                          | S n8 ->
                            (match n8 with
                             | O ->
                               dSIS_heterogeneous_meanfield (nth O vs [])
                                 (nth O qs { qnum = Z0; qden = XH })
                                 (nth O ns O)
                                 (nth (S O) qs { qnum = Z0; qden = XH })
                                 (nth (S (S O)) qs { qnum = Z0; qden = XH })
                             | S n9 ->
                               (match n9 with
                                | O ->
                                  dSIR_heterogeneous_meanfield (nth O vs [])
                                    (nth O qs { qnum = Z0; qden = XH })
                                    (nth (S O) vs []) (nth (S (S O)) vs [])
                                    (nth (S O) qs { qnum = Z0; qden = XH })
                                    (nth (S (S O)) qs { qnum = Z0; qden =
                                      XH })
                                | S n10 ->
                                  (match n10 with
                                   | O ->
                                     dSIR_compact_effective_degree
                                       (nth O vs [])
                                       (nth O qs { qnum = Z0; qden = XH })
                                       (nth (S O) qs { qnum = Z0; qden = XH })
                                       (nth (S (S O)) qs { qnum = Z0; qden =
                                         XH })
                                       (nth (S (S (S O))) qs { qnum = Z0;
                                         qden = XH })
                                   | S _ -> [])))))))))))

(** val loop_call : nat -> q list -> (q -> q) list -> nat -> vec **)

let loop_call i qs fs n0 =
  match i with
  | O ->
    (attack_rate_discrete_loop (nth O qs { qnum = Z0; qden = XH })
      (nth (S O) qs { qnum = Z0; qden = XH })
      (nth (S (S O)) qs { qnum = Z0; qden = XH })
      (nth O fs (fun _ -> { qnum = Z0; qden = XH }))
      (nth (S O) fs (fun _ -> { qnum = Z0; qden = XH })) n0) :: []
  | S n1 ->
    (match n1 with
     | O ->
       (attack_rate_cts_time_loop (nth O qs { qnum = Z0; qden = XH })
         (nth (S O) qs { qnum = Z0; qden = XH })
         (nth (S (S O)) qs { qnum = Z0; qden = XH })
         (nth (S (S (S O))) qs { qnum = Z0; qden = XH })
         (nth O fs (fun _ -> { qnum = Z0; qden = XH }))
         (nth (S O) fs (fun _ -> { qnum = Z0; qden = XH })) n0) :: []
     | S n2 ->
       (match n2 with
        | O ->
          let (p, x3) =
            eBCM_discrete_loop (nth O qs { qnum = Z0; qden = XH })
              (nth (S O) qs { qnum = Z0; qden = XH })
              (nth O fs (fun _ -> { qnum = Z0; qden = XH }))
              (nth (S (S O)) qs { qnum = Z0; qden = XH })
              (nth (S (S (S O))) qs { qnum = Z0; qden = XH })
              (nth (S (S (S (S O)))) qs { qnum = Z0; qden = XH })
              (nth (S O) fs (fun _ -> { qnum = Z0; qden = XH })) n0
          in
          let (p0, x2) = p in
          let (x0, x1) = p0 in x0 :: (x1 :: (x2 :: (x3 :: [])))
        | S _ -> []))

(** val glue_types : n result **)

let glue_types =
  Err EoNError
