
val negb : bool -> bool

type nat =
| O
| S of nat

val fst : ('a1 * 'a2) -> 'a1

val snd : ('a1 * 'a2) -> 'a2

val length : 'a1 list -> nat

val app : 'a1 list -> 'a1 list -> 'a1 list

type comparison =
| Eq
| Lt
| Gt

val compOpp : comparison -> comparison

val add : nat -> nat -> nat

type positive =
| XI of positive
| XO of positive
| XH

type n =
| N0
| Npos of positive

type z =
| Z0
| Zpos of positive
| Zneg of positive

module Nat :
 sig
  val eqb : nat -> nat -> bool

  val max : nat -> nat -> nat

  val eq_dec : nat -> nat -> bool
 end

module Pos :
 sig
  type mask =
  | IsNul
  | IsPos of positive
  | IsNeg
 end

module Coq_Pos :
 sig
  val succ : positive -> positive

  val add : positive -> positive -> positive

  val add_carry : positive -> positive -> positive

  val pred_double : positive -> positive

  type mask = Pos.mask =
  | IsNul
  | IsPos of positive
  | IsNeg

  val succ_double_mask : mask -> mask

  val double_mask : mask -> mask

  val double_pred_mask : positive -> mask

  val sub_mask : positive -> positive -> mask

  val sub_mask_carry : positive -> positive -> mask

  val sub : positive -> positive -> positive

  val mul : positive -> positive -> positive

  val size_nat : positive -> nat

  val compare_cont : comparison -> positive -> positive -> comparison

  val compare : positive -> positive -> comparison

  val eqb : positive -> positive -> bool

  val ggcdn : nat -> positive -> positive -> positive * (positive * positive)

  val ggcd : positive -> positive -> positive * (positive * positive)

  val of_succ_nat : nat -> positive
 end

module N :
 sig
  val eqb : n -> n -> bool
 end

module Z :
 sig
  val double : z -> z

  val succ_double : z -> z

  val pred_double : z -> z

  val pos_sub : positive -> positive -> z

  val add : z -> z -> z

  val opp : z -> z

  val sub : z -> z -> z

  val mul : z -> z -> z

  val compare : z -> z -> comparison

  val sgn : z -> z

  val eqb : z -> z -> bool

  val abs : z -> z

  val of_nat : nat -> z

  val to_pos : z -> positive

  val ggcd : z -> z -> z * (z * z)
 end

val z_lt_dec : z -> z -> bool

val z_lt_ge_dec : z -> z -> bool

val z_lt_le_dec : z -> z -> bool

val zeq_bool : z -> z -> bool

val pow_pos : ('a1 -> 'a1 -> 'a1) -> 'a1 -> positive -> 'a1

val nth_error : 'a1 list -> nat -> 'a1 option

val count_occ : ('a1 -> 'a1 -> bool) -> 'a1 list -> 'a1 -> nat

val rev : 'a1 list -> 'a1 list

val map : ('a1 -> 'a2) -> 'a1 list -> 'a2 list

val fold_left : ('a1 -> 'a2 -> 'a1) -> 'a2 list -> 'a1 -> 'a1

val fold_right : ('a2 -> 'a1 -> 'a1) -> 'a1 -> 'a2 list -> 'a1

val filter : ('a1 -> bool) -> 'a1 list -> 'a1 list

val combine : 'a1 list -> 'a2 list -> ('a1 * 'a2) list

val seq : nat -> nat -> nat list

type q = { qnum : z; qden : positive }

val inject_Z : z -> q

val qeq_bool : q -> q -> bool

val qplus : q -> q -> q

val qmult : q -> q -> q

val qopp : q -> q

val qminus : q -> q -> q

val qinv : q -> q

val qdiv : q -> q -> q

val qlt_le_dec : q -> q -> bool

val qpower_positive : q -> positive -> q

val qpower : q -> z -> q

val qred : q -> q

type err =
| EoNError
| ZeroDivision
| IndexErr
| KeyErr
| TypeErr
| NameErr
| ValueErr
| PyException
| OutOfDraws
| OutOfFuel

type 'a result =
| Ok of 'a
| Err of err

val rbind : 'a1 result -> ('a1 -> 'a2 result) -> 'a2 result

val qltb : q -> q -> bool

val qleb : q -> q -> bool

val qeqb : q -> q -> bool

val sumQ : q list -> q

val qnat : nat -> q

val fupd : ('a1 -> 'a1 -> bool) -> ('a1 -> 'a2) -> 'a1 -> 'a2 -> 'a1 -> 'a2

type 'k ld = { weighted : bool; items : 'k list; pos : ('k -> nat option);
               wt : ('k -> q option); maxw : q; maxc : z; total : q }

val ld_empty : bool -> 'a1 ld

val contains : 'a1 ld -> 'a1 -> bool

val wread : 'a1 ld -> 'a1 -> q

val set_nth : 'a1 list -> nat -> 'a1 -> 'a1 list

val qmax : q -> q -> q

val list_max : q list -> q

val count_eq : q -> q list -> z

val recompute_max : 'a1 ld -> 'a1 list -> ('a1 -> q option) -> q * z

val ld_update :
  ('a1 -> 'a1 -> bool) -> 'a1 ld -> 'a1 -> q option -> 'a1 ld result

val ld_remove : ('a1 -> 'a1 -> bool) -> 'a1 ld -> 'a1 -> 'a1 ld result

val ld_insert :
  ('a1 -> 'a1 -> bool) -> 'a1 ld -> 'a1 -> q option -> 'a1 ld result

val ld_total_weight : 'a1 ld -> q

type 'k round_result =
| Accept of 'k
| Reject
| Crash of err

val ld_choose_round : 'a1 ld -> nat -> q -> 'a1 round_result

type 'k op =
| OpInsert of 'k * q
| OpUpdate of 'k * q
| OpRemove of 'k
| OpAdd of 'k

val ld_step : ('a1 -> 'a1 -> bool) -> 'a1 ld -> 'a1 op -> 'a1 ld result

val adv : (q * 'a1) list -> q -> 'a1 option -> (q * 'a1) list * 'a1 option

val scan : q list -> (q * 'a1) list -> 'a1 option -> 'a1 list result

val subsample : q list -> q list -> 'a1 list -> 'a1 list result

val subsample2 :
  q list -> q list -> 'a1 list -> 'a1 list -> ('a1 list * 'a1 list) result

val subsample3 :
  q list -> q list -> 'a1 list -> 'a1 list -> 'a1 list -> (('a1 list * 'a1
  list) * 'a1 list) result

val time_shift_from : q list -> q list -> q -> q option -> q result

val get_time_shift : q list -> q list -> q -> q result

val count : nat -> nat list -> nat

val pk : nat list -> nat -> q

val maxdeg : nat list -> nat

val ks : nat list -> nat list

val qpow : q -> z -> q

val psi : nat list -> q -> q

val psiP : nat list -> q -> q

val psiDP : nat list -> q -> q

val estimate_R0 : nat list -> q -> q

val pnk : (nat * nat list) list -> nat -> nat -> q

val ldN_empty : bool -> n ld

val ldN_step : n ld -> n op -> n ld result

val ldN_total : n ld -> q

val ldN_round : n ld -> nat -> q -> n round_result

val ldN_wread : n ld -> n -> q
