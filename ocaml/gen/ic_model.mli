
val negb : bool -> bool

type nat =
| O
| S of nat

val fst : ('a1 * 'a2) -> 'a1

val snd : ('a1 * 'a2) -> 'a2

val length : 'a1 list -> nat

val app : 'a1 list -> 'a1 list -> 'a1 list

type comparison =
| Eq
| Lt
| Gt

val compOpp : comparison -> comparison

val add : nat -> nat -> nat

val mul : nat -> nat -> nat

val sub : nat -> nat -> nat

type positive =
| XI of positive
| XO of positive
| XH

type n =
| N0
| Npos of positive

type z =
| Z0
| Zpos of positive
| Zneg of positive

module Nat :
 sig
  val eqb : nat -> nat -> bool

  val leb : nat -> nat -> bool

  val max : nat -> nat -> nat

  val eq_dec : nat -> nat -> bool
 end

module Pos :
 sig
  type mask =
  | IsNul
  | IsPos of positive
  | IsNeg
 end

module Coq_Pos :
 sig
  val succ : positive -> positive

  val add : positive -> positive -> positive

  val add_carry : positive -> positive -> positive

  val pred_double : positive -> positive

  type mask = Pos.mask =
  | IsNul
  | IsPos of positive
  | IsNeg

  val succ_double_mask : mask -> mask

  val double_mask : mask -> mask

  val double_pred_mask : positive -> mask

  val sub_mask : positive -> positive -> mask

  val sub_mask_carry : positive -> positive -> mask

  val sub : positive -> positive -> positive

  val mul : positive -> positive -> positive

  val size_nat : positive -> nat

  val compare_cont : comparison -> positive -> positive -> comparison

  val compare : positive -> positive -> comparison

  val eqb : positive -> positive -> bool

  val ggcdn : nat -> positive -> positive -> positive * (positive * positive)

  val ggcd : positive -> positive -> positive * (positive * positive)

  val of_succ_nat : nat -> positive
 end

module N :
 sig
  val eqb : n -> n -> bool
 end

module Z :
 sig
  val double : z -> z

  val succ_double : z -> z

  val pred_double : z -> z

  val pos_sub : positive -> positive -> z

  val add : z -> z -> z

  val opp : z -> z

  val mul : z -> z -> z

  val compare : z -> z -> comparison

  val sgn : z -> z

  val abs : z -> z

  val of_nat : nat -> z

  val to_pos : z -> positive

  val ggcd : z -> z -> z * (z * z)
 end

val z_lt_dec : z -> z -> bool

val z_lt_ge_dec : z -> z -> bool

val z_lt_le_dec : z -> z -> bool

val zeq_bool : z -> z -> bool

val pow_pos : ('a1 -> 'a1 -> 'a1) -> 'a1 -> positive -> 'a1

val in_dec : ('a1 -> 'a1 -> bool) -> 'a1 -> 'a1 list -> bool

val nth : nat -> 'a1 list -> 'a1 -> 'a1

val count_occ : ('a1 -> 'a1 -> bool) -> 'a1 list -> 'a1 -> nat

val concat : 'a1 list list -> 'a1 list

val map : ('a1 -> 'a2) -> 'a1 list -> 'a2 list

val fold_left : ('a1 -> 'a2 -> 'a1) -> 'a2 list -> 'a1 -> 'a1

val fold_right : ('a2 -> 'a1 -> 'a1) -> 'a1 -> 'a2 list -> 'a1

val existsb : ('a1 -> bool) -> 'a1 list -> bool

val forallb : ('a1 -> bool) -> 'a1 list -> bool

val filter : ('a1 -> bool) -> 'a1 list -> 'a1 list

val firstn : nat -> 'a1 list -> 'a1 list

val skipn : nat -> 'a1 list -> 'a1 list

val nodup : ('a1 -> 'a1 -> bool) -> 'a1 list -> 'a1 list

val seq : nat -> nat -> nat list

type q = { qnum : z; qden : positive }

val inject_Z : z -> q

val qeq_bool : q -> q -> bool

val qplus : q -> q -> q

val qmult : q -> q -> q

val qopp : q -> q

val qminus : q -> q -> q

val qinv : q -> q

val qdiv : q -> q -> q

val qlt_le_dec : q -> q -> bool

val qpower_positive : q -> positive -> q

val qpower : q -> z -> q

val qred : q -> q

type err =
| EoNError
| ZeroDivision
| IndexErr
| KeyErr
| TypeErr
| NameErr
| ValueErr
| PyException
| OutOfDraws
| OutOfFuel

type 'a result =
| Ok of 'a
| Err of err

val rbind : 'a1 result -> ('a1 -> 'a2 result) -> 'a2 result

val qltb : q -> q -> bool

val qleb : q -> q -> bool

val qeqb : q -> q -> bool

val sumQ : q list -> q

val qnat : nat -> q

type node = n

type graph = { gnodes : node list; gadj : (node -> node list);
               gpred : (node -> node list); gdirected : bool;
               ew : (node -> node -> q); nw : (node -> q); ewt : bool;
               nwt : bool }

val mem : node -> node list -> bool

val nodupb : node list -> bool

val subsetb : node list -> node list -> bool

val wf_graphb : graph -> bool

val stS : n

val stI : n

val stR : n

val fupdN : (node -> 'a1) -> node -> 'a1 -> node -> 'a1

type row = q * z list

type history = (q * n) list

type fulldata = { fd_hist : (node * history) list;
                  fd_trans : ((q * node option) * node) list }

val fd_hist : fulldata -> (node * history) list

type simout = { so_rows : row list; so_full : fulldata option }

val so_rows : simout -> row list

val count : nat -> nat list -> nat

val pk : nat list -> nat -> q

val pk_keys : nat list -> nat list

val maxdeg : nat list -> nat

type vec = q list

val zipWith : (q -> q -> q) -> vec -> vec -> vec

val vadd : vec -> vec -> vec

val vsub : vec -> vec -> vec

val vmul : vec -> vec -> vec

val smul : q -> vec -> vec

val vmuls : vec -> q -> vec

val vsum : vec -> q

val dot : vec -> vec -> q

val qpow : q -> z -> q

val arange : nat -> vec

val spow_arange : q -> nat -> vec

val vnth : nat -> vec -> q

val slice : nat -> nat -> vec -> vec

val slice_from : nat -> vec -> vec

val drop_last : nat -> vec -> vec

val take_last : nat -> vec -> vec

type icreq = { rq_I : node list option; rq_R : node list option;
               rq_rho : q option }

val isSome : 'a1 option -> bool

val deg : graph -> node -> nat

val degseq : graph -> nat list

val gmaxdeg : graph -> nat

val gN : graph -> q

val edges_from : graph -> node list -> node list -> (node * node) list

val gedges : graph -> (node * node) list

val esum : graph -> (node -> node -> q) -> q

val cnt : (node -> bool) -> node list -> q

val ind : bool -> q

type status = node -> n

val isS : status -> node -> bool

val isI : status -> node -> bool

val isR : status -> node -> bool

val set_status : status -> node list -> n -> status

val initialize_node_status :
  graph -> node list -> node list option -> status result

val count_edge_types_st : graph -> status -> (q * q) * q

val count_edge_types :
  graph -> node list -> node list option -> ((q * q) * q) result

type nkic = { nk_Nk : vec; nk_Sk : vec; nk_Ik : vec; nk_Rk : vec }

val classes : graph -> nat list

val byclass : graph -> (node -> bool) -> vec

val nk_of : graph -> vec

val rho_or_default : graph -> q option -> q

val get_Nk_and_IC : graph -> icreq -> bool -> nkic result

type nknl = { kk_Ks : nat list; kk_NkNl : vec list; kk_SkSl : vec list;
              kk_SkIl : vec list; kk_IkIl : vec list }

val ks_of : graph -> nat list

val kmat : graph -> nat list -> (node -> node -> q) -> vec list

val mscale : q -> vec list -> vec list

val get_NkNl_and_IC : graph -> icreq -> nknl result

val wf_req : graph -> bool -> icreq -> bool

val wf_ugraph : graph -> bool

type traj = nat -> vec

type solver = vec -> traj

val const_solver : solver

type sname =
| NS
| NI
| NR
| NSI
| NSS
| NII
| NSk
| NIk
| NRk
| NSkSl
| NSkIl
| NIkIl
| NSsi
| NIsi
| NSkappa
| NTheta

type series =
| Sc of (nat -> q)
| Ve of (nat -> vec)
| Ma of (nat -> vec list)

type output = (sname * series) list

type val0 =
| VS of q
| VV of vec
| VM of vec list

val at0 : series -> val0

val row0 : output -> (sname * val0) list

val comp : traj -> nat -> nat -> q

val slc : traj -> nat -> nat -> nat -> vec

val sfrom : traj -> nat -> nat -> vec

val dlast : traj -> nat -> nat -> vec

val tlast : traj -> nat -> nat -> nat -> q

val vsumt : (nat -> vec) -> nat -> q

val reshape : nat -> nat -> vec -> vec list

val flatten : vec list -> vec

val mrow : vec list -> nat -> vec

val msum : vec list -> q

val len : 'a1 list -> q

val sIS_homogeneous_meanfield : q -> q -> solver -> output

val sIR_homogeneous_meanfield : q -> q -> q -> solver -> output

val sIS_homogeneous_meanfield_from_graph :
  graph -> icreq -> solver -> output result

val sIR_homogeneous_meanfield_from_graph :
  graph -> icreq -> solver -> output result

val sIS_homogeneous_pairwise :
  q -> q -> q -> q -> q -> bool -> solver -> output result

val sIR_homogeneous_pairwise :
  q -> q -> q -> q -> q -> q -> bool -> solver -> output result

val mean_degree : graph -> q

val sIS_homogeneous_pairwise_from_graph :
  graph -> icreq -> bool -> solver -> output result

val sIR_homogeneous_pairwise_from_graph :
  graph -> icreq -> bool -> solver -> output result

val sIS_heterogeneous_meanfield :
  vec -> vec -> bool -> solver -> output result

val sIR_heterogeneous_meanfield :
  vec -> vec -> vec -> bool -> solver -> output result

val sIS_heterogeneous_meanfield_from_graph :
  graph -> icreq -> bool -> solver -> output result

val sIR_heterogeneous_meanfield_from_graph :
  graph -> icreq -> bool -> solver -> output result

val sIS_heterogeneous_pairwise :
  vec -> vec -> vec list -> vec list -> vec list -> bool -> solver -> output
  result

val sIR_heterogeneous_pairwise :
  vec -> vec -> vec -> vec list -> vec list -> nat list -> bool -> solver ->
  output result

val pickKs : nat list -> vec -> vec

val sIS_heterogeneous_pairwise_from_graph :
  graph -> icreq -> bool -> solver -> output result

val sIR_heterogeneous_pairwise_from_graph :
  graph -> icreq -> bool -> solver -> output result

val sIS_compact_pairwise :
  vec -> vec -> q -> q -> q -> bool -> solver -> output

val sIR_compact_pairwise : vec -> q -> q -> q -> q -> bool -> solver -> output

val ksv : vec -> vec

val sIS_compact_pairwise_from_graph :
  graph -> icreq -> bool -> solver -> output result

val sIR_compact_pairwise_from_graph :
  graph -> icreq -> bool -> solver -> output result

val sIS_super_compact_pairwise :
  q -> q -> q -> q -> q -> bool -> solver -> output

val sIR_super_compact_pairwise :
  q -> q -> q -> q -> (q -> q) -> bool -> solver -> output

val sIS_super_compact_pairwise_from_graph :
  graph -> icreq -> bool -> solver -> output result

val sumPk : graph -> (nat -> q) -> q

val sIR_super_compact_pairwise_from_graph :
  graph -> icreq -> bool -> solver -> output result

val sIS_effective_degree : vec list -> vec list -> bool -> solver -> output

val sIR_effective_degree : vec list -> q -> q -> bool -> solver -> output

val sqmat : graph -> (nat -> nat -> q) -> vec list

val nbr_count : graph -> (node -> bool) -> node -> nat

val binomial : nat -> nat -> nat

val ed_rho_entry : graph -> q -> q -> nat -> nat -> q

val sIS_effective_degree_from_graph :
  graph -> icreq -> bool -> solver -> output result

val sIR_effective_degree_from_graph :
  graph -> icreq -> bool -> solver -> output result

val sIS_compact_effective_degree_from_graph :
  graph -> icreq -> bool -> solver -> output result

val sIR_compact_effective_degree :
  vec -> q -> q -> q -> bool -> solver -> output

val sIR_compact_effective_degree_from_graph :
  graph -> icreq -> bool -> solver -> output result

val eBCM : q -> (q -> q) -> q -> bool -> solver -> output

val eBCM_from_graph : graph -> icreq -> bool -> solver -> output result

type entry =
| ESISm
| ESIRm
| ESISp
| ESIRp
| ESIShm
| ESIRhm
| ESIShp
| ESIRhp
| ESIScp
| ESIRcp
| ESISsc
| ESIRsc
| ESISed
| ESIRed
| ESISced
| ESIRced
| EEBCM

val run_entry : entry -> graph -> icreq -> bool -> solver -> output result

val row0_entry : entry -> graph -> icreq -> bool -> (sname * val0) list result
