
(** val negb : bool -> bool **)

let negb = function
| true -> false
| false -> true

type nat =
| O
| S of nat

(** val fst : ('a1 * 'a2) -> 'a1 **)

let fst = function
| (x, _) -> x

(** val snd : ('a1 * 'a2) -> 'a2 **)

let snd = function
| (_, y) -> y

(** val length : 'a1 list -> nat **)

let rec length = function
| [] -> O
| _ :: l' -> S (length l')

(** val app : 'a1 list -> 'a1 list -> 'a1 list **)

let rec app l m =
  match l with
  | [] -> m
  | a :: l1 -> a :: (app l1 m)

type comparison =
| Eq
| Lt
| Gt

(** val compOpp : comparison -> comparison **)

let compOpp = function
| Eq -> Eq
| Lt -> Gt
| Gt -> Lt

module Coq__1 = struct
 (** val add : nat -> nat -> nat **)
 let rec add n0 m =
   match n0 with
   | O -> m
   | S p -> S (add p m)
end
include Coq__1

(** val mul : nat -> nat -> nat **)

let rec mul n0 m =
  match n0 with
  | O -> O
  | S p -> add m (mul p m)

(** val sub : nat -> nat -> nat **)

let rec sub n0 m =
  match n0 with
  | O -> n0
  | S k -> (match m with
            | O -> n0
            | S l -> sub k l)

type positive =
| XI of positive
| XO of positive
| XH

type n =
| N0
| Npos of positive

type z =
| Z0
| Zpos of positive
| Zneg of positive

module Nat =
 struct
  (** val eqb : nat -> nat -> bool **)

  let rec eqb n0 m =
    match n0 with
    | O -> (match m with
            | O -> true
            | S _ -> false)
    | S n' -> (match m with
               | O -> false
               | S m' -> eqb n' m')

  (** val leb : nat -> nat -> bool **)

  let rec leb n0 m =
    match n0 with
    | O -> true
    | S n' -> (match m with
               | O -> false
               | S m' -> leb n' m')

  (** val max : nat -> nat -> nat **)

  let rec max n0 m =
    match n0 with
    | O -> m
    | S n' -> (match m with
               | O -> n0
               | S m' -> S (max n' m'))

  (** val eq_dec : nat -> nat -> bool **)

  let rec eq_dec n0 m =
    match n0 with
    | O -> (match m with
            | O -> true
            | S _ -> false)
    | S n1 -> (match m with
               | O -> false
               | S n2 -> eq_dec n1 n2)
 end

module Pos =
 struct
  type mask =
  | IsNul
  | IsPos of positive
  | IsNeg
 end

module Coq_Pos =
 struct
  (** val succ : positive -> positive **)

  let rec succ = function
  | XI p -> XO (succ p)
  | XO p -> XI p
  | XH -> XO XH

  (** val add : positive -> positive -> positive **)

  let rec add x y =
    match x with
    | XI p ->
      (match y with
       | XI q0 -> XO (add_carry p q0)
       | XO q0 -> XI (add p q0)
       | XH -> XO (succ p))
    | XO p ->
      (match y with
       | XI q0 -> XI (add p q0)
       | XO q0 -> XO (add p q0)
       | XH -> XI p)
    | XH -> (match y with
             | XI q0 -> XO (succ q0)
             | XO q0 -> XI q0
             | XH -> XO XH)

  (** val add_carry : positive -> positive -> positive **)

  and add_carry x y =
    match x with
    | XI p ->
      (match y with
       | XI q0 -> XI (add_carry p q0)
       | XO q0 -> XO (add_carry p q0)
       | XH -> XI (succ p))
    | XO p ->
      (match y with
       | XI q0 -> XO (add_carry p q0)
       | XO q0 -> XI (add p q0)
       | XH -> XO (succ p))
    | XH ->
      (match y with
       | XI q0 -> XI (succ q0)
       | XO q0 -> XO (succ q0)
       | XH -> XI XH)

  (** val pred_double : positive -> positive **)

  let rec pred_double = function
  | XI p -> XI (XO p)
  | XO p -> XI (pred_double p)
  | XH -> XH

  type mask = Pos.mask =
  | IsNul
  | IsPos of positive
  | IsNeg

  (** val succ_double_mask : mask -> mask **)

  let succ_double_mask = function
  | IsNul -> IsPos XH
  | IsPos p -> IsPos (XI p)
  | IsNeg -> IsNeg

  (** val double_mask : mask -> mask **)

  let double_mask = function
  | IsPos p -> IsPos (XO p)
  | x0 -> x0

  (** val double_pred_mask : positive -> mask **)

  let double_pred_mask = function
  | XI p -> IsPos (XO (XO p))
  | XO p -> IsPos (XO (pred_double p))
  | XH -> IsNul

  (** val sub_mask : positive -> positive -> mask **)

  let rec sub_mask x y =
    match x with
    | XI p ->
      (match y with
       | XI q0 -> double_mask (sub_mask p q0)
       | XO q0 -> succ_double_mask (sub_mask p q0)
       | XH -> IsPos (XO p))
    | XO p ->
      (match y with
       | XI q0 -> succ_double_mask (sub_mask_carry p q0)
       | XO q0 -> double_mask (sub_mask p q0)
       | XH -> IsPos (pred_double p))
    | XH -> (match y with
             | XH -> IsNul
             | _ -> IsNeg)

  (** val sub_mask_carry : positive -> positive -> mask **)

  and sub_mask_carry x y =
    match x with
    | XI p ->
      (match y with
       | XI q0 -> succ_double_mask (sub_mask_carry p q0)
       | XO q0 -> double_mask (sub_mask p q0)
       | XH -> IsPos (pred_double p))
    | XO p ->
      (match y with
       | XI q0 -> double_mask (sub_mask_carry p q0)
       | XO q0 -> succ_double_mask (sub_mask_carry p q0)
       | XH -> double_pred_mask p)
    | XH -> IsNeg

  (** val sub : positive -> positive -> positive **)

  let sub x y =
    match sub_mask x y with
    | IsPos z0 -> z0
    | _ -> XH

  (** val mul : positive -> positive -> positive **)

  let rec mul x y =
    match x with
    | XI p -> add y (XO (mul p y))
    | XO p -> XO (mul p y)
    | XH -> y

  (** val size_nat : positive -> nat **)

  let rec size_nat = function
  | XI p0 -> S (size_nat p0)
  | XO p0 -> S (size_nat p0)
  | XH -> S O

  (** val compare_cont : comparison -> positive -> positive -> comparison **)

  let rec compare_cont r x y =
    match x with
    | XI p ->
      (match y with
       | XI q0 -> compare_cont r p q0
       | XO q0 -> compare_cont Gt p q0
       | XH -> Gt)
    | XO p ->
      (match y with
       | XI q0 -> compare_cont Lt p q0
       | XO q0 -> compare_cont r p q0
       | XH -> Gt)
    | XH -> (match y with
             | XH -> r
             | _ -> Lt)

  (** val compare : positive -> positive -> comparison **)

  let compare =
    compare_cont Eq

  (** val eqb : positive -> positive -> bool **)

  let rec eqb p q0 =
    match p with
    | XI p0 -> (match q0 with
                | XI q1 -> eqb p0 q1
                | _ -> false)
    | XO p0 -> (match q0 with
                | XO q1 -> eqb p0 q1
                | _ -> false)
    | XH -> (match q0 with
             | XH -> true
             | _ -> false)

  (** val ggcdn :
      nat -> positive -> positive -> positive * (positive * positive) **)

  let rec ggcdn n0 a b =
    match n0 with
    | O -> (XH, (a, b))
    | S n1 ->
      (match a with
       | XI a' ->
         (match b with
          | XI b' ->
            (match compare a' b' with
             | Eq -> (a, (XH, XH))
             | Lt ->
               let (g, p) = ggcdn n1 (sub b' a') a in
               let (ba, aa) = p in (g, (aa, (add aa (XO ba))))
             | Gt ->
               let (g, p) = ggcdn n1 (sub a' b') b in
               let (ab, bb) = p in (g, ((add bb (XO ab)), bb)))
          | XO b0 ->
            let (g, p) = ggcdn n1 a b0 in
            let (aa, bb) = p in (g, (aa, (XO bb)))
          | XH -> (XH, (a, XH)))
       | XO a0 ->
         (match b with
          | XI _ ->
            let (g, p) = ggcdn n1 a0 b in
            let (aa, bb) = p in (g, ((XO aa), bb))
          | XO b0 -> let (g, p) = ggcdn n1 a0 b0 in ((XO g), p)
          | XH -> (XH, (a, XH)))
       | XH -> (XH, (XH, b)))

  (** val ggcd : positive -> positive -> positive * (positive * positive) **)

  let ggcd a b =
    ggcdn (Coq__1.add (size_nat a) (size_nat b)) a b

  (** val of_succ_nat : nat -> positive **)

  let rec of_succ_nat = function
  | O -> XH
  | S x -> succ (of_succ_nat x)
 end

module N =
 struct
  (** val eqb : n -> n -> bool **)

  let eqb n0 m =
    match n0 with
    | N0 -> (match m with
             | N0 -> true
             | Npos _ -> false)
    | Npos p -> (match m with
                 | N0 -> false
                 | Npos q0 -> Coq_Pos.eqb p q0)
 end

module Z =
 struct
  (** val double : z -> z **)

  let double = function
  | Z0 -> Z0
  | Zpos p -> Zpos (XO p)
  | Zneg p -> Zneg (XO p)

  (** val succ_double : z -> z **)

  let succ_double = function
  | Z0 -> Zpos XH
  | Zpos p -> Zpos (XI p)
  | Zneg p -> Zneg (Coq_Pos.pred_double p)

  (** val pred_double : z -> z **)

  let pred_double = function
  | Z0 -> Zneg XH
  | Zpos p -> Zpos (Coq_Pos.pred_double p)
  | Zneg p -> Zneg (XI p)

  (** val pos_sub : positive -> positive -> z **)

  let rec pos_sub x y =
    match x with
    | XI p ->
      (match y with
       | XI q0 -> double (pos_sub p q0)
       | XO q0 -> succ_double (pos_sub p q0)
       | XH -> Zpos (XO p))
    | XO p ->
      (match y with
       | XI q0 -> pred_double (pos_sub p q0)
       | XO q0 -> double (pos_sub p q0)
       | XH -> Zpos (Coq_Pos.pred_double p))
    | XH ->
      (match y with
       | XI q0 -> Zneg (XO q0)
       | XO q0 -> Zneg (Coq_Pos.pred_double q0)
       | XH -> Z0)

  (** val add : z -> z -> z **)

  let add x y =
    match x with
    | Z0 -> y
    | Zpos x' ->
      (match y with
       | Z0 -> x
       | Zpos y' -> Zpos (Coq_Pos.add x' y')
       | Zneg y' -> pos_sub x' y')
    | Zneg x' ->
      (match y with
       | Z0 -> x
       | Zpos y' -> pos_sub y' x'
       | Zneg y' -> Zneg (Coq_Pos.add x' y'))

  (** val opp : z -> z **)

  let opp = function
  | Z0 -> Z0
  | Zpos x0 -> Zneg x0
  | Zneg x0 -> Zpos x0

  (** val mul : z -> z -> z **)

  let mul x y =
    match x with
    | Z0 -> Z0
    | Zpos x' ->
      (match y with
       | Z0 -> Z0
       | Zpos y' -> Zpos (Coq_Pos.mul x' y')
       | Zneg y' -> Zneg (Coq_Pos.mul x' y'))
    | Zneg x' ->
      (match y with
       | Z0 -> Z0
       | Zpos y' -> Zneg (Coq_Pos.mul x' y')
       | Zneg y' -> Zpos (Coq_Pos.mul x' y'))

  (** val compare : z -> z -> comparison **)

  let compare x y =
    match x with
    | Z0 -> (match y with
             | Z0 -> Eq
             | Zpos _ -> Lt
             | Zneg _ -> Gt)
    | Zpos x' -> (match y with
                  | Zpos y' -> Coq_Pos.compare x' y'
                  | _ -> Gt)
    | Zneg x' ->
      (match y with
       | Zneg y' -> compOpp (Coq_Pos.compare x' y')
       | _ -> Lt)

  (** val sgn : z -> z **)

  let sgn = function
  | Z0 -> Z0
  | Zpos _ -> Zpos XH
  | Zneg _ -> Zneg XH

  (** val abs : z -> z **)

  let abs = function
  | Zneg p -> Zpos p
  | x -> x

  (** val of_nat : nat -> z **)

  let of_nat = function
  | O -> Z0
  | S n1 -> Zpos (Coq_Pos.of_succ_nat n1)

  (** val to_pos : z -> positive **)

  let to_pos = function
  | Zpos p -> p
  | _ -> XH

  (** val ggcd : z -> z -> z * (z * z) **)

  let ggcd a b =
    match a with
    | Z0 -> ((abs b), (Z0, (sgn b)))
    | Zpos a0 ->
      (match b with
       | Z0 -> ((abs a), ((sgn a), Z0))
       | Zpos b0 ->
         let (g, p) = Coq_Pos.ggcd a0 b0 in
         let (aa, bb) = p in ((Zpos g), ((Zpos aa), (Zpos bb)))
       | Zneg b0 ->
         let (g, p) = Coq_Pos.ggcd a0 b0 in
         let (aa, bb) = p in ((Zpos g), ((Zpos aa), (Zneg bb))))
    | Zneg a0 ->
      (match b with
       | Z0 -> ((abs a), ((sgn a), Z0))
       | Zpos b0 ->
         let (g, p) = Coq_Pos.ggcd a0 b0 in
         let (aa, bb) = p in ((Zpos g), ((Zneg aa), (Zpos bb)))
       | Zneg b0 ->
         let (g, p) = Coq_Pos.ggcd a0 b0 in
         let (aa, bb) = p in ((Zpos g), ((Zneg aa), (Zneg bb))))
 end

(** val z_lt_dec : z -> z -> bool **)

let z_lt_dec x y =
  match Z.compare x y with
  | Lt -> true
  | _ -> false

(** val z_lt_ge_dec : z -> z -> bool **)

let z_lt_ge_dec =
  z_lt_dec

(** val z_lt_le_dec : z -> z -> bool **)

let z_lt_le_dec =
  z_lt_ge_dec

(** val zeq_bool : z -> z -> bool **)

let zeq_bool x y =
  match Z.compare x y with
  | Eq -> true
  | _ -> false

(** val pow_pos : ('a1 -> 'a1 -> 'a1) -> 'a1 -> positive -> 'a1 **)

let rec pow_pos rmul x = function
| XI i0 -> let p = pow_pos rmul x i0 in rmul x (rmul p p)
| XO i0 -> let p = pow_pos rmul x i0 in rmul p p
| XH -> x

(** val in_dec : ('a1 -> 'a1 -> bool) -> 'a1 -> 'a1 list -> bool **)

let rec in_dec h a = function
| [] -> false
| y :: l0 -> let s = h y a in if s then true else in_dec h a l0

(** val nth : nat -> 'a1 list -> 'a1 -> 'a1 **)

let rec nth n0 l default =
  match n0 with
  | O -> (match l with
          | [] -> default
          | x :: _ -> x)
  | S m -> (match l with
            | [] -> default
            | _ :: t -> nth m t default)

(** val count_occ : ('a1 -> 'a1 -> bool) -> 'a1 list -> 'a1 -> nat **)

let rec count_occ eq_dec0 l x =
  match l with
  | [] -> O
  | y :: tl ->
    let n0 = count_occ eq_dec0 tl x in if eq_dec0 y x then S n0 else n0

(** val concat : 'a1 list list -> 'a1 list **)

let rec concat = function
| [] -> []
| x :: l0 -> app x (concat l0)

(** val map : ('a1 -> 'a2) -> 'a1 list -> 'a2 list **)

let rec map f = function
| [] -> []
| a :: t -> (f a) :: (map f t)

(** val fold_left : ('a1 -> 'a2 -> 'a1) -> 'a2 list -> 'a1 -> 'a1 **)

let rec fold_left f l a0 =
  match l with
  | [] -> a0
  | b :: t -> fold_left f t (f a0 b)

(** val fold_right : ('a2 -> 'a1 -> 'a1) -> 'a1 -> 'a2 list -> 'a1 **)

let rec fold_right f a0 = function
| [] -> a0
| b :: t -> f b (fold_right f a0 t)

(** val existsb : ('a1 -> bool) -> 'a1 list -> bool **)

let rec existsb f = function
| [] -> false
| a :: l0 -> (||) (f a) (existsb f l0)

(** val forallb : ('a1 -> bool) -> 'a1 list -> bool **)

let rec forallb f = function
| [] -> true
| a :: l0 -> (&&) (f a) (forallb f l0)

(** val filter : ('a1 -> bool) -> 'a1 list -> 'a1 list **)

let rec filter f = function
| [] -> []
| x :: l0 -> if f x then x :: (filter f l0) else filter f l0

(** val firstn : nat -> 'a1 list -> 'a1 list **)

let rec firstn n0 l =
  match n0 with
  | O -> []
  | S n1 -> (match l with
             | [] -> []
             | a :: l0 -> a :: (firstn n1 l0))

(** val skipn : nat -> 'a1 list -> 'a1 list **)

let rec skipn n0 l =
  match n0 with
  | O -> l
  | S n1 -> (match l with
             | [] -> []
             | _ :: l0 -> skipn n1 l0)

(** val nodup : ('a1 -> 'a1 -> bool) -> 'a1 list -> 'a1 list **)

let rec nodup decA = function
| [] -> []
| x :: xs -> if in_dec decA x xs then nodup decA xs else x :: (nodup decA xs)

(** val seq : nat -> nat -> nat list **)

let rec seq start = function
| O -> []
| S len1 -> start :: (seq (S start) len1)

type q = { qnum : z; qden : positive }

(** val inject_Z : z -> q **)

let inject_Z x =
  { qnum = x; qden = XH }

(** val qeq_bool : q -> q -> bool **)

let qeq_bool x y =
  zeq_bool (Z.mul x.qnum (Zpos y.qden)) (Z.mul y.qnum (Zpos x.qden))

(** val qplus : q -> q -> q **)

let qplus x y =
  { qnum = (Z.add (Z.mul x.qnum (Zpos y.qden)) (Z.mul y.qnum (Zpos x.qden)));
    qden = (Coq_Pos.mul x.qden y.qden) }

(** val qmult : q -> q -> q **)

let qmult x y =
  { qnum = (Z.mul x.qnum y.qnum); qden = (Coq_Pos.mul x.qden y.qden) }

(** val qopp : q -> q **)

let qopp x =
  { qnum = (Z.opp x.qnum); qden = x.qden }

(** val qminus : q -> q -> q **)

let qminus x y =
  qplus x (qopp y)

(** val qinv : q -> q **)

let qinv x =
  match x.qnum with
  | Z0 -> { qnum = Z0; qden = XH }
  | Zpos p -> { qnum = (Zpos x.qden); qden = p }
  | Zneg p -> { qnum = (Zneg x.qden); qden = p }

(** val qdiv : q -> q -> q **)

let qdiv x y =
  qmult x (qinv y)

(** val qlt_le_dec : q -> q -> bool **)

let qlt_le_dec x y =
  z_lt_le_dec (Z.mul x.qnum (Zpos y.qden)) (Z.mul y.qnum (Zpos x.qden))

(** val qpower_positive : q -> positive -> q **)

let qpower_positive =
  pow_pos qmult

(** val qpower : q -> z -> q **)

let qpower q0 = function
| Z0 -> { qnum = (Zpos XH); qden = XH }
| Zpos p -> qpower_positive q0 p
| Zneg p -> qinv (qpower_positive q0 p)

(** val qred : q -> q **)

let qred q0 =
  let { qnum = q1; qden = q2 } = q0 in
  let (r1, r2) = snd (Z.ggcd q1 (Zpos q2)) in
  { qnum = r1; qden = (Z.to_pos r2) }

type err =
| EoNError
| ZeroDivision
| IndexErr
| KeyErr
| TypeErr
| NameErr
| ValueErr
| PyException
| OutOfDraws
| OutOfFuel

type 'a result =
| Ok of 'a
| Err of err

(** val rbind : 'a1 result -> ('a1 -> 'a2 result) -> 'a2 result **)

let rbind r f =
  match r with
  | Ok a -> f a
  | Err e -> Err e

(** val qltb : q -> q -> bool **)

let qltb a b =
  if qlt_le_dec a b then true else false

(** val qleb : q -> q -> bool **)

let qleb a b =
  if qlt_le_dec b a then false else true

(** val qeqb : q -> q -> bool **)

let qeqb =
  qeq_bool

(** val sumQ : q list -> q **)

let sumQ l =
  fold_right qplus { qnum = Z0; qden = XH } l

(** val qnat : nat -> q **)

let qnat n0 =
  inject_Z (Z.of_nat n0)

type node = n

type graph = { gnodes : node list; gadj : (node -> node list);
               gpred : (node -> node list); gdirected : bool;
               ew : (node -> node -> q); nw : (node -> q); ewt : bool;
               nwt : bool }

(** val mem : node -> node list -> bool **)

let mem x l =
  existsb (N.eqb x) l

(** val nodupb : node list -> bool **)

let rec nodupb = function
| [] -> true
| x :: t -> (&&) (negb (mem x t)) (nodupb t)

(** val subsetb : node list -> node list -> bool **)

let subsetb a b =
  forallb (fun x -> mem x b) a

(** val wf_graphb : graph -> bool **)

let wf_graphb g =
  (&&)
    ((&&) (nodupb g.gnodes)
      (forallb (fun u ->
        (&&)
          ((&&)
            ((&&)
              ((&&)
                ((&&)
                  ((&&) (nodupb (g.gadj u)) (subsetb (g.gadj u) g.gnodes))
                  (negb (mem u (g.gadj u))))
                (forallb (fun v -> mem u (g.gpred v)) (g.gadj u)))
              (nodupb (g.gpred u))) (subsetb (g.gpred u) g.gnodes))
          (forallb (fun v -> mem u (g.gadj v)) (g.gpred u))) g.gnodes))
    ((||) g.gdirected
      (forallb (fun u ->
        forallb (fun v ->
          (&&) (mem u (g.gadj v)) (qeqb (g.ew u v) (g.ew v u))) (g.gadj u))
        g.gnodes))

(** val stS : n **)

let stS =
  N0

(** val stI : n **)

let stI =
  Npos XH

(** val stR : n **)

let stR =
  Npos (XO XH)

(** val fupdN : (node -> 'a1) -> node -> 'a1 -> node -> 'a1 **)

let fupdN f k v x =
  if N.eqb x k then v else f x

type row = q * z list

type history = (q * n) list

type fulldata = { fd_hist : (node * history) list;
                  fd_trans : ((q * node option) * node) list }

(** val fd_hist : fulldata -> (node * history) list **)

let fd_hist f =
  f.fd_hist

type simout = { so_rows : row list; so_full : fulldata option }

(** val so_rows : simout -> row list **)

let so_rows s =
  s.so_rows

(** val count : nat -> nat list -> nat **)

let count k ds =
  count_occ Nat.eq_dec ds k

(** val pk : nat list -> nat -> q **)

let pk ds k =
  qdiv (qnat (count k ds)) (qnat (length ds))

(** val pk_keys : nat list -> nat list **)

let pk_keys ds =
  nodup Nat.eq_dec ds

(** val maxdeg : nat list -> nat **)

let maxdeg ds =
  fold_right Nat.max O ds

type vec = q list

(** val zipWith : (q -> q -> q) -> vec -> vec -> vec **)

let rec zipWith f a b =
  match a with
  | [] -> []
  | x :: a' ->
    (match b with
     | [] -> []
     | y :: b' -> (f x y) :: (zipWith f a' b'))

(** val vadd : vec -> vec -> vec **)

let vadd =
  zipWith qplus

(** val vsub : vec -> vec -> vec **)

let vsub =
  zipWith qminus

(** val vmul : vec -> vec -> vec **)

let vmul =
  zipWith qmult

(** val smul : q -> vec -> vec **)

let smul c a =
  map (fun x -> qmult c x) a

(** val vmuls : vec -> q -> vec **)

let vmuls a c =
  map (fun x -> qmult x c) a

(** val vsum : vec -> q **)

let vsum =
  sumQ

(** val dot : vec -> vec -> q **)

let dot a b =
  vsum (vmul a b)

(** val qpow : q -> z -> q **)

let qpow =
  qpower

(** val arange : nat -> vec **)

let arange n0 =
  map qnat (seq O n0)

(** val spow_arange : q -> nat -> vec **)

let spow_arange x n0 =
  map (fun k -> qpow x (Z.of_nat k)) (seq O n0)

(** val vnth : nat -> vec -> q **)

let vnth i a =
  nth i a { qnum = Z0; qden = XH }

(** val slice : nat -> nat -> vec -> vec **)

let slice a b x =
  firstn (sub b a) (skipn a x)

(** val slice_from : nat -> vec -> vec **)

let slice_from =
  skipn

(** val drop_last : nat -> vec -> vec **)

let drop_last k x =
  firstn (sub (length x) k) x

(** val take_last : nat -> vec -> vec **)

let take_last k x =
  skipn (sub (length x) k) x

type icreq = { rq_I : node list option; rq_R : node list option;
               rq_rho : q option }

(** val isSome : 'a1 option -> bool **)

let isSome = function
| Some _ -> true
| None -> false

(** val deg : graph -> node -> nat **)

let deg g u =
  length (g.gadj u)

(** val degseq : graph -> nat list **)

let degseq g =
  map (deg g) g.gnodes

(** val gmaxdeg : graph -> nat **)

let gmaxdeg g =
  maxdeg (degseq g)

(** val gN : graph -> q **)

let gN g =
  qnat (length g.gnodes)

(** val edges_from : graph -> node list -> node list -> (node * node) list **)

let rec edges_from g l seen =
  match l with
  | [] -> []
  | u :: t ->
    app
      (map (fun x -> (u, x)) (filter (fun v -> negb (mem v seen)) (g.gadj u)))
      (edges_from g t (u :: seen))

(** val gedges : graph -> (node * node) list **)

let gedges g =
  edges_from g g.gnodes []

(** val esum : graph -> (node -> node -> q) -> q **)

let esum g f =
  sumQ (map (fun e -> f (fst e) (snd e)) (gedges g))

(** val cnt : (node -> bool) -> node list -> q **)

let cnt p l =
  qnat (length (filter p l))

(** val ind : bool -> q **)

let ind = function
| true -> { qnum = (Zpos XH); qden = XH }
| false -> { qnum = Z0; qden = XH }

type status = node -> n

(** val isS : status -> node -> bool **)

let isS st u =
  N.eqb (st u) stS

(** val isI : status -> node -> bool **)

let isI st u =
  N.eqb (st u) stI

(** val isR : status -> node -> bool **)

let isR st u =
  N.eqb (st u) stR

(** val set_status : status -> node list -> n -> status **)

let set_status st l s =
  fold_left (fun f u -> fupdN f u s) l st

(** val initialize_node_status :
    graph -> node list -> node list option -> status result **)

let initialize_node_status g i0 r0 =
  let r = match r0 with
          | Some r -> r
          | None -> [] in
  if existsb (fun u -> mem u r) i0
  then Err EoNError
  else if negb (forallb (fun u -> mem u g.gnodes) i0)
       then Err EoNError
       else if negb (forallb (fun u -> mem u g.gnodes) r)
            then Err EoNError
            else Ok (set_status (set_status (fun _ -> stS) i0 stI) r stR)

(** val count_edge_types_st : graph -> status -> (q * q) * q **)

let count_edge_types_st g st =
  (((esum g (fun u v ->
      if (&&) (isS st u) (isS st v)
      then { qnum = (Zpos (XO XH)); qden = XH }
      else { qnum = Z0; qden = XH })),
    (esum g (fun u v ->
      ind ((||) ((&&) (isS st u) (isI st v)) ((&&) (isI st u) (isS st v)))))),
    (esum g (fun u v ->
      if (&&) (isI st u) (isI st v)
      then { qnum = (Zpos (XO XH)); qden = XH }
      else { qnum = Z0; qden = XH })))

(** val count_edge_types :
    graph -> node list -> node list option -> ((q * q) * q) result **)

let count_edge_types g i0 r0 =
  rbind (initialize_node_status g i0 r0) (fun st -> Ok
    (count_edge_types_st g st))

type nkic = { nk_Nk : vec; nk_Sk : vec; nk_Ik : vec; nk_Rk : vec }

(** val classes : graph -> nat list **)

let classes g =
  seq O (S (gmaxdeg g))

(** val byclass : graph -> (node -> bool) -> vec **)

let byclass g p =
  map (fun k -> cnt (fun u -> (&&) (Nat.eqb (deg g u) k) (p u)) g.gnodes)
    (classes g)

(** val nk_of : graph -> vec **)

let nk_of g =
  byclass g (fun _ -> true)

(** val rho_or_default : graph -> q option -> q **)

let rho_or_default g = function
| Some r -> r
| None -> qdiv { qnum = (Zpos XH); qden = XH } (gN g)

(** val get_Nk_and_IC : graph -> icreq -> bool -> nkic result **)

let get_Nk_and_IC g rq sir =
  if (&&) (isSome rq.rq_rho) (isSome rq.rq_I)
  then Err EoNError
  else if (&&) (isSome rq.rq_rho) (isSome rq.rq_R)
       then Err EoNError
       else if (&&) (negb sir) (isSome rq.rq_R)
            then Err EoNError
            else (match g.gnodes with
                  | [] -> Err ValueErr
                  | _ :: _ ->
                    let nk = nk_of g in
                    (match rq.rq_I with
                     | Some i0 ->
                       rbind (initialize_node_status g i0 rq.rq_R) (fun st ->
                         Ok { nk_Nk = nk; nk_Sk = (byclass g (isS st));
                         nk_Ik = (byclass g (isI st)); nk_Rk =
                         (byclass g (fun u ->
                           (&&) (negb (isS st u)) (negb (isI st u)))) })
                     | None ->
                       let rho = rho_or_default g rq.rq_rho in
                       Ok { nk_Nk = nk; nk_Sk =
                       (smul (qminus { qnum = (Zpos XH); qden = XH } rho) nk);
                       nk_Ik = (smul rho nk); nk_Rk =
                       (smul { qnum = Z0; qden = XH } nk) }))

type nknl = { kk_Ks : nat list; kk_NkNl : vec list; kk_SkSl : vec list;
              kk_SkIl : vec list; kk_IkIl : vec list }

(** val ks_of : graph -> nat list **)

let ks_of g =
  filter (fun k -> existsb (Nat.eqb k) (degseq g)) (classes g)

(** val kmat : graph -> nat list -> (node -> node -> q) -> vec list **)

let kmat g ks f =
  map (fun k ->
    map (fun l ->
      esum g (fun u v ->
        qplus
          (if (&&) (Nat.eqb (deg g u) k) (Nat.eqb (deg g v) l)
           then f u v
           else { qnum = Z0; qden = XH })
          (if (&&) (Nat.eqb (deg g v) k) (Nat.eqb (deg g u) l)
           then f v u
           else { qnum = Z0; qden = XH }))) ks) ks

(** val mscale : q -> vec list -> vec list **)

let mscale c m =
  map (smul c) m

(** val get_NkNl_and_IC : graph -> icreq -> nknl result **)

let get_NkNl_and_IC g rq =
  if (&&) (isSome rq.rq_rho) (isSome rq.rq_I)
  then Err EoNError
  else if (&&) (isSome rq.rq_rho) (isSome rq.rq_R)
       then Err EoNError
       else let ks = ks_of g in
            let nkNl = kmat g ks (fun _ _ -> { qnum = (Zpos XH); qden = XH })
            in
            (match rq.rq_I with
             | Some i0 ->
               rbind (initialize_node_status g i0 rq.rq_R) (fun st -> Ok
                 { kk_Ks = ks; kk_NkNl = nkNl; kk_SkSl =
                 (kmat g ks (fun a b -> ind ((&&) (isS st a) (isS st b))));
                 kk_SkIl =
                 (kmat g ks (fun a b -> ind ((&&) (isS st a) (isI st b))));
                 kk_IkIl =
                 (kmat g ks (fun a b -> ind ((&&) (isI st a) (isI st b)))) })
             | None ->
               let rho = rho_or_default g rq.rq_rho in
               Ok { kk_Ks = ks; kk_NkNl = nkNl; kk_SkSl =
               (mscale
                 (qmult (qminus { qnum = (Zpos XH); qden = XH } rho)
                   (qminus { qnum = (Zpos XH); qden = XH } rho)) nkNl);
               kk_SkIl =
               (mscale
                 (qmult (qminus { qnum = (Zpos XH); qden = XH } rho) rho)
                 nkNl); kk_IkIl = (mscale (qmult rho rho) nkNl) })

(** val wf_req : graph -> bool -> icreq -> bool **)

let wf_req g sir rq =
  match rq.rq_I with
  | Some i0 ->
    (match rq.rq_rho with
     | Some _ -> false
     | None ->
       let r = match rq.rq_R with
               | Some r -> r
               | None -> [] in
       (&&)
         ((&&)
           ((&&) ((&&) ((&&) (nodupb i0) (nodupb r)) (subsetb i0 g.gnodes))
             (subsetb r g.gnodes)) (negb (existsb (fun u -> mem u r) i0)))
         ((||) sir (negb (isSome rq.rq_R))))
  | None ->
    (match rq.rq_rho with
     | Some r ->
       (&&) ((&&) (negb (isSome rq.rq_R)) (qleb { qnum = Z0; qden = XH } r))
         (qleb r { qnum = (Zpos XH); qden = XH })
     | None -> negb (isSome rq.rq_R))

(** val wf_ugraph : graph -> bool **)

let wf_ugraph g =
  (&&) ((&&) (wf_graphb g) (negb g.gdirected))
    (negb (Nat.eqb (length g.gnodes) O))

type traj = nat -> vec

type solver = vec -> traj

(** val const_solver : solver **)

let const_solver x0 _ =
  x0

type sname =
| NS
| NI
| NR
| NSI
| NSS
| NII
| NSk
| NIk
| NRk
| NSkSl
| NSkIl
| NIkIl
| NSsi
| NIsi
| NSkappa
| NTheta

type series =
| Sc of (nat -> q)
| Ve of (nat -> vec)
| Ma of (nat -> vec list)

type output = (sname * series) list

type val0 =
| VS of q
| VV of vec
| VM of vec list

(** val at0 : series -> val0 **)

let at0 = function
| Sc f -> VS (f O)
| Ve f -> VV (f O)
| Ma f -> VM (f O)

(** val row0 : output -> (sname * val0) list **)

let row0 o =
  map (fun ns -> ((fst ns), (at0 (snd ns)))) o

(** val comp : traj -> nat -> nat -> q **)

let comp x i t =
  vnth i (x t)

(** val slc : traj -> nat -> nat -> nat -> vec **)

let slc x a b t =
  slice a b (x t)

(** val sfrom : traj -> nat -> nat -> vec **)

let sfrom x a t =
  slice_from a (x t)

(** val dlast : traj -> nat -> nat -> vec **)

let dlast x k t =
  drop_last k (x t)

(** val tlast : traj -> nat -> nat -> nat -> q **)

let tlast x k i t =
  vnth i (take_last k (x t))

(** val vsumt : (nat -> vec) -> nat -> q **)

let vsumt f t =
  vsum (f t)

(** val reshape : nat -> nat -> vec -> vec list **)

let reshape rows cols v =
  map (fun r -> slice (mul r cols) (add (mul r cols) cols) v) (seq O rows)

(** val flatten : vec list -> vec **)

let flatten =
  concat

(** val mrow : vec list -> nat -> vec **)

let mrow m i =
  nth i m []

(** val msum : vec list -> q **)

let msum m =
  vsum (map vsum m)

(** val len : 'a1 list -> q **)

let len l =
  qnat (length l)

(** val sIS_homogeneous_meanfield : q -> q -> solver -> output **)

let sIS_homogeneous_meanfield s0 i0 sv =
  let x = sv (s0 :: (i0 :: [])) in
  (NS, (Sc (comp x O))) :: ((NI, (Sc (comp x (S O)))) :: [])

(** val sIR_homogeneous_meanfield : q -> q -> q -> solver -> output **)

let sIR_homogeneous_meanfield s0 i0 r0 sv =
  let n0 = qplus (qplus s0 i0) r0 in
  let x = sv (s0 :: (i0 :: [])) in
  (NS, (Sc (comp x O))) :: ((NI, (Sc (comp x (S O)))) :: ((NR, (Sc (fun t ->
  qminus (qminus n0 (comp x O t)) (comp x (S O) t)))) :: []))

(** val sIS_homogeneous_meanfield_from_graph :
    graph -> icreq -> solver -> output result **)

let sIS_homogeneous_meanfield_from_graph g rq sv =
  if (&&) (isSome rq.rq_rho) (isSome rq.rq_I)
  then Err EoNError
  else let i0 =
         match rq.rq_I with
         | Some l -> len l
         | None ->
           (match rq.rq_rho with
            | Some r -> qmult r (gN g)
            | None -> { qnum = (Zpos XH); qden = XH })
       in
       Ok (sIS_homogeneous_meanfield (qminus (gN g) i0) i0 sv)

(** val sIR_homogeneous_meanfield_from_graph :
    graph -> icreq -> solver -> output result **)

let sIR_homogeneous_meanfield_from_graph g rq sv =
  if (&&) (isSome rq.rq_rho) (isSome rq.rq_I)
  then Err EoNError
  else if (&&) (isSome rq.rq_rho) (isSome rq.rq_R)
       then Err EoNError
       else (match rq.rq_I with
             | Some l ->
               let i0 = len l in
               let r = Some (match rq.rq_R with
                             | Some r -> r
                             | None -> []) in
               (match r with
                | Some r0 ->
                  let r1 = len r0 in
                  Ok
                  (sIR_homogeneous_meanfield (qminus (qminus (gN g) i0) r1)
                    i0 r1 sv)
                | None -> Err TypeErr)
             | None ->
               (match rq.rq_rho with
                | Some r ->
                  let i0 = qmult r (gN g) in
                  let r0 = rq.rq_R in
                  (match r0 with
                   | Some r1 ->
                     let r2 = len r1 in
                     Ok
                     (sIR_homogeneous_meanfield
                       (qminus (qminus (gN g) i0) r2) i0 r2 sv)
                   | None -> Err TypeErr)
                | None ->
                  let i0 = { qnum = (Zpos XH); qden = XH } in
                  let r = rq.rq_R in
                  (match r with
                   | Some r0 ->
                     let r1 = len r0 in
                     Ok
                     (sIR_homogeneous_meanfield
                       (qminus (qminus (gN g) i0) r1) i0 r1 sv)
                   | None -> Err TypeErr)))

(** val sIS_homogeneous_pairwise :
    q -> q -> q -> q -> q -> bool -> solver -> output result **)

let sIS_homogeneous_pairwise s0 i0 sI0 sS0 n0 full sv =
  let n1 = qplus s0 i0 in
  if qltb (qmult n0 n1)
       (qplus sS0 (qmult sI0 { qnum = (Zpos (XO XH)); qden = XH }))
  then Err EoNError
  else let x = sv (s0 :: (sI0 :: (sS0 :: []))) in
       let s = comp x O in
       let sI = comp x (S O) in
       let sS = comp x (S (S O)) in
       let i = fun t -> qminus n1 (s t) in
       Ok
       (app ((NS, (Sc s)) :: ((NI, (Sc i)) :: []))
         (if full
          then (NSI, (Sc sI)) :: ((NSS, (Sc sS)) :: ((NII, (Sc (fun t ->
                 qminus (qminus (qmult n1 n0) (sS t))
                   (qmult { qnum = (Zpos (XO XH)); qden = XH } (sI t))))) :: []))
          else []))

(** val sIR_homogeneous_pairwise :
    q -> q -> q -> q -> q -> q -> bool -> solver -> output result **)

let sIR_homogeneous_pairwise s0 i0 r0 sI0 sS0 n0 full sv =
  let n1 = qplus (qplus s0 i0) r0 in
  if qltb (qmult n0 n1)
       (qplus sS0 (qmult { qnum = (Zpos (XO XH)); qden = XH } sI0))
  then Err EoNError
  else let x = sv (s0 :: (i0 :: (sI0 :: (sS0 :: [])))) in
       let s = comp x O in
       let i = comp x (S O) in
       let sI = comp x (S (S O)) in
       let sS = comp x (S (S (S O))) in
       Ok
       (app ((NS, (Sc s)) :: ((NI, (Sc i)) :: ((NR, (Sc (fun t ->
         qminus (qminus n1 (s t)) (i t)))) :: [])))
         (if full then (NSI, (Sc sI)) :: ((NSS, (Sc sS)) :: []) else []))

(** val mean_degree : graph -> q **)

let mean_degree g =
  let ds = degseq g in
  sumQ (map (fun k -> qmult (qnat k) (pk ds k)) (pk_keys ds))

(** val sIS_homogeneous_pairwise_from_graph :
    graph -> icreq -> bool -> solver -> output result **)

let sIS_homogeneous_pairwise_from_graph g rq full sv =
  if (&&) (isSome rq.rq_rho) (isSome rq.rq_I)
  then Err EoNError
  else let n0 = mean_degree g in
       let n1 = gN g in
       (match rq.rq_I with
        | Some i0l ->
          rbind (initialize_node_status g i0l None) (fun st ->
            let i0 = len i0l in
            let same = fun u v -> N.eqb (st u) (st v) in
            let sS0 =
              esum g (fun u v ->
                if (&&) (same u v) (isS st u)
                then { qnum = (Zpos (XO XH)); qden = XH }
                else { qnum = Z0; qden = XH })
            in
            let sI0 =
              esum g (fun u v ->
                if same u v
                then { qnum = Z0; qden = XH }
                else { qnum = (Zpos XH); qden = XH })
            in
            sIS_homogeneous_pairwise (qminus n1 i0) i0 sI0 sS0 n0 full sv)
        | None ->
          let rho = rho_or_default g rq.rq_rho in
          sIS_homogeneous_pairwise
            (qmult (qminus { qnum = (Zpos XH); qden = XH } rho) n1)
            (qmult rho n1)
            (qmult
              (qmult (qmult (qminus { qnum = (Zpos XH); qden = XH } rho) n1)
                n0) rho)
            (qmult
              (qmult (qmult (qminus { qnum = (Zpos XH); qden = XH } rho) n1)
                n0) (qminus { qnum = (Zpos XH); qden = XH } rho)) n0 full sv)

(** val sIR_homogeneous_pairwise_from_graph :
    graph -> icreq -> bool -> solver -> output result **)

let sIR_homogeneous_pairwise_from_graph g rq full sv =
  if (&&) (isSome rq.rq_rho) (isSome rq.rq_I)
  then Err EoNError
  else if (&&) (isSome rq.rq_rho) (isSome rq.rq_R)
       then Err EoNError
       else let n0 = mean_degree g in
            let n1 = gN g in
            (match rq.rq_I with
             | Some i0l ->
               let r0l = match rq.rq_R with
                         | Some r -> r
                         | None -> [] in
               rbind (initialize_node_status g i0l (Some r0l)) (fun st ->
                 let i0 = len i0l in
                 let r0 = len r0l in
                 let (p, _) = count_edge_types_st g st in
                 let (sS0, sI0) = p in
                 sIR_homogeneous_pairwise (qminus (qminus n1 i0) r0) i0 r0
                   sI0 sS0 n0 full sv)
             | None ->
               let rho = rho_or_default g rq.rq_rho in
               sIR_homogeneous_pairwise
                 (qmult (qminus { qnum = (Zpos XH); qden = XH } rho) n1)
                 (qmult rho n1) { qnum = Z0; qden = XH }
                 (qmult
                   (qmult
                     (qmult (qminus { qnum = (Zpos XH); qden = XH } rho) n1)
                     n0) rho)
                 (qmult
                   (qmult
                     (qmult (qminus { qnum = (Zpos XH); qden = XH } rho) n1)
                     n0) (qminus { qnum = (Zpos XH); qden = XH } rho)) n0
                 full sv)

(** val sIS_heterogeneous_meanfield :
    vec -> vec -> bool -> solver -> output result **)

let sIS_heterogeneous_meanfield sk0 ik0 full sv =
  if negb (Nat.eqb (length sk0) (length ik0))
  then Err EoNError
  else let kcount = length sk0 in
       let x = sv (app sk0 ik0) in
       let sk = slc x O kcount in
       let ik = sfrom x kcount in
       Ok
       (app ((NS, (Sc (vsumt sk))) :: ((NI, (Sc (vsumt ik))) :: []))
         (if full then (NSk, (Ve sk)) :: ((NIk, (Ve ik)) :: []) else []))

(** val sIR_heterogeneous_meanfield :
    vec -> vec -> vec -> bool -> solver -> output result **)

let sIR_heterogeneous_meanfield sk0 ik0 rk0 full sv =
  if (||) (negb (Nat.eqb (length sk0) (length ik0)))
       (negb (Nat.eqb (length sk0) (length rk0)))
  then Err EoNError
  else let nk = vadd (vadd sk0 ik0) rk0 in
       let x = sv ({ qnum = (Zpos XH); qden = XH } :: rk0) in
       let theta = comp x O in
       let rk = sfrom x (S O) in
       let sk = fun t -> vmul sk0 (spow_arange (theta t) (length (rk t))) in
       let ik = fun t -> vsub (vsub nk (sk t)) (rk t) in
       Ok
       (if full
        then (NSk, (Ve sk)) :: ((NIk, (Ve ik)) :: ((NRk, (Ve rk)) :: []))
        else (NS, (Sc (vsumt sk))) :: ((NI, (Sc (vsumt ik))) :: ((NR, (Sc
               (vsumt rk))) :: [])))

(** val sIS_heterogeneous_meanfield_from_graph :
    graph -> icreq -> bool -> solver -> output result **)

let sIS_heterogeneous_meanfield_from_graph g rq full sv =
  if (&&) (isSome rq.rq_rho) (isSome rq.rq_I)
  then Err EoNError
  else rbind
         (get_Nk_and_IC g { rq_I = rq.rq_I; rq_R = None; rq_rho = rq.rq_rho }
           false) (fun ic ->
         sIS_heterogeneous_meanfield ic.nk_Sk ic.nk_Ik full sv)

(** val sIR_heterogeneous_meanfield_from_graph :
    graph -> icreq -> bool -> solver -> output result **)

let sIR_heterogeneous_meanfield_from_graph g rq _ sv =
  rbind (get_Nk_and_IC g rq true) (fun ic ->
    sIR_heterogeneous_meanfield ic.nk_Sk ic.nk_Ik ic.nk_Rk false sv)

(** val sIS_heterogeneous_pairwise :
    vec -> vec -> vec list -> vec list -> vec list -> bool -> solver ->
    output result **)

let sIS_heterogeneous_pairwise sk0 ik0 skSl0 skIl0 _ full sv =
  let nk = vadd sk0 ik0 in
  let kcount = length nk in
  let x = sv (app sk0 (app (flatten skSl0) (flatten skIl0))) in
  let sk = slc x O kcount in
  let ik = fun t -> vsub nk (sk t) in
  if full
  then Err NameErr
  else Ok ((NS, (Sc (vsumt sk))) :: ((NI, (Sc (vsumt ik))) :: []))

(** val sIR_heterogeneous_pairwise :
    vec -> vec -> vec -> vec list -> vec list -> nat list -> bool -> solver
    -> output result **)

let sIR_heterogeneous_pairwise sk0 ik0 rk0 skSl0 skIl0 ks full sv =
  let nk = vadd (vadd sk0 ik0) rk0 in
  let kcount = length ks in
  let x = sv (app sk0 (app ik0 (app (flatten skSl0) (flatten skIl0)))) in
  let sk = slc x O kcount in
  let ik = slc x kcount (mul (S (S O)) kcount) in
  let skIl =
    slc x (mul (S (S O)) kcount)
      (add (mul (S (S O)) kcount) (mul kcount kcount))
  in
  let skSl =
    slc x (add (mul (S (S O)) kcount) (mul kcount kcount))
      (add (mul (S (S O)) kcount) (mul (S (S O)) (mul kcount kcount)))
  in
  let rk = fun t -> vsub (vsub nk (sk t)) (ik t) in
  Ok
  (app ((NS, (Sc (vsumt sk))) :: ((NI, (Sc (vsumt ik))) :: ((NR, (Sc
    (vsumt rk))) :: [])))
    (if full
     then (NSk, (Ve sk)) :: ((NIk, (Ve ik)) :: ((NRk, (Ve rk)) :: ((NSkIl,
            (Ma (fun t -> reshape kcount kcount (skIl t)))) :: ((NSkSl, (Ma
            (fun t -> reshape kcount kcount (skSl t)))) :: []))))
     else []))

(** val pickKs : nat list -> vec -> vec **)

let pickKs ks v =
  map (fun k -> vnth k v) ks

(** val sIS_heterogeneous_pairwise_from_graph :
    graph -> icreq -> bool -> solver -> output result **)

let sIS_heterogeneous_pairwise_from_graph g rq full sv =
  let rq' = { rq_I = rq.rq_I; rq_R = None; rq_rho = rq.rq_rho } in
  rbind (get_Nk_and_IC g rq' false) (fun ic ->
    rbind (get_NkNl_and_IC g rq') (fun kk ->
      sIS_heterogeneous_pairwise (pickKs kk.kk_Ks ic.nk_Sk)
        (pickKs kk.kk_Ks ic.nk_Ik) kk.kk_SkSl kk.kk_SkIl kk.kk_IkIl full sv))

(** val sIR_heterogeneous_pairwise_from_graph :
    graph -> icreq -> bool -> solver -> output result **)

let sIR_heterogeneous_pairwise_from_graph g rq full sv =
  rbind (get_Nk_and_IC g rq true) (fun ic ->
    rbind (get_NkNl_and_IC g rq) (fun kk ->
      let ks = kk.kk_Ks in
      sIR_heterogeneous_pairwise (pickKs ks ic.nk_Sk) (pickKs ks ic.nk_Ik)
        (pickKs ks ic.nk_Rk) kk.kk_SkSl kk.kk_SkIl ks full sv))

(** val sIS_compact_pairwise :
    vec -> vec -> q -> q -> q -> bool -> solver -> output **)

let sIS_compact_pairwise sk0 ik0 sI0 sS0 iI0 full sv =
  let nk = vadd sk0 ik0 in
  let twoM =
    qplus (qplus sS0 iI0) (qmult { qnum = (Zpos (XO XH)); qden = XH } sI0)
  in
  let x = sv (app sk0 (sI0 :: (sS0 :: []))) in
  let sk = dlast x (S (S O)) in
  let ik = fun t -> vsub nk (sk t) in
  let sI = tlast x (S (S O)) O in
  let sS = tlast x (S (S O)) (S O) in
  app ((NS, (Sc (vsumt sk))) :: ((NI, (Sc (vsumt ik))) :: []))
    (if full
     then (NSk, (Ve sk)) :: ((NIk, (Ve ik)) :: ((NSI, (Sc sI)) :: ((NSS, (Sc
            sS)) :: ((NII, (Sc (fun t ->
            qminus (qminus twoM (sS t))
              (qmult { qnum = (Zpos (XO XH)); qden = XH } (sI t))))) :: []))))
     else [])

(** val sIR_compact_pairwise :
    vec -> q -> q -> q -> q -> bool -> solver -> output **)

let sIR_compact_pairwise sk0 i0 r0 sS0 sI0 full sv =
  let n0 = qplus (qplus i0 r0) (vsum sk0) in
  let x = sv (app sk0 (sS0 :: (sI0 :: (r0 :: [])))) in
  let sI = tlast x (S (S (S O))) O in
  let sS = tlast x (S (S (S O))) (S O) in
  let r = tlast x (S (S (S O))) (S (S O)) in
  let sk = dlast x (S (S (S O))) in
  let s = vsumt sk in
  let i = fun t -> qminus (qminus n0 (r t)) (s t) in
  if full
  then (NSk, (Ve sk)) :: ((NI, (Sc i)) :: ((NR, (Sc r)) :: ((NSS, (Sc
         sS)) :: ((NSI, (Sc sI)) :: []))))
  else (NS, (Sc s)) :: ((NI, (Sc i)) :: ((NR, (Sc r)) :: []))

(** val ksv : vec -> vec **)

let ksv v =
  arange (length v)

(** val sIS_compact_pairwise_from_graph :
    graph -> icreq -> bool -> solver -> output result **)

let sIS_compact_pairwise_from_graph g rq full sv =
  if (&&) (isSome rq.rq_rho) (isSome rq.rq_I)
  then Err EoNError
  else let rho =
         match rq.rq_rho with
         | Some q0 -> Some q0
         | None ->
           (match rq.rq_I with
            | Some _ -> None
            | None -> Some (qdiv { qnum = (Zpos XH); qden = XH } (gN g)))
       in
       rbind
         (get_Nk_and_IC g { rq_I = rq.rq_I; rq_R = None; rq_rho = rho } false)
         (fun ic ->
         let nk = ic.nk_Nk in
         (match rq.rq_I with
          | Some i0l ->
            rbind (count_edge_types g i0l None) (fun c ->
              let (p, iI0) = c in
              let (sS0, sI0) = p in
              Ok (sIS_compact_pairwise ic.nk_Sk ic.nk_Ik sI0 sS0 iI0 full sv))
          | None ->
            (match rho with
             | Some r ->
               Ok
                 (sIS_compact_pairwise ic.nk_Sk ic.nk_Ik
                   (vsum
                     (map (fun k ->
                       qmult
                         (qmult (qmult (vnth k nk) (qnat k))
                           (qminus { qnum = (Zpos XH); qden = XH } r)) r)
                       (classes g)))
                   (vsum
                     (map (fun k ->
                       qmult
                         (qmult (qmult (vnth k nk) (qnat k))
                           (qminus { qnum = (Zpos XH); qden = XH } r))
                         (qminus { qnum = (Zpos XH); qden = XH } r))
                       (classes g)))
                   (vsum
                     (map (fun k ->
                       qmult (qmult (qmult (vnth k nk) (qnat k)) r) r)
                       (classes g))) full sv)
             | None -> Err TypeErr)))

(** val sIR_compact_pairwise_from_graph :
    graph -> icreq -> bool -> solver -> output result **)

let sIR_compact_pairwise_from_graph g rq full sv =
  if (&&) (isSome rq.rq_rho) (isSome rq.rq_I)
  then Err EoNError
  else let rho =
         match rq.rq_rho with
         | Some q0 -> Some q0
         | None ->
           (match rq.rq_I with
            | Some _ -> None
            | None -> Some (qdiv { qnum = (Zpos XH); qden = XH } (gN g)))
       in
       rbind
         (get_Nk_and_IC g { rq_I = rq.rq_I; rq_R = rq.rq_R; rq_rho = rho }
           true) (fun ic ->
         let i0 = vsum ic.nk_Ik in
         let r0 = vsum ic.nk_Rk in
         (match rq.rq_I with
          | Some i0l ->
            rbind (count_edge_types g i0l rq.rq_R) (fun c ->
              let (p, _) = c in
              let (sS0, sI0) = p in
              Ok (sIR_compact_pairwise ic.nk_Sk i0 r0 sS0 sI0 full sv))
          | None ->
            (match rho with
             | Some r ->
               let sX0 = dot ic.nk_Sk (ksv ic.nk_Nk) in
               Ok
               (sIR_compact_pairwise ic.nk_Sk i0 r0
                 (qmult (qminus { qnum = (Zpos XH); qden = XH } r) sX0)
                 (qmult r sX0) full sv)
             | None -> Err TypeErr)))

(** val sIS_super_compact_pairwise :
    q -> q -> q -> q -> q -> bool -> solver -> output **)

let sIS_super_compact_pairwise s0 i0 sS0 sI0 iI0 full sv =
  let n0 = qplus s0 i0 in
  let x = sv (i0 :: (sS0 :: (sI0 :: (iI0 :: [])))) in
  let i = comp x O in
  app ((NS, (Sc (fun t -> qminus n0 (i t)))) :: ((NI, (Sc i)) :: []))
    (if full
     then (NSS, (Sc (comp x (S O)))) :: ((NSI, (Sc
            (comp x (S (S O))))) :: ((NII, (Sc
            (comp x (S (S (S O)))))) :: []))
     else [])

(** val sIR_super_compact_pairwise :
    q -> q -> q -> q -> (q -> q) -> bool -> solver -> output **)

let sIR_super_compact_pairwise r0 sS0 sI0 n0 psihat full sv =
  let x = sv ({ qnum = (Zpos XH); qden = XH } :: (sS0 :: (sI0 :: (r0 :: []))))
  in
  let theta = comp x O in
  let r = comp x (S (S (S O))) in
  let s = fun t -> qmult n0 (psihat (theta t)) in
  app ((NS, (Sc s)) :: ((NI, (Sc (fun t ->
    qminus (qminus n0 (s t)) (r t)))) :: ((NR, (Sc r)) :: [])))
    (if full
     then (NSS, (Sc (comp x (S O)))) :: ((NSI, (Sc (comp x (S (S O))))) :: [])
     else [])

(** val sIS_super_compact_pairwise_from_graph :
    graph -> icreq -> bool -> solver -> output result **)

let sIS_super_compact_pairwise_from_graph g rq full sv =
  if (&&) (isSome rq.rq_rho) (isSome rq.rq_I)
  then Err EoNError
  else rbind
         (get_Nk_and_IC g { rq_I = rq.rq_I; rq_R = None; rq_rho = rq.rq_rho }
           false) (fun ic ->
         let ks = ksv ic.nk_Nk in
         let s0 = vsum ic.nk_Sk in
         let i0 = vsum ic.nk_Ik in
         (match rq.rq_I with
          | Some i0l ->
            rbind (count_edge_types g i0l None) (fun c ->
              let (p, iI0) = c in
              let (sS0, sI0) = p in
              Ok (sIS_super_compact_pairwise s0 i0 sS0 sI0 iI0 full sv))
          | None ->
            let rho = rho_or_default g rq.rq_rho in
            let sX0 = dot ic.nk_Sk ks in
            Ok
            (sIS_super_compact_pairwise s0 i0
              (qmult (qminus { qnum = (Zpos XH); qden = XH } rho) sX0)
              (qmult rho sX0) (qminus (dot ic.nk_Nk ks) sX0) full sv)))

(** val sumPk : graph -> (nat -> q) -> q **)

let sumPk g f =
  sumQ (map f (pk_keys (degseq g)))

(** val sIR_super_compact_pairwise_from_graph :
    graph -> icreq -> bool -> solver -> output result **)

let sIR_super_compact_pairwise_from_graph g rq full sv =
  if (&&) (isSome rq.rq_rho) (isSome rq.rq_I)
  then Err EoNError
  else let rho =
         match rq.rq_rho with
         | Some q0 -> Some q0
         | None ->
           (match rq.rq_I with
            | Some _ -> None
            | None -> Some (qdiv { qnum = (Zpos XH); qden = XH } (gN g)))
       in
       rbind
         (get_Nk_and_IC g { rq_I = rq.rq_I; rq_R = rq.rq_R; rq_rho = rho }
           true) (fun ic ->
         let n0 = gN g in
         let r0 = vsum ic.nk_Rk in
         (match rq.rq_I with
          | Some i0l ->
            rbind (count_edge_types g i0l rq.rq_R) (fun c ->
              let (p, _) = c in
              let (sS0, sI0) = p in
              let psihat = fun x ->
                qdiv
                  (sumPk g (fun k ->
                    qmult (vnth k ic.nk_Sk) (qpow x (Z.of_nat k)))) n0
              in
              Ok (sIR_super_compact_pairwise r0 sS0 sI0 n0 psihat full sv))
          | None ->
            (match rho with
             | Some r ->
               let sX0 = dot ic.nk_Sk (ksv ic.nk_Nk) in
               let psihat = fun x ->
                 qmult (qminus { qnum = (Zpos XH); qden = XH } r)
                   (sumPk g (fun k ->
                     qmult (pk (degseq g) k) (qpow x (Z.of_nat k))))
               in
               Ok
               (sIR_super_compact_pairwise r0
                 (qmult (qminus { qnum = (Zpos XH); qden = XH } r) sX0)
                 (qmult r sX0) n0 psihat full sv)
             | None -> Err TypeErr)))

(** val sIS_effective_degree :
    vec list -> vec list -> bool -> solver -> output **)

let sIS_effective_degree ssi0 isi0 full sv =
  let rows = length ssi0 in
  let cols = length (mrow ssi0 O) in
  let ksq = mul rows cols in
  let x = sv (app (flatten ssi0) (flatten isi0)) in
  let ssi = slc x O ksq in
  let isi = sfrom x ksq in
  app ((NS, (Sc (vsumt ssi))) :: ((NI, (Sc (vsumt isi))) :: []))
    (if full
     then (NSsi, (Ma (fun t -> reshape rows cols (ssi t)))) :: ((NIsi, (Ma
            (fun t -> reshape rows cols (isi t)))) :: [])
     else [])

(** val sIR_effective_degree :
    vec list -> q -> q -> bool -> solver -> output **)

let sIR_effective_degree ssi0 i0 r0 full sv =
  let n0 = qplus (qplus (msum ssi0) i0) r0 in
  let rows = length ssi0 in
  let cols = length (mrow ssi0 O) in
  let x = sv (app (flatten ssi0) (r0 :: [])) in
  let r = tlast x (S O) O in
  let ssi = dlast x (S O) in
  let s = vsumt ssi in
  app ((NS, (Sc s)) :: ((NI, (Sc (fun t ->
    qminus (qminus n0 (r t)) (s t)))) :: ((NR, (Sc r)) :: [])))
    (if full
     then (NSsi, (Ma (fun t -> reshape rows cols (ssi t)))) :: []
     else [])

(** val sqmat : graph -> (nat -> nat -> q) -> vec list **)

let sqmat g f =
  map (fun s -> map (fun i -> f s i) (classes g)) (classes g)

(** val nbr_count : graph -> (node -> bool) -> node -> nat **)

let nbr_count g p u =
  length (filter p (g.gadj u))

(** val binomial : nat -> nat -> nat **)

let rec binomial n0 k =
  match n0 with
  | O -> (match k with
          | O -> S O
          | S _ -> O)
  | S n' ->
    (match k with
     | O -> S O
     | S k' -> add (binomial n' k') (binomial n' k))

(** val ed_rho_entry : graph -> q -> q -> nat -> nat -> q **)

let ed_rho_entry g c rho s i =
  if Nat.leb (add s i) (gmaxdeg g)
  then qmult
         (qmult
           (qmult (qmult c (vnth (add s i) (nk_of g)))
             (qnat (binomial (add s i) i))) (qpow rho (Z.of_nat i)))
         (qpow (qminus { qnum = (Zpos XH); qden = XH } rho) (Z.of_nat s))
  else { qnum = Z0; qden = XH }

(** val sIS_effective_degree_from_graph :
    graph -> icreq -> bool -> solver -> output result **)

let sIS_effective_degree_from_graph g rq full sv =
  if (&&) (isSome rq.rq_rho) (isSome rq.rq_I)
  then Err EoNError
  else (match g.gnodes with
        | [] -> Err ValueErr
        | _ :: _ ->
          (match rq.rq_I with
           | Some i0l ->
             rbind (initialize_node_status g i0l None) (fun st ->
               let s_of = fun u -> nbr_count g (isS st) u in
               let i_of = fun u -> sub (deg g u) (s_of u) in
               let ssi0 =
                 sqmat g (fun s i ->
                   cnt (fun u ->
                     (&&) ((&&) (isS st u) (Nat.eqb (s_of u) s))
                       (Nat.eqb (i_of u) i)) g.gnodes)
               in
               let isi0 =
                 sqmat g (fun s i ->
                   cnt (fun u ->
                     (&&) ((&&) (negb (isS st u)) (Nat.eqb (s_of u) s))
                       (Nat.eqb (i_of u) i)) g.gnodes)
               in
               Ok (sIS_effective_degree ssi0 isi0 full sv))
           | None ->
             let rho = rho_or_default g rq.rq_rho in
             Ok
             (sIS_effective_degree
               (sqmat g
                 (ed_rho_entry g (qminus { qnum = (Zpos XH); qden = XH } rho)
                   rho)) (sqmat g (ed_rho_entry g rho rho)) full sv)))

(** val sIR_effective_degree_from_graph :
    graph -> icreq -> bool -> solver -> output result **)

let sIR_effective_degree_from_graph g rq full sv =
  if (&&) (isSome rq.rq_rho) (isSome rq.rq_I)
  then Err EoNError
  else if (&&) (isSome rq.rq_rho) (isSome rq.rq_R)
       then Err EoNError
       else (match g.gnodes with
             | [] -> Err ValueErr
             | _ :: _ ->
               (match rq.rq_I with
                | Some i0l ->
                  rbind (initialize_node_status g i0l None) (fun st ->
                    let ssi0 =
                      sqmat g (fun s i ->
                        cnt (fun u ->
                          (&&)
                            ((&&) (isS st u)
                              (Nat.eqb (nbr_count g (isS st) u) s))
                            (Nat.eqb (nbr_count g (isI st) u) i)) g.gnodes)
                    in
                    let i0 = cnt (isI st) g.gnodes in
                    let r0 =
                      cnt (fun u -> (&&) (negb (isS st u)) (negb (isI st u)))
                        g.gnodes
                    in
                    Ok (sIR_effective_degree ssi0 i0 r0 full sv))
                | None ->
                  let rho = rho_or_default g rq.rq_rho in
                  Ok
                  (sIR_effective_degree
                    (sqmat g
                      (ed_rho_entry g
                        (qminus { qnum = (Zpos XH); qden = XH } rho) rho))
                    (qmult rho (vsum (nk_of g))) { qnum = Z0; qden = XH }
                    full sv)))

(** val sIS_compact_effective_degree_from_graph :
    graph -> icreq -> bool -> solver -> output result **)

let sIS_compact_effective_degree_from_graph =
  sIS_compact_pairwise_from_graph

(** val sIR_compact_effective_degree :
    vec -> q -> q -> q -> bool -> solver -> output **)

let sIR_compact_effective_degree skappa0 i0 r0 sI0 full sv =
  let n0 = qplus (qplus (vsum skappa0) i0) r0 in
  let x = sv (app skappa0 (r0 :: (sI0 :: []))) in
  let skappa = dlast x (S (S O)) in
  let s = vsumt skappa in
  let r = tlast x (S (S O)) O in
  let sI = tlast x (S (S O)) (S O) in
  app ((NS, (Sc s)) :: ((NI, (Sc (fun t ->
    qminus (qminus n0 (s t)) (r t)))) :: ((NR, (Sc r)) :: [])))
    (if full then (NSkappa, (Ve skappa)) :: ((NSI, (Sc sI)) :: []) else [])

(** val sIR_compact_effective_degree_from_graph :
    graph -> icreq -> bool -> solver -> output result **)

let sIR_compact_effective_degree_from_graph g rq full sv =
  if (&&) (isSome rq.rq_rho) (isSome rq.rq_I)
  then Err EoNError
  else if (&&) (isSome rq.rq_rho) (isSome rq.rq_R)
       then Err EoNError
       else (match g.gnodes with
             | [] -> Err ValueErr
             | _ :: _ ->
               (match rq.rq_I with
                | Some i0l ->
                  rbind (initialize_node_status g i0l rq.rq_R) (fun st ->
                    let notR = fun v -> negb (isR st v) in
                    let skappa0 =
                      map (fun kap ->
                        cnt (fun u ->
                          (&&) (isS st u) (Nat.eqb (nbr_count g notR u) kap))
                          g.gnodes) (classes g)
                    in
                    let i0 = cnt (isI st) g.gnodes in
                    let r0 =
                      cnt (fun u -> (&&) (negb (isS st u)) (negb (isI st u)))
                        g.gnodes
                    in
                    let sI0 =
                      sumQ
                        (map (fun u ->
                          if isS st u
                          then qnat (nbr_count g (isI st) u)
                          else { qnum = Z0; qden = XH }) g.gnodes)
                    in
                    Ok
                    (sIR_compact_effective_degree skappa0 i0 r0 sI0 full sv))
                | None ->
                  let rho = rho_or_default g rq.rq_rho in
                  let nk = nk_of g in
                  let skappa0 =
                    vmuls nk (qminus { qnum = (Zpos XH); qden = XH } rho)
                  in
                  Ok
                  (sIR_compact_effective_degree skappa0 (qmult rho (vsum nk))
                    { qnum = Z0; qden = XH }
                    (vsum
                      (map (fun k ->
                        qmult (qmult (qnat k) (vnth k skappa0)) rho)
                        (classes g))) full sv)))

(** val eBCM : q -> (q -> q) -> q -> bool -> solver -> output **)

let eBCM n0 psihat r0 full sv =
  let x = sv ({ qnum = (Zpos XH); qden = XH } :: (r0 :: [])) in
  let theta = comp x O in
  let r = comp x (S O) in
  let s = fun t -> qmult n0 (psihat (theta t)) in
  app ((NS, (Sc s)) :: ((NI, (Sc (fun t ->
    qminus (qminus n0 (s t)) (r t)))) :: ((NR, (Sc r)) :: [])))
    (if full then (NTheta, (Sc theta)) :: [] else [])

(** val eBCM_from_graph :
    graph -> icreq -> bool -> solver -> output result **)

let eBCM_from_graph g rq full sv =
  if (&&) (isSome rq.rq_rho) (isSome rq.rq_I)
  then Err EoNError
  else if (&&) (isSome rq.rq_rho) (isSome rq.rq_R)
       then Err EoNError
       else let n0 = gN g in
            let ds = degseq g in
            (match rq.rq_I with
             | Some i0l ->
               rbind (initialize_node_status g i0l rq.rq_R) (fun st ->
                 match g.gnodes with
                 | [] -> Err ValueErr
                 | _ :: _ ->
                   let nk = nk_of g in
                   let sk0 = fun k ->
                     qmult
                       (cnt (fun u -> (&&) (isS st u) (Nat.eqb (deg g u) k))
                         g.gnodes)
                       (qdiv { qnum = (Zpos XH); qden = XH } (vnth k nk))
                   in
                   let sX =
                     sumQ
                       (map (fun u ->
                         if isS st u
                         then qnat (deg g u)
                         else { qnum = Z0; qden = XH }) g.gnodes)
                   in
                   let r0 = cnt (isR st) g.gnodes in
                   if qeqb sX { qnum = Z0; qden = XH }
                   then Err ZeroDivision
                   else let psihat = fun x ->
                          sumPk g (fun k ->
                            qmult (qmult (pk ds k) (sk0 k))
                              (qpow x (Z.of_nat k)))
                        in
                        Ok (eBCM n0 psihat r0 full sv))
             | None ->
               let rho = rho_or_default g rq.rq_rho in
               let psihat = fun x ->
                 qmult (qminus { qnum = (Zpos XH); qden = XH } rho)
                   (sumPk g (fun k -> qmult (pk ds k) (qpow x (Z.of_nat k))))
               in
               Ok (eBCM n0 psihat { qnum = Z0; qden = XH } full sv))

type entry =
| ESISm
| ESIRm
| ESISp
| ESIRp
| ESIShm
| ESIRhm
| ESIShp
| ESIRhp
| ESIScp
| ESIRcp
| ESISsc
| ESIRsc
| ESISed
| ESIRed
| ESISced
| ESIRced
| EEBCM

(** val run_entry :
    entry -> graph -> icreq -> bool -> solver -> output result **)

let run_entry e g rq full sv =
  match e with
  | ESISm -> sIS_homogeneous_meanfield_from_graph g rq sv
  | ESIRm -> sIR_homogeneous_meanfield_from_graph g rq sv
  | ESISp -> sIS_homogeneous_pairwise_from_graph g rq full sv
  | ESIRp -> sIR_homogeneous_pairwise_from_graph g rq full sv
  | ESIShm -> sIS_heterogeneous_meanfield_from_graph g rq full sv
  | ESIRhm -> sIR_heterogeneous_meanfield_from_graph g rq full sv
  | ESIShp -> sIS_heterogeneous_pairwise_from_graph g rq full sv
  | ESIRhp -> sIR_heterogeneous_pairwise_from_graph g rq full sv
  | ESIScp -> sIS_compact_pairwise_from_graph g rq full sv
  | ESIRcp -> sIR_compact_pairwise_from_graph g rq full sv
  | ESISsc -> sIS_super_compact_pairwise_from_graph g rq full sv
  | ESIRsc -> sIR_super_compact_pairwise_from_graph g rq full sv
  | ESISed -> sIS_effective_degree_from_graph g rq full sv
  | ESIRed -> sIR_effective_degree_from_graph g rq full sv
  | ESISced -> sIS_compact_effective_degree_from_graph g rq full sv
  | ESIRced -> sIR_compact_effective_degree_from_graph g rq full sv
  | EEBCM -> eBCM_from_graph g rq full sv

(** val row0_entry :
    entry -> graph -> icreq -> bool -> (sname * val0) list result **)

let row0_entry e g rq full =
  rbind (run_entry e g rq full const_solver) (fun o -> Ok (row0 o))
