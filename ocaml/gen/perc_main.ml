module ZZ = Z
module QQ = Q
open Perc_model
(* Shared glue for the drivers of the extracted models.  This text is pasted
   after "open <Comp>_model" by the build (harness/common.py build_driver), so
   the constructor names below refer to that component's extraction of
   Prelude/Samp/Graph.  Only conversion, parsing, printing and the choice of
   scripted draws live here; everything that decides a result is extracted Coq. *)

(* ---------- conversions ---------- *)
let rec pos_of_z (n : ZZ.t) : positive =
  if ZZ.equal n ZZ.one then XH
  else if ZZ.is_odd n then XI (pos_of_z (ZZ.shift_right n 1))
  else XO (pos_of_z (ZZ.shift_right n 1))
let z_of_zt (n : ZZ.t) : z =
  if ZZ.sign n = 0 then Z0 else if ZZ.sign n > 0 then Zpos (pos_of_z n) else Zneg (pos_of_z (ZZ.neg n))
let n_of_zt (n : ZZ.t) : n = if ZZ.sign n = 0 then N0 else Npos (pos_of_z n)
let n_of_int (i : int) : n = n_of_zt (ZZ.of_int i)
let rec zt_of_pos = function
  | XH -> ZZ.one
  | XO p -> ZZ.shift_left (zt_of_pos p) 1
  | XI p -> ZZ.succ (ZZ.shift_left (zt_of_pos p) 1)
let zt_of_z = function Z0 -> ZZ.zero | Zpos p -> zt_of_pos p | Zneg p -> ZZ.neg (zt_of_pos p)
let zt_of_n = function N0 -> ZZ.zero | Npos p -> zt_of_pos p
let int_of_n x = ZZ.to_int (zt_of_n x)
let rec nat_of_int n = if n <= 0 then O else S (nat_of_int (n - 1))
let int_of_nat x = let rec go a = function O -> a | S n -> go (a + 1) n in go 0 x
let mkq (a : ZZ.t) (b : ZZ.t) : q = { qnum = z_of_zt a; qden = pos_of_z b }
let qq_of_q (x : q) : QQ.t = QQ.make (zt_of_z x.qnum) (zt_of_pos x.qden)
let q_of_qq (x : QQ.t) : q = mkq (QQ.num x) (QQ.den x)
let sq (x : q) : string =
  let x = qq_of_q x in
  ZZ.to_string (QQ.num x) ^ "/" ^ ZZ.to_string (QQ.den x)
let sn (x : n) = ZZ.to_string (zt_of_n x)
let sz (x : z) = ZZ.to_string (zt_of_z x)
let qi (a : int) (b : int) : q = q_of_qq (QQ.of_ints a b)

(* ---------- token reader ---------- *)
let toks : string list ref = ref []
let next () = match !toks with t :: r -> toks := r; t | [] -> failwith "unexpected end of line"
let more () = !toks <> []
let nint () = int_of_string (next ())
let nzt () = ZZ.of_string (next ())
let nq () = let a = nzt () in let b = nzt () in mkq a b
let nn () = n_of_zt (nzt ())
let nbool () = nint () = 1
let nlist f = let k = nint () in List.init k (fun _ -> f ())
let nopt f = if nint () = 1 then Some (f ()) else None
let buf = Buffer.create 65536
let out s = Buffer.add_string buf s
let skey (k : n list) = String.concat "," (List.map sn k)
let skeys (ks : n list list) = String.concat ";" (List.map skey ks)

(* names of the Python failure modes of Base/Prelude.v *)
let err_name = function
  | EoNError -> "EoNError" | ZeroDivision -> "ZeroDivisionError" | IndexErr -> "IndexError"
  | KeyErr -> "KeyError" | TypeErr -> "TypeError" | NameErr -> "NameError"
  | ValueErr -> "ValueError" | PyException -> "Exception"
  | OutOfDraws -> "OutOfDraws" | OutOfFuel -> "OutOfFuel"


(* ---------- sampler programs: choosing scripted draws, printing traces ----------
   [walk m ent] follows the program [m], choosing one draw per call from the
   entropy source [ent : unit -> int]; the chosen draws are then given to the
   extracted [exec], which is what produces the result and the trace.  *)
let eps30 = QQ.of_ints 1 (1 lsl 30)
let acc_draw = q_of_qq (QQ.of_ints 1 (1 lsl 40))   (* the scripted answer to every accept test *)

let expo_delay (e : int) : q =
  (* positive dyadic delays of varied magnitude *)
  let num = 1 + (e mod 16) in
  let den = 1 lsl ((e / 16) mod 5) in
  qi num den

let flip_draw (p : q) (want_true : bool) (boundary : bool) : q option =
  let p = qq_of_q p in
  let zero = QQ.zero and one = QQ.one in
  if want_true then
    if QQ.leq p zero then None
    else if boundary && QQ.gt (QQ.sub p eps30) zero && QQ.leq p one then Some (q_of_qq (QQ.sub p eps30))
    else Some (q_of_qq (QQ.div (QQ.min p one) (QQ.of_int 2)))
  else
    if QQ.geq p one then None
    else if boundary && QQ.lt (QQ.add p eps30) one && QQ.geq p zero then Some (q_of_qq (QQ.add p eps30))
    else Some (q_of_qq (QQ.div (QQ.add (QQ.max p zero) one) (QQ.of_int 2)))

(* draw that makes the cascade stop in cell i (midpoint of the cell) *)
let casc_draw (ps : q list) (i : int) : q option =
  let rec go acc j = function
    | [] -> None
    | p :: t ->
      let p = qq_of_q p in
      if j = i then (if QQ.gt p QQ.zero then Some (q_of_qq (QQ.add acc (QQ.div p (QQ.of_int 2)))) else None)
      else go (QQ.add acc p) (j + 1) t in
  go QQ.zero 0 ps

exception Stop
let walk (m : 'a samp) (ent : unit -> int) (maxdraws : int) : q list =
  let ds = ref [] and nd = ref 0 in
  let push d = ds := d :: !ds; incr nd; if !nd > maxdraws then raise Stop in
  let rec go (m : 'a samp) : unit =
    match m with
    | Ret _ | Fail _ -> ()
    | Expo (r, k) ->
      if QQ.equal (qq_of_q r) QQ.zero then () else begin
        let d = expo_delay (ent ()) in push d; go (k d) end
    | Flip (p, kt, kf) ->
      let e = ent () in
      let want = e land 1 = 0 and boundary = e land 6 = 0 in
      (match flip_draw p want boundary with
       | Some d -> push d; go (if want then kt else kf)
       | None ->
         (match flip_draw p (not want) boundary with
          | Some d -> push d; go (if want then kf else kt)
          | None -> ()))
    | Casc (ps, k) ->
      let n = List.length ps in
      if n = 0 then () else begin
        let start = ent () mod n in
        let rec find j c = if c >= n then None else
            match casc_draw ps ((start + j) mod n) with Some d -> Some (d, (start + j) mod n) | None -> find (j + 1) (c + 1) in
        match find 0 0 with
        | Some (d, i) -> push d; go (k (nat_of_int i))
        | None -> push (qi 1 2); go (k (casc_index ps (qi 1 2) O))
      end
    | Choose (w, c, k) ->
      let n = List.length c in
      if n = 0 then () else begin
        let rec round tries =
          let i = ent () mod n in
          let (key, wt) = List.nth c i in
          push (qi i 1);
          if w then begin
            push acc_draw;
            if QQ.gt (qq_of_q wt) QQ.zero then go (k key)
            else if tries > 60 then raise Stop else round (tries + 1)
          end else go (k key) in
        round 0 end
    | Unif (c, k) ->
      let n = List.length c in
      if n = 0 then () else begin
        let i = ent () mod n in push (qi i 1); go (k (List.nth c i)) end
    | Sample (pop, n, k) ->
      let len = List.length pop in
      if len < int_of_nat n then () else begin
        let i = if len = 0 then 0 else ent () mod len in
        push (qi i 1);
        go (k (firstn n (rotate (nat_of_int i) pop))) end in
  (try go m with Stop -> ());
  List.rev !ds

(* all draw scripts of [m] up to [maxpaths] complete paths (DFS): both sides of
   every Flip at p -/+ 2^-30, every cell of every cascade, every candidate of
   every choice, the given delays for every Expo *)
let walk_all (m : 'a samp) (delays : q list) (maxdraws : int) (maxpaths : int) : q list list =
  let paths = ref [] and np = ref 0 in
  let rec go (m : 'a samp) (ds : q list) (nd : int) : unit =
    if !np >= maxpaths then () else
    if nd > maxdraws then (paths := List.rev ds :: !paths; incr np) else
    match m with
    | Ret _ | Fail _ -> paths := List.rev ds :: !paths; incr np
    | Expo (r, k) ->
      if QQ.equal (qq_of_q r) QQ.zero then (paths := List.rev ds :: !paths; incr np)
      else List.iter (fun d -> go (k d) (d :: ds) (nd + 1)) delays
    | Flip (p, kt, kf) ->
      let any = ref false in
      (match flip_draw p true true with Some d -> any := true; go kt (d :: ds) (nd + 1) | None -> ());
      (match flip_draw p false true with Some d -> any := true; go kf (d :: ds) (nd + 1) | None -> ());
      if not !any then (paths := List.rev ds :: !paths; incr np)
    | Casc (ps, k) ->
      List.iteri (fun i _ -> match casc_draw ps i with
          | Some d -> go (k (nat_of_int i)) (d :: ds) (nd + 1) | None -> ()) ps
    | Choose (w, c, k) ->
      if c = [] then (paths := List.rev ds :: !paths; incr np) else
      List.iteri (fun i (key, wt) ->
          if w then (if QQ.gt (qq_of_q wt) QQ.zero then go (k key) (acc_draw :: qi i 1 :: ds) (nd + 2))
          else go (k key) (qi i 1 :: ds) (nd + 1)) c
    | Unif (c, k) ->
      if c = [] then (paths := List.rev ds :: !paths; incr np) else
      List.iteri (fun i key -> go (k key) (qi i 1 :: ds) (nd + 1)) c
    | Sample (pop, n, k) ->
      let len = List.length pop in
      if len < int_of_nat n then (paths := List.rev ds :: !paths; incr np)
      else if len = 0 then go (k []) (qi 0 1 :: ds) (nd + 1)
      else List.iteri (fun i _ -> go (k (firstn n (rotate (nat_of_int i) pop))) (qi i 1 :: ds) (nd + 1)) pop in
  go m [] 0;
  List.rev !paths

let print_call = function
  | CExpo r -> out (" E:" ^ sq r)
  | CFlip p -> out (" U:" ^ sq p)
  | CCasc ps -> out (" U:" ^ String.concat "," (List.map sq ps))
  | CPick c -> out (" P:" ^ skeys c)
  | CAcc w -> out (" A:" ^ sq w)
  | CSample (pop, n) -> out (" S:" ^ string_of_int (int_of_nat n) ^ ":" ^ skeys pop)
let print_trace tr = out " | TRACE"; List.iter print_call tr
let print_draws ds = out " | DRAWS"; List.iter (fun d -> out (" " ^ sq d)) ds

(* entropy source from the tokens of the case line: "ENT k e1 .. ek" cycled *)
let read_entropy () : unit -> int =
  let l = Array.of_list (nlist nint) in
  let i = ref 0 in
  fun () -> if Array.length l = 0 then 0 else begin
      let v = l.(!i mod Array.length l) + (!i / Array.length l) in incr i; v end

(* ---------- graphs and simulator outputs ---------- *)
(* graph tokens: n directed | per node: deg nbrs.. | per node: pdeg preds.. |
   ewt nwt | per node: nw | ne, per edge: u v w   (nodes are 0..n-1) *)
let read_graph () : graph =
  let n = nint () in
  let directed = nbool () in
  let adj = Array.init n (fun _ -> nlist nn) in
  let pred = Array.init n (fun _ -> nlist nn) in
  let ewt = nbool () in let nwt = nbool () in
  let nwa = Array.init n (fun _ -> nq ()) in
  let ne = nint () in
  let ews = Hashtbl.create 64 in
  for _ = 1 to ne do
    let u = nint () in let v = nint () in let w = nq () in
    Hashtbl.replace ews (u, v) w;
    if not directed then Hashtbl.replace ews (v, u) w
  done;
  let one = qi 1 1 in
  { gnodes = List.init n n_of_int;
    gadj = (fun u -> let u = int_of_n u in if u < n then adj.(u) else []);
    gpred = (fun u -> let u = int_of_n u in if u < n then pred.(u) else []);
    gdirected = directed;
    ew = (fun u v -> try Hashtbl.find ews (int_of_n u, int_of_n v) with Not_found -> one);
    nw = (fun u -> let u = int_of_n u in if u < n then nwa.(u) else one);
    ewt; nwt }

let print_rows (rows : (q * z list) list) =
  out " ROWS";
  List.iter (fun (t, cs) -> out (" " ^ sq t ^ ":" ^ String.concat "," (List.map sz cs))) rows

let print_full (f : fulldata) =
  out " HIST";
  List.iter (fun (u, h) ->
      out (" " ^ sn u ^ "=" ^ String.concat "," (List.map (fun (t, s) -> sq t ^ "@" ^ sn s) h))) f.fd_hist;
  out " TRANS";
  List.iter (fun ((t, src), tgt) ->
      out (" " ^ sq t ^ ":" ^ (match src with Some s -> sn s | None -> "-") ^ ">" ^ sn tgt)) f.fd_trans

let print_simout (o : simout) =
  print_rows o.so_rows;
  (match o.so_full with Some f -> print_full f | None -> ())

let print_result (pr : 'a -> unit) (r : 'a result) =
  match r with
  | Ok a -> out "OK"; pr a
  | Err e -> out ("ERR " ^ err_name e)

(* ---------- main loop: one case per line, dispatch on the first token ---------- *)
let main (dispatch : string -> unit) =
  try
    while true do
      let line = input_line stdin in
      toks := List.filter (fun s -> s <> "") (String.split_on_char ' ' line);
      Buffer.clear buf;
      (try dispatch (next ())
       with Failure m -> out (" DRIVERFAIL " ^ m)
          | Stack_overflow -> out " DRIVERFAIL stack_overflow"
          | Not_found -> out " DRIVERFAIL not_found"
          | Invalid_argument m -> out (" DRIVERFAIL invalid_argument " ^ m));
      print_endline (Buffer.contents buf)
    done
  with End_of_file -> ()

(* GLUE: base err samp graph main *)
(* Driver of component 'perc' (Model/Percolation.v, property C17).  Parsing and
   printing only; every result is computed by the extracted definitions. *)
let sorted_nodes (l : n list) = List.sort compare (List.map int_of_n l)
let snodes (l : n list) = String.concat "," (List.map string_of_int (sorted_nodes l))
let sx (t : q option) = match t with None -> "inf" | Some x -> sq x
let nx_ () : q option = nopt nq
let spair ((a, b) : q * q) = sq a ^ ":" ^ sq b
let uniq l = List.sort_uniq compare l

(* COMP <graph> O|I one? k src..  : _out_component_ / _in_component_ *)
let run_comp () =
  let g = read_graph () in
  let dir = next () in
  let one = nbool () in
  let l = nlist nn in
  let src = if one then One (List.hd l) else Many l in
  match (if dir = "O" then out_component g src else in_component g src) with
  | Ok r -> out ("OK " ^ snodes r)
  | Err e -> out ("ERR " ^ err_name e)

(* SCC <graph> : the classes, each sorted, sorted; then the indices of the largest *)
let run_scc () =
  let g = read_graph () in
  (match sccs g with
   | Ok l -> out ("OK " ^ String.concat "|" (uniq (List.map snodes l)));
     out (" LARGEST " ^ String.concat "|" (uniq (List.map snodes (largest l))))
   | Err e -> out ("ERR " ^ err_name e));
  (match ccs g with
   | Ok l -> out (" CC " ^ String.concat "|" (uniq (List.map snodes l)))
   | Err e -> out (" CC ERR " ^ err_name e))

let print_answers g =
  match estimate_answers g with
  | Ok l -> out ("OK " ^ String.concat " " (uniq (List.map spair l)))
  | Err e -> out ("ERR " ^ err_name e)

(* EST <graph> : every answer estimate_SIR_prob_size_from_dir_perc may give *)
let run_est () = let g = read_graph () in print_answers g

(* ESTALL <graph> : answers | out/in component of every single node | the SCCs *)
let run_estall () =
  let g = read_graph () in
  print_answers g;
  out " | COMPS";
  List.iter (fun u ->
      let f r = match r with Ok l -> snodes l | Err e -> "!" ^ err_name e in
      out (" " ^ sn u ^ ":" ^ f (out_component g (One u)) ^ ":" ^ f (in_component g (One u)))) g.gnodes;
  out " | SCC ";
  (match sccs g with
   | Ok l -> out (String.concat "|" (uniq (List.map snodes l)))
   | Err e -> out ("!" ^ err_name e))

let print_pg (h : pgraph) =
  out ("N " ^ String.concat "," (List.map sn h.pg_nodes));
  out (" E " ^ String.concat "," (List.sort compare (List.map (fun (u, v) -> sn u ^ ">" ^ sn v) h.pg_edges)));
  out (" D " ^ String.concat "," (List.sort compare (List.map (fun (u, d) -> sn u ^ "=" ^ sx d) h.pg_dur)));
  out (" T " ^ String.concat "," (List.sort compare (List.map (fun ((u, v), d) -> sn u ^ ">" ^ sn v ^ "=" ^ sx d) h.pg_delay)))

(* PTIM <graph> w  (dur per node: opt q)  ne (u v opt q).. : with_timing builder + estimator *)
let run_ptim () =
  let g = read_graph () in
  let w = nbool () in
  let n = List.length g.gnodes in
  let durs = Array.init n (fun _ -> nx_ ()) in
  let tab = Hashtbl.create 64 in
  let ne = nint () in
  for _ = 1 to ne do let u = nint () in let v = nint () in let d = nx_ () in Hashtbl.replace tab (u, v) d done;
  let dur u = durs.(int_of_n u) in
  let delay u v = Hashtbl.find tab (int_of_n u, int_of_n v) in
  let h = nm_perc_timing dur delay g w in
  out "OK "; print_pg h;
  out " CALLS";
  List.iter (function CallRec u -> out (" r" ^ sn u) | CallTrans (u, v) -> out (" t" ^ sn u ^ ">" ^ sn v)) (nm_perc_timing_calls g);
  out " EST "; print_answers (to_graph h)

(* PNM <graph> (xi present per node) (zeta present per node) k (u v).. : pairs on which transmission is True *)
let run_pnm () =
  let g = read_graph () in
  let n = List.length g.gnodes in
  let xi = Array.init n (fun _ -> nbool ()) in
  let ze = Array.init n (fun _ -> nbool ()) in
  let tab = Hashtbl.create 64 in
  let k = nint () in
  for _ = 1 to k do let u = nint () in let v = nint () in Hashtbl.replace tab (u, v) true done;
  let fx a u = if a.(int_of_n u) then Some u else None in
  let tr u v = Hashtbl.mem tab (int_of_n u, int_of_n v) in
  match nm_perc_tab (fx xi) (fx ze) tr g with
  | Ok h -> out "OK "; print_pg h; out " EST "; print_answers (to_graph h)
  | Err e -> out ("ERR " ^ err_name e)

let print_ugraph (h : graph) =
  out ("N " ^ String.concat "," (List.map sn h.gnodes));
  let es = List.concat_map (fun u -> List.map (fun v -> let a = int_of_n u and b = int_of_n v in (min a b, max a b)) (h.gadj u)) h.gnodes in
  out (" E " ^ String.concat "," (List.map (fun (a, b) -> string_of_int a ^ "-" ^ string_of_int b) (uniq es)))

(* PERC <graph> p k draws.. : percolate_network and estimate_SIR_prob_size on the same draws *)
let run_perc () =
  let g = read_graph () in
  let p = nq () in
  let ds = nlist nq in
  out ("EDGES " ^ String.concat "," (List.map (fun (u, v) -> sn u ^ "-" ^ sn v) (edges g)) ^ " ");
  (match percolate_network g p ds with
   | Ok h -> out "OK "; print_ugraph h;
     (match largest_cc_size h with Ok m -> out (" SIZE " ^ string_of_int (int_of_nat m)) | Err e -> out (" SIZE ERR " ^ err_name e))
   | Err e -> out ("ERR " ^ err_name e));
  out " | EST ";
  (match estimate_SIR_prob_size g p ds with
   | Ok a -> out ("OK " ^ spair a)
   | Err e -> out ("ERR " ^ err_name e))

(* DPN <graph> tau gamma w k draws.. : directed_percolate_network on scripted expovariate draws *)
let run_dpn () =
  let g = read_graph () in
  let tau = nq () in let gamma = nq () in
  let w = nbool () in
  let ds = nlist nq in
  match exec_pgraph (directed_percolate_network g tau gamma w) ds [] with
  | (Ok h, tr) -> out "OK "; print_pg h; out " EST "; print_answers (to_graph h); print_trace tr
  | (Err e, tr) -> out ("ERR " ^ err_name e); print_trace tr

(* GIN <graph> tau gamma  (one? k ids)  (one? k ids)  k draws.. : get_infected_nodes on scripted expovariate draws *)
let run_gin () =
  let g = read_graph () in
  let tau = nq () in let gamma = nq () in
  let src () = let one = nbool () in let l = nlist nn in if one then One (List.hd l) else Many l in
  let inf = src () in let rc = src () in
  let ds = nlist nq in
  match exec_nodes (get_infected_nodes g tau gamma inf rc) ds [] with
  | (Ok r, tr) -> out ("OK " ^ snodes r); print_trace tr
  | (Err e, tr) -> out ("ERR " ^ err_name e); print_trace tr

let () = main (function
    | "GIN" -> run_gin ()
    | "COMP" -> run_comp ()
    | "SCC" -> run_scc ()
    | "EST" -> run_est ()
    | "ESTALL" -> run_estall ()
    | "PTIM" -> run_ptim ()
    | "PNM" -> run_pnm ()
    | "PERC" -> run_perc ()
    | "DPN" -> run_dpn ()
    | c -> out ("BADCMD " ^ c))
