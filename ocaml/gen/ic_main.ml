module ZZ = Z
module QQ = Q
open Ic_model
(* Shared glue for the drivers of the extracted models.  This text is pasted
   after "open <Comp>_model" by the build (harness/common.py build_driver), so
   the constructor names below refer to that component's extraction of
   Prelude/Samp/Graph.  Only conversion, parsing, printing and the choice of
   scripted draws live here; everything that decides a result is extracted Coq. *)

(* ---------- conversions ---------- *)
let rec pos_of_z (n : ZZ.t) : positive =
  if ZZ.equal n ZZ.one then XH
  else if ZZ.is_odd n then XI (pos_of_z (ZZ.shift_right n 1))
  else XO (pos_of_z (ZZ.shift_right n 1))
let z_of_zt (n : ZZ.t) : z =
  if ZZ.sign n = 0 then Z0 else if ZZ.sign n > 0 then Zpos (pos_of_z n) else Zneg (pos_of_z (ZZ.neg n))
let n_of_zt (n : ZZ.t) : n = if ZZ.sign n = 0 then N0 else Npos (pos_of_z n)
let n_of_int (i : int) : n = n_of_zt (ZZ.of_int i)
let rec zt_of_pos = function
  | XH -> ZZ.one
  | XO p -> ZZ.shift_left (zt_of_pos p) 1
  | XI p -> ZZ.succ (ZZ.shift_left (zt_of_pos p) 1)
let zt_of_z = function Z0 -> ZZ.zero | Zpos p -> zt_of_pos p | Zneg p -> ZZ.neg (zt_of_pos p)
let zt_of_n = function N0 -> ZZ.zero | Npos p -> zt_of_pos p
let int_of_n x = ZZ.to_int (zt_of_n x)
let rec nat_of_int n = if n <= 0 then O else S (nat_of_int (n - 1))
let int_of_nat x = let rec go a = function O -> a | S n -> go (a + 1) n in go 0 x
let mkq (a : ZZ.t) (b : ZZ.t) : q = { qnum = z_of_zt a; qden = pos_of_z b }
let qq_of_q (x : q) : QQ.t = QQ.make (zt_of_z x.qnum) (zt_of_pos x.qden)
let q_of_qq (x : QQ.t) : q = mkq (QQ.num x) (QQ.den x)
let sq (x : q) : string =
  let x = qq_of_q x in
  ZZ.to_string (QQ.num x) ^ "/" ^ ZZ.to_string (QQ.den x)
let sn (x : n) = ZZ.to_string (zt_of_n x)
let sz (x : z) = ZZ.to_string (zt_of_z x)
let qi (a : int) (b : int) : q = q_of_qq (QQ.of_ints a b)

(* ---------- token reader ---------- *)
let toks : string list ref = ref []
let next () = match !toks with t :: r -> toks := r; t | [] -> failwith "unexpected end of line"
let more () = !toks <> []
let nint () = int_of_string (next ())
let nzt () = ZZ.of_string (next ())
let nq () = let a = nzt () in let b = nzt () in mkq a b
let nn () = n_of_zt (nzt ())
let nbool () = nint () = 1
let nlist f = let k = nint () in List.init k (fun _ -> f ())
let nopt f = if nint () = 1 then Some (f ()) else None
let buf = Buffer.create 65536
let out s = Buffer.add_string buf s
let skey (k : n list) = String.concat "," (List.map sn k)
let skeys (ks : n list list) = String.concat ";" (List.map skey ks)

(* names of the Python failure modes of Base/Prelude.v *)
let err_name = function
  | EoNError -> "EoNError" | ZeroDivision -> "ZeroDivisionError" | IndexErr -> "IndexError"
  | KeyErr -> "KeyError" | TypeErr -> "TypeError" | NameErr -> "NameError"
  | ValueErr -> "ValueError" | PyException -> "Exception"
  | OutOfDraws -> "OutOfDraws" | OutOfFuel -> "OutOfFuel"


(* ---------- graphs and simulator outputs ---------- *)
(* graph tokens: n directed | per node: deg nbrs.. | per node: pdeg preds.. |
   ewt nwt | per node: nw | ne, per edge: u v w   (nodes are 0..n-1) *)
let read_graph () : graph =
  let n = nint () in
  let directed = nbool () in
  let adj = Array.init n (fun _ -> nlist nn) in
  let pred = Array.init n (fun _ -> nlist nn) in
  let ewt = nbool () in let nwt = nbool () in
  let nwa = Array.init n (fun _ -> nq ()) in
  let ne = nint () in
  let ews = Hashtbl.create 64 in
  for _ = 1 to ne do
    let u = nint () in let v = nint () in let w = nq () in
    Hashtbl.replace ews (u, v) w;
    if not directed then Hashtbl.replace ews (v, u) w
  done;
  let one = qi 1 1 in
  { gnodes = List.init n n_of_int;
    gadj = (fun u -> let u = int_of_n u in if u < n then adj.(u) else []);
    gpred = (fun u -> let u = int_of_n u in if u < n then pred.(u) else []);
    gdirected = directed;
    ew = (fun u v -> try Hashtbl.find ews (int_of_n u, int_of_n v) with Not_found -> one);
    nw = (fun u -> let u = int_of_n u in if u < n then nwa.(u) else one);
    ewt; nwt }

let print_rows (rows : (q * z list) list) =
  out " ROWS";
  List.iter (fun (t, cs) -> out (" " ^ sq t ^ ":" ^ String.concat "," (List.map sz cs))) rows

let print_full (f : fulldata) =
  out " HIST";
  List.iter (fun (u, h) ->
      out (" " ^ sn u ^ "=" ^ String.concat "," (List.map (fun (t, s) -> sq t ^ "@" ^ sn s) h))) f.fd_hist;
  out " TRANS";
  List.iter (fun ((t, src), tgt) ->
      out (" " ^ sq t ^ ":" ^ (match src with Some s -> sn s | None -> "-") ^ ">" ^ sn tgt)) f.fd_trans

let print_simout (o : simout) =
  print_rows o.so_rows;
  (match o.so_full with Some f -> print_full f | None -> ())

let print_result (pr : 'a -> unit) (r : 'a result) =
  match r with
  | Ok a -> out "OK"; pr a
  | Err e -> out ("ERR " ^ err_name e)

(* ---------- main loop: one case per line, dispatch on the first token ---------- *)
let main (dispatch : string -> unit) =
  try
    while true do
      let line = input_line stdin in
      toks := List.filter (fun s -> s <> "") (String.split_on_char ' ' line);
      Buffer.clear buf;
      (try dispatch (next ())
       with Failure m -> out (" DRIVERFAIL " ^ m)
          | Stack_overflow -> out " DRIVERFAIL stack_overflow"
          | Not_found -> out " DRIVERFAIL not_found"
          | Invalid_argument m -> out (" DRIVERFAIL invalid_argument " ^ m));
      print_endline (Buffer.contents buf)
    done
  with End_of_file -> ()

(* GLUE: base err graph main *)
(* Driver of component 'ic': row 0 of the modelled *_from_graph wrappers (C06).
   ROW0 <entry> <full> <graph> <I: 0 | 1 k nodes..> <R: 0 | 1 k nodes..> <rho: 0 | 1 num den> *)
let entry_of = function
  | "SIS_homogeneous_meanfield_from_graph" -> ESISm | "SIR_homogeneous_meanfield_from_graph" -> ESIRm
  | "SIS_homogeneous_pairwise_from_graph" -> ESISp | "SIR_homogeneous_pairwise_from_graph" -> ESIRp
  | "SIS_heterogeneous_meanfield_from_graph" -> ESIShm | "SIR_heterogeneous_meanfield_from_graph" -> ESIRhm
  | "SIS_heterogeneous_pairwise_from_graph" -> ESIShp | "SIR_heterogeneous_pairwise_from_graph" -> ESIRhp
  | "SIS_compact_pairwise_from_graph" -> ESIScp | "SIR_compact_pairwise_from_graph" -> ESIRcp
  | "SIS_super_compact_pairwise_from_graph" -> ESISsc | "SIR_super_compact_pairwise_from_graph" -> ESIRsc
  | "SIS_effective_degree_from_graph" -> ESISed | "SIR_effective_degree_from_graph" -> ESIRed
  | "SIS_compact_effective_degree_from_graph" -> ESISced | "SIR_compact_effective_degree_from_graph" -> ESIRced
  | "EBCM_from_graph" -> EEBCM
  | s -> failwith ("unknown entry " ^ s)

let sname_str = function
  | NS -> "S" | NI -> "I" | NR -> "R" | NSI -> "SI" | NSS -> "SS" | NII -> "II" | NSk -> "Sk" | NIk -> "Ik" | NRk -> "Rk"
  | NSkSl -> "SkSl" | NSkIl -> "SkIl" | NIkIl -> "IkIl" | NSsi -> "Ssi" | NIsi -> "Isi" | NSkappa -> "Skappa" | NTheta -> "theta"

let print_val = function
  | VS x -> out (" s " ^ sq x)
  | VV v -> out (" v " ^ string_of_int (List.length v)); List.iter (fun x -> out (" " ^ sq x)) v
  | VM m ->
    let c = match m with [] -> 0 | r :: _ -> List.length r in
    out (" m " ^ string_of_int (List.length m) ^ " " ^ string_of_int c);
    List.iter (fun r -> List.iter (fun x -> out (" " ^ sq x)) r) m

let read_req () =
  let i = nopt (fun () -> nlist nn) in
  let r = nopt (fun () -> nlist nn) in
  let rho = nopt nq in
  { rq_I = i; rq_R = r; rq_rho = rho }

let run_row0 () =
  let e = entry_of (next ()) in
  let full = nbool () in
  let g = read_graph () in
  let rq = read_req () in
  match row0_entry e g rq full with
  | Ok l -> out "OK"; List.iter (fun (n, v) -> out (" | " ^ sname_str n); print_val v) l
  | Err e -> out ("ERR " ^ err_name e)

let () = main (function
    | "ROW0" -> run_row0 ()
    | c -> out ("BADCMD " ^ c))
