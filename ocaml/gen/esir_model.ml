
(** val negb : bool -> bool **)

let negb = function
| true -> false
| false -> true

type nat =
| O
| S of nat

(** val fst : ('a1 * 'a2) -> 'a1 **)

let fst = function
| (x, _) -> x

(** val snd : ('a1 * 'a2) -> 'a2 **)

let snd = function
| (_, y) -> y

(** val length : 'a1 list -> nat **)

let rec length = function
| [] -> O
| _ :: l' -> S (length l')

(** val app : 'a1 list -> 'a1 list -> 'a1 list **)

let rec app l m =
  match l with
  | [] -> m
  | a :: l1 -> a :: (app l1 m)

type comparison =
| Eq
| Lt
| Gt

(** val compOpp : comparison -> comparison **)

let compOpp = function
| Eq -> Eq
| Lt -> Gt
| Gt -> Lt

module Coq__1 = struct
 (** val add : nat -> nat -> nat **)
 let rec add n0 m =
   match n0 with
   | O -> m
   | S p -> S (add p m)
end
include Coq__1

type positive =
| XI of positive
| XO of positive
| XH

type n =
| N0
| Npos of positive

type z =
| Z0
| Zpos of positive
| Zneg of positive

module Nat =
 struct
  (** val pred : nat -> nat **)

  let pred n0 = match n0 with
  | O -> n0
  | S u -> u

  (** val eqb : nat -> nat -> bool **)

  let rec eqb n0 m =
    match n0 with
    | O -> (match m with
            | O -> true
            | S _ -> false)
    | S n' -> (match m with
               | O -> false
               | S m' -> eqb n' m')

  (** val leb : nat -> nat -> bool **)

  let rec leb n0 m =
    match n0 with
    | O -> true
    | S n' -> (match m with
               | O -> false
               | S m' -> leb n' m')

  (** val ltb : nat -> nat -> bool **)

  let ltb n0 m =
    leb (S n0) m
 end

module Pos =
 struct
  type mask =
  | IsNul
  | IsPos of positive
  | IsNeg
 end

module Coq_Pos =
 struct
  (** val succ : positive -> positive **)

  let rec succ = function
  | XI p -> XO (succ p)
  | XO p -> XI p
  | XH -> XO XH

  (** val add : positive -> positive -> positive **)

  let rec add x y =
    match x with
    | XI p ->
      (match y with
       | XI q0 -> XO (add_carry p q0)
       | XO q0 -> XI (add p q0)
       | XH -> XO (succ p))
    | XO p ->
      (match y with
       | XI q0 -> XI (add p q0)
       | XO q0 -> XO (add p q0)
       | XH -> XI p)
    | XH -> (match y with
             | XI q0 -> XO (succ q0)
             | XO q0 -> XI q0
             | XH -> XO XH)

  (** val add_carry : positive -> positive -> positive **)

  and add_carry x y =
    match x with
    | XI p ->
      (match y with
       | XI q0 -> XI (add_carry p q0)
       | XO q0 -> XO (add_carry p q0)
       | XH -> XI (succ p))
    | XO p ->
      (match y with
       | XI q0 -> XO (add_carry p q0)
       | XO q0 -> XI (add p q0)
       | XH -> XO (succ p))
    | XH ->
      (match y with
       | XI q0 -> XI (succ q0)
       | XO q0 -> XO (succ q0)
       | XH -> XI XH)

  (** val pred_double : positive -> positive **)

  let rec pred_double = function
  | XI p -> XI (XO p)
  | XO p -> XI (pred_double p)
  | XH -> XH

  type mask = Pos.mask =
  | IsNul
  | IsPos of positive
  | IsNeg

  (** val succ_double_mask : mask -> mask **)

  let succ_double_mask = function
  | IsNul -> IsPos XH
  | IsPos p -> IsPos (XI p)
  | IsNeg -> IsNeg

  (** val double_mask : mask -> mask **)

  let double_mask = function
  | IsPos p -> IsPos (XO p)
  | x0 -> x0

  (** val double_pred_mask : positive -> mask **)

  let double_pred_mask = function
  | XI p -> IsPos (XO (XO p))
  | XO p -> IsPos (XO (pred_double p))
  | XH -> IsNul

  (** val sub_mask : positive -> positive -> mask **)

  let rec sub_mask x y =
    match x with
    | XI p ->
      (match y with
       | XI q0 -> double_mask (sub_mask p q0)
       | XO q0 -> succ_double_mask (sub_mask p q0)
       | XH -> IsPos (XO p))
    | XO p ->
      (match y with
       | XI q0 -> succ_double_mask (sub_mask_carry p q0)
       | XO q0 -> double_mask (sub_mask p q0)
       | XH -> IsPos (pred_double p))
    | XH -> (match y with
             | XH -> IsNul
             | _ -> IsNeg)

  (** val sub_mask_carry : positive -> positive -> mask **)

  and sub_mask_carry x y =
    match x with
    | XI p ->
      (match y with
       | XI q0 -> succ_double_mask (sub_mask_carry p q0)
       | XO q0 -> double_mask (sub_mask p q0)
       | XH -> IsPos (pred_double p))
    | XO p ->
      (match y with
       | XI q0 -> double_mask (sub_mask_carry p q0)
       | XO q0 -> succ_double_mask (sub_mask_carry p q0)
       | XH -> double_pred_mask p)
    | XH -> IsNeg

  (** val sub : positive -> positive -> positive **)

  let sub x y =
    match sub_mask x y with
    | IsPos z0 -> z0
    | _ -> XH

  (** val mul : positive -> positive -> positive **)

  let rec mul x y =
    match x with
    | XI p -> add y (XO (mul p y))
    | XO p -> XO (mul p y)
    | XH -> y

  (** val size_nat : positive -> nat **)

  let rec size_nat = function
  | XI p0 -> S (size_nat p0)
  | XO p0 -> S (size_nat p0)
  | XH -> S O

  (** val compare_cont : comparison -> positive -> positive -> comparison **)

  let rec compare_cont r x y =
    match x with
    | XI p ->
      (match y with
       | XI q0 -> compare_cont r p q0
       | XO q0 -> compare_cont Gt p q0
       | XH -> Gt)
    | XO p ->
      (match y with
       | XI q0 -> compare_cont Lt p q0
       | XO q0 -> compare_cont r p q0
       | XH -> Gt)
    | XH -> (match y with
             | XH -> r
             | _ -> Lt)

  (** val compare : positive -> positive -> comparison **)

  let compare =
    compare_cont Eq

  (** val eqb : positive -> positive -> bool **)

  let rec eqb p q0 =
    match p with
    | XI p0 -> (match q0 with
                | XI q1 -> eqb p0 q1
                | _ -> false)
    | XO p0 -> (match q0 with
                | XO q1 -> eqb p0 q1
                | _ -> false)
    | XH -> (match q0 with
             | XH -> true
             | _ -> false)

  (** val ggcdn :
      nat -> positive -> positive -> positive * (positive * positive) **)

  let rec ggcdn n0 a b =
    match n0 with
    | O -> (XH, (a, b))
    | S n1 ->
      (match a with
       | XI a' ->
         (match b with
          | XI b' ->
            (match compare a' b' with
             | Eq -> (a, (XH, XH))
             | Lt ->
               let (g, p) = ggcdn n1 (sub b' a') a in
               let (ba, aa) = p in (g, (aa, (add aa (XO ba))))
             | Gt ->
               let (g, p) = ggcdn n1 (sub a' b') b in
               let (ab, bb) = p in (g, ((add bb (XO ab)), bb)))
          | XO b0 ->
            let (g, p) = ggcdn n1 a b0 in
            let (aa, bb) = p in (g, (aa, (XO bb)))
          | XH -> (XH, (a, XH)))
       | XO a0 ->
         (match b with
          | XI _ ->
            let (g, p) = ggcdn n1 a0 b in
            let (aa, bb) = p in (g, ((XO aa), bb))
          | XO b0 -> let (g, p) = ggcdn n1 a0 b0 in ((XO g), p)
          | XH -> (XH, (a, XH)))
       | XH -> (XH, (XH, b)))

  (** val ggcd : positive -> positive -> positive * (positive * positive) **)

  let ggcd a b =
    ggcdn (Coq__1.add (size_nat a) (size_nat b)) a b

  (** val iter_op : ('a1 -> 'a1 -> 'a1) -> positive -> 'a1 -> 'a1 **)

  let rec iter_op op p a =
    match p with
    | XI p0 -> op a (iter_op op p0 (op a a))
    | XO p0 -> iter_op op p0 (op a a)
    | XH -> a

  (** val to_nat : positive -> nat **)

  let to_nat x =
    iter_op Coq__1.add x (S O)

  (** val of_succ_nat : nat -> positive **)

  let rec of_succ_nat = function
  | O -> XH
  | S x -> succ (of_succ_nat x)
 end

module N =
 struct
  (** val compare : n -> n -> comparison **)

  let compare n0 m =
    match n0 with
    | N0 -> (match m with
             | N0 -> Eq
             | Npos _ -> Lt)
    | Npos n' -> (match m with
                  | N0 -> Gt
                  | Npos m' -> Coq_Pos.compare n' m')

  (** val eqb : n -> n -> bool **)

  let eqb n0 m =
    match n0 with
    | N0 -> (match m with
             | N0 -> true
             | Npos _ -> false)
    | Npos p -> (match m with
                 | N0 -> false
                 | Npos q0 -> Coq_Pos.eqb p q0)

  (** val ltb : n -> n -> bool **)

  let ltb x y =
    match compare x y with
    | Lt -> true
    | _ -> false
 end

module Z =
 struct
  (** val double : z -> z **)

  let double = function
  | Z0 -> Z0
  | Zpos p -> Zpos (XO p)
  | Zneg p -> Zneg (XO p)

  (** val succ_double : z -> z **)

  let succ_double = function
  | Z0 -> Zpos XH
  | Zpos p -> Zpos (XI p)
  | Zneg p -> Zneg (Coq_Pos.pred_double p)

  (** val pred_double : z -> z **)

  let pred_double = function
  | Z0 -> Zneg XH
  | Zpos p -> Zpos (Coq_Pos.pred_double p)
  | Zneg p -> Zneg (XI p)

  (** val pos_sub : positive -> positive -> z **)

  let rec pos_sub x y =
    match x with
    | XI p ->
      (match y with
       | XI q0 -> double (pos_sub p q0)
       | XO q0 -> succ_double (pos_sub p q0)
       | XH -> Zpos (XO p))
    | XO p ->
      (match y with
       | XI q0 -> pred_double (pos_sub p q0)
       | XO q0 -> double (pos_sub p q0)
       | XH -> Zpos (Coq_Pos.pred_double p))
    | XH ->
      (match y with
       | XI q0 -> Zneg (XO q0)
       | XO q0 -> Zneg (Coq_Pos.pred_double q0)
       | XH -> Z0)

  (** val add : z -> z -> z **)

  let add x y =
    match x with
    | Z0 -> y
    | Zpos x' ->
      (match y with
       | Z0 -> x
       | Zpos y' -> Zpos (Coq_Pos.add x' y')
       | Zneg y' -> pos_sub x' y')
    | Zneg x' ->
      (match y with
       | Z0 -> x
       | Zpos y' -> pos_sub y' x'
       | Zneg y' -> Zneg (Coq_Pos.add x' y'))

  (** val opp : z -> z **)

  let opp = function
  | Z0 -> Z0
  | Zpos x0 -> Zneg x0
  | Zneg x0 -> Zpos x0

  (** val sub : z -> z -> z **)

  let sub m n0 =
    add m (opp n0)

  (** val mul : z -> z -> z **)

  let mul x y =
    match x with
    | Z0 -> Z0
    | Zpos x' ->
      (match y with
       | Z0 -> Z0
       | Zpos y' -> Zpos (Coq_Pos.mul x' y')
       | Zneg y' -> Zneg (Coq_Pos.mul x' y'))
    | Zneg x' ->
      (match y with
       | Z0 -> Z0
       | Zpos y' -> Zneg (Coq_Pos.mul x' y')
       | Zneg y' -> Zpos (Coq_Pos.mul x' y'))

  (** val compare : z -> z -> comparison **)

  let compare x y =
    match x with
    | Z0 -> (match y with
             | Z0 -> Eq
             | Zpos _ -> Lt
             | Zneg _ -> Gt)
    | Zpos x' -> (match y with
                  | Zpos y' -> Coq_Pos.compare x' y'
                  | _ -> Gt)
    | Zneg x' ->
      (match y with
       | Zneg y' -> compOpp (Coq_Pos.compare x' y')
       | _ -> Lt)

  (** val sgn : z -> z **)

  let sgn = function
  | Z0 -> Z0
  | Zpos _ -> Zpos XH
  | Zneg _ -> Zneg XH

  (** val leb : z -> z -> bool **)

  let leb x y =
    match compare x y with
    | Gt -> false
    | _ -> true

  (** val ltb : z -> z -> bool **)

  let ltb x y =
    match compare x y with
    | Lt -> true
    | _ -> false

  (** val abs : z -> z **)

  let abs = function
  | Zneg p -> Zpos p
  | x -> x

  (** val to_nat : z -> nat **)

  let to_nat = function
  | Zpos p -> Coq_Pos.to_nat p
  | _ -> O

  (** val of_nat : nat -> z **)

  let of_nat = function
  | O -> Z0
  | S n1 -> Zpos (Coq_Pos.of_succ_nat n1)

  (** val to_pos : z -> positive **)

  let to_pos = function
  | Zpos p -> p
  | _ -> XH

  (** val pos_div_eucl : positive -> z -> z * z **)

  let rec pos_div_eucl a b =
    match a with
    | XI a' ->
      let (q0, r) = pos_div_eucl a' b in
      let r' = add (mul (Zpos (XO XH)) r) (Zpos XH) in
      if ltb r' b
      then ((mul (Zpos (XO XH)) q0), r')
      else ((add (mul (Zpos (XO XH)) q0) (Zpos XH)), (sub r' b))
    | XO a' ->
      let (q0, r) = pos_div_eucl a' b in
      let r' = mul (Zpos (XO XH)) r in
      if ltb r' b
      then ((mul (Zpos (XO XH)) q0), r')
      else ((add (mul (Zpos (XO XH)) q0) (Zpos XH)), (sub r' b))
    | XH -> if leb (Zpos (XO XH)) b then (Z0, (Zpos XH)) else ((Zpos XH), Z0)

  (** val div_eucl : z -> z -> z * z **)

  let div_eucl a b =
    match a with
    | Z0 -> (Z0, Z0)
    | Zpos a' ->
      (match b with
       | Z0 -> (Z0, a)
       | Zpos _ -> pos_div_eucl a' b
       | Zneg b' ->
         let (q0, r) = pos_div_eucl a' (Zpos b') in
         (match r with
          | Z0 -> ((opp q0), Z0)
          | _ -> ((opp (add q0 (Zpos XH))), (add b r))))
    | Zneg a' ->
      (match b with
       | Z0 -> (Z0, a)
       | Zpos _ ->
         let (q0, r) = pos_div_eucl a' b in
         (match r with
          | Z0 -> ((opp q0), Z0)
          | _ -> ((opp (add q0 (Zpos XH))), (sub b r)))
       | Zneg b' -> let (q0, r) = pos_div_eucl a' (Zpos b') in (q0, (opp r)))

  (** val div : z -> z -> z **)

  let div a b =
    let (q0, _) = div_eucl a b in q0

  (** val modulo : z -> z -> z **)

  let modulo a b =
    let (_, r) = div_eucl a b in r

  (** val even : z -> bool **)

  let even = function
  | Z0 -> true
  | Zpos p -> (match p with
               | XO _ -> true
               | _ -> false)
  | Zneg p -> (match p with
               | XO _ -> true
               | _ -> false)

  (** val ggcd : z -> z -> z * (z * z) **)

  let ggcd a b =
    match a with
    | Z0 -> ((abs b), (Z0, (sgn b)))
    | Zpos a0 ->
      (match b with
       | Z0 -> ((abs a), ((sgn a), Z0))
       | Zpos b0 ->
         let (g, p) = Coq_Pos.ggcd a0 b0 in
         let (aa, bb) = p in ((Zpos g), ((Zpos aa), (Zpos bb)))
       | Zneg b0 ->
         let (g, p) = Coq_Pos.ggcd a0 b0 in
         let (aa, bb) = p in ((Zpos g), ((Zpos aa), (Zneg bb))))
    | Zneg a0 ->
      (match b with
       | Z0 -> ((abs a), ((sgn a), Z0))
       | Zpos b0 ->
         let (g, p) = Coq_Pos.ggcd a0 b0 in
         let (aa, bb) = p in ((Zpos g), ((Zneg aa), (Zpos bb)))
       | Zneg b0 ->
         let (g, p) = Coq_Pos.ggcd a0 b0 in
         let (aa, bb) = p in ((Zpos g), ((Zneg aa), (Zneg bb))))
 end

(** val z_lt_dec : z -> z -> bool **)

let z_lt_dec x y =
  match Z.compare x y with
  | Lt -> true
  | _ -> false

(** val z_lt_ge_dec : z -> z -> bool **)

let z_lt_ge_dec =
  z_lt_dec

(** val z_lt_le_dec : z -> z -> bool **)

let z_lt_le_dec =
  z_lt_ge_dec

(** val zeq_bool : z -> z -> bool **)

let zeq_bool x y =
  match Z.compare x y with
  | Eq -> true
  | _ -> false

(** val nth : nat -> 'a1 list -> 'a1 -> 'a1 **)

let rec nth n0 l default =
  match n0 with
  | O -> (match l with
          | [] -> default
          | x :: _ -> x)
  | S m -> (match l with
            | [] -> default
            | _ :: t -> nth m t default)

(** val nth_error : 'a1 list -> nat -> 'a1 option **)

let rec nth_error l = function
| O -> (match l with
        | [] -> None
        | x :: _ -> Some x)
| S n1 -> (match l with
           | [] -> None
           | _ :: l0 -> nth_error l0 n1)

(** val rev : 'a1 list -> 'a1 list **)

let rec rev = function
| [] -> []
| x :: l' -> app (rev l') (x :: [])

(** val concat : 'a1 list list -> 'a1 list **)

let rec concat = function
| [] -> []
| x :: l0 -> app x (concat l0)

(** val map : ('a1 -> 'a2) -> 'a1 list -> 'a2 list **)

let rec map f = function
| [] -> []
| a :: t -> (f a) :: (map f t)

(** val fold_left : ('a1 -> 'a2 -> 'a1) -> 'a2 list -> 'a1 -> 'a1 **)

let rec fold_left f l a0 =
  match l with
  | [] -> a0
  | b :: t -> fold_left f t (f a0 b)

(** val fold_right : ('a2 -> 'a1 -> 'a1) -> 'a1 -> 'a2 list -> 'a1 **)

let rec fold_right f a0 = function
| [] -> a0
| b :: t -> f b (fold_right f a0 t)

(** val existsb : ('a1 -> bool) -> 'a1 list -> bool **)

let rec existsb f = function
| [] -> false
| a :: l0 -> (||) (f a) (existsb f l0)

(** val filter : ('a1 -> bool) -> 'a1 list -> 'a1 list **)

let rec filter f = function
| [] -> []
| x :: l0 -> if f x then x :: (filter f l0) else filter f l0

(** val firstn : nat -> 'a1 list -> 'a1 list **)

let rec firstn n0 l =
  match n0 with
  | O -> []
  | S n1 -> (match l with
             | [] -> []
             | a :: l0 -> a :: (firstn n1 l0))

(** val skipn : nat -> 'a1 list -> 'a1 list **)

let rec skipn n0 l =
  match n0 with
  | O -> l
  | S n1 -> (match l with
             | [] -> []
             | _ :: l0 -> skipn n1 l0)

type q = { qnum : z; qden : positive }

(** val inject_Z : z -> q **)

let inject_Z x =
  { qnum = x; qden = XH }

(** val qeq_bool : q -> q -> bool **)

let qeq_bool x y =
  zeq_bool (Z.mul x.qnum (Zpos y.qden)) (Z.mul y.qnum (Zpos x.qden))

(** val qplus : q -> q -> q **)

let qplus x y =
  { qnum = (Z.add (Z.mul x.qnum (Zpos y.qden)) (Z.mul y.qnum (Zpos x.qden)));
    qden = (Coq_Pos.mul x.qden y.qden) }

(** val qmult : q -> q -> q **)

let qmult x y =
  { qnum = (Z.mul x.qnum y.qnum); qden = (Coq_Pos.mul x.qden y.qden) }

(** val qopp : q -> q **)

let qopp x =
  { qnum = (Z.opp x.qnum); qden = x.qden }

(** val qminus : q -> q -> q **)

let qminus x y =
  qplus x (qopp y)

(** val qinv : q -> q **)

let qinv x =
  match x.qnum with
  | Z0 -> { qnum = Z0; qden = XH }
  | Zpos p -> { qnum = (Zpos x.qden); qden = p }
  | Zneg p -> { qnum = (Zneg x.qden); qden = p }

(** val qdiv : q -> q -> q **)

let qdiv x y =
  qmult x (qinv y)

(** val qlt_le_dec : q -> q -> bool **)

let qlt_le_dec x y =
  z_lt_le_dec (Z.mul x.qnum (Zpos y.qden)) (Z.mul y.qnum (Zpos x.qden))

(** val qred : q -> q **)

let qred q0 =
  let { qnum = q1; qden = q2 } = q0 in
  let (r1, r2) = snd (Z.ggcd q1 (Zpos q2)) in
  { qnum = r1; qden = (Z.to_pos r2) }

type err =
| EoNError
| ZeroDivision
| IndexErr
| KeyErr
| TypeErr
| NameErr
| ValueErr
| PyException
| OutOfDraws
| OutOfFuel

type 'a result =
| Ok of 'a
| Err of err

(** val rbind : 'a1 result -> ('a1 -> 'a2 result) -> 'a2 result **)

let rbind r f =
  match r with
  | Ok a -> f a
  | Err e -> Err e

type xtime = q option

(** val qltb : q -> q -> bool **)

let qltb a b =
  if qlt_le_dec a b then true else false

(** val qleb : q -> q -> bool **)

let qleb a b =
  if qlt_le_dec b a then false else true

(** val qeqb : q -> q -> bool **)

let qeqb =
  qeq_bool

(** val qnat : nat -> q **)

let qnat n0 =
  inject_Z (Z.of_nat n0)

type key = n list

type 'a samp =
| Ret of 'a
| Fail of err
| Expo of q * (q -> 'a samp)
| Flip of q * 'a samp * 'a samp
| Casc of q list * (nat -> 'a samp)
| Choose of bool * (key * q) list * (key -> 'a samp)
| Unif of key list * (key -> 'a samp)
| Sample of key list * nat * (key list -> 'a samp)

(** val bind : 'a1 samp -> ('a1 -> 'a2 samp) -> 'a2 samp **)

let rec bind m f =
  match m with
  | Ret a -> f a
  | Fail e -> Fail e
  | Expo (r, k) -> Expo (r, (fun d -> bind (k d) f))
  | Flip (p, kt, kf) -> Flip (p, (bind kt f), (bind kf f))
  | Casc (ps, k) -> Casc (ps, (fun i -> bind (k i) f))
  | Choose (w, c, k) -> Choose (w, c, (fun x -> bind (k x) f))
  | Unif (c, k) -> Unif (c, (fun x -> bind (k x) f))
  | Sample (pop, n0, k) -> Sample (pop, n0, (fun l -> bind (k l) f))

type call =
| CExpo of q
| CFlip of q
| CCasc of q list
| CPick of key list
| CAcc of q
| CSample of key list * nat

(** val rank : q -> nat **)

let rank d =
  Z.to_nat (Z.div d.qnum (Zpos d.qden))

(** val casc_index : q list -> q -> nat -> nat **)

let rec casc_index ps d i =
  match ps with
  | [] -> Nat.pred i
  | p :: ps' ->
    if qltb (qminus d p) { qnum = Z0; qden = XH }
    then i
    else casc_index ps' (qminus d p) (S i)

(** val choose_exec :
    bool -> (key * q) list -> q list -> call list -> (key result * call
    list) * q list **)

let rec choose_exec weighted cands ds tr =
  match cands with
  | [] -> (((Err IndexErr), ((CPick []) :: tr)), ds)
  | _ :: _ ->
    (match ds with
     | [] -> (((Err OutOfDraws), tr), [])
     | r :: ds1 ->
       (match nth_error cands (rank r) with
        | Some p ->
          let (c, w) = p in
          let tr1 = (CPick (map fst cands)) :: tr in
          if weighted
          then (match ds1 with
                | [] -> (((Err OutOfDraws), tr1), [])
                | _ :: ds2 ->
                  if qltb { qnum = Z0; qden = XH } w
                  then (((Ok c), ((CAcc w) :: tr1)), ds2)
                  else choose_exec weighted cands ds2 ((CAcc w) :: tr1))
          else (((Ok c), tr1), ds1)
        | None -> (((Err OutOfDraws), tr), ds1)))

(** val rotate : nat -> 'a1 list -> 'a1 list **)

let rotate n0 l =
  app (skipn n0 l) (firstn n0 l)

(** val unit_draw : q -> bool **)

let unit_draw d =
  (&&) (negb (qltb d { qnum = Z0; qden = XH }))
    (qltb d { qnum = (Zpos XH); qden = XH })

(** val exec : 'a1 samp -> q list -> call list -> 'a1 result * call list **)

let rec exec m ds tr =
  match m with
  | Ret a -> ((Ok a), (rev tr))
  | Fail e -> ((Err e), (rev tr))
  | Expo (r, k) ->
    if qeqb r { qnum = Z0; qden = XH }
    then ((Err ZeroDivision), (rev ((CExpo r) :: tr)))
    else (match ds with
          | [] -> ((Err OutOfDraws), (rev tr))
          | d :: ds' ->
            if qltb d { qnum = Z0; qden = XH }
            then ((Err OutOfDraws), (rev tr))
            else exec (k d) ds' ((CExpo r) :: tr))
  | Flip (p, kt, kf) ->
    (match ds with
     | [] -> ((Err OutOfDraws), (rev tr))
     | d :: ds' ->
       if unit_draw d
       then exec (if qltb d p then kt else kf) ds' ((CFlip p) :: tr)
       else ((Err OutOfDraws), (rev tr)))
  | Casc (ps, k) ->
    (match ds with
     | [] -> ((Err OutOfDraws), (rev tr))
     | d :: ds' ->
       if unit_draw d
       then exec (k (casc_index ps d O)) ds' ((CCasc ps) :: tr)
       else ((Err OutOfDraws), (rev tr)))
  | Choose (w, c, k) ->
    let (p, ds') = choose_exec w c ds tr in
    let (r, tr') = p in
    (match r with
     | Ok x -> exec (k x) ds' tr'
     | Err e -> ((Err e), (rev tr')))
  | Unif (c, k) ->
    (match c with
     | [] -> ((Err IndexErr), (rev ((CPick []) :: tr)))
     | _ :: _ ->
       (match ds with
        | [] -> ((Err OutOfDraws), (rev tr))
        | d :: ds' ->
          (match nth_error c (rank d) with
           | Some x -> exec (k x) ds' ((CPick c) :: tr)
           | None -> ((Err OutOfDraws), (rev tr)))))
  | Sample (pop, n0, k) ->
    if Nat.ltb (length pop) n0
    then ((Err ValueErr), (rev ((CSample (pop, n0)) :: tr)))
    else (match ds with
          | [] -> ((Err OutOfDraws), (rev tr))
          | d :: ds' ->
            exec (k (firstn n0 (rotate (rank d) pop))) ds' ((CSample (pop,
              n0)) :: tr))

type node = n

type graph = { gnodes : node list; gadj : (node -> node list);
               gpred : (node -> node list); gdirected : bool;
               ew : (node -> node -> q); nw : (node -> q); ewt : bool;
               nwt : bool }

(** val mem : node -> node list -> bool **)

let mem x l =
  existsb (N.eqb x) l

(** val order : graph -> z **)

let order g =
  Z.of_nat (length g.gnodes)

(** val stS : n **)

let stS =
  N0

(** val stI : n **)

let stI =
  Npos XH

(** val stR : n **)

let stR =
  Npos (XO XH)

(** val fupdN : (node -> 'a1) -> node -> 'a1 -> node -> 'a1 **)

let fupdN f k v x =
  if N.eqb x k then v else f x

type row = q * z list

type history = (q * n) list

type fulldata = { fd_hist : (node * history) list;
                  fd_trans : ((q * node option) * node) list }

type simout = { so_rows : row list; so_full : fulldata option }

(** val knode : node -> key **)

let knode u =
  u :: []

(** val xadd : q -> xtime -> xtime **)

let xadd t = function
| Some x -> Some (qplus t x)
| None -> None

(** val xleb : xtime -> xtime -> bool **)

let xleb a b =
  match a with
  | Some x -> (match b with
               | Some y -> qleb x y
               | None -> true)
  | None -> (match b with
             | Some _ -> false
             | None -> true)

(** val xltb : xtime -> xtime -> bool **)

let xltb a b =
  match a with
  | Some x -> (match b with
               | Some y -> qltb x y
               | None -> true)
  | None -> false

type ev =
| ETrans of node option * node
| ERec of node

type qent = { qt : q; qc : nat; qe : ev }

type tiepolicy = qent -> qent -> bool

(** val fifo : tiepolicy **)

let fifo e h =
  Nat.ltb e.qc h.qc

(** val goes_before : tiepolicy -> qent -> qent -> bool **)

let goes_before tb e h =
  if qltb e.qt h.qt then true else if qltb h.qt e.qt then false else tb e h

(** val qinsert : tiepolicy -> qent -> qent list -> qent list **)

let rec qinsert tb e l = match l with
| [] -> e :: []
| h :: t -> if goes_before tb e h then e :: l else h :: (qinsert tb e t)

(** val qadd :
    tiepolicy -> xtime -> xtime -> ev -> (qent list * nat) -> qent list * nat **)

let qadd tb tmax time e qc0 =
  match time with
  | Some t ->
    if xltb time tmax
    then ((qinsert tb { qt = t; qc = (snd qc0); qe = e } (fst qc0)), (S
           (snd qc0)))
    else qc0
  | None -> qc0

type est = { stat : (node -> n); rect : (node -> xtime option);
             predt : (node -> xtime option); qu : qent list; ctr : nat;
             rows : row list; tlog : ((q * node option) * node) list;
             olog : (node * node option) list }

(** val pget : (node -> xtime option) -> node -> xtime **)

let pget p v =
  match p v with
  | Some x -> x
  | None -> None

(** val push_row : row list -> q -> z -> z -> z -> row list **)

let push_row rs t dS dI dR =
  let c = match rs with
          | [] -> []
          | r :: _ -> let (_, c) = r in c in
  (t,
  ((Z.add (nth O c Z0) dS) :: ((Z.add (nth (S O) c Z0) dI) :: ((Z.add
                                                                 (nth (S (S
                                                                   O)) c Z0)
                                                                 dR) :: [])))) :: rs

(** val sched_one :
    tiepolicy -> xtime -> q -> xtime -> node -> ((qent list * nat) * (node ->
    xtime option)) -> (node * xtime) -> (qent list * nat) * (node -> xtime
    option) **)

let sched_one tb tmax time rt tgt acc vd =
  let (p0, p) = acc in
  let (v, d) = vd in
  let it = xadd time d in
  if xleb it rt
  then let pv = pget p v in
       if (&&) (xltb it pv) (xleb it tmax)
       then ((qadd tb tmax it (ETrans ((Some tgt), v)) p0),
              (fupdN p v (Some it)))
       else (p0, (fupdN p v (Some pv)))
  else acc

(** val sus_nbrs : graph -> (node -> n) -> node -> node list **)

let sus_nbrs g st u =
  filter (fun v -> N.eqb (st v) stS) (g.gadj u)

(** val apply_inf :
    tiepolicy -> xtime -> q -> node option -> node -> (node * xtime) list ->
    xtime -> (node * node option) list -> est -> est **)

let apply_inf tb tmax time src tgt td rd calls s =
  let st' = fupdN s.stat tgt stI in
  let rt = xadd time rd in
  let qc1 =
    if xleb rt tmax
    then qadd tb tmax rt (ERec tgt) (s.qu, s.ctr)
    else (s.qu, s.ctr)
  in
  let (p, p2) =
    fold_left (sched_one tb tmax time rt tgt) td (((fst qc1), (snd qc1)),
      s.predt)
  in
  let (q2, c2) = p in
  { stat = st'; rect = (fupdN s.rect tgt (Some rt)); predt = p2; qu = q2;
  ctr = c2; rows = (push_row s.rows time (Zneg XH) (Zpos XH) Z0); tlog =
  (((time, src), tgt) :: s.tlog); olog = (app calls s.olog) }

(** val apply_rec : q -> node -> est -> est **)

let apply_rec time u s =
  { stat = (fupdN s.stat u stR); rect = s.rect; predt = s.predt; qu = s.qu;
    ctr = s.ctr; rows = (push_row s.rows time Z0 (Zneg XH) (Zpos XH)); tlog =
    s.tlog; olog = s.olog }

(** val det_delays :
    (node -> node -> xtime) -> node -> node list -> (node * xtime) list **)

let det_delays delay u sus =
  map (fun v -> (v, (delay u v))) sus

(** val det_calls : node -> node list -> (node * node option) list **)

let det_calls u sus =
  rev ((u, None) :: (map (fun v -> (u, (Some v))) sus))

(** val step_det :
    tiepolicy -> graph -> xtime -> (node -> node -> xtime) -> (node -> xtime)
    -> qent -> est -> est **)

let step_det tb g tmax delay dur e s =
  match e.qe with
  | ETrans (src, tgt) ->
    if N.eqb (s.stat tgt) stS
    then let sus = sus_nbrs g (fupdN s.stat tgt stI) tgt in
         apply_inf tb tmax e.qt src tgt (det_delays delay tgt sus) (dur tgt)
           (det_calls tgt sus) s
    else s
  | ERec u -> apply_rec e.qt u s

(** val set_qu : est -> qent list -> est **)

let set_qu s q0 =
  { stat = s.stat; rect = s.rect; predt = s.predt; qu = q0; ctr = s.ctr;
    rows = s.rows; tlog = s.tlog; olog = s.olog }

(** val loop_det :
    tiepolicy -> graph -> xtime -> (node -> node -> xtime) -> (node -> xtime)
    -> nat -> est -> est result **)

let rec loop_det tb g tmax delay dur fuel s =
  match s.qu with
  | [] -> Ok s
  | e :: q' ->
    (match fuel with
     | O -> Err OutOfFuel
     | S f ->
       loop_det tb g tmax delay dur f
         (step_det tb g tmax delay dur e (set_qu s q')))

(** val set_all : (node -> 'a1) -> node list -> 'a1 -> node -> 'a1 **)

let set_all f l x =
  fold_left (fun f0 u -> fupdN f0 u x) l f

(** val init_inf : tiepolicy -> q -> xtime -> est -> node -> est **)

let init_inf tb tmin tmax s u =
  let qc0 = qadd tb tmax (Some tmin) (ETrans (None, u)) (s.qu, s.ctr) in
  { stat = s.stat; rect = s.rect; predt =
  (fupdN s.predt u (Some (Some tmin))); qu = (fst qc0); ctr = (snd qc0);
  rows = s.rows; tlog = s.tlog; olog = s.olog }

(** val init_state :
    tiepolicy -> graph -> q -> xtime -> node list -> node list -> est **)

let init_state tb g tmin tmax i0 r0 =
  let nR = Z.of_nat (length r0) in
  let s0 = { stat = (set_all (fun _ -> stS) r0 stR); rect =
    (set_all (fun _ -> None) r0 (Some (Some tmin))); predt = (fun _ -> None);
    qu = []; ctr = O; rows = ((tmin,
    ((Z.sub (order g) nR) :: (Z0 :: (nR :: [])))) :: []); tlog = []; olog =
    [] }
  in
  fold_left (init_inf tb tmin tmax) i0 s0

(** val hist_step : q -> history -> (q * n) -> history **)

let hist_step tmin h e =
  if qeqb (fst e) tmin then e :: [] else app h (e :: [])

(** val node_hist : q -> est -> node -> history result **)

let node_hist tmin s u =
  let h0 = (tmin, stS) :: [] in
  rbind
    (match s.predt u with
     | Some x ->
       if negb (N.eqb (s.stat u) stS)
       then (match x with
             | Some t -> Ok (hist_step tmin h0 (t, stI))
             | None -> Err ValueErr)
       else Ok h0
     | None -> Ok h0) (fun h1 ->
    match s.rect u with
    | Some x ->
      if N.eqb (s.stat u) stR
      then (match x with
            | Some t -> Ok (hist_step tmin h1 (t, stR))
            | None -> Err ValueErr)
      else Ok h1
    | None -> Ok h1)

(** val all_ok : 'a1 result list -> 'a1 list result **)

let rec all_ok = function
| [] -> Ok []
| r :: t -> rbind r (fun a -> rbind (all_ok t) (fun t' -> Ok (a :: t')))

(** val finish :
    graph -> q -> bool -> nat -> est -> (simout * (node * node option) list)
    result **)

let finish g tmin full n0 s =
  let rs = skipn n0 (rev s.rows) in
  if full
  then rbind
         (all_ok
           (map (fun u -> rbind (node_hist tmin s u) (fun h -> Ok (u, h)))
             g.gnodes)) (fun hs -> Ok ({ so_rows = rs; so_full = (Some
         { fd_hist = hs; fd_trans = (rev s.tlog) }) }, (rev s.olog)))
  else Ok ({ so_rows = rs; so_full = None }, (rev s.olog))

(** val esir_fuel : graph -> node list -> nat **)

let esir_fuel g i0 =
  add (length i0)
    (fold_right (fun v a -> add (S (length (g.gadj v))) a) O g.gnodes)

(** val esir_run :
    tiepolicy -> graph -> (node -> node -> xtime) -> (node -> xtime) -> node
    list -> node list -> q -> xtime -> nat -> est result **)

let esir_run tb g delay dur i0 r0 tmin tmax fuel =
  loop_det tb g tmax delay dur fuel (init_state tb g tmin tmax i0 r0)

(** val esir_det :
    tiepolicy -> graph -> (node -> node -> xtime) -> (node -> xtime) -> node
    list -> node list -> q -> xtime -> bool -> nat -> (simout * (node * node
    option) list) result **)

let esir_det tb g delay dur i0 r0 tmin tmax full fuel =
  rbind (esir_run tb g delay dur i0 r0 tmin tmax fuel)
    (finish g tmin full (length i0))

type provider = node -> node list -> ((node * xtime) list * xtime) samp

(** val lift : 'a1 result -> ('a1 -> 'a2 samp) -> 'a2 samp **)

let lift r k =
  match r with
  | Ok a -> k a
  | Err e -> Fail e

(** val gloop :
    tiepolicy -> graph -> q -> xtime -> provider -> bool -> nat -> nat -> est
    -> (simout * (node * node option) list) samp **)

let rec gloop tb g tmin tmax prov full n0 fuel s =
  match s.qu with
  | [] -> lift (finish g tmin full n0 s) (fun x -> Ret x)
  | e :: q' ->
    (match fuel with
     | O -> Fail OutOfFuel
     | S f ->
       let s1 = set_qu s q' in
       (match e.qe with
        | ETrans (src, tgt) ->
          if N.eqb (s1.stat tgt) stS
          then let sus = sus_nbrs g (fupdN s1.stat tgt stI) tgt in
               bind (prov tgt sus) (fun tr ->
                 gloop tb g tmin tmax prov full n0 f
                   (apply_inf tb tmax e.qt src tgt (fst tr) (snd tr)
                     (det_calls tgt sus) s1))
          else gloop tb g tmin tmax prov full n0 f s1
        | ERec u -> gloop tb g tmin tmax prov full n0 f (apply_rec e.qt u s1)))

(** val round_half_even : q -> z **)

let round_half_even x =
  let n0 = x.qnum in
  let d = Zpos x.qden in
  let q0 = Z.div n0 d in
  let r = Z.modulo n0 d in
  if Z.ltb (Z.mul (Zpos (XO XH)) r) d
  then q0
  else if Z.ltb d (Z.mul (Zpos (XO XH)) r)
       then Z.add q0 (Zpos XH)
       else if Z.even q0 then q0 else Z.add q0 (Zpos XH)

(** val fast_nonmarkov :
    tiepolicy -> graph -> provider -> node list option -> node list option ->
    q option -> q -> xtime -> bool -> nat -> (simout * (node * node option)
    list) samp **)

let fast_nonmarkov tb g prov i0 r0 rho tmin tmax full fuel =
  match rho with
  | Some _ ->
    (match i0 with
     | Some _ -> Fail EoNError
     | None ->
       (match r0 with
        | Some _ -> Fail EoNError
        | None ->
          let r0l = match r0 with
                    | Some l -> l
                    | None -> [] in
          let go = fun i0l ->
            gloop tb g tmin tmax prov full (length i0l) fuel
              (init_state tb g tmin tmax i0l r0l)
          in
          (match i0 with
           | Some l -> go l
           | None ->
             let n0 =
               match rho with
               | Some r -> round_half_even (qmult (qnat (length g.gnodes)) r)
               | None -> Zpos XH
             in
             if Z.ltb n0 Z0
             then Fail ValueErr
             else Sample ((map knode g.gnodes), (Z.to_nat n0), (fun ks ->
                    go (concat ks))))))
  | None ->
    let r0l = match r0 with
              | Some l -> l
              | None -> [] in
    let go = fun i0l ->
      gloop tb g tmin tmax prov full (length i0l) fuel
        (init_state tb g tmin tmax i0l r0l)
    in
    (match i0 with
     | Some l -> go l
     | None ->
       let n0 =
         match rho with
         | Some r -> round_half_even (qmult (qnat (length g.gnodes)) r)
         | None -> Zpos XH
       in
       if Z.ltb n0 Z0
       then Fail ValueErr
       else Sample ((map knode g.gnodes), (Z.to_nat n0), (fun ks ->
              go (concat ks))))

(** val det_provider :
    (node -> node -> xtime) -> (node -> xtime) -> provider **)

let det_provider delay dur u sus =
  Ret ((map (fun v -> (v, (delay u v))) sus), (dur u))

(** val draw_time : q -> (xtime -> 'a1 samp) -> 'a1 samp **)

let draw_time rate k =
  if qltb { qnum = Z0; qden = XH } rate
  then Expo (rate, (fun d -> k (Some d)))
  else k None

(** val draw_delays :
    (node -> q) -> node list -> (node * xtime) list -> ((node * xtime) list
    -> 'a1 samp) -> 'a1 samp **)

let rec draw_delays rate sus acc k =
  match sus with
  | [] -> k (rev acc)
  | v :: t ->
    draw_time (rate v) (fun d -> draw_delays rate t ((v, d) :: acc) k)

(** val trans_rate : graph -> q -> node -> node -> q **)

let trans_rate g tau u v =
  if g.ewt then qmult tau (g.ew u v) else tau

(** val rec_rate : graph -> q -> node -> q **)

let rec_rate g gamma u =
  if g.nwt then qmult gamma (g.nw u) else gamma

(** val markov_provider : graph -> q -> q -> provider **)

let markov_provider g tau gamma u sus =
  draw_time (rec_rate g gamma u) (fun rd ->
    draw_delays (trans_rate g tau u) sus [] (fun td -> Ret (td, rd)))

(** val uses_edge_path : graph -> q -> q -> bool **)

let uses_edge_path g tau gamma =
  (||) g.ewt (qeqb (qmult tau gamma) { qnum = Z0; qden = XH })

(** val fast_sir_edge :
    graph -> q -> q -> node list option -> node list option -> q option -> q
    -> xtime -> bool -> nat -> (simout * (node * node option) list) samp **)

let fast_sir_edge g tau gamma i0 r0 rho tmin tmax full fuel =
  fast_nonmarkov fifo g (markov_provider g tau gamma) i0 r0 rho tmin tmax
    full fuel

type pnode = { pn : node; pdur : xtime; pout : (node * xtime) list }

type pgraph = pnode list

(** val perc_node :
    graph -> (node -> node -> xtime) -> (node -> xtime) -> node -> pnode **)

let perc_node g delay dur u =
  { pn = u; pdur = (dur u); pout =
    (filter (fun vd -> xleb (snd vd) (dur u))
      (map (fun v -> (v, (delay u v))) (g.gadj u))) }

(** val perc_build :
    graph -> (node -> node -> xtime) -> (node -> xtime) -> pgraph **)

let perc_build g delay dur =
  map (perc_node g delay dur) g.gnodes

(** val perc_calls : graph -> (node * node option) list **)

let perc_calls g =
  concat
    (map (fun u -> (u, None) :: (map (fun v -> (u, (Some v))) (g.gadj u)))
      g.gnodes)

(** val perc_markov :
    graph -> q -> q -> node list -> pgraph -> (pgraph -> 'a1 samp) -> 'a1 samp **)

let rec perc_markov g tau gamma nodes acc k =
  match nodes with
  | [] -> k (rev acc)
  | u :: t ->
    draw_time gamma (fun du ->
      draw_delays (fun _ -> tau) (g.gadj u) [] (fun td ->
        perc_markov g tau gamma t ({ pn = u; pdur = du; pout =
          (filter (fun vd -> xleb (snd vd) du) td) } :: acc) k))

(** val psucc : pgraph -> node list -> node -> node list **)

let psucc h removed u =
  concat
    (map (fun p ->
      if N.eqb p.pn u
      then filter (fun v -> negb (mem v removed)) (map fst p.pout)
      else []) h)

(** val reach : pgraph -> node list -> nat -> node list -> node list **)

let rec reach h removed fuel seen =
  match fuel with
  | O -> seen
  | S f ->
    let new0 =
      fold_left (fun acc u ->
        fold_left (fun acc0 v ->
          if mem v acc0 then acc0 else app acc0 (v :: []))
          (psucc h removed u) acc) seen seen
    in
    reach h removed f new0

(** val out_component : pgraph -> node list -> node list -> node list **)

let out_component h removed src =
  reach h removed (length h)
    (fold_left (fun acc v -> if mem v acc then acc else app acc (v :: []))
      src [])

(** val get_infected :
    graph -> q -> q -> node list -> node list -> node list samp **)

let get_infected g tau gamma i0 r0 =
  if existsb (fun u -> mem u r0) i0
  then Fail EoNError
  else perc_markov g tau gamma g.gnodes [] (fun h -> Ret
         (out_component h r0 i0))

(** val get_infected_det :
    graph -> (node -> node -> xtime) -> (node -> xtime) -> node list -> node
    list -> node list **)

let get_infected_det g delay dur i0 r0 =
  out_component (perc_build g delay dur) r0 i0

(** val qfloor : q -> z **)

let qfloor x =
  let { qnum = n0; qden = d } = x in Z.div n0 (Zpos d)

type 'a bsamp =
| BRet of 'a
| BFail of err
| BExpo of q * (q -> 'a bsamp)
| BSample of key list * nat * (key list -> 'a bsamp)
| BBinom of nat * q * xtime * (nat -> 'a bsamp)

(** val bbind : 'a1 bsamp -> ('a1 -> 'a2 bsamp) -> 'a2 bsamp **)

let rec bbind m f =
  match m with
  | BRet a -> f a
  | BFail e -> BFail e
  | BExpo (r, k) -> BExpo (r, (fun d -> bbind (k d) f))
  | BSample (pop, n0, k) -> BSample (pop, n0, (fun l -> bbind (k l) f))
  | BBinom (n0, tau, d, k) -> BBinom (n0, tau, d, (fun i -> bbind (k i) f))

type bcall =
| BCExpo of q
| BCSample of key list * nat
| BCBinom of nat * q * xtime

(** val binom_possible : nat -> q -> xtime -> nat -> bool **)

let binom_possible n0 tau d k =
  (&&) (Nat.leb k n0)
    (match d with
     | Some x ->
       if qeqb (qmult tau x) { qnum = Z0; qden = XH }
       then Nat.eqb k O
       else true
     | None -> Nat.eqb k n0)

(** val bexec :
    'a1 bsamp -> q list -> bcall list -> 'a1 result * bcall list **)

let rec bexec m ds tr =
  match m with
  | BRet a -> ((Ok a), (rev tr))
  | BFail e -> ((Err e), (rev tr))
  | BExpo (r, k) ->
    if qeqb r { qnum = Z0; qden = XH }
    then ((Err ZeroDivision), (rev ((BCExpo r) :: tr)))
    else (match ds with
          | [] -> ((Err OutOfDraws), (rev tr))
          | d :: ds' ->
            if qltb d { qnum = Z0; qden = XH }
            then ((Err OutOfDraws), (rev tr))
            else bexec (k d) ds' ((BCExpo r) :: tr))
  | BSample (pop, n0, k) ->
    if Nat.ltb (length pop) n0
    then ((Err ValueErr), (rev ((BCSample (pop, n0)) :: tr)))
    else (match ds with
          | [] -> ((Err OutOfDraws), (rev tr))
          | d :: ds' ->
            bexec (k (firstn n0 (rotate (rank d) pop))) ds' ((BCSample (pop,
              n0)) :: tr))
  | BBinom (n0, tau, dd, k) ->
    (match ds with
     | [] -> ((Err OutOfDraws), (rev tr))
     | d :: ds' ->
       if binom_possible n0 tau dd (rank d)
       then bexec (k (rank d)) ds' ((BCBinom (n0, tau, dd)) :: tr)
       else ((Err OutOfDraws), (rev tr)))

(** val trunc_exp : q -> xtime -> q result **)

let trunc_exp x = function
| Some t0 ->
  if qltb x t0
  then Ok x
  else if qeqb t0 { qnum = Z0; qden = XH }
       then Err ZeroDivision
       else Ok (qminus x (qmult (inject_Z (qfloor (qdiv x t0))) t0))
| None -> Ok x

(** val ninsert : n -> n list -> n list **)

let rec ninsert x l = match l with
| [] -> x :: []
| h :: t -> if N.ltb x h then x :: l else h :: (ninsert x t)

(** val nsort : n list -> n list **)

let nsort l =
  fold_right ninsert [] l

type bprovider = node -> node list -> ((node * xtime) list * xtime) bsamp

(** val draw_trunc :
    q -> xtime -> node list -> (node * xtime) list -> ((node * xtime) list ->
    'a1 bsamp) -> 'a1 bsamp **)

let rec draw_trunc tau dur rcp acc k =
  match rcp with
  | [] -> k (rev acc)
  | v :: t ->
    BExpo (tau, (fun x ->
      match trunc_exp x dur with
      | Ok y -> draw_trunc tau dur t ((v, (Some y)) :: acc) k
      | Err e -> BFail e))

(** val const_provider : graph -> q -> q -> bprovider **)

let const_provider g tau gamma u sus =
  let rr = rec_rate g gamma u in
  let k = fun dur -> BBinom ((length sus), tau, dur, (fun n0 -> BSample
    ((map knode (nsort sus)), n0, (fun ks ->
    draw_trunc tau dur (concat ks) [] (fun td -> BRet (td, dur))))))
  in
  if qltb { qnum = Z0; qden = XH } rr
  then BExpo (rr, (fun d -> k (Some d)))
  else k None

(** val blift : 'a1 result -> ('a1 -> 'a2 bsamp) -> 'a2 bsamp **)

let blift r k =
  match r with
  | Ok a -> k a
  | Err e -> BFail e

(** val bgloop :
    graph -> q -> xtime -> bprovider -> bool -> nat -> nat -> est ->
    (simout * (node * node option) list) bsamp **)

let rec bgloop g tmin tmax prov full n0 fuel s =
  match s.qu with
  | [] -> blift (finish g tmin full n0 s) (fun x -> BRet x)
  | e :: q' ->
    (match fuel with
     | O -> BFail OutOfFuel
     | S f ->
       let s1 = set_qu s q' in
       (match e.qe with
        | ETrans (src, tgt) ->
          if N.eqb (s1.stat tgt) stS
          then let sus = sus_nbrs g (fupdN s1.stat tgt stI) tgt in
               bbind (prov tgt sus) (fun tr ->
                 bgloop g tmin tmax prov full n0 f
                   (apply_inf fifo tmax e.qt src tgt (fst tr) (snd tr) [] s1))
          else bgloop g tmin tmax prov full n0 f s1
        | ERec u -> bgloop g tmin tmax prov full n0 f (apply_rec e.qt u s1)))

(** val fast_sir_const :
    graph -> q -> q -> node list option -> node list option -> q option -> q
    -> xtime -> bool -> nat -> (simout * (node * node option) list) bsamp **)

let fast_sir_const g tau gamma i0 r0 rho tmin tmax full fuel =
  match rho with
  | Some _ ->
    (match i0 with
     | Some _ -> BFail EoNError
     | None ->
       (match r0 with
        | Some _ -> BFail EoNError
        | None ->
          let r0l = match r0 with
                    | Some l -> l
                    | None -> [] in
          let go = fun i0l ->
            bgloop g tmin tmax (const_provider g tau gamma) full (length i0l)
              fuel (init_state fifo g tmin tmax i0l r0l)
          in
          (match i0 with
           | Some l -> go l
           | None ->
             let n0 =
               match rho with
               | Some r -> round_half_even (qmult (qnat (length g.gnodes)) r)
               | None -> Zpos XH
             in
             if Z.ltb n0 Z0
             then BFail ValueErr
             else BSample ((map knode g.gnodes), (Z.to_nat n0), (fun ks ->
                    go (concat ks))))))
  | None ->
    let r0l = match r0 with
              | Some l -> l
              | None -> [] in
    let go = fun i0l ->
      bgloop g tmin tmax (const_provider g tau gamma) full (length i0l) fuel
        (init_state fifo g tmin tmax i0l r0l)
    in
    (match i0 with
     | Some l -> go l
     | None ->
       let n0 =
         match rho with
         | Some r -> round_half_even (qmult (qnat (length g.gnodes)) r)
         | None -> Zpos XH
       in
       if Z.ltb n0 Z0
       then BFail ValueErr
       else BSample ((map knode g.gnodes), (Z.to_nat n0), (fun ks ->
              go (concat ks))))
