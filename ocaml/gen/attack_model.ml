
type nat =
| O
| S of nat

(** val fst : ('a1 * 'a2) -> 'a1 **)

let fst = function
| (x, _) -> x

(** val snd : ('a1 * 'a2) -> 'a2 **)

let snd = function
| (_, y) -> y

type comparison =
| Eq
| Lt
| Gt

(** val compOpp : comparison -> comparison **)

let compOpp = function
| Eq -> Eq
| Lt -> Gt
| Gt -> Lt

module Coq__1 = struct
 (** val add : nat -> nat -> nat **)
 let rec add n0 m =
   match n0 with
   | O -> m
   | S p -> S (add p m)
end
include Coq__1

type positive =
| XI of positive
| XO of positive
| XH

type n =
| N0
| Npos of positive

type z =
| Z0
| Zpos of positive
| Zneg of positive

module Pos =
 struct
  type mask =
  | IsNul
  | IsPos of positive
  | IsNeg
 end

module Coq_Pos =
 struct
  (** val succ : positive -> positive **)

  let rec succ = function
  | XI p -> XO (succ p)
  | XO p -> XI p
  | XH -> XO XH

  (** val add : positive -> positive -> positive **)

  let rec add x y =
    match x with
    | XI p ->
      (match y with
       | XI q0 -> XO (add_carry p q0)
       | XO q0 -> XI (add p q0)
       | XH -> XO (succ p))
    | XO p ->
      (match y with
       | XI q0 -> XI (add p q0)
       | XO q0 -> XO (add p q0)
       | XH -> XI p)
    | XH -> (match y with
             | XI q0 -> XO (succ q0)
             | XO q0 -> XI q0
             | XH -> XO XH)

  (** val add_carry : positive -> positive -> positive **)

  and add_carry x y =
    match x with
    | XI p ->
      (match y with
       | XI q0 -> XI (add_carry p q0)
       | XO q0 -> XO (add_carry p q0)
       | XH -> XI (succ p))
    | XO p ->
      (match y with
       | XI q0 -> XO (add_carry p q0)
       | XO q0 -> XI (add p q0)
       | XH -> XO (succ p))
    | XH ->
      (match y with
       | XI q0 -> XI (succ q0)
       | XO q0 -> XO (succ q0)
       | XH -> XI XH)

  (** val pred_double : positive -> positive **)

  let rec pred_double = function
  | XI p -> XI (XO p)
  | XO p -> XI (pred_double p)
  | XH -> XH

  type mask = Pos.mask =
  | IsNul
  | IsPos of positive
  | IsNeg

  (** val succ_double_mask : mask -> mask **)

  let succ_double_mask = function
  | IsNul -> IsPos XH
  | IsPos p -> IsPos (XI p)
  | IsNeg -> IsNeg

  (** val double_mask : mask -> mask **)

  let double_mask = function
  | IsPos p -> IsPos (XO p)
  | x0 -> x0

  (** val double_pred_mask : positive -> mask **)

  let double_pred_mask = function
  | XI p -> IsPos (XO (XO p))
  | XO p -> IsPos (XO (pred_double p))
  | XH -> IsNul

  (** val sub_mask : positive -> positive -> mask **)

  let rec sub_mask x y =
    match x with
    | XI p ->
      (match y with
       | XI q0 -> double_mask (sub_mask p q0)
       | XO q0 -> succ_double_mask (sub_mask p q0)
       | XH -> IsPos (XO p))
    | XO p ->
      (match y with
       | XI q0 -> succ_double_mask (sub_mask_carry p q0)
       | XO q0 -> double_mask (sub_mask p q0)
       | XH -> IsPos (pred_double p))
    | XH -> (match y with
             | XH -> IsNul
             | _ -> IsNeg)

  (** val sub_mask_carry : positive -> positive -> mask **)

  and sub_mask_carry x y =
    match x with
    | XI p ->
      (match y with
       | XI q0 -> succ_double_mask (sub_mask_carry p q0)
       | XO q0 -> double_mask (sub_mask p q0)
       | XH -> IsPos (pred_double p))
    | XO p ->
      (match y with
       | XI q0 -> double_mask (sub_mask_carry p q0)
       | XO q0 -> succ_double_mask (sub_mask_carry p q0)
       | XH -> double_pred_mask p)
    | XH -> IsNeg

  (** val sub : positive -> positive -> positive **)

  let sub x y =
    match sub_mask x y with
    | IsPos z0 -> z0
    | _ -> XH

  (** val mul : positive -> positive -> positive **)

  let rec mul x y =
    match x with
    | XI p -> add y (XO (mul p y))
    | XO p -> XO (mul p y)
    | XH -> y

  (** val size_nat : positive -> nat **)

  let rec size_nat = function
  | XI p0 -> S (size_nat p0)
  | XO p0 -> S (size_nat p0)
  | XH -> S O

  (** val compare_cont : comparison -> positive -> positive -> comparison **)

  let rec compare_cont r x y =
    match x with
    | XI p ->
      (match y with
       | XI q0 -> compare_cont r p q0
       | XO q0 -> compare_cont Gt p q0
       | XH -> Gt)
    | XO p ->
      (match y with
       | XI q0 -> compare_cont Lt p q0
       | XO q0 -> compare_cont r p q0
       | XH -> Gt)
    | XH -> (match y with
             | XH -> r
             | _ -> Lt)

  (** val compare : positive -> positive -> comparison **)

  let compare =
    compare_cont Eq

  (** val ggcdn :
      nat -> positive -> positive -> positive * (positive * positive) **)

  let rec ggcdn n0 a b =
    match n0 with
    | O -> (XH, (a, b))
    | S n1 ->
      (match a with
       | XI a' ->
         (match b with
          | XI b' ->
            (match compare a' b' with
             | Eq -> (a, (XH, XH))
             | Lt ->
               let (g, p) = ggcdn n1 (sub b' a') a in
               let (ba, aa) = p in (g, (aa, (add aa (XO ba))))
             | Gt ->
               let (g, p) = ggcdn n1 (sub a' b') b in
               let (ab, bb) = p in (g, ((add bb (XO ab)), bb)))
          | XO b0 ->
            let (g, p) = ggcdn n1 a b0 in
            let (aa, bb) = p in (g, (aa, (XO bb)))
          | XH -> (XH, (a, XH)))
       | XO a0 ->
         (match b with
          | XI _ ->
            let (g, p) = ggcdn n1 a0 b in
            let (aa, bb) = p in (g, ((XO aa), bb))
          | XO b0 -> let (g, p) = ggcdn n1 a0 b0 in ((XO g), p)
          | XH -> (XH, (a, XH)))
       | XH -> (XH, (XH, b)))

  (** val ggcd : positive -> positive -> positive * (positive * positive) **)

  let ggcd a b =
    ggcdn (Coq__1.add (size_nat a) (size_nat b)) a b

  (** val of_succ_nat : nat -> positive **)

  let rec of_succ_nat = function
  | O -> XH
  | S x -> succ (of_succ_nat x)
 end

module Z =
 struct
  (** val double : z -> z **)

  let double = function
  | Z0 -> Z0
  | Zpos p -> Zpos (XO p)
  | Zneg p -> Zneg (XO p)

  (** val succ_double : z -> z **)

  let succ_double = function
  | Z0 -> Zpos XH
  | Zpos p -> Zpos (XI p)
  | Zneg p -> Zneg (Coq_Pos.pred_double p)

  (** val pred_double : z -> z **)

  let pred_double = function
  | Z0 -> Zneg XH
  | Zpos p -> Zpos (Coq_Pos.pred_double p)
  | Zneg p -> Zneg (XI p)

  (** val pos_sub : positive -> positive -> z **)

  let rec pos_sub x y =
    match x with
    | XI p ->
      (match y with
       | XI q0 -> double (pos_sub p q0)
       | XO q0 -> succ_double (pos_sub p q0)
       | XH -> Zpos (XO p))
    | XO p ->
      (match y with
       | XI q0 -> pred_double (pos_sub p q0)
       | XO q0 -> double (pos_sub p q0)
       | XH -> Zpos (Coq_Pos.pred_double p))
    | XH ->
      (match y with
       | XI q0 -> Zneg (XO q0)
       | XO q0 -> Zneg (Coq_Pos.pred_double q0)
       | XH -> Z0)

  (** val add : z -> z -> z **)

  let add x y =
    match x with
    | Z0 -> y
    | Zpos x' ->
      (match y with
       | Z0 -> x
       | Zpos y' -> Zpos (Coq_Pos.add x' y')
       | Zneg y' -> pos_sub x' y')
    | Zneg x' ->
      (match y with
       | Z0 -> x
       | Zpos y' -> pos_sub y' x'
       | Zneg y' -> Zneg (Coq_Pos.add x' y'))

  (** val opp : z -> z **)

  let opp = function
  | Z0 -> Z0
  | Zpos x0 -> Zneg x0
  | Zneg x0 -> Zpos x0

  (** val sub : z -> z -> z **)

  let sub m n0 =
    add m (opp n0)

  (** val mul : z -> z -> z **)

  let mul x y =
    match x with
    | Z0 -> Z0
    | Zpos x' ->
      (match y with
       | Z0 -> Z0
       | Zpos y' -> Zpos (Coq_Pos.mul x' y')
       | Zneg y' -> Zneg (Coq_Pos.mul x' y'))
    | Zneg x' ->
      (match y with
       | Z0 -> Z0
       | Zpos y' -> Zneg (Coq_Pos.mul x' y')
       | Zneg y' -> Zpos (Coq_Pos.mul x' y'))

  (** val compare : z -> z -> comparison **)

  let compare x y =
    match x with
    | Z0 -> (match y with
             | Z0 -> Eq
             | Zpos _ -> Lt
             | Zneg _ -> Gt)
    | Zpos x' -> (match y with
                  | Zpos y' -> Coq_Pos.compare x' y'
                  | _ -> Gt)
    | Zneg x' ->
      (match y with
       | Zneg y' -> compOpp (Coq_Pos.compare x' y')
       | _ -> Lt)

  (** val sgn : z -> z **)

  let sgn = function
  | Z0 -> Z0
  | Zpos _ -> Zpos XH
  | Zneg _ -> Zneg XH

  (** val abs : z -> z **)

  let abs = function
  | Zneg p -> Zpos p
  | x -> x

  (** val of_nat : nat -> z **)

  let of_nat = function
  | O -> Z0
  | S n1 -> Zpos (Coq_Pos.of_succ_nat n1)

  (** val to_pos : z -> positive **)

  let to_pos = function
  | Zpos p -> p
  | _ -> XH

  (** val ggcd : z -> z -> z * (z * z) **)

  let ggcd a b =
    match a with
    | Z0 -> ((abs b), (Z0, (sgn b)))
    | Zpos a0 ->
      (match b with
       | Z0 -> ((abs a), ((sgn a), Z0))
       | Zpos b0 ->
         let (g, p) = Coq_Pos.ggcd a0 b0 in
         let (aa, bb) = p in ((Zpos g), ((Zpos aa), (Zpos bb)))
       | Zneg b0 ->
         let (g, p) = Coq_Pos.ggcd a0 b0 in
         let (aa, bb) = p in ((Zpos g), ((Zpos aa), (Zneg bb))))
    | Zneg a0 ->
      (match b with
       | Z0 -> ((abs a), ((sgn a), Z0))
       | Zpos b0 ->
         let (g, p) = Coq_Pos.ggcd a0 b0 in
         let (aa, bb) = p in ((Zpos g), ((Zneg aa), (Zpos bb)))
       | Zneg b0 ->
         let (g, p) = Coq_Pos.ggcd a0 b0 in
         let (aa, bb) = p in ((Zpos g), ((Zneg aa), (Zneg bb))))
 end

(** val zeq_bool : z -> z -> bool **)

let zeq_bool x y =
  match Z.compare x y with
  | Eq -> true
  | _ -> false

(** val pow_pos : ('a1 -> 'a1 -> 'a1) -> 'a1 -> positive -> 'a1 **)

let rec pow_pos rmul x = function
| XI i0 -> let p = pow_pos rmul x i0 in rmul x (rmul p p)
| XO i0 -> let p = pow_pos rmul x i0 in rmul p p
| XH -> x

(** val map : ('a1 -> 'a2) -> 'a1 list -> 'a2 list **)

let rec map f = function
| [] -> []
| a :: t -> (f a) :: (map f t)

(** val fold_right : ('a2 -> 'a1 -> 'a1) -> 'a1 -> 'a2 list -> 'a1 **)

let rec fold_right f a0 = function
| [] -> a0
| b :: t -> f b (fold_right f a0 t)

(** val seq : nat -> nat -> nat list **)

let rec seq start = function
| O -> []
| S len0 -> start :: (seq (S start) len0)

type q = { qnum : z; qden : positive }

(** val inject_Z : z -> q **)

let inject_Z x =
  { qnum = x; qden = XH }

(** val qeq_bool : q -> q -> bool **)

let qeq_bool x y =
  zeq_bool (Z.mul x.qnum (Zpos y.qden)) (Z.mul y.qnum (Zpos x.qden))

(** val qplus : q -> q -> q **)

let qplus x y =
  { qnum = (Z.add (Z.mul x.qnum (Zpos y.qden)) (Z.mul y.qnum (Zpos x.qden)));
    qden = (Coq_Pos.mul x.qden y.qden) }

(** val qmult : q -> q -> q **)

let qmult x y =
  { qnum = (Z.mul x.qnum y.qnum); qden = (Coq_Pos.mul x.qden y.qden) }

(** val qopp : q -> q **)

let qopp x =
  { qnum = (Z.opp x.qnum); qden = x.qden }

(** val qminus : q -> q -> q **)

let qminus x y =
  qplus x (qopp y)

(** val qinv : q -> q **)

let qinv x =
  match x.qnum with
  | Z0 -> { qnum = Z0; qden = XH }
  | Zpos p -> { qnum = (Zpos x.qden); qden = p }
  | Zneg p -> { qnum = (Zneg x.qden); qden = p }

(** val qdiv : q -> q -> q **)

let qdiv x y =
  qmult x (qinv y)

(** val qpower_positive : q -> positive -> q **)

let qpower_positive =
  pow_pos qmult

(** val qpower : q -> z -> q **)

let qpower q0 = function
| Z0 -> { qnum = (Zpos XH); qden = XH }
| Zpos p -> qpower_positive q0 p
| Zneg p -> qinv (qpower_positive q0 p)

(** val qred : q -> q **)

let qred q0 =
  let { qnum = q1; qden = q2 } = q0 in
  let (r1, r2) = snd (Z.ggcd q1 (Zpos q2)) in
  { qnum = r1; qden = (Z.to_pos r2) }

type err =
| EoNError
| ZeroDivision
| IndexErr
| KeyErr
| TypeErr
| NameErr
| ValueErr
| PyException
| OutOfDraws
| OutOfFuel

type 'a result =
| Ok of 'a
| Err of err

(** val sumQ : q list -> q **)

let sumQ l =
  fold_right qplus { qnum = Z0; qden = XH } l

(** val qnat : nat -> q **)

let qnat n0 =
  inject_Z (Z.of_nat n0)

(** val qpow : q -> z -> q **)

let qpow =
  qpower

(** val iter : nat -> ('a1 -> 'a1) -> 'a1 -> 'a1 **)

let rec iter n0 f x =
  match n0 with
  | O -> x
  | S n' -> f (iter n' f x)

(** val peval : q list -> q -> q **)

let rec peval c x =
  match c with
  | [] -> { qnum = Z0; qden = XH }
  | a :: c' -> qplus a (qmult x (peval c' x))

(** val attack_rate_discrete_init :
    q -> q -> q -> (q -> q) -> (q -> q) -> q **)

let attack_rate_discrete_init _ _ _ _ _ =
  { qnum = (Zpos XH); qden = XH }

(** val attack_rate_discrete_step :
    q -> q -> q -> (q -> q) -> (q -> q) -> q -> q **)

let attack_rate_discrete_step v_p v_phiR0 v_phiS0 v_psihatPrime _ v_theta =
  qplus (qminus { qnum = (Zpos XH); qden = XH } v_p)
    (qmult v_p
      (qplus v_phiR0
        (qdiv (qmult v_phiS0 (v_psihatPrime v_theta))
          (v_psihatPrime { qnum = (Zpos XH); qden = XH }))))

(** val attack_rate_discrete_ret :
    q -> q -> q -> (q -> q) -> (q -> q) -> q -> q **)

let attack_rate_discrete_ret _ _ _ _ v_psihat v_theta =
  qminus { qnum = (Zpos XH); qden = XH } (v_psihat v_theta)

(** val attack_rate_discrete_loop :
    q -> q -> q -> (q -> q) -> (q -> q) -> nat -> q **)

let attack_rate_discrete_loop v_p v_phiR0 v_phiS0 v_psihatPrime v_psihat v_number_its =
  attack_rate_discrete_ret v_p v_phiR0 v_phiS0 v_psihatPrime v_psihat
    (iter v_number_its
      (attack_rate_discrete_step v_p v_phiR0 v_phiS0 v_psihatPrime v_psihat)
      (attack_rate_discrete_init v_p v_phiR0 v_phiS0 v_psihatPrime v_psihat))

(** val attack_rate_cts_time_init :
    q -> q -> q -> q -> (q -> q) -> (q -> q) -> q **)

let attack_rate_cts_time_init v_gamma v_tau _ _ _ _ =
  qdiv v_gamma (qplus v_gamma v_tau)

(** val attack_rate_cts_time_step :
    q -> q -> q -> q -> (q -> q) -> (q -> q) -> q -> q **)

let attack_rate_cts_time_step v_gamma v_tau v_phiR0 v_phiS0 v_psihatPrime _ v_omega =
  qplus
    (qplus (qdiv v_gamma (qplus v_gamma v_tau))
      (qdiv (qmult (qmult v_tau v_phiS0) (v_psihatPrime v_omega))
        (qmult (v_psihatPrime { qnum = (Zpos XH); qden = XH })
          (qplus v_gamma v_tau))))
    (qdiv (qmult v_tau v_phiR0) (qplus v_gamma v_tau))

(** val attack_rate_cts_time_ret :
    q -> q -> q -> q -> (q -> q) -> (q -> q) -> q -> q **)

let attack_rate_cts_time_ret _ _ _ _ _ v_psihat v_omega =
  qminus { qnum = (Zpos XH); qden = XH } (v_psihat v_omega)

(** val attack_rate_cts_time_loop :
    q -> q -> q -> q -> (q -> q) -> (q -> q) -> nat -> q **)

let attack_rate_cts_time_loop v_gamma v_tau v_phiR0 v_phiS0 v_psihatPrime v_psihat v_number_its =
  attack_rate_cts_time_ret v_gamma v_tau v_phiR0 v_phiS0 v_psihatPrime
    v_psihat
    (iter v_number_its
      (attack_rate_cts_time_step v_gamma v_tau v_phiR0 v_phiS0 v_psihatPrime
        v_psihat)
      (attack_rate_cts_time_init v_gamma v_tau v_phiR0 v_phiS0 v_psihatPrime
        v_psihat))

(** val eBCM_discrete_init :
    q -> q -> (q -> q) -> q -> q -> q -> (q -> q) -> ((q * q) * q) * q **)

let eBCM_discrete_init v_R0 v_N v_psihat _ _ _ _ =
  let i_theta = { qnum = (Zpos XH); qden = XH } in
  let i_S = qmult v_N (v_psihat { qnum = (Zpos XH); qden = XH }) in
  let i_I = qminus (qminus v_N i_S) v_R0 in (((i_theta, v_R0), i_S), i_I)

(** val eBCM_discrete_step :
    q -> q -> (q -> q) -> q -> q -> q -> (q -> q) -> (((q * q) * q) * q) ->
    ((q * q) * q) * q **)

let eBCM_discrete_step _ v_N v_psihat v_p v_phiR0 v_phiS0 v_psihatPrime = function
| (p, v_I) ->
  let (p0, _) = p in
  let (v_theta, v_R) = p0 in
  let v_newtheta =
    qplus (qminus { qnum = (Zpos XH); qden = XH } v_p)
      (qmult v_p
        (qplus v_phiR0
          (qdiv (qmult v_phiS0 (v_psihatPrime v_theta))
            (v_psihatPrime { qnum = (Zpos XH); qden = XH }))))
  in
  let v_newR = qplus v_R v_I in
  let v_newS = qmult v_N (v_psihat v_newtheta) in
  let v_newI = qminus (qminus v_N v_newR) v_newS in
  (((v_newtheta, v_newR), v_newS), v_newI)

(** val eBCM_discrete_loop :
    q -> q -> (q -> q) -> q -> q -> q -> (q -> q) -> nat -> ((q * q) * q) * q **)

let eBCM_discrete_loop v_R0 v_N v_psihat v_p v_phiR0 v_phiS0 v_psihatPrime n0 =
  iter n0
    (eBCM_discrete_step v_R0 v_N v_psihat v_p v_phiR0 v_phiS0 v_psihatPrime)
    (eBCM_discrete_init v_R0 v_N v_psihat v_p v_phiR0 v_phiS0 v_psihatPrime)

type pkdict = (nat * q) list

(** val psihat_of : pkdict -> (nat -> q) -> q -> q **)

let psihat_of pk sk0 x =
  sumQ
    (map (fun kp ->
      qmult (qmult (snd kp) (sk0 (fst kp))) (qpow x (Z.of_nat (fst kp)))) pk)

(** val psihatP_of : pkdict -> (nat -> q) -> q -> q **)

let psihatP_of pk sk0 x =
  sumQ
    (map (fun kp ->
      qmult (qmult (qmult (qnat (fst kp)) (snd kp)) (sk0 (fst kp)))
        (qpow x (Z.sub (Z.of_nat (fst kp)) (Zpos XH)))) pk)

(** val kave_of : pkdict -> q **)

let kave_of pk =
  sumQ (map (fun kp -> qmult (qnat (fst kp)) (snd kp)) pk)

(** val epi_prob_discrete : pkdict -> q -> nat -> q **)

let epi_prob_discrete pk p n0 =
  let psi = psihat_of pk (fun _ -> { qnum = (Zpos XH); qden = XH }) in
  let psiP = psihatP_of pk (fun _ -> { qnum = (Zpos XH); qden = XH }) in
  let k_ave = psiP { qnum = (Zpos XH); qden = XH } in
  qminus { qnum = (Zpos XH); qden = XH }
    (psi
      (iter n0 (fun alpha ->
        qplus (qminus { qnum = (Zpos XH); qden = XH } p)
          (qdiv (qmult p (psiP alpha)) k_ave))
        (qminus { qnum = (Zpos XH); qden = XH } p)))

(** val attack_rate_discrete : pkdict -> q -> q option -> nat -> q **)

let attack_rate_discrete pk p rho n0 =
  let go = fun r ->
    let sk0 = fun _ -> qminus { qnum = (Zpos XH); qden = XH } r in
    let ph = psihat_of pk sk0 in
    let php = psihatP_of pk sk0 in
    let phiS0 = qdiv (php { qnum = (Zpos XH); qden = XH }) (kave_of pk) in
    attack_rate_discrete_loop p { qnum = Z0; qden = XH } phiS0 php ph n0
  in
  (match rho with
   | Some r ->
     if qeq_bool r { qnum = Z0; qden = XH }
     then epi_prob_discrete pk p n0
     else go r
   | None -> epi_prob_discrete pk p n0)

(** val attack_rate_cts_time : pkdict -> q -> q -> q option -> nat -> q **)

let attack_rate_cts_time pk tau gamma rho n0 =
  let r = match rho with
          | Some r -> r
          | None -> { qnum = Z0; qden = XH } in
  let sk0 = fun _ -> qminus { qnum = (Zpos XH); qden = XH } r in
  let ph = psihat_of pk sk0 in
  let php = psihatP_of pk sk0 in
  let phiS0 = qdiv (php { qnum = (Zpos XH); qden = XH }) (kave_of pk) in
  attack_rate_cts_time_loop gamma tau { qnum = Z0; qden = XH } phiS0 php ph n0

(** val ebcm_discrete_row :
    q -> (q -> q) -> (q -> q) -> q -> q -> q -> q -> nat -> ((q * q) * q) * q **)

let ebcm_discrete_row n0 psihat psihatPrime p phiS0 phiR0 r0 t =
  eBCM_discrete_loop r0 n0 psihat p phiR0 phiS0 psihatPrime t

(** val ebcm_discrete_rows :
    q -> (q -> q) -> (q -> q) -> q -> q -> q -> q -> nat ->
    (((q * q) * q) * q) list **)

let ebcm_discrete_rows n0 psihat psihatPrime p phiS0 phiR0 r0 nsteps =
  map (ebcm_discrete_row n0 psihat psihatPrime p phiS0 phiR0 r0)
    (seq O (S nsteps))

(** val glue_types : n result **)

let glue_types =
  Err EoNError
