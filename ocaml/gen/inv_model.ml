
(** val negb : bool -> bool **)

let negb = function
| true -> false
| false -> true

type nat =
| O
| S of nat

(** val option_map : ('a1 -> 'a2) -> 'a1 option -> 'a2 option **)

let option_map f = function
| Some a -> Some (f a)
| None -> None

(** val fst : ('a1 * 'a2) -> 'a1 **)

let fst = function
| (x, _) -> x

(** val snd : ('a1 * 'a2) -> 'a2 **)

let snd = function
| (_, y) -> y

(** val length : 'a1 list -> nat **)

let rec length = function
| [] -> O
| _ :: l' -> S (length l')

(** val app : 'a1 list -> 'a1 list -> 'a1 list **)

let rec app l m =
  match l with
  | [] -> m
  | a :: l1 -> a :: (app l1 m)

type comparison =
| Eq
| Lt
| Gt

(** val compOpp : comparison -> comparison **)

let compOpp = function
| Eq -> Eq
| Lt -> Gt
| Gt -> Lt

module Coq__1 = struct
 (** val add : nat -> nat -> nat **)
 let rec add n0 m =
   match n0 with
   | O -> m
   | S p -> S (add p m)
end
include Coq__1

type positive =
| XI of positive
| XO of positive
| XH

type n =
| N0
| Npos of positive

type z =
| Z0
| Zpos of positive
| Zneg of positive

module Pos =
 struct
  type mask =
  | IsNul
  | IsPos of positive
  | IsNeg
 end

module Coq_Pos =
 struct
  (** val succ : positive -> positive **)

  let rec succ = function
  | XI p -> XO (succ p)
  | XO p -> XI p
  | XH -> XO XH

  (** val add : positive -> positive -> positive **)

  let rec add x y =
    match x with
    | XI p ->
      (match y with
       | XI q0 -> XO (add_carry p q0)
       | XO q0 -> XI (add p q0)
       | XH -> XO (succ p))
    | XO p ->
      (match y with
       | XI q0 -> XI (add p q0)
       | XO q0 -> XO (add p q0)
       | XH -> XI p)
    | XH -> (match y with
             | XI q0 -> XO (succ q0)
             | XO q0 -> XI q0
             | XH -> XO XH)

  (** val add_carry : positive -> positive -> positive **)

  and add_carry x y =
    match x with
    | XI p ->
      (match y with
       | XI q0 -> XI (add_carry p q0)
       | XO q0 -> XO (add_carry p q0)
       | XH -> XI (succ p))
    | XO p ->
      (match y with
       | XI q0 -> XO (add_carry p q0)
       | XO q0 -> XI (add p q0)
       | XH -> XO (succ p))
    | XH ->
      (match y with
       | XI q0 -> XI (succ q0)
       | XO q0 -> XO (succ q0)
       | XH -> XI XH)

  (** val pred_double : positive -> positive **)

  let rec pred_double = function
  | XI p -> XI (XO p)
  | XO p -> XI (pred_double p)
  | XH -> XH

  type mask = Pos.mask =
  | IsNul
  | IsPos of positive
  | IsNeg

  (** val succ_double_mask : mask -> mask **)

  let succ_double_mask = function
  | IsNul -> IsPos XH
  | IsPos p -> IsPos (XI p)
  | IsNeg -> IsNeg

  (** val double_mask : mask -> mask **)

  let double_mask = function
  | IsPos p -> IsPos (XO p)
  | x0 -> x0

  (** val double_pred_mask : positive -> mask **)

  let double_pred_mask = function
  | XI p -> IsPos (XO (XO p))
  | XO p -> IsPos (XO (pred_double p))
  | XH -> IsNul

  (** val sub_mask : positive -> positive -> mask **)

  let rec sub_mask x y =
    match x with
    | XI p ->
      (match y with
       | XI q0 -> double_mask (sub_mask p q0)
       | XO q0 -> succ_double_mask (sub_mask p q0)
       | XH -> IsPos (XO p))
    | XO p ->
      (match y with
       | XI q0 -> succ_double_mask (sub_mask_carry p q0)
       | XO q0 -> double_mask (sub_mask p q0)
       | XH -> IsPos (pred_double p))
    | XH -> (match y with
             | XH -> IsNul
             | _ -> IsNeg)

  (** val sub_mask_carry : positive -> positive -> mask **)

  and sub_mask_carry x y =
    match x with
    | XI p ->
      (match y with
       | XI q0 -> succ_double_mask (sub_mask_carry p q0)
       | XO q0 -> double_mask (sub_mask p q0)
       | XH -> IsPos (pred_double p))
    | XO p ->
      (match y with
       | XI q0 -> double_mask (sub_mask_carry p q0)
       | XO q0 -> succ_double_mask (sub_mask_carry p q0)
       | XH -> double_pred_mask p)
    | XH -> IsNeg

  (** val sub : positive -> positive -> positive **)

  let sub x y =
    match sub_mask x y with
    | IsPos z0 -> z0
    | _ -> XH

  (** val mul : positive -> positive -> positive **)

  let rec mul x y =
    match x with
    | XI p -> add y (XO (mul p y))
    | XO p -> XO (mul p y)
    | XH -> y

  (** val size_nat : positive -> nat **)

  let rec size_nat = function
  | XI p0 -> S (size_nat p0)
  | XO p0 -> S (size_nat p0)
  | XH -> S O

  (** val compare_cont : comparison -> positive -> positive -> comparison **)

  let rec compare_cont r x y =
    match x with
    | XI p ->
      (match y with
       | XI q0 -> compare_cont r p q0
       | XO q0 -> compare_cont Gt p q0
       | XH -> Gt)
    | XO p ->
      (match y with
       | XI q0 -> compare_cont Lt p q0
       | XO q0 -> compare_cont r p q0
       | XH -> Gt)
    | XH -> (match y with
             | XH -> r
             | _ -> Lt)

  (** val compare : positive -> positive -> comparison **)

  let compare =
    compare_cont Eq

  (** val eqb : positive -> positive -> bool **)

  let rec eqb p q0 =
    match p with
    | XI p0 -> (match q0 with
                | XI q1 -> eqb p0 q1
                | _ -> false)
    | XO p0 -> (match q0 with
                | XO q1 -> eqb p0 q1
                | _ -> false)
    | XH -> (match q0 with
             | XH -> true
             | _ -> false)

  (** val ggcdn :
      nat -> positive -> positive -> positive * (positive * positive) **)

  let rec ggcdn n0 a b =
    match n0 with
    | O -> (XH, (a, b))
    | S n1 ->
      (match a with
       | XI a' ->
         (match b with
          | XI b' ->
            (match compare a' b' with
             | Eq -> (a, (XH, XH))
             | Lt ->
               let (g, p) = ggcdn n1 (sub b' a') a in
               let (ba, aa) = p in (g, (aa, (add aa (XO ba))))
             | Gt ->
               let (g, p) = ggcdn n1 (sub a' b') b in
               let (ab, bb) = p in (g, ((add bb (XO ab)), bb)))
          | XO b0 ->
            let (g, p) = ggcdn n1 a b0 in
            let (aa, bb) = p in (g, (aa, (XO bb)))
          | XH -> (XH, (a, XH)))
       | XO a0 ->
         (match b with
          | XI _ ->
            let (g, p) = ggcdn n1 a0 b in
            let (aa, bb) = p in (g, ((XO aa), bb))
          | XO b0 -> let (g, p) = ggcdn n1 a0 b0 in ((XO g), p)
          | XH -> (XH, (a, XH)))
       | XH -> (XH, (XH, b)))

  (** val ggcd : positive -> positive -> positive * (positive * positive) **)

  let ggcd a b =
    ggcdn (Coq__1.add (size_nat a) (size_nat b)) a b

  (** val of_succ_nat : nat -> positive **)

  let rec of_succ_nat = function
  | O -> XH
  | S x -> succ (of_succ_nat x)
 end

module N =
 struct
  (** val eqb : n -> n -> bool **)

  let eqb n0 m =
    match n0 with
    | N0 -> (match m with
             | N0 -> true
             | Npos _ -> false)
    | Npos p -> (match m with
                 | N0 -> false
                 | Npos q0 -> Coq_Pos.eqb p q0)
 end

module Z =
 struct
  (** val double : z -> z **)

  let double = function
  | Z0 -> Z0
  | Zpos p -> Zpos (XO p)
  | Zneg p -> Zneg (XO p)

  (** val succ_double : z -> z **)

  let succ_double = function
  | Z0 -> Zpos XH
  | Zpos p -> Zpos (XI p)
  | Zneg p -> Zneg (Coq_Pos.pred_double p)

  (** val pred_double : z -> z **)

  let pred_double = function
  | Z0 -> Zneg XH
  | Zpos p -> Zpos (Coq_Pos.pred_double p)
  | Zneg p -> Zneg (XI p)

  (** val pos_sub : positive -> positive -> z **)

  let rec pos_sub x y =
    match x with
    | XI p ->
      (match y with
       | XI q0 -> double (pos_sub p q0)
       | XO q0 -> succ_double (pos_sub p q0)
       | XH -> Zpos (XO p))
    | XO p ->
      (match y with
       | XI q0 -> pred_double (pos_sub p q0)
       | XO q0 -> double (pos_sub p q0)
       | XH -> Zpos (Coq_Pos.pred_double p))
    | XH ->
      (match y with
       | XI q0 -> Zneg (XO q0)
       | XO q0 -> Zneg (Coq_Pos.pred_double q0)
       | XH -> Z0)

  (** val add : z -> z -> z **)

  let add x y =
    match x with
    | Z0 -> y
    | Zpos x' ->
      (match y with
       | Z0 -> x
       | Zpos y' -> Zpos (Coq_Pos.add x' y')
       | Zneg y' -> pos_sub x' y')
    | Zneg x' ->
      (match y with
       | Z0 -> x
       | Zpos y' -> pos_sub y' x'
       | Zneg y' -> Zneg (Coq_Pos.add x' y'))

  (** val mul : z -> z -> z **)

  let mul x y =
    match x with
    | Z0 -> Z0
    | Zpos x' ->
      (match y with
       | Z0 -> Z0
       | Zpos y' -> Zpos (Coq_Pos.mul x' y')
       | Zneg y' -> Zneg (Coq_Pos.mul x' y'))
    | Zneg x' ->
      (match y with
       | Z0 -> Z0
       | Zpos y' -> Zneg (Coq_Pos.mul x' y')
       | Zneg y' -> Zpos (Coq_Pos.mul x' y'))

  (** val compare : z -> z -> comparison **)

  let compare x y =
    match x with
    | Z0 -> (match y with
             | Z0 -> Eq
             | Zpos _ -> Lt
             | Zneg _ -> Gt)
    | Zpos x' -> (match y with
                  | Zpos y' -> Coq_Pos.compare x' y'
                  | _ -> Gt)
    | Zneg x' ->
      (match y with
       | Zneg y' -> compOpp (Coq_Pos.compare x' y')
       | _ -> Lt)

  (** val sgn : z -> z **)

  let sgn = function
  | Z0 -> Z0
  | Zpos _ -> Zpos XH
  | Zneg _ -> Zneg XH

  (** val eqb : z -> z -> bool **)

  let eqb x y =
    match x with
    | Z0 -> (match y with
             | Z0 -> true
             | _ -> false)
    | Zpos p -> (match y with
                 | Zpos q0 -> Coq_Pos.eqb p q0
                 | _ -> false)
    | Zneg p -> (match y with
                 | Zneg q0 -> Coq_Pos.eqb p q0
                 | _ -> false)

  (** val abs : z -> z **)

  let abs = function
  | Zneg p -> Zpos p
  | x -> x

  (** val of_nat : nat -> z **)

  let of_nat = function
  | O -> Z0
  | S n1 -> Zpos (Coq_Pos.of_succ_nat n1)

  (** val to_pos : z -> positive **)

  let to_pos = function
  | Zpos p -> p
  | _ -> XH

  (** val ggcd : z -> z -> z * (z * z) **)

  let ggcd a b =
    match a with
    | Z0 -> ((abs b), (Z0, (sgn b)))
    | Zpos a0 ->
      (match b with
       | Z0 -> ((abs a), ((sgn a), Z0))
       | Zpos b0 ->
         let (g, p) = Coq_Pos.ggcd a0 b0 in
         let (aa, bb) = p in ((Zpos g), ((Zpos aa), (Zpos bb)))
       | Zneg b0 ->
         let (g, p) = Coq_Pos.ggcd a0 b0 in
         let (aa, bb) = p in ((Zpos g), ((Zpos aa), (Zneg bb))))
    | Zneg a0 ->
      (match b with
       | Z0 -> ((abs a), ((sgn a), Z0))
       | Zpos b0 ->
         let (g, p) = Coq_Pos.ggcd a0 b0 in
         let (aa, bb) = p in ((Zpos g), ((Zneg aa), (Zpos bb)))
       | Zneg b0 ->
         let (g, p) = Coq_Pos.ggcd a0 b0 in
         let (aa, bb) = p in ((Zpos g), ((Zneg aa), (Zneg bb))))
 end

(** val z_lt_dec : z -> z -> bool **)

let z_lt_dec x y =
  match Z.compare x y with
  | Lt -> true
  | _ -> false

(** val z_lt_ge_dec : z -> z -> bool **)

let z_lt_ge_dec =
  z_lt_dec

(** val z_lt_le_dec : z -> z -> bool **)

let z_lt_le_dec =
  z_lt_ge_dec

(** val zeq_bool : z -> z -> bool **)

let zeq_bool x y =
  match Z.compare x y with
  | Eq -> true
  | _ -> false

(** val nth : nat -> 'a1 list -> 'a1 -> 'a1 **)

let rec nth n0 l default =
  match n0 with
  | O -> (match l with
          | [] -> default
          | x :: _ -> x)
  | S m -> (match l with
            | [] -> default
            | _ :: t -> nth m t default)

(** val nth_error : 'a1 list -> nat -> 'a1 option **)

let rec nth_error l = function
| O -> (match l with
        | [] -> None
        | x :: _ -> Some x)
| S n1 -> (match l with
           | [] -> None
           | _ :: l0 -> nth_error l0 n1)

(** val rev : 'a1 list -> 'a1 list **)

let rec rev = function
| [] -> []
| x :: l' -> app (rev l') (x :: [])

(** val map : ('a1 -> 'a2) -> 'a1 list -> 'a2 list **)

let rec map f = function
| [] -> []
| a :: t -> (f a) :: (map f t)

(** val fold_left : ('a1 -> 'a2 -> 'a1) -> 'a2 list -> 'a1 -> 'a1 **)

let rec fold_left f l a0 =
  match l with
  | [] -> a0
  | b :: t -> fold_left f t (f a0 b)

(** val fold_right : ('a2 -> 'a1 -> 'a1) -> 'a1 -> 'a2 list -> 'a1 **)

let rec fold_right f a0 = function
| [] -> a0
| b :: t -> f b (fold_right f a0 t)

(** val existsb : ('a1 -> bool) -> 'a1 list -> bool **)

let rec existsb f = function
| [] -> false
| a :: l0 -> (||) (f a) (existsb f l0)

(** val forallb : ('a1 -> bool) -> 'a1 list -> bool **)

let rec forallb f = function
| [] -> true
| a :: l0 -> (&&) (f a) (forallb f l0)

(** val filter : ('a1 -> bool) -> 'a1 list -> 'a1 list **)

let rec filter f = function
| [] -> []
| x :: l0 -> if f x then x :: (filter f l0) else filter f l0

(** val find : ('a1 -> bool) -> 'a1 list -> 'a1 option **)

let rec find f = function
| [] -> None
| x :: tl -> if f x then Some x else find f tl

(** val combine : 'a1 list -> 'a2 list -> ('a1 * 'a2) list **)

let rec combine l l' =
  match l with
  | [] -> []
  | x :: tl ->
    (match l' with
     | [] -> []
     | y :: tl' -> (x, y) :: (combine tl tl'))

type q = { qnum : z; qden : positive }

(** val qcompare : q -> q -> comparison **)

let qcompare p q0 =
  Z.compare (Z.mul p.qnum (Zpos q0.qden)) (Z.mul q0.qnum (Zpos p.qden))

(** val qeq_bool : q -> q -> bool **)

let qeq_bool x y =
  zeq_bool (Z.mul x.qnum (Zpos y.qden)) (Z.mul y.qnum (Zpos x.qden))

(** val qlt_le_dec : q -> q -> bool **)

let qlt_le_dec x y =
  z_lt_le_dec (Z.mul x.qnum (Zpos y.qden)) (Z.mul y.qnum (Zpos x.qden))

(** val qred : q -> q **)

let qred q0 =
  let { qnum = q1; qden = q2 } = q0 in
  let (r1, r2) = snd (Z.ggcd q1 (Zpos q2)) in
  { qnum = r1; qden = (Z.to_pos r2) }

type err =
| EoNError
| ZeroDivision
| IndexErr
| KeyErr
| TypeErr
| NameErr
| ValueErr
| PyException
| OutOfDraws
| OutOfFuel

type 'a result =
| Ok of 'a
| Err of err

(** val rbind : 'a1 result -> ('a1 -> 'a2 result) -> 'a2 result **)

let rbind r f =
  match r with
  | Ok a -> f a
  | Err e -> Err e

(** val qleb : q -> q -> bool **)

let qleb a b =
  if qlt_le_dec b a then false else true

(** val qeqb : q -> q -> bool **)

let qeqb =
  qeq_bool

(** val sumZ : z list -> z **)

let sumZ l =
  fold_right Z.add Z0 l

type node = n

(** val mem : node -> node list -> bool **)

let mem x l =
  existsb (N.eqb x) l

(** val stS : n **)

let stS =
  N0

(** val stI : n **)

let stI =
  Npos XH

(** val stR : n **)

let stR =
  Npos (XO XH)

(** val fupdN : (node -> 'a1) -> node -> 'a1 -> node -> 'a1 **)

let fupdN f k v x =
  if N.eqb x k then v else f x

type row = q * z list

type history = (q * n) list

type fulldata = { fd_hist : (node * history) list;
                  fd_trans : ((q * node option) * node) list }

(** val fd_hist : fulldata -> (node * history) list **)

let fd_hist f =
  f.fd_hist

(** val fd_trans : fulldata -> ((q * node option) * node) list **)

let fd_trans f =
  f.fd_trans

type simout = { so_rows : row list; so_full : fulldata option }

(** val so_rows : simout -> row list **)

let so_rows s =
  s.so_rows

(** val so_full : simout -> fulldata option **)

let so_full s =
  s.so_full

(** val assoc : (node * 'a1) list -> node -> 'a1 option **)

let rec assoc l u =
  match l with
  | [] -> None
  | p :: t -> let (k, v) = p in if N.eqb k u then Some v else assoc t u

(** val hupd : (node * 'a1) list -> node -> 'a1 -> (node * 'a1) list **)

let rec hupd l u v =
  match l with
  | [] -> (u, v) :: []
  | p :: t ->
    let (k, x) = p in
    if N.eqb k u then (k, v) :: t else (k, x) :: (hupd t u v)

type inv = { iv_nodes : node list; iv_hist : (node * history) list;
             iv_default : history option; iv_ps : n list option }

(** val hist_of : inv -> node -> history result **)

let hist_of iv u =
  match assoc iv.iv_hist u with
  | Some h -> Ok h
  | None -> (match iv.iv_default with
             | Some h -> Ok h
             | None -> Err KeyErr)

(** val possible_statuses : inv -> n list result **)

let possible_statuses iv =
  match iv.iv_ps with
  | Some ps -> Ok ps
  | None -> (match iv.iv_hist with
             | [] -> Ok []
             | _ :: _ -> Err TypeErr)

type dent = (n * q) * z

(** val de_s : dent -> n **)

let de_s e =
  fst (fst e)

(** val de_t : dent -> q **)

let de_t e =
  snd (fst e)

(** val de_d : dent -> z **)

let de_d =
  snd

(** val moves : n list -> n -> history -> dent list result **)

let rec moves ps prev = function
| [] -> Ok []
| p :: rest ->
  let (t, s) = p in
  if mem s ps
  then rbind (moves ps s rest) (fun l -> Ok (((s, t), (Zpos XH)) :: (((prev,
         t), (Zneg XH)) :: l)))
  else Err KeyErr

(** val node_entries : n list -> history -> dent list result **)

let node_entries ps = function
| [] -> Err IndexErr
| p :: rest ->
  let (t0, s0) = p in
  if mem s0 ps
  then rbind (moves ps s0 rest) (fun l -> Ok (((s0, t0), (Zpos XH)) :: l))
  else Ok []

(** val all_entries : inv -> n list -> node list -> dent list result **)

let rec all_entries iv ps = function
| [] -> Ok []
| u :: t ->
  rbind (hist_of iv u) (fun h ->
    rbind (node_entries ps h) (fun e ->
      rbind (all_entries iv ps t) (fun r -> Ok (app e r))))

(** val delta : dent list -> n -> q -> z **)

let delta es s t =
  sumZ
    (map (fun e ->
      if (&&) (N.eqb s (de_s e)) (qeqb t (de_t e)) then de_d e else Z0) es)

(** val tinsert : q -> q list -> q list **)

let rec tinsert t l = match l with
| [] -> t :: []
| h :: r ->
  (match qcompare t h with
   | Eq -> l
   | Lt -> t :: l
   | Gt -> h :: (tinsert t r))

(** val times_of : dent list -> q list **)

let times_of es =
  fold_right tinsert [] (map de_t es)

(** val running : dent list -> n list -> z list -> q list -> row list **)

let rec running es ps prev = function
| [] -> []
| t :: r ->
  let cur =
    map (fun sp -> Z.add (snd sp) (delta es (fst sp) t)) (combine ps prev)
  in
  (t, cur) :: (running es ps cur r)

(** val rows_of : dent list -> n list -> row list result **)

let rows_of es ps =
  match times_of es with
  | [] -> Err IndexErr
  | t0 :: r ->
    let first = map (fun s -> delta es s t0) ps in
    Ok ((t0, first) :: (running es ps first r))

(** val summary : inv -> node list option -> row list result **)

let summary iv nodelist =
  rbind (possible_statuses iv) (fun ps ->
    let nl = match nodelist with
             | Some l -> l
             | None -> iv.iv_nodes in
    rbind (all_entries iv ps nl) (fun es -> rows_of es ps))

(** val iv_t : inv -> q list result **)

let iv_t iv =
  rbind (summary iv None) (fun rows -> Ok (map fst rows))

(** val index_of : n -> n list -> nat option **)

let rec index_of s = function
| [] -> None
| x :: t ->
  if N.eqb x s then Some O else option_map (fun x0 -> S x0) (index_of s t)

(** val column : inv -> n -> z list result **)

let column iv s =
  rbind (summary iv None) (fun rows ->
    rbind (possible_statuses iv) (fun ps ->
      match index_of s ps with
      | Some i -> Ok (map (fun r -> nth i (snd r) Z0) rows)
      | None -> Err EoNError))

(** val iv_S : inv -> z list result **)

let iv_S iv =
  column iv stS

(** val iv_I : inv -> z list result **)

let iv_I iv =
  column iv stI

(** val iv_R : inv -> z list result **)

let iv_R iv =
  column iv stR

(** val status_at : history -> q -> n result **)

let status_at h t =
  match length (filter (fun e -> qleb (fst e) t) h) with
  | O -> (match rev h with
          | [] -> Err IndexErr
          | e :: _ -> Ok (snd e))
  | S k ->
    (match nth_error h k with
     | Some e -> Ok (snd e)
     | None -> Err IndexErr)

(** val node_status : inv -> node -> q -> n result **)

let node_status iv u t =
  rbind (hist_of iv u) (fun h -> status_at h t)

(** val statuses_of : inv -> node list -> q -> (node * n) list result **)

let rec statuses_of iv l t =
  match l with
  | [] -> Ok []
  | u :: r ->
    rbind (node_status iv u t) (fun s ->
      rbind (statuses_of iv r t) (fun m -> Ok (hupd m u s)))

(** val get_statuses :
    inv -> node list option -> q option -> (node * n) list result **)

let get_statuses iv nodelist time =
  let nl = match nodelist with
           | Some l -> l
           | None -> iv.iv_nodes in
  (match time with
   | Some t -> statuses_of iv nl t
   | None ->
     rbind (iv_t iv) (fun ts ->
       match ts with
       | [] -> Err IndexErr
       | t0 :: _ -> statuses_of iv nl t0))

(** val hget : q -> (node * history) list -> node -> history **)

let hget tmin l u =
  match assoc l u with
  | Some h -> h
  | None -> (tmin, stS) :: []

(** val tr_step :
    q -> n -> (node * history) list -> (node * q) -> (node * history) list **)

let tr_step tmin st l nt =
  let base = if qeqb (snd nt) tmin then [] else hget tmin l (fst nt) in
  hupd l (fst nt) (app base (((snd nt), st) :: []))

(** val transform_SIR :
    q -> (node * q) list -> (node * q) list -> (node * history) list **)

let transform_SIR tmin inf rec0 =
  fold_left (tr_step tmin stR) rec0 (fold_left (tr_step tmin stI) inf [])

(** val sis_hist : q -> q list -> q list -> history -> history **)

let rec sis_hist tmin its rts h =
  match its with
  | [] -> h
  | t :: its' ->
    let h1 = app (if qeqb t tmin then [] else h) ((t, stI) :: []) in
    (match rts with
     | [] -> sis_hist tmin its' [] h1
     | r :: rts' -> sis_hist tmin its' rts' (app h1 ((r, stS) :: [])))

(** val transform_SIS :
    q -> (node * q list) list -> (node * q list) list -> (node * history) list **)

let transform_SIS tmin inf rec0 =
  fold_left (fun l nt ->
    match snd nt with
    | [] -> l
    | y :: l0 ->
      let rts = match assoc rec0 (fst nt) with
                | Some r -> r
                | None -> [] in
      hupd l (fst nt) (sis_hist tmin (y :: l0) rts (hget tmin l (fst nt))))
    inf []

(** val investigation_SIR :
    node list -> q -> (node * q) list -> (node * q) list -> inv **)

let investigation_SIR nodes tmin inf rec0 =
  { iv_nodes = nodes; iv_hist = (transform_SIR tmin inf rec0); iv_default =
    (Some ((tmin, stS) :: [])); iv_ps = (Some (stS :: (stI :: (stR :: [])))) }

(** val investigation_SIS :
    node list -> q -> (node * q list) list -> (node * q list) list -> inv **)

let investigation_SIS nodes tmin inf rec0 =
  { iv_nodes = nodes; iv_hist = (transform_SIS tmin inf rec0); iv_default =
    (Some ((tmin, stS) :: [])); iv_ps = (Some (stS :: (stI :: []))) }

(** val sortedb : history -> bool **)

let rec sortedb = function
| [] -> true
| a :: r ->
  (match r with
   | [] -> true
   | b :: _ -> (&&) (qleb (fst a) (fst b)) (sortedb r))

(** val move_ok : (n * n) list -> n -> n -> bool **)

let move_ok mv a b =
  existsb (fun m -> (&&) (N.eqb (fst m) a) (N.eqb (snd m) b)) mv

(** val legalb : (n * n) list -> history -> bool **)

let rec legalb mv = function
| [] -> true
| a :: r ->
  (match r with
   | [] -> true
   | b :: _ -> (&&) (move_ok mv (snd a) (snd b)) (legalb mv r))

(** val wf_histb : n list -> q -> history -> bool **)

let wf_histb ps tmin h = match h with
| [] -> false
| e :: _ ->
  (&&) ((&&) (qeqb (fst e) tmin) (sortedb h))
    (forallb (fun x -> mem (snd x) ps) h)

(** val good_histb : n list -> (n * n) list -> q -> history -> bool **)

let good_histb ps mv tmin h =
  (&&) (wf_histb ps tmin h) (legalb mv h)

(** val step_at : row list -> q -> z list option -> z list option **)

let rec step_at rows t cur =
  match rows with
  | [] -> cur
  | r0 :: r ->
    let (t', cs) = r0 in
    if qleb t' t then step_at r t (Some cs) else step_at r t cur

(** val zlist_eqb : z list -> z list -> bool **)

let rec zlist_eqb a b =
  match a with
  | [] -> (match b with
           | [] -> true
           | _ :: _ -> false)
  | x :: a' ->
    (match b with
     | [] -> false
     | y :: b' -> (&&) (Z.eqb x y) (zlist_eqb a' b'))

(** val opt_eqb : z list option -> z list option -> bool **)

let opt_eqb a b =
  match a with
  | Some x -> (match b with
               | Some y -> zlist_eqb x y
               | None -> false)
  | None -> (match b with
             | Some _ -> false
             | None -> true)

type verdict =
| VOk
| VBadHistory of node
| VBadSummary of q
| VErr of err

(** val first_bad_hist :
    inv -> n list -> (n * n) list -> q -> node list -> node option **)

let rec first_bad_hist iv ps mv tmin = function
| [] -> None
| u :: r ->
  (match hist_of iv u with
   | Ok h ->
     if good_histb ps mv tmin h
     then first_bad_hist iv ps mv tmin r
     else Some u
   | Err _ -> Some u)

(** val first_diff : row list -> row list -> q option **)

let first_diff a b =
  find (fun t -> negb (opt_eqb (step_at a t None) (step_at b t None)))
    (app (map fst a) (map fst b))

(** val consistent : inv -> row list -> q -> (n * n) list -> verdict **)

let consistent iv arrays tmin mv =
  match possible_statuses iv with
  | Ok ps ->
    (match first_bad_hist iv ps mv tmin iv.iv_nodes with
     | Some u -> VBadHistory u
     | None ->
       (match summary iv None with
        | Ok rows ->
          (match first_diff rows arrays with
           | Some t -> VBadSummary t
           | None -> VOk)
        | Err e -> VErr e))
  | Err e -> VErr e

(** val consistent_b : inv -> row list -> q -> (n * n) list -> bool **)

let consistent_b iv arrays tmin mv =
  match consistent iv arrays tmin mv with
  | VOk -> true
  | _ -> false

type event = (q * node) * n

(** val ev_t : event -> q **)

let ev_t e =
  fst (fst e)

(** val ev_u : event -> node **)

let ev_u e =
  snd (fst e)

(** val ev_s : event -> n **)

let ev_s =
  snd

(** val project : q -> (node -> n) -> event list -> node -> history **)

let project tmin init log u =
  (tmin,
    (init u)) :: (map (fun e -> ((ev_t e), (ev_s e)))
                   (filter (fun e -> N.eqb (ev_u e) u) log))

(** val count_status : node list -> (node -> n) -> n -> z **)

let count_status nodes st s =
  Z.of_nat (length (filter (fun u -> N.eqb (st u) s) nodes))

(** val log_rows :
    node list -> n list -> (node -> n) -> event list -> row list **)

let rec log_rows nodes ps st = function
| [] -> []
| e :: r ->
  let st' = fupdN st (ev_u e) (ev_s e) in
  ((ev_t e), (map (count_status nodes st') ps)) :: (log_rows nodes ps st' r)

(** val log_arrays :
    node list -> n list -> q -> (node -> n) -> event list -> row list **)

let log_arrays nodes ps tmin init log =
  (tmin, (map (count_status nodes init) ps)) :: (log_rows nodes ps init log)

(** val log_inv :
    node list -> n list -> q -> (node -> n) -> event list -> inv **)

let log_inv nodes ps tmin init log =
  { iv_nodes = nodes; iv_hist =
    (map (fun u -> (u, (project tmin init log u))) nodes); iv_default = None;
    iv_ps = (Some ps) }
