
type nat =
| O
| S of nat

val fst : ('a1 * 'a2) -> 'a1

val snd : ('a1 * 'a2) -> 'a2

type comparison =
| Eq
| Lt
| Gt

val compOpp : comparison -> comparison

val add : nat -> nat -> nat

type positive =
| XI of positive
| XO of positive
| XH

type n =
| N0
| Npos of positive

type z =
| Z0
| Zpos of positive
| Zneg of positive

module Pos :
 sig
  type mask =
  | IsNul
  | IsPos of positive
  | IsNeg
 end

module Coq_Pos :
 sig
  val succ : positive -> positive

  val add : positive -> positive -> positive

  val add_carry : positive -> positive -> positive

  val pred_double : positive -> positive

  type mask = Pos.mask =
  | IsNul
  | IsPos of positive
  | IsNeg

  val succ_double_mask : mask -> mask

  val double_mask : mask -> mask

  val double_pred_mask : positive -> mask

  val sub_mask : positive -> positive -> mask

  val sub_mask_carry : positive -> positive -> mask

  val sub : positive -> positive -> positive

  val mul : positive -> positive -> positive

  val size_nat : positive -> nat

  val compare_cont : comparison -> positive -> positive -> comparison

  val compare : positive -> positive -> comparison

  val ggcdn : nat -> positive -> positive -> positive * (positive * positive)

  val ggcd : positive -> positive -> positive * (positive * positive)

  val of_succ_nat : nat -> positive
 end

module Z :
 sig
  val double : z -> z

  val succ_double : z -> z

  val pred_double : z -> z

  val pos_sub : positive -> positive -> z

  val add : z -> z -> z

  val opp : z -> z

  val sub : z -> z -> z

  val mul : z -> z -> z

  val compare : z -> z -> comparison

  val sgn : z -> z

  val abs : z -> z

  val of_nat : nat -> z

  val to_pos : z -> positive

  val ggcd : z -> z -> z * (z * z)
 end

val zeq_bool : z -> z -> bool

val pow_pos : ('a1 -> 'a1 -> 'a1) -> 'a1 -> positive -> 'a1

val map : ('a1 -> 'a2) -> 'a1 list -> 'a2 list

val fold_right : ('a2 -> 'a1 -> 'a1) -> 'a1 -> 'a2 list -> 'a1

val seq : nat -> nat -> nat list

type q = { qnum : z; qden : positive }

val inject_Z : z -> q

val qeq_bool : q -> q -> bool

val qplus : q -> q -> q

val qmult : q -> q -> q

val qopp : q -> q

val qminus : q -> q -> q

val qinv : q -> q

val qdiv : q -> q -> q

val qpower_positive : q -> positive -> q

val qpower : q -> z -> q

val qred : q -> q

type err =
| EoNError
| ZeroDivision
| IndexErr
| KeyErr
| TypeErr
| NameErr
| ValueErr
| PyException
| OutOfDraws
| OutOfFuel

type 'a result =
| Ok of 'a
| Err of err

val sumQ : q list -> q

val qnat : nat -> q

val qpow : q -> z -> q

val iter : nat -> ('a1 -> 'a1) -> 'a1 -> 'a1

val peval : q list -> q -> q

val attack_rate_discrete_init : q -> q -> q -> (q -> q) -> (q -> q) -> q

val attack_rate_discrete_step : q -> q -> q -> (q -> q) -> (q -> q) -> q -> q

val attack_rate_discrete_ret : q -> q -> q -> (q -> q) -> (q -> q) -> q -> q

val attack_rate_discrete_loop :
  q -> q -> q -> (q -> q) -> (q -> q) -> nat -> q

val attack_rate_cts_time_init : q -> q -> q -> q -> (q -> q) -> (q -> q) -> q

val attack_rate_cts_time_step :
  q -> q -> q -> q -> (q -> q) -> (q -> q) -> q -> q

val attack_rate_cts_time_ret :
  q -> q -> q -> q -> (q -> q) -> (q -> q) -> q -> q

val attack_rate_cts_time_loop :
  q -> q -> q -> q -> (q -> q) -> (q -> q) -> nat -> q

val eBCM_discrete_init :
  q -> q -> (q -> q) -> q -> q -> q -> (q -> q) -> ((q * q) * q) * q

val eBCM_discrete_step :
  q -> q -> (q -> q) -> q -> q -> q -> (q -> q) -> (((q * q) * q) * q) ->
  ((q * q) * q) * q

val eBCM_discrete_loop :
  q -> q -> (q -> q) -> q -> q -> q -> (q -> q) -> nat -> ((q * q) * q) * q

type pkdict = (nat * q) list

val psihat_of : pkdict -> (nat -> q) -> q -> q

val psihatP_of : pkdict -> (nat -> q) -> q -> q

val kave_of : pkdict -> q

val epi_prob_discrete : pkdict -> q -> nat -> q

val attack_rate_discrete : pkdict -> q -> q option -> nat -> q

val attack_rate_cts_time : pkdict -> q -> q -> q option -> nat -> q

val ebcm_discrete_row :
  q -> (q -> q) -> (q -> q) -> q -> q -> q -> q -> nat -> ((q * q) * q) * q

val ebcm_discrete_rows :
  q -> (q -> q) -> (q -> q) -> q -> q -> q -> q -> nat -> (((q * q) * q) * q)
  list

val glue_types : n result
