
val negb : bool -> bool

type nat =
| O
| S of nat

val fst : ('a1 * 'a2) -> 'a1

val snd : ('a1 * 'a2) -> 'a2

val length : 'a1 list -> nat

val app : 'a1 list -> 'a1 list -> 'a1 list

type comparison =
| Eq
| Lt
| Gt

val compOpp : comparison -> comparison

val add : nat -> nat -> nat

type positive =
| XI of positive
| XO of positive
| XH

type n =
| N0
| Npos of positive

type z =
| Z0
| Zpos of positive
| Zneg of positive

module Nat :
 sig
  val pred : nat -> nat

  val eqb : nat -> nat -> bool

  val leb : nat -> nat -> bool

  val ltb : nat -> nat -> bool
 end

module Pos :
 sig
  type mask =
  | IsNul
  | IsPos of positive
  | IsNeg
 end

module Coq_Pos :
 sig
  val succ : positive -> positive

  val add : positive -> positive -> positive

  val add_carry : positive -> positive -> positive

  val pred_double : positive -> positive

  type mask = Pos.mask =
  | IsNul
  | IsPos of positive
  | IsNeg

  val succ_double_mask : mask -> mask

  val double_mask : mask -> mask

  val double_pred_mask : positive -> mask

  val sub_mask : positive -> positive -> mask

  val sub_mask_carry : positive -> positive -> mask

  val sub : positive -> positive -> positive

  val mul : positive -> positive -> positive

  val size_nat : positive -> nat

  val compare_cont : comparison -> positive -> positive -> comparison

  val compare : positive -> positive -> comparison

  val eqb : positive -> positive -> bool

  val ggcdn : nat -> positive -> positive -> positive * (positive * positive)

  val ggcd : positive -> positive -> positive * (positive * positive)

  val iter_op : ('a1 -> 'a1 -> 'a1) -> positive -> 'a1 -> 'a1

  val to_nat : positive -> nat

  val of_succ_nat : nat -> positive
 end

module N :
 sig
  val compare : n -> n -> comparison

  val eqb : n -> n -> bool

  val ltb : n -> n -> bool
 end

module Z :
 sig
  val double : z -> z

  val succ_double : z -> z

  val pred_double : z -> z

  val pos_sub : positive -> positive -> z

  val add : z -> z -> z

  val opp : z -> z

  val sub : z -> z -> z

  val mul : z -> z -> z

  val compare : z -> z -> comparison

  val sgn : z -> z

  val leb : z -> z -> bool

  val ltb : z -> z -> bool

  val eqb : z -> z -> bool

  val abs : z -> z

  val to_nat : z -> nat

  val of_nat : nat -> z

  val to_pos : z -> positive

  val pos_div_eucl : positive -> z -> z * z

  val div_eucl : z -> z -> z * z

  val div : z -> z -> z

  val ggcd : z -> z -> z * (z * z)
 end

val z_lt_dec : z -> z -> bool

val z_lt_ge_dec : z -> z -> bool

val z_lt_le_dec : z -> z -> bool

val zeq_bool : z -> z -> bool

val nth_error : 'a1 list -> nat -> 'a1 option

val rev : 'a1 list -> 'a1 list

val map : ('a1 -> 'a2) -> 'a1 list -> 'a2 list

val flat_map : ('a1 -> 'a2 list) -> 'a1 list -> 'a2 list

val fold_left : ('a1 -> 'a2 -> 'a1) -> 'a2 list -> 'a1 -> 'a1

val fold_right : ('a2 -> 'a1 -> 'a1) -> 'a1 -> 'a2 list -> 'a1

val existsb : ('a1 -> bool) -> 'a1 list -> bool

val forallb : ('a1 -> bool) -> 'a1 list -> bool

val filter : ('a1 -> bool) -> 'a1 list -> 'a1 list

val combine : 'a1 list -> 'a2 list -> ('a1 * 'a2) list

val firstn : nat -> 'a1 list -> 'a1 list

val skipn : nat -> 'a1 list -> 'a1 list

type q = { qnum : z; qden : positive }

val inject_Z : z -> q

val qeq_bool : q -> q -> bool

val qplus : q -> q -> q

val qmult : q -> q -> q

val qopp : q -> q

val qminus : q -> q -> q

val qinv : q -> q

val qdiv : q -> q -> q

val qlt_le_dec : q -> q -> bool

val qred : q -> q

type err =
| EoNError
| ZeroDivision
| IndexErr
| KeyErr
| TypeErr
| NameErr
| ValueErr
| PyException
| OutOfDraws
| OutOfFuel

type 'a result =
| Ok of 'a
| Err of err

val rbind : 'a1 result -> ('a1 -> 'a2 result) -> 'a2 result

type xtime = q option

val xlt : q -> xtime -> bool

val qltb : q -> q -> bool

val qeqb : q -> q -> bool

val sumQ : q list -> q

val qnat : nat -> q

type key = n list

val keqb : key -> key -> bool

type 'a samp =
| Ret of 'a
| Fail of err
| Expo of q * (q -> 'a samp)
| Flip of q * 'a samp * 'a samp
| Casc of q list * (nat -> 'a samp)
| Choose of bool * (key * q) list * (key -> 'a samp)
| Unif of key list * (key -> 'a samp)
| Sample of key list * nat * (key list -> 'a samp)

val bind : 'a1 samp -> ('a1 -> 'a2 samp) -> 'a2 samp

type call =
| CExpo of q
| CFlip of q
| CCasc of q list
| CPick of key list
| CAcc of q
| CSample of key list * nat

val rank : q -> nat

val casc_index : q list -> q -> nat -> nat

val choose_exec :
  bool -> (key * q) list -> q list -> call list -> (key result * call
  list) * q list

val rotate : nat -> 'a1 list -> 'a1 list

val unit_draw : q -> bool

val exec : 'a1 samp -> q list -> call list -> 'a1 result * call list

type node = n

type graph = { gnodes : node list; gadj : (node -> node list);
               gpred : (node -> node list); gdirected : bool;
               ew : (node -> node -> q); nw : (node -> q); ewt : bool;
               nwt : bool }

val fupdN : (node -> 'a1) -> node -> 'a1 -> node -> 'a1

type row = q * z list

type history = (q * n) list

type fulldata = { fd_hist : (node * history) list;
                  fd_trans : ((q * node option) * node) list }

type simout = { so_rows : row list; so_full : fulldata option }

val knode : node -> key

val kpair : node -> node -> key

val kltb : key -> key -> bool

val kinsert : (key * 'a1) -> (key * 'a1) list -> (key * 'a1) list

val ksort : (key * 'a1) list -> (key * 'a1) list

val fupd : ('a1 -> 'a1 -> bool) -> ('a1 -> 'a2) -> 'a1 -> 'a2 -> 'a1 -> 'a2

type 'k ld = { weighted : bool; items : 'k list; pos : ('k -> nat option);
               wt : ('k -> q option); maxw : q; maxc : z; total : q }

val ld_empty : bool -> 'a1 ld

val contains : 'a1 ld -> 'a1 -> bool

val wread : 'a1 ld -> 'a1 -> q

val set_nth : 'a1 list -> nat -> 'a1 -> 'a1 list

val qmax : q -> q -> q

val list_max : q list -> q

val count_eq : q -> q list -> z

val recompute_max : 'a1 ld -> 'a1 list -> ('a1 -> q option) -> q * z

val ld_update :
  ('a1 -> 'a1 -> bool) -> 'a1 ld -> 'a1 -> q option -> 'a1 ld result

val ld_remove : ('a1 -> 'a1 -> bool) -> 'a1 ld -> 'a1 -> 'a1 ld result

val ld_total_weight : 'a1 ld -> q

type kld = key ld

val kl_update : kld -> key -> q option -> kld result

val kl_remove : kld -> key -> kld result

val kl_empty : bool -> kld

val kl_cands : kld -> (key * q) list

val hd_counts : row list -> z list

val keynode : key -> node result

val keypair : key -> (node * node) result

val node_events : node -> ((q * node) * n) list -> (q * n) list

type tab = (key * q) list

val tlook : tab -> key -> q option

val kswap : key -> key

type wsrc =
| WNone
| WLabel of tab
| WFun of (key -> q)
| WBoth

type trans = { tr_from : key; tr_to : key; tr_rate : q; tr_w : wsrc }

type slot = { sl_tr : trans; sl_pot : kld; sl_gw : tab option }

val sort_trans : bool -> trans list -> trans list

val gpairs : graph -> key list

val setup_spont : graph -> trans -> slot result

val hd_status : key -> n

val snd_status : key -> n

val setup_induced : graph -> trans -> slot result

val rmap : ('a1 -> 'a2 result) -> 'a1 list -> 'a2 list result

val gw_get : tab option -> key -> q option result

val add_actor : key -> slot -> slot result

val rem_actor : key -> slot -> slot result

val from_is : slot -> key -> bool

val when0 : bool -> (slot -> slot result) -> slot -> slot result

val init_node :
  graph -> (node -> n) -> node -> (slot list * slot list) -> (slot
  list * slot list) result

val init_all :
  graph -> (node -> n) -> slot list -> slot list -> (slot list * slot list)
  result

type sst = { s_stat : (node -> n); s_sp : slot list; s_in : slot list;
             s_rows : row list; s_elog : ((q * node) * n) list;
             s_tlog : ((q * node option) * node) list }

val slot_rate : slot -> q

val total_rate : sst -> q

val tiny : q

val refresh : slot -> slot result

val gw_set : slot -> tab -> slot

val fill_fwd : node -> node -> slot -> slot result

val fill_undirected : node -> node -> slot -> slot result

val fill_pred : node -> node -> slot -> slot result

val upd_spont : node -> n -> n -> slot -> slot result

val upd_succ : (node -> n) -> node -> n -> n -> node -> slot -> slot result

val upd_pred : (node -> n) -> node -> n -> n -> node -> slot -> slot result

val upd_nbr : (node -> n) -> node -> n -> n -> node -> slot -> slot result

val rfold : (node -> slot -> slot result) -> node list -> slot -> slot result

val upd_induced :
  graph -> (node -> n) -> node -> n -> n -> slot -> slot result

val b2z : bool -> z

val next_counts : n list -> z list -> n -> n -> z list

val apply_event :
  graph -> n list -> bool -> q -> bool -> trans -> key -> sst -> sst result

val si_constructor : n list -> (node * history) list -> unit result

val histories : graph -> (node -> n) -> q -> sst -> (node * history) list

val finish :
  graph -> (node -> n) -> n list -> q -> bool -> sst -> simout result

val select : sst -> (nat * key) samp

val fire : graph -> n list -> bool -> q -> sst -> (nat * key) -> sst result

val lifts : 'a1 result -> 'a1 samp

val jump : graph -> n list -> bool -> q -> sst -> sst samp

val loop :
  graph -> (node -> n) -> n list -> q -> xtime -> bool -> nat -> q -> sst ->
  simout samp

val count_status : graph -> (node -> n) -> n -> z

val simple :
  graph -> bool -> trans list -> trans list -> (node -> n) -> n list -> q ->
  xtime -> bool -> nat -> simout samp

val run_simple :
  graph -> bool -> trans list -> trans list -> (node -> n) -> n list -> q ->
  xtime -> bool -> nat -> q list -> simout result * call list
