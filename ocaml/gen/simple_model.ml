
(** val negb : bool -> bool **)

let negb = function
| true -> false
| false -> true

type nat =
| O
| S of nat

(** val fst : ('a1 * 'a2) -> 'a1 **)

let fst = function
| (x, _) -> x

(** val snd : ('a1 * 'a2) -> 'a2 **)

let snd = function
| (_, y) -> y

(** val length : 'a1 list -> nat **)

let rec length = function
| [] -> O
| _ :: l' -> S (length l')

(** val app : 'a1 list -> 'a1 list -> 'a1 list **)

let rec app l m =
  match l with
  | [] -> m
  | a :: l1 -> a :: (app l1 m)

type comparison =
| Eq
| Lt
| Gt

(** val compOpp : comparison -> comparison **)

let compOpp = function
| Eq -> Eq
| Lt -> Gt
| Gt -> Lt

module Coq__1 = struct
 (** val add : nat -> nat -> nat **)
 let rec add n0 m =
   match n0 with
   | O -> m
   | S p -> S (add p m)
end
include Coq__1

type positive =
| XI of positive
| XO of positive
| XH

type n =
| N0
| Npos of positive

type z =
| Z0
| Zpos of positive
| Zneg of positive

module Nat =
 struct
  (** val pred : nat -> nat **)

  let pred n0 = match n0 with
  | O -> n0
  | S u -> u

  (** val eqb : nat -> nat -> bool **)

  let rec eqb n0 m =
    match n0 with
    | O -> (match m with
            | O -> true
            | S _ -> false)
    | S n' -> (match m with
               | O -> false
               | S m' -> eqb n' m')

  (** val leb : nat -> nat -> bool **)

  let rec leb n0 m =
    match n0 with
    | O -> true
    | S n' -> (match m with
               | O -> false
               | S m' -> leb n' m')

  (** val ltb : nat -> nat -> bool **)

  let ltb n0 m =
    leb (S n0) m
 end

module Pos =
 struct
  type mask =
  | IsNul
  | IsPos of positive
  | IsNeg
 end

module Coq_Pos =
 struct
  (** val succ : positive -> positive **)

  let rec succ = function
  | XI p -> XO (succ p)
  | XO p -> XI p
  | XH -> XO XH

  (** val add : positive -> positive -> positive **)

  let rec add x y =
    match x with
    | XI p ->
      (match y with
       | XI q0 -> XO (add_carry p q0)
       | XO q0 -> XI (add p q0)
       | XH -> XO (succ p))
    | XO p ->
      (match y with
       | XI q0 -> XI (add p q0)
       | XO q0 -> XO (add p q0)
       | XH -> XI p)
    | XH -> (match y with
             | XI q0 -> XO (succ q0)
             | XO q0 -> XI q0
             | XH -> XO XH)

  (** val add_carry : positive -> positive -> positive **)

  and add_carry x y =
    match x with
    | XI p ->
      (match y with
       | XI q0 -> XI (add_carry p q0)
       | XO q0 -> XO (add_carry p q0)
       | XH -> XI (succ p))
    | XO p ->
      (match y with
       | XI q0 -> XO (add_carry p q0)
       | XO q0 -> XI (add p q0)
       | XH -> XO (succ p))
    | XH ->
      (match y with
       | XI q0 -> XI (succ q0)
       | XO q0 -> XO (succ q0)
       | XH -> XI XH)

  (** val pred_double : positive -> positive **)

  let rec pred_double = function
  | XI p -> XI (XO p)
  | XO p -> XI (pred_double p)
  | XH -> XH

  type mask = Pos.mask =
  | IsNul
  | IsPos of positive
  | IsNeg

  (** val succ_double_mask : mask -> mask **)

  let succ_double_mask = function
  | IsNul -> IsPos XH
  | IsPos p -> IsPos (XI p)
  | IsNeg -> IsNeg

  (** val double_mask : mask -> mask **)

  let double_mask = function
  | IsPos p -> IsPos (XO p)
  | x0 -> x0

  (** val double_pred_mask : positive -> mask **)

  let double_pred_mask = function
  | XI p -> IsPos (XO (XO p))
  | XO p -> IsPos (XO (pred_double p))
  | XH -> IsNul

  (** val sub_mask : positive -> positive -> mask **)

  let rec sub_mask x y =
    match x with
    | XI p ->
      (match y with
       | XI q0 -> double_mask (sub_mask p q0)
       | XO q0 -> succ_double_mask (sub_mask p q0)
       | XH -> IsPos (XO p))
    | XO p ->
      (match y with
       | XI q0 -> succ_double_mask (sub_mask_carry p q0)
       | XO q0 -> double_mask (sub_mask p q0)
       | XH -> IsPos (pred_double p))
    | XH -> (match y with
             | XH -> IsNul
             | _ -> IsNeg)

  (** val sub_mask_carry : positive -> positive -> mask **)

  and sub_mask_carry x y =
    match x with
    | XI p ->
      (match y with
       | XI q0 -> succ_double_mask (sub_mask_carry p q0)
       | XO q0 -> double_mask (sub_mask p q0)
       | XH -> IsPos (pred_double p))
    | XO p ->
      (match y with
       | XI q0 -> double_mask (sub_mask_carry p q0)
       | XO q0 -> succ_double_mask (sub_mask_carry p q0)
       | XH -> double_pred_mask p)
    | XH -> IsNeg

  (** val sub : positive -> positive -> positive **)

  let sub x y =
    match sub_mask x y with
    | IsPos z0 -> z0
    | _ -> XH

  (** val mul : positive -> positive -> positive **)

  let rec mul x y =
    match x with
    | XI p -> add y (XO (mul p y))
    | XO p -> XO (mul p y)
    | XH -> y

  (** val size_nat : positive -> nat **)

  let rec size_nat = function
  | XI p0 -> S (size_nat p0)
  | XO p0 -> S (size_nat p0)
  | XH -> S O

  (** val compare_cont : comparison -> positive -> positive -> comparison **)

  let rec compare_cont r x y =
    match x with
    | XI p ->
      (match y with
       | XI q0 -> compare_cont r p q0
       | XO q0 -> compare_cont Gt p q0
       | XH -> Gt)
    | XO p ->
      (match y with
       | XI q0 -> compare_cont Lt p q0
       | XO q0 -> compare_cont r p q0
       | XH -> Gt)
    | XH -> (match y with
             | XH -> r
             | _ -> Lt)

  (** val compare : positive -> positive -> comparison **)

  let compare =
    compare_cont Eq

  (** val eqb : positive -> positive -> bool **)

  let rec eqb p q0 =
    match p with
    | XI p0 -> (match q0 with
                | XI q1 -> eqb p0 q1
                | _ -> false)
    | XO p0 -> (match q0 with
                | XO q1 -> eqb p0 q1
                | _ -> false)
    | XH -> (match q0 with
             | XH -> true
             | _ -> false)

  (** val ggcdn :
      nat -> positive -> positive -> positive * (positive * positive) **)

  let rec ggcdn n0 a b =
    match n0 with
    | O -> (XH, (a, b))
    | S n1 ->
      (match a with
       | XI a' ->
         (match b with
          | XI b' ->
            (match compare a' b' with
             | Eq -> (a, (XH, XH))
             | Lt ->
               let (g, p) = ggcdn n1 (sub b' a') a in
               let (ba, aa) = p in (g, (aa, (add aa (XO ba))))
             | Gt ->
               let (g, p) = ggcdn n1 (sub a' b') b in
               let (ab, bb) = p in (g, ((add bb (XO ab)), bb)))
          | XO b0 ->
            let (g, p) = ggcdn n1 a b0 in
            let (aa, bb) = p in (g, (aa, (XO bb)))
          | XH -> (XH, (a, XH)))
       | XO a0 ->
         (match b with
          | XI _ ->
            let (g, p) = ggcdn n1 a0 b in
            let (aa, bb) = p in (g, ((XO aa), bb))
          | XO b0 -> let (g, p) = ggcdn n1 a0 b0 in ((XO g), p)
          | XH -> (XH, (a, XH)))
       | XH -> (XH, (XH, b)))

  (** val ggcd : positive -> positive -> positive * (positive * positive) **)

  let ggcd a b =
    ggcdn (Coq__1.add (size_nat a) (size_nat b)) a b

  (** val iter_op : ('a1 -> 'a1 -> 'a1) -> positive -> 'a1 -> 'a1 **)

  let rec iter_op op p a =
    match p with
    | XI p0 -> op a (iter_op op p0 (op a a))
    | XO p0 -> iter_op op p0 (op a a)
    | XH -> a

  (** val to_nat : positive -> nat **)

  let to_nat x =
    iter_op Coq__1.add x (S O)

  (** val of_succ_nat : nat -> positive **)

  let rec of_succ_nat = function
  | O -> XH
  | S x -> succ (of_succ_nat x)
 end

module N =
 struct
  (** val compare : n -> n -> comparison **)

  let compare n0 m =
    match n0 with
    | N0 -> (match m with
             | N0 -> Eq
             | Npos _ -> Lt)
    | Npos n' -> (match m with
                  | N0 -> Gt
                  | Npos m' -> Coq_Pos.compare n' m')

  (** val eqb : n -> n -> bool **)

  let eqb n0 m =
    match n0 with
    | N0 -> (match m with
             | N0 -> true
             | Npos _ -> false)
    | Npos p -> (match m with
                 | N0 -> false
                 | Npos q0 -> Coq_Pos.eqb p q0)

  (** val ltb : n -> n -> bool **)

  let ltb x y =
    match compare x y with
    | Lt -> true
    | _ -> false
 end

module Z =
 struct
  (** val double : z -> z **)

  let double = function
  | Z0 -> Z0
  | Zpos p -> Zpos (XO p)
  | Zneg p -> Zneg (XO p)

  (** val succ_double : z -> z **)

  let succ_double = function
  | Z0 -> Zpos XH
  | Zpos p -> Zpos (XI p)
  | Zneg p -> Zneg (Coq_Pos.pred_double p)

  (** val pred_double : z -> z **)

  let pred_double = function
  | Z0 -> Zneg XH
  | Zpos p -> Zpos (Coq_Pos.pred_double p)
  | Zneg p -> Zneg (XI p)

  (** val pos_sub : positive -> positive -> z **)

  let rec pos_sub x y =
    match x with
    | XI p ->
      (match y with
       | XI q0 -> double (pos_sub p q0)
       | XO q0 -> succ_double (pos_sub p q0)
       | XH -> Zpos (XO p))
    | XO p ->
      (match y with
       | XI q0 -> pred_double (pos_sub p q0)
       | XO q0 -> double (pos_sub p q0)
       | XH -> Zpos (Coq_Pos.pred_double p))
    | XH ->
      (match y with
       | XI q0 -> Zneg (XO q0)
       | XO q0 -> Zneg (Coq_Pos.pred_double q0)
       | XH -> Z0)

  (** val add : z -> z -> z **)

  let add x y =
    match x with
    | Z0 -> y
    | Zpos x' ->
      (match y with
       | Z0 -> x
       | Zpos y' -> Zpos (Coq_Pos.add x' y')
       | Zneg y' -> pos_sub x' y')
    | Zneg x' ->
      (match y with
       | Z0 -> x
       | Zpos y' -> pos_sub y' x'
       | Zneg y' -> Zneg (Coq_Pos.add x' y'))

  (** val opp : z -> z **)

  let opp = function
  | Z0 -> Z0
  | Zpos x0 -> Zneg x0
  | Zneg x0 -> Zpos x0

  (** val sub : z -> z -> z **)

  let sub m n0 =
    add m (opp n0)

  (** val mul : z -> z -> z **)

  let mul x y =
    match x with
    | Z0 -> Z0
    | Zpos x' ->
      (match y with
       | Z0 -> Z0
       | Zpos y' -> Zpos (Coq_Pos.mul x' y')
       | Zneg y' -> Zneg (Coq_Pos.mul x' y'))
    | Zneg x' ->
      (match y with
       | Z0 -> Z0
       | Zpos y' -> Zneg (Coq_Pos.mul x' y')
       | Zneg y' -> Zpos (Coq_Pos.mul x' y'))

  (** val compare : z -> z -> comparison **)

  let compare x y =
    match x with
    | Z0 -> (match y with
             | Z0 -> Eq
             | Zpos _ -> Lt
             | Zneg _ -> Gt)
    | Zpos x' -> (match y with
                  | Zpos y' -> Coq_Pos.compare x' y'
                  | _ -> Gt)
    | Zneg x' ->
      (match y with
       | Zneg y' -> compOpp (Coq_Pos.compare x' y')
       | _ -> Lt)

  (** val sgn : z -> z **)

  let sgn = function
  | Z0 -> Z0
  | Zpos _ -> Zpos XH
  | Zneg _ -> Zneg XH

  (** val leb : z -> z -> bool **)

  let leb x y =
    match compare x y with
    | Gt -> false
    | _ -> true

  (** val ltb : z -> z -> bool **)

  let ltb x y =
    match compare x y with
    | Lt -> true
    | _ -> false

  (** val eqb : z -> z -> bool **)

  let eqb x y =
    match x with
    | Z0 -> (match y with
             | Z0 -> true
             | _ -> false)
    | Zpos p -> (match y with
                 | Zpos q0 -> Coq_Pos.eqb p q0
                 | _ -> false)
    | Zneg p -> (match y with
                 | Zneg q0 -> Coq_Pos.eqb p q0
                 | _ -> false)

  (** val abs : z -> z **)

  let abs = function
  | Zneg p -> Zpos p
  | x -> x

  (** val to_nat : z -> nat **)

  let to_nat = function
  | Zpos p -> Coq_Pos.to_nat p
  | _ -> O

  (** val of_nat : nat -> z **)

  let of_nat = function
  | O -> Z0
  | S n1 -> Zpos (Coq_Pos.of_succ_nat n1)

  (** val to_pos : z -> positive **)

  let to_pos = function
  | Zpos p -> p
  | _ -> XH

  (** val pos_div_eucl : positive -> z -> z * z **)

  let rec pos_div_eucl a b =
    match a with
    | XI a' ->
      let (q0, r) = pos_div_eucl a' b in
      let r' = add (mul (Zpos (XO XH)) r) (Zpos XH) in
      if ltb r' b
      then ((mul (Zpos (XO XH)) q0), r')
      else ((add (mul (Zpos (XO XH)) q0) (Zpos XH)), (sub r' b))
    | XO a' ->
      let (q0, r) = pos_div_eucl a' b in
      let r' = mul (Zpos (XO XH)) r in
      if ltb r' b
      then ((mul (Zpos (XO XH)) q0), r')
      else ((add (mul (Zpos (XO XH)) q0) (Zpos XH)), (sub r' b))
    | XH -> if leb (Zpos (XO XH)) b then (Z0, (Zpos XH)) else ((Zpos XH), Z0)

  (** val div_eucl : z -> z -> z * z **)

  let div_eucl a b =
    match a with
    | Z0 -> (Z0, Z0)
    | Zpos a' ->
      (match b with
       | Z0 -> (Z0, a)
       | Zpos _ -> pos_div_eucl a' b
       | Zneg b' ->
         let (q0, r) = pos_div_eucl a' (Zpos b') in
         (match r with
          | Z0 -> ((opp q0), Z0)
          | _ -> ((opp (add q0 (Zpos XH))), (add b r))))
    | Zneg a' ->
      (match b with
       | Z0 -> (Z0, a)
       | Zpos _ ->
         let (q0, r) = pos_div_eucl a' b in
         (match r with
          | Z0 -> ((opp q0), Z0)
          | _ -> ((opp (add q0 (Zpos XH))), (sub b r)))
       | Zneg b' -> let (q0, r) = pos_div_eucl a' (Zpos b') in (q0, (opp r)))

  (** val div : z -> z -> z **)

  let div a b =
    let (q0, _) = div_eucl a b in q0

  (** val ggcd : z -> z -> z * (z * z) **)

  let ggcd a b =
    match a with
    | Z0 -> ((abs b), (Z0, (sgn b)))
    | Zpos a0 ->
      (match b with
       | Z0 -> ((abs a), ((sgn a), Z0))
       | Zpos b0 ->
         let (g, p) = Coq_Pos.ggcd a0 b0 in
         let (aa, bb) = p in ((Zpos g), ((Zpos aa), (Zpos bb)))
       | Zneg b0 ->
         let (g, p) = Coq_Pos.ggcd a0 b0 in
         let (aa, bb) = p in ((Zpos g), ((Zpos aa), (Zneg bb))))
    | Zneg a0 ->
      (match b with
       | Z0 -> ((abs a), ((sgn a), Z0))
       | Zpos b0 ->
         let (g, p) = Coq_Pos.ggcd a0 b0 in
         let (aa, bb) = p in ((Zpos g), ((Zneg aa), (Zpos bb)))
       | Zneg b0 ->
         let (g, p) = Coq_Pos.ggcd a0 b0 in
         let (aa, bb) = p in ((Zpos g), ((Zneg aa), (Zneg bb))))
 end

(** val z_lt_dec : z -> z -> bool **)

let z_lt_dec x y =
  match Z.compare x y with
  | Lt -> true
  | _ -> false

(** val z_lt_ge_dec : z -> z -> bool **)

let z_lt_ge_dec =
  z_lt_dec

(** val z_lt_le_dec : z -> z -> bool **)

let z_lt_le_dec =
  z_lt_ge_dec

(** val zeq_bool : z -> z -> bool **)

let zeq_bool x y =
  match Z.compare x y with
  | Eq -> true
  | _ -> false

(** val nth_error : 'a1 list -> nat -> 'a1 option **)

let rec nth_error l = function
| O -> (match l with
        | [] -> None
        | x :: _ -> Some x)
| S n1 -> (match l with
           | [] -> None
           | _ :: l0 -> nth_error l0 n1)

(** val rev : 'a1 list -> 'a1 list **)

let rec rev = function
| [] -> []
| x :: l' -> app (rev l') (x :: [])

(** val map : ('a1 -> 'a2) -> 'a1 list -> 'a2 list **)

let rec map f = function
| [] -> []
| a :: t -> (f a) :: (map f t)

(** val flat_map : ('a1 -> 'a2 list) -> 'a1 list -> 'a2 list **)

let rec flat_map f = function
| [] -> []
| x :: t -> app (f x) (flat_map f t)

(** val fold_left : ('a1 -> 'a2 -> 'a1) -> 'a2 list -> 'a1 -> 'a1 **)

let rec fold_left f l a0 =
  match l with
  | [] -> a0
  | b :: t -> fold_left f t (f a0 b)

(** val fold_right : ('a2 -> 'a1 -> 'a1) -> 'a1 -> 'a2 list -> 'a1 **)

let rec fold_right f a0 = function
| [] -> a0
| b :: t -> f b (fold_right f a0 t)

(** val existsb : ('a1 -> bool) -> 'a1 list -> bool **)

let rec existsb f = function
| [] -> false
| a :: l0 -> (||) (f a) (existsb f l0)

(** val forallb : ('a1 -> bool) -> 'a1 list -> bool **)

let rec forallb f = function
| [] -> true
| a :: l0 -> (&&) (f a) (forallb f l0)

(** val filter : ('a1 -> bool) -> 'a1 list -> 'a1 list **)

let rec filter f = function
| [] -> []
| x :: l0 -> if f x then x :: (filter f l0) else filter f l0

(** val combine : 'a1 list -> 'a2 list -> ('a1 * 'a2) list **)

let rec combine l l' =
  match l with
  | [] -> []
  | x :: tl ->
    (match l' with
     | [] -> []
     | y :: tl' -> (x, y) :: (combine tl tl'))

(** val firstn : nat -> 'a1 list -> 'a1 list **)

let rec firstn n0 l =
  match n0 with
  | O -> []
  | S n1 -> (match l with
             | [] -> []
             | a :: l0 -> a :: (firstn n1 l0))

(** val skipn : nat -> 'a1 list -> 'a1 list **)

let rec skipn n0 l =
  match n0 with
  | O -> l
  | S n1 -> (match l with
             | [] -> []
             | _ :: l0 -> skipn n1 l0)

type q = { qnum : z; qden : positive }

(** val inject_Z : z -> q **)

let inject_Z x =
  { qnum = x; qden = XH }

(** val qeq_bool : q -> q -> bool **)

let qeq_bool x y =
  zeq_bool (Z.mul x.qnum (Zpos y.qden)) (Z.mul y.qnum (Zpos x.qden))

(** val qplus : q -> q -> q **)

let qplus x y =
  { qnum = (Z.add (Z.mul x.qnum (Zpos y.qden)) (Z.mul y.qnum (Zpos x.qden)));
    qden = (Coq_Pos.mul x.qden y.qden) }

(** val qmult : q -> q -> q **)

let qmult x y =
  { qnum = (Z.mul x.qnum y.qnum); qden = (Coq_Pos.mul x.qden y.qden) }

(** val qopp : q -> q **)

let qopp x =
  { qnum = (Z.opp x.qnum); qden = x.qden }

(** val qminus : q -> q -> q **)

let qminus x y =
  qplus x (qopp y)

(** val qinv : q -> q **)

let qinv x =
  match x.qnum with
  | Z0 -> { qnum = Z0; qden = XH }
  | Zpos p -> { qnum = (Zpos x.qden); qden = p }
  | Zneg p -> { qnum = (Zneg x.qden); qden = p }

(** val qdiv : q -> q -> q **)

let qdiv x y =
  qmult x (qinv y)

(** val qlt_le_dec : q -> q -> bool **)

let qlt_le_dec x y =
  z_lt_le_dec (Z.mul x.qnum (Zpos y.qden)) (Z.mul y.qnum (Zpos x.qden))

(** val qred : q -> q **)

let qred q0 =
  let { qnum = q1; qden = q2 } = q0 in
  let (r1, r2) = snd (Z.ggcd q1 (Zpos q2)) in
  { qnum = r1; qden = (Z.to_pos r2) }

type err =
| EoNError
| ZeroDivision
| IndexErr
| KeyErr
| TypeErr
| NameErr
| ValueErr
| PyException
| OutOfDraws
| OutOfFuel

type 'a result =
| Ok of 'a
| Err of err

(** val rbind : 'a1 result -> ('a1 -> 'a2 result) -> 'a2 result **)

let rbind r f =
  match r with
  | Ok a -> f a
  | Err e -> Err e

type xtime = q option

(** val xlt : q -> xtime -> bool **)

let xlt a = function
| Some m -> if qlt_le_dec a m then true else false
| None -> true

(** val qltb : q -> q -> bool **)

let qltb a b =
  if qlt_le_dec a b then true else false

(** val qeqb : q -> q -> bool **)

let qeqb =
  qeq_bool

(** val sumQ : q list -> q **)

let sumQ l =
  fold_right qplus { qnum = Z0; qden = XH } l

(** val qnat : nat -> q **)

let qnat n0 =
  inject_Z (Z.of_nat n0)

type key = n list

(** val keqb : key -> key -> bool **)

let rec keqb a b =
  match a with
  | [] -> (match b with
           | [] -> true
           | _ :: _ -> false)
  | x :: a' ->
    (match b with
     | [] -> false
     | y :: b' -> (&&) (N.eqb x y) (keqb a' b'))

type 'a samp =
| Ret of 'a
| Fail of err
| Expo of q * (q -> 'a samp)
| Flip of q * 'a samp * 'a samp
| Casc of q list * (nat -> 'a samp)
| Choose of bool * (key * q) list * (key -> 'a samp)
| Unif of key list * (key -> 'a samp)
| Sample of key list * nat * (key list -> 'a samp)

(** val bind : 'a1 samp -> ('a1 -> 'a2 samp) -> 'a2 samp **)

let rec bind m f =
  match m with
  | Ret a -> f a
  | Fail e -> Fail e
  | Expo (r, k) -> Expo (r, (fun d -> bind (k d) f))
  | Flip (p, kt, kf) -> Flip (p, (bind kt f), (bind kf f))
  | Casc (ps, k) -> Casc (ps, (fun i -> bind (k i) f))
  | Choose (w, c, k) -> Choose (w, c, (fun x -> bind (k x) f))
  | Unif (c, k) -> Unif (c, (fun x -> bind (k x) f))
  | Sample (pop, n0, k) -> Sample (pop, n0, (fun l -> bind (k l) f))

type call =
| CExpo of q
| CFlip of q
| CCasc of q list
| CPick of key list
| CAcc of q
| CSample of key list * nat

(** val rank : q -> nat **)

let rank d =
  Z.to_nat (Z.div d.qnum (Zpos d.qden))

(** val casc_index : q list -> q -> nat -> nat **)

let rec casc_index ps d i =
  match ps with
  | [] -> Nat.pred i
  | p :: ps' ->
    if qltb (qminus d p) { qnum = Z0; qden = XH }
    then i
    else casc_index ps' (qminus d p) (S i)

(** val choose_exec :
    bool -> (key * q) list -> q list -> call list -> (key result * call
    list) * q list **)

let rec choose_exec weighted0 cands ds tr =
  match cands with
  | [] -> (((Err IndexErr), ((CPick []) :: tr)), ds)
  | _ :: _ ->
    (match ds with
     | [] -> (((Err OutOfDraws), tr), [])
     | r :: ds1 ->
       (match nth_error cands (rank r) with
        | Some p ->
          let (c, w) = p in
          let tr1 = (CPick (map fst cands)) :: tr in
          if weighted0
          then (match ds1 with
                | [] -> (((Err OutOfDraws), tr1), [])
                | _ :: ds2 ->
                  if qltb { qnum = Z0; qden = XH } w
                  then (((Ok c), ((CAcc w) :: tr1)), ds2)
                  else choose_exec weighted0 cands ds2 ((CAcc w) :: tr1))
          else (((Ok c), tr1), ds1)
        | None -> (((Err OutOfDraws), tr), ds1)))

(** val rotate : nat -> 'a1 list -> 'a1 list **)

let rotate n0 l =
  app (skipn n0 l) (firstn n0 l)

(** val unit_draw : q -> bool **)

let unit_draw d =
  (&&) (negb (qltb d { qnum = Z0; qden = XH }))
    (qltb d { qnum = (Zpos XH); qden = XH })

(** val exec : 'a1 samp -> q list -> call list -> 'a1 result * call list **)

let rec exec m ds tr =
  match m with
  | Ret a -> ((Ok a), (rev tr))
  | Fail e -> ((Err e), (rev tr))
  | Expo (r, k) ->
    if qeqb r { qnum = Z0; qden = XH }
    then ((Err ZeroDivision), (rev ((CExpo r) :: tr)))
    else (match ds with
          | [] -> ((Err OutOfDraws), (rev tr))
          | d :: ds' ->
            if qltb d { qnum = Z0; qden = XH }
            then ((Err OutOfDraws), (rev tr))
            else exec (k d) ds' ((CExpo r) :: tr))
  | Flip (p, kt, kf) ->
    (match ds with
     | [] -> ((Err OutOfDraws), (rev tr))
     | d :: ds' ->
       if unit_draw d
       then exec (if qltb d p then kt else kf) ds' ((CFlip p) :: tr)
       else ((Err OutOfDraws), (rev tr)))
  | Casc (ps, k) ->
    (match ds with
     | [] -> ((Err OutOfDraws), (rev tr))
     | d :: ds' ->
       if unit_draw d
       then exec (k (casc_index ps d O)) ds' ((CCasc ps) :: tr)
       else ((Err OutOfDraws), (rev tr)))
  | Choose (w, c, k) ->
    let (p, ds') = choose_exec w c ds tr in
    let (r, tr') = p in
    (match r with
     | Ok x -> exec (k x) ds' tr'
     | Err e -> ((Err e), (rev tr')))
  | Unif (c, k) ->
    (match c with
     | [] -> ((Err IndexErr), (rev ((CPick []) :: tr)))
     | _ :: _ ->
       (match ds with
        | [] -> ((Err OutOfDraws), (rev tr))
        | d :: ds' ->
          (match nth_error c (rank d) with
           | Some x -> exec (k x) ds' ((CPick c) :: tr)
           | None -> ((Err OutOfDraws), (rev tr)))))
  | Sample (pop, n0, k) ->
    if Nat.ltb (length pop) n0
    then ((Err ValueErr), (rev ((CSample (pop, n0)) :: tr)))
    else (match ds with
          | [] -> ((Err OutOfDraws), (rev tr))
          | d :: ds' ->
            exec (k (firstn n0 (rotate (rank d) pop))) ds' ((CSample (pop,
              n0)) :: tr))

type node = n

type graph = { gnodes : node list; gadj : (node -> node list);
               gpred : (node -> node list); gdirected : bool;
               ew : (node -> node -> q); nw : (node -> q); ewt : bool;
               nwt : bool }

(** val fupdN : (node -> 'a1) -> node -> 'a1 -> node -> 'a1 **)

let fupdN f k v x =
  if N.eqb x k then v else f x

type row = q * z list

type history = (q * n) list

type fulldata = { fd_hist : (node * history) list;
                  fd_trans : ((q * node option) * node) list }

type simout = { so_rows : row list; so_full : fulldata option }

(** val knode : node -> key **)

let knode u =
  u :: []

(** val kpair : node -> node -> key **)

let kpair u v =
  u :: (v :: [])

(** val kltb : key -> key -> bool **)

let rec kltb a b =
  match a with
  | [] -> (match b with
           | [] -> false
           | _ :: _ -> true)
  | x :: a' ->
    (match b with
     | [] -> false
     | y :: b' ->
       if N.ltb x y then true else if N.ltb y x then false else kltb a' b')

(** val kinsert : (key * 'a1) -> (key * 'a1) list -> (key * 'a1) list **)

let rec kinsert kv l = match l with
| [] -> kv :: []
| h :: t -> if kltb (fst kv) (fst h) then kv :: l else h :: (kinsert kv t)

(** val ksort : (key * 'a1) list -> (key * 'a1) list **)

let ksort l =
  fold_right kinsert [] l

(** val fupd :
    ('a1 -> 'a1 -> bool) -> ('a1 -> 'a2) -> 'a1 -> 'a2 -> 'a1 -> 'a2 **)

let fupd keqb0 f k v x =
  if keqb0 x k then v else f x

type 'k ld = { weighted : bool; items : 'k list; pos : ('k -> nat option);
               wt : ('k -> q option); maxw : q; maxc : z; total : q }

(** val ld_empty : bool -> 'a1 ld **)

let ld_empty w =
  { weighted = w; items = []; pos = (fun _ -> None); wt = (fun _ -> None);
    maxw = { qnum = Z0; qden = XH }; maxc = Z0; total = { qnum = Z0; qden =
    XH } }

(** val contains : 'a1 ld -> 'a1 -> bool **)

let contains s k =
  match s.pos k with
  | Some _ -> true
  | None -> false

(** val wread : 'a1 ld -> 'a1 -> q **)

let wread s k =
  match s.wt k with
  | Some w -> w
  | None -> { qnum = Z0; qden = XH }

(** val set_nth : 'a1 list -> nat -> 'a1 -> 'a1 list **)

let rec set_nth l i x =
  match l with
  | [] -> []
  | h :: t -> (match i with
               | O -> x :: t
               | S j -> h :: (set_nth t j x))

(** val qmax : q -> q -> q **)

let qmax a b =
  if qltb a b then b else a

(** val list_max : q list -> q **)

let list_max = function
| [] -> { qnum = Z0; qden = XH }
| x :: t -> fold_left qmax t x

(** val count_eq : q -> q list -> z **)

let count_eq m l =
  Z.of_nat (length (filter (fun w -> qeqb w m) l))

(** val recompute_max : 'a1 ld -> 'a1 list -> ('a1 -> q option) -> q * z **)

let recompute_max _ its wt' =
  let ws =
    map (fun k ->
      match wt' k with
      | Some w -> w
      | None -> { qnum = Z0; qden = XH }) its
  in
  let m = list_max ws in (m, (count_eq m ws))

(** val ld_update :
    ('a1 -> 'a1 -> bool) -> 'a1 ld -> 'a1 -> q option -> 'a1 ld result **)

let ld_update keqb0 s k = function
| Some d ->
  if negb s.weighted
  then Err TypeErr
  else let w0 = wread s k in
       let w1 = qplus w0 d in
       if (||) (qltb { qnum = Z0; qden = XH } d) (negb (qeqb w0 s.maxw))
       then if qltb s.maxw w1
            then let mc = Zpos XH in
                 let wt' = fupd keqb0 s.wt k (Some w1) in
                 if contains s k
                 then Ok { weighted = s.weighted; items = s.items; pos =
                        s.pos; wt = wt'; maxw = w1; maxc = mc; total =
                        (qplus s.total d) }
                 else Ok { weighted = s.weighted; items =
                        (app s.items (k :: [])); pos =
                        (fupd keqb0 s.pos k (Some (length s.items))); wt =
                        wt'; maxw = w1; maxc = mc; total = (qplus s.total d) }
            else if qeqb w1 s.maxw
                 then let mw = s.maxw in
                      let mc = Z.add s.maxc (Zpos XH) in
                      let wt' = fupd keqb0 s.wt k (Some w1) in
                      if contains s k
                      then Ok { weighted = s.weighted; items = s.items; pos =
                             s.pos; wt = wt'; maxw = mw; maxc = mc; total =
                             (qplus s.total d) }
                      else Ok { weighted = s.weighted; items =
                             (app s.items (k :: [])); pos =
                             (fupd keqb0 s.pos k (Some (length s.items)));
                             wt = wt'; maxw = mw; maxc = mc; total =
                             (qplus s.total d) }
                 else let mw = s.maxw in
                      let mc = s.maxc in
                      let wt' = fupd keqb0 s.wt k (Some w1) in
                      if contains s k
                      then Ok { weighted = s.weighted; items = s.items; pos =
                             s.pos; wt = wt'; maxw = mw; maxc = mc; total =
                             (qplus s.total d) }
                      else Ok { weighted = s.weighted; items =
                             (app s.items (k :: [])); pos =
                             (fupd keqb0 s.pos k (Some (length s.items)));
                             wt = wt'; maxw = mw; maxc = mc; total =
                             (qplus s.total d) }
       else let mw = s.maxw in
            let mc = Z.sub s.maxc (Zpos (XO XH)) in
            let wt' = fupd keqb0 s.wt k (Some w1) in
            if contains s k
            then Ok { weighted = s.weighted; items = s.items; pos = s.pos;
                   wt = wt'; maxw = mw; maxc = mc; total = (qplus s.total d) }
            else Ok { weighted = s.weighted; items = (app s.items (k :: []));
                   pos = (fupd keqb0 s.pos k (Some (length s.items))); wt =
                   wt'; maxw = mw; maxc = mc; total = (qplus s.total d) }
| None ->
  if s.weighted
  then Err PyException
  else if contains s k
       then Ok s
       else Ok { weighted = s.weighted; items = (app s.items (k :: []));
              pos = (fupd keqb0 s.pos k (Some (length s.items))); wt = s.wt;
              maxw = s.maxw; maxc = s.maxc; total = s.total }

(** val ld_remove : ('a1 -> 'a1 -> bool) -> 'a1 ld -> 'a1 -> 'a1 ld result **)

let ld_remove keqb0 s k =
  match s.pos k with
  | Some p ->
    (match rev s.items with
     | [] -> Err IndexErr
     | last :: rest_rev ->
       let its0 = rev rest_rev in
       let pos0 = fupd keqb0 s.pos k None in
       if Nat.eqb p (length its0)
       then if s.weighted
            then (match s.wt k with
                  | Some w ->
                    let wt1 = fupd keqb0 s.wt k None in
                    let tot = qminus s.total w in
                    if qeqb w s.maxw
                    then let mc = Z.sub s.maxc (Zpos XH) in
                         if (&&) (Z.eqb mc Z0)
                              (negb (Nat.eqb (length its0) O))
                         then let (m, c) = recompute_max s its0 wt1 in
                              Ok { weighted = true; items = its0; pos = pos0;
                              wt = wt1; maxw = m; maxc = c; total = tot }
                         else Ok { weighted = true; items = its0; pos = pos0;
                                wt = wt1; maxw = s.maxw; maxc = mc; total =
                                tot }
                    else Ok { weighted = true; items = its0; pos = pos0; wt =
                           wt1; maxw = s.maxw; maxc = s.maxc; total = tot }
                  | None -> Err KeyErr)
            else Ok { weighted = false; items = its0; pos = pos0; wt = s.wt;
                   maxw = s.maxw; maxc = s.maxc; total = s.total }
       else let its1 = set_nth its0 p last in
            let pos1 = fupd keqb0 pos0 last (Some p) in
            if s.weighted
            then (match s.wt k with
                  | Some w ->
                    let wt1 = fupd keqb0 s.wt k None in
                    let tot = qminus s.total w in
                    if qeqb w s.maxw
                    then let mc = Z.sub s.maxc (Zpos XH) in
                         if (&&) (Z.eqb mc Z0)
                              (negb (Nat.eqb (length its1) O))
                         then let (m, c) = recompute_max s its1 wt1 in
                              Ok { weighted = true; items = its1; pos = pos1;
                              wt = wt1; maxw = m; maxc = c; total = tot }
                         else Ok { weighted = true; items = its1; pos = pos1;
                                wt = wt1; maxw = s.maxw; maxc = mc; total =
                                tot }
                    else Ok { weighted = true; items = its1; pos = pos1; wt =
                           wt1; maxw = s.maxw; maxc = s.maxc; total = tot }
                  | None -> Err KeyErr)
            else Ok { weighted = false; items = its1; pos = pos1; wt = s.wt;
                   maxw = s.maxw; maxc = s.maxc; total = s.total })
  | None -> Err KeyErr

(** val ld_total_weight : 'a1 ld -> q **)

let ld_total_weight s =
  if s.weighted then s.total else qnat (length s.items)

type kld = key ld

(** val kl_update : kld -> key -> q option -> kld result **)

let kl_update s k w =
  ld_update keqb s k w

(** val kl_remove : kld -> key -> kld result **)

let kl_remove s k =
  ld_remove keqb s k

(** val kl_empty : bool -> kld **)

let kl_empty =
  ld_empty

(** val kl_cands : kld -> (key * q) list **)

let kl_cands s =
  ksort
    (map (fun k -> (k,
      (if s.weighted then wread s k else { qnum = (Zpos XH); qden = XH })))
      s.items)

(** val hd_counts : row list -> z list **)

let hd_counts = function
| [] -> []
| r :: _ -> let (_, c) = r in c

(** val keynode : key -> node result **)

let keynode = function
| [] -> Err TypeErr
| u :: l -> (match l with
             | [] -> Ok u
             | _ :: _ -> Err TypeErr)

(** val keypair : key -> (node * node) result **)

let keypair = function
| [] -> Err TypeErr
| u :: l ->
  (match l with
   | [] -> Err TypeErr
   | v :: l0 -> (match l0 with
                 | [] -> Ok (u, v)
                 | _ :: _ -> Err TypeErr))

(** val node_events : node -> ((q * node) * n) list -> (q * n) list **)

let node_events u log =
  map (fun e -> ((fst (fst e)), (snd e)))
    (filter (fun e -> N.eqb (snd (fst e)) u) log)

type tab = (key * q) list

(** val tlook : tab -> key -> q option **)

let rec tlook t k =
  match t with
  | [] -> None
  | p :: r -> let (k', w) = p in if keqb k k' then Some w else tlook r k

(** val kswap : key -> key **)

let kswap k = match k with
| [] -> k
| a :: l ->
  (match l with
   | [] -> k
   | b :: l0 -> (match l0 with
                 | [] -> b :: (a :: [])
                 | _ :: _ -> k))

type wsrc =
| WNone
| WLabel of tab
| WFun of (key -> q)
| WBoth

type trans = { tr_from : key; tr_to : key; tr_rate : q; tr_w : wsrc }

type slot = { sl_tr : trans; sl_pot : kld; sl_gw : tab option }

(** val sort_trans : bool -> trans list -> trans list **)

let sort_trans sortable l =
  if sortable
  then map snd (ksort (map (fun tr -> ((app tr.tr_from tr.tr_to), tr)) l))
  else l

(** val gpairs : graph -> key list **)

let gpairs g =
  flat_map (fun u -> map (fun v -> kpair u v) (g.gadj u)) g.gnodes

(** val setup_spont : graph -> trans -> slot result **)

let setup_spont g tr =
  match tr.tr_w with
  | WNone -> Ok { sl_tr = tr; sl_pot = (kl_empty false); sl_gw = None }
  | WLabel t -> Ok { sl_tr = tr; sl_pot = (kl_empty true); sl_gw = (Some t) }
  | WFun f ->
    Ok { sl_tr = tr; sl_pot = (kl_empty true); sl_gw = (Some
      (map (fun u -> ((knode u), (f (knode u)))) g.gnodes)) }
  | WBoth -> Err EoNError

(** val hd_status : key -> n **)

let hd_status = function
| [] -> N0
| a :: _ -> a

(** val snd_status : key -> n **)

let snd_status = function
| [] -> N0
| _ :: l -> (match l with
             | [] -> N0
             | b :: _ -> b)

(** val setup_induced : graph -> trans -> slot result **)

let setup_induced g tr =
  if negb (N.eqb (hd_status tr.tr_from) (hd_status tr.tr_to))
  then Err EoNError
  else (match tr.tr_w with
        | WNone -> Ok { sl_tr = tr; sl_pot = (kl_empty false); sl_gw = None }
        | WLabel t ->
          Ok { sl_tr = tr; sl_pot = (kl_empty true); sl_gw = (Some
            (if g.gdirected
             then t
             else app t (map (fun kw -> ((kswap (fst kw)), (snd kw))) t))) }
        | WFun f ->
          Ok { sl_tr = tr; sl_pot = (kl_empty true); sl_gw = (Some
            (map (fun k -> (k, (f k))) (gpairs g))) }
        | WBoth -> Err EoNError)

(** val rmap : ('a1 -> 'a2 result) -> 'a1 list -> 'a2 list result **)

let rec rmap f = function
| [] -> Ok []
| x :: r -> rbind (f x) (fun y -> rbind (rmap f r) (fun ys -> Ok (y :: ys)))

(** val gw_get : tab option -> key -> q option result **)

let gw_get gw k =
  match gw with
  | Some t ->
    (match tlook t k with
     | Some w -> Ok (Some w)
     | None -> Err KeyErr)
  | None -> Ok None

(** val add_actor : key -> slot -> slot result **)

let add_actor k sl =
  rbind (gw_get sl.sl_gw k) (fun w ->
    rbind (kl_update sl.sl_pot k w) (fun p -> Ok { sl_tr = sl.sl_tr; sl_pot =
      p; sl_gw = sl.sl_gw }))

(** val rem_actor : key -> slot -> slot result **)

let rem_actor k sl =
  rbind (kl_remove sl.sl_pot k) (fun p -> Ok { sl_tr = sl.sl_tr; sl_pot = p;
    sl_gw = sl.sl_gw })

(** val from_is : slot -> key -> bool **)

let from_is sl k =
  keqb sl.sl_tr.tr_from k

(** val when0 : bool -> (slot -> slot result) -> slot -> slot result **)

let when0 b f sl =
  if b then f sl else Ok sl

(** val init_node :
    graph -> (node -> n) -> node -> (slot list * slot list) -> (slot
    list * slot list) result **)

let init_node g st u ss =
  rbind
    (rmap (fun sl ->
      when0 (from_is sl ((st u) :: [])) (add_actor (knode u)) sl) (fst ss))
    (fun sp' ->
    rbind
      (fold_left (fun acc v ->
        rbind acc (fun inn ->
          rmap (fun sl ->
            when0 (from_is sl ((st u) :: ((st v) :: [])))
              (add_actor (kpair u v)) sl) inn)) (g.gadj u) (Ok (snd ss)))
      (fun inn' -> Ok (sp', inn')))

(** val init_all :
    graph -> (node -> n) -> slot list -> slot list -> (slot list * slot list)
    result **)

let init_all g st sp inn =
  fold_left (fun acc u -> rbind acc (init_node g st u)) g.gnodes (Ok (sp,
    inn))

type sst = { s_stat : (node -> n); s_sp : slot list; s_in : slot list;
             s_rows : row list; s_elog : ((q * node) * n) list;
             s_tlog : ((q * node option) * node) list }

(** val slot_rate : slot -> q **)

let slot_rate sl =
  qmult sl.sl_tr.tr_rate (ld_total_weight sl.sl_pot)

(** val total_rate : sst -> q **)

let total_rate s =
  sumQ (map slot_rate (app s.s_sp s.s_in))

(** val tiny : q **)

let tiny =
  { qnum = (Zpos XH); qden = (XO (XO (XO (XO (XO (XO (XO (XI (XO (XI (XI (XO
    (XI (XO (XO (XI (XO (XO (XO (XI (XI (XO (XO XH))))))))))))))))))))))) }

(** val refresh : slot -> slot result **)

let refresh sl =
  let p = sl.sl_pot in
  let tw = ld_total_weight p in
  if (&&) (qltb tw tiny) (negb (qeqb tw { qnum = Z0; qden = XH }))
  then if p.weighted
       then Ok { sl_tr = sl.sl_tr; sl_pot = { weighted = true; items =
              p.items; pos = p.pos; wt = p.wt; maxw = p.maxw; maxc = p.maxc;
              total = (sumQ (map (wread p) p.items)) }; sl_gw = sl.sl_gw }
       else Err TypeErr
  else Ok sl

(** val gw_set : slot -> tab -> slot **)

let gw_set sl t =
  { sl_tr = sl.sl_tr; sl_pot = sl.sl_pot; sl_gw = (Some t) }

(** val fill_fwd : node -> node -> slot -> slot result **)

let fill_fwd m nbr sl =
  match sl.sl_gw with
  | Some t ->
    (match tlook t (kpair m nbr) with
     | Some _ -> Ok sl
     | None ->
       (match tlook t (kpair nbr m) with
        | Some w -> Ok (gw_set sl (((kpair m nbr), w) :: t))
        | None -> Err KeyErr))
  | None -> Ok sl

(** val fill_undirected : node -> node -> slot -> slot result **)

let fill_undirected m nbr sl =
  match sl.sl_gw with
  | Some t ->
    (match tlook t (kpair m nbr) with
     | Some w ->
       (match tlook t (kpair nbr m) with
        | Some _ -> Ok sl
        | None -> Ok (gw_set sl (((kpair nbr m), w) :: t)))
     | None ->
       (match tlook t (kpair nbr m) with
        | Some w -> Ok (gw_set sl (((kpair m nbr), w) :: t))
        | None -> Err KeyErr))
  | None -> Ok sl

(** val fill_pred : node -> node -> slot -> slot result **)

let fill_pred m p sl =
  match sl.sl_gw with
  | Some t ->
    (match tlook t (kpair p m) with
     | Some _ -> Ok sl
     | None -> Err KeyErr)
  | None -> Ok sl

(** val upd_spont : node -> n -> n -> slot -> slot result **)

let upd_spont m old new0 sl =
  rbind (when0 (from_is sl (old :: [])) (rem_actor (knode m)) sl) (fun sl0 ->
    rbind (when0 (from_is sl0 (new0 :: [])) (add_actor (knode m)) sl0) refresh)

(** val upd_succ :
    (node -> n) -> node -> n -> n -> node -> slot -> slot result **)

let upd_succ st' m old new0 nbr sl =
  let ns = st' nbr in
  rbind (fill_fwd m nbr sl) (fun sl0 ->
    rbind
      (when0 (from_is sl0 (old :: (ns :: []))) (rem_actor (kpair m nbr)) sl0)
      (fun sl1 ->
      when0 (from_is sl1 (new0 :: (ns :: []))) (add_actor (kpair m nbr)) sl1))

(** val upd_pred :
    (node -> n) -> node -> n -> n -> node -> slot -> slot result **)

let upd_pred st' m old new0 p sl =
  let ps = st' p in
  rbind (fill_pred m p sl) (fun sl0 ->
    rbind
      (when0 (from_is sl0 (ps :: (old :: []))) (rem_actor (kpair p m)) sl0)
      (fun sl1 ->
      when0 (from_is sl1 (ps :: (new0 :: []))) (add_actor (kpair p m)) sl1))

(** val upd_nbr :
    (node -> n) -> node -> n -> n -> node -> slot -> slot result **)

let upd_nbr st' m old new0 nbr sl =
  let ns = st' nbr in
  rbind (fill_undirected m nbr sl) (fun sl0 ->
    rbind
      (when0 (from_is sl0 (ns :: (old :: []))) (rem_actor (kpair nbr m)) sl0)
      (fun sl1 ->
      rbind
        (when0 (from_is sl1 (old :: (ns :: []))) (rem_actor (kpair m nbr))
          sl1) (fun sl2 ->
        rbind
          (when0 (from_is sl2 (ns :: (new0 :: []))) (add_actor (kpair nbr m))
            sl2) (fun sl3 ->
          when0 (from_is sl3 (new0 :: (ns :: []))) (add_actor (kpair m nbr))
            sl3))))

(** val rfold :
    (node -> slot -> slot result) -> node list -> slot -> slot result **)

let rfold f l sl =
  fold_left (fun acc x -> rbind acc (f x)) l (Ok sl)

(** val upd_induced :
    graph -> (node -> n) -> node -> n -> n -> slot -> slot result **)

let upd_induced g st' m old new0 sl =
  rbind
    (if g.gdirected
     then rbind (rfold (upd_succ st' m old new0) (g.gadj m) sl)
            (rfold (upd_pred st' m old new0) (g.gpred m))
     else rfold (upd_nbr st' m old new0) (g.gadj m) sl) refresh

(** val b2z : bool -> z **)

let b2z = function
| true -> Zpos XH
| false -> Z0

(** val next_counts : n list -> z list -> n -> n -> z list **)

let next_counts rstat last old new0 =
  map (fun rc ->
    Z.add (Z.sub (snd rc) (b2z (N.eqb (fst rc) old)))
      (b2z (N.eqb (fst rc) new0))) (combine rstat last)

(** val apply_event :
    graph -> n list -> bool -> q -> bool -> trans -> key -> sst -> sst result **)

let apply_event g rstat full t spontaneous tr actor s =
  rbind
    (if spontaneous
     then rbind (keynode actor) (fun u -> Ok (((None, u),
            (hd_status tr.tr_from)), (hd_status tr.tr_to)))
     else rbind (keypair actor) (fun uv -> Ok ((((Some (fst uv)), (snd uv)),
            (snd_status tr.tr_from)), (snd_status tr.tr_to)))) (fun x ->
    let (p, new0) = x in
    let (p0, old) = p in
    let (src, m) = p0 in
    let st' = fupdN s.s_stat m new0 in
    rbind (rmap (upd_spont m old new0) s.s_sp) (fun sp' ->
      rbind (rmap (upd_induced g st' m old new0) s.s_in) (fun in' -> Ok
        { s_stat = st'; s_sp = sp'; s_in = in'; s_rows = ((t,
        (next_counts rstat (hd_counts s.s_rows) old new0)) :: s.s_rows);
        s_elog = (if full then ((t, m), new0) :: s.s_elog else s.s_elog);
        s_tlog =
        (match src with
         | Some u -> if full then ((t, (Some u)), m) :: s.s_tlog else s.s_tlog
         | None -> s.s_tlog) })))

(** val si_constructor : n list -> (node * history) list -> unit result **)

let si_constructor rstat h =
  let inrs = fun s -> existsb (N.eqb s) rstat in
  let kept =
    filter (fun uh ->
      match snd uh with
      | [] -> false
      | y :: _ -> let (_, s0) = y in inrs s0) h
  in
  if existsb (fun uh -> negb (forallb (fun e -> inrs (snd e)) (snd uh))) kept
  then Err KeyErr
  else (match kept with
        | [] -> Err IndexErr
        | _ :: _ -> Ok ())

(** val histories :
    graph -> (node -> n) -> q -> sst -> (node * history) list **)

let histories g ic tmin s =
  let log = rev s.s_elog in
  map (fun u -> (u, ((tmin, (ic u)) :: (node_events u log)))) g.gnodes

(** val finish :
    graph -> (node -> n) -> n list -> q -> bool -> sst -> simout result **)

let finish g ic rstat tmin full s =
  if full
  then let h = histories g ic tmin s in
       rbind (si_constructor rstat h) (fun _ -> Ok { so_rows =
         (rev s.s_rows); so_full = (Some { fd_hist = h; fd_trans =
         (rev s.s_tlog) }) })
  else Ok { so_rows = (rev s.s_rows); so_full = None }

(** val select : sst -> (nat * key) samp **)

let select s =
  let slots = app s.s_sp s.s_in in
  let total0 = total_rate s in
  Casc ((map (fun sl -> qdiv (slot_rate sl) total0) slots), (fun i ->
  match nth_error slots i with
  | Some sl ->
    Choose (sl.sl_pot.weighted, (kl_cands sl.sl_pot), (fun actor -> Ret (i,
      actor)))
  | None -> Fail IndexErr))

(** val fire :
    graph -> n list -> bool -> q -> sst -> (nat * key) -> sst result **)

let fire g rstat full t s ia =
  let slots = app s.s_sp s.s_in in
  (match nth_error slots (fst ia) with
   | Some sl ->
     apply_event g rstat full t (Nat.ltb (fst ia) (length s.s_sp)) sl.sl_tr
       (snd ia) s
   | None -> Err IndexErr)

(** val lifts : 'a1 result -> 'a1 samp **)

let lifts = function
| Ok a -> Ret a
| Err e -> Fail e

(** val jump : graph -> n list -> bool -> q -> sst -> sst samp **)

let jump g rstat full t s =
  bind (select s) (fun ia -> lifts (fire g rstat full t s ia))

(** val loop :
    graph -> (node -> n) -> n list -> q -> xtime -> bool -> nat -> q -> sst
    -> simout samp **)

let rec loop g ic rstat tmin tmax full fuel t s =
  let total0 = total_rate s in
  if qltb { qnum = Z0; qden = XH } total0
  then Expo (total0, (fun d ->
         let t1 = qplus t d in
         if xlt t1 tmax
         then (match fuel with
               | O -> Fail OutOfFuel
               | S f ->
                 bind (jump g rstat full t1 s) (fun s' ->
                   loop g ic rstat tmin tmax full f t1 s'))
         else lifts (finish g ic rstat tmin full s)))
  else lifts (finish g ic rstat tmin full s)

(** val count_status : graph -> (node -> n) -> n -> z **)

let count_status g st x =
  Z.of_nat (length (filter (fun u -> N.eqb (st u) x) g.gnodes))

(** val simple :
    graph -> bool -> trans list -> trans list -> (node -> n) -> n list -> q
    -> xtime -> bool -> nat -> simout samp **)

let simple g sortable spont induced ic rstat tmin tmax full fuel =
  let row0 = (tmin, (map (count_status g ic) rstat)) in
  (match rbind (rmap (setup_spont g) (sort_trans sortable spont)) (fun sp ->
           rbind (rmap (setup_induced g) (sort_trans sortable induced))
             (fun inn -> init_all g ic sp inn)) with
   | Ok a ->
     let (sp, inn) = a in
     loop g ic rstat tmin tmax full fuel tmin { s_stat = ic; s_sp = sp;
       s_in = inn; s_rows = (row0 :: []); s_elog = []; s_tlog = [] }
   | Err e -> Fail e)

(** val run_simple :
    graph -> bool -> trans list -> trans list -> (node -> n) -> n list -> q
    -> xtime -> bool -> nat -> q list -> simout result * call list **)

let run_simple g sortable spont induced ic rstat tmin tmax full fuel ds =
  exec (simple g sortable spont induced ic rstat tmin tmax full fuel) ds []
