
val negb : bool -> bool

type nat =
| O
| S of nat

val fst : ('a1 * 'a2) -> 'a1

val snd : ('a1 * 'a2) -> 'a2

val length : 'a1 list -> nat

val app : 'a1 list -> 'a1 list -> 'a1 list

type comparison =
| Eq
| Lt
| Gt

val compOpp : comparison -> comparison

val add : nat -> nat -> nat

type positive =
| XI of positive
| XO of positive
| XH

type n =
| N0
| Npos of positive

type z =
| Z0
| Zpos of positive
| Zneg of positive

module Nat :
 sig
  val pred : nat -> nat

  val eqb : nat -> nat -> bool

  val leb : nat -> nat -> bool

  val ltb : nat -> nat -> bool

  val max : nat -> nat -> nat
 end

module Pos :
 sig
  type mask =
  | IsNul
  | IsPos of positive
  | IsNeg
 end

module Coq_Pos :
 sig
  val succ : positive -> positive

  val add : positive -> positive -> positive

  val add_carry : positive -> positive -> positive

  val pred_double : positive -> positive

  type mask = Pos.mask =
  | IsNul
  | IsPos of positive
  | IsNeg

  val succ_double_mask : mask -> mask

  val double_mask : mask -> mask

  val double_pred_mask : positive -> mask

  val sub_mask : positive -> positive -> mask

  val sub_mask_carry : positive -> positive -> mask

  val sub : positive -> positive -> positive

  val mul : positive -> positive -> positive

  val size_nat : positive -> nat

  val compare_cont : comparison -> positive -> positive -> comparison

  val compare : positive -> positive -> comparison

  val eqb : positive -> positive -> bool

  val ggcdn : nat -> positive -> positive -> positive * (positive * positive)

  val ggcd : positive -> positive -> positive * (positive * positive)

  val iter_op : ('a1 -> 'a1 -> 'a1) -> positive -> 'a1 -> 'a1

  val to_nat : positive -> nat

  val of_succ_nat : nat -> positive
 end

module N :
 sig
  val eqb : n -> n -> bool
 end

module Z :
 sig
  val double : z -> z

  val succ_double : z -> z

  val pred_double : z -> z

  val pos_sub : positive -> positive -> z

  val add : z -> z -> z

  val opp : z -> z

  val sub : z -> z -> z

  val mul : z -> z -> z

  val compare : z -> z -> comparison

  val sgn : z -> z

  val leb : z -> z -> bool

  val ltb : z -> z -> bool

  val abs : z -> z

  val to_nat : z -> nat

  val of_nat : nat -> z

  val to_pos : z -> positive

  val pos_div_eucl : positive -> z -> z * z

  val div_eucl : z -> z -> z * z

  val div : z -> z -> z

  val ggcd : z -> z -> z * (z * z)
 end

val z_lt_dec : z -> z -> bool

val z_lt_ge_dec : z -> z -> bool

val z_lt_le_dec : z -> z -> bool

val zeq_bool : z -> z -> bool

val nth_error : 'a1 list -> nat -> 'a1 option

val rev : 'a1 list -> 'a1 list

val map : ('a1 -> 'a2) -> 'a1 list -> 'a2 list

val flat_map : ('a1 -> 'a2 list) -> 'a1 list -> 'a2 list

val fold_left : ('a1 -> 'a2 -> 'a1) -> 'a2 list -> 'a1 -> 'a1

val fold_right : ('a2 -> 'a1 -> 'a1) -> 'a1 -> 'a2 list -> 'a1

val existsb : ('a1 -> bool) -> 'a1 list -> bool

val forallb : ('a1 -> bool) -> 'a1 list -> bool

val filter : ('a1 -> bool) -> 'a1 list -> 'a1 list

val firstn : nat -> 'a1 list -> 'a1 list

val skipn : nat -> 'a1 list -> 'a1 list

type q = { qnum : z; qden : positive }

val inject_Z : z -> q

val qeq_bool : q -> q -> bool

val qplus : q -> q -> q

val qmult : q -> q -> q

val qopp : q -> q

val qminus : q -> q -> q

val qinv : q -> q

val qdiv : q -> q -> q

val qlt_le_dec : q -> q -> bool

val qred : q -> q

type err =
| EoNError
| ZeroDivision
| IndexErr
| KeyErr
| TypeErr
| NameErr
| ValueErr
| PyException
| OutOfDraws
| OutOfFuel

type 'a result =
| Ok of 'a
| Err of err

val rbind : 'a1 result -> ('a1 -> 'a2 result) -> 'a2 result

type xtime = q option

val qltb : q -> q -> bool

val qleb : q -> q -> bool

val qeqb : q -> q -> bool

type key = n list

type 'a samp =
| Ret of 'a
| Fail of err
| Expo of q * (q -> 'a samp)
| Flip of q * 'a samp * 'a samp
| Casc of q list * (nat -> 'a samp)
| Choose of bool * (key * q) list * (key -> 'a samp)
| Unif of key list * (key -> 'a samp)
| Sample of key list * nat * (key list -> 'a samp)

val bind : 'a1 samp -> ('a1 -> 'a2 samp) -> 'a2 samp

type call =
| CExpo of q
| CFlip of q
| CCasc of q list
| CPick of key list
| CAcc of q
| CSample of key list * nat

val rank : q -> nat

val casc_index : q list -> q -> nat -> nat

val choose_exec :
  bool -> (key * q) list -> q list -> call list -> (key result * call
  list) * q list

val rotate : nat -> 'a1 list -> 'a1 list

val exec : 'a1 samp -> q list -> call list -> 'a1 result * call list

type node = n

type graph = { gnodes : node list; gadj : (node -> node list);
               gpred : (node -> node list); gdirected : bool;
               ew : (node -> node -> q); nw : (node -> q); ewt : bool;
               nwt : bool }

val mem : node -> node list -> bool

type row = q * z list

type history = (q * n) list

type fulldata = { fd_hist : (node * history) list;
                  fd_trans : ((q * node option) * node) list }

val fd_hist : fulldata -> (node * history) list

val fd_trans : fulldata -> ((q * node option) * node) list

type simout = { so_rows : row list; so_full : fulldata option }

val so_rows : simout -> row list

val so_full : simout -> fulldata option

val fresh : node list -> node list -> node list

val dedup : node list -> node list

val union : node list -> node list -> node list

val drop : node -> node list -> node list

val bfs :
  (node -> node list) -> nat -> node list -> node list -> node list result

val closure : graph -> (node -> node list) -> node -> node list result

val has_node : graph -> node -> bool

val descendants : graph -> node -> node list result

val ancestors : graph -> node -> node list result

type source =
| One of node
| Many of node list

val comp_loop :
  (node -> node list result) -> node list -> node list -> node list result

val component :
  graph -> (node -> node list result) -> source -> node list result

val out_component : graph -> source -> node list result

val in_component : graph -> source -> node list result

val scc_of : graph -> node -> node list result

val cc_of : graph -> node -> node list result

val classes_loop :
  (node -> node list result) -> node list -> node list list -> node list list
  result

val sccs : graph -> node list list result

val ccs : graph -> node list list result

val maxlen : node list list -> nat

val largest : node list list -> node list list

val frac : nat -> nat -> q

val est_at : graph -> node -> (q * q) result

val estimate_from_dir_perc : graph -> nat -> nat -> (q * q) result

val collect : 'a1 result list -> 'a1 list result

val estimate_answers : graph -> (q * q) list result

val graph_of : node list -> (node * node) list -> bool -> graph

val edges_from : graph -> node list -> node list -> (node * node) list

val edges : graph -> (node * node) list

val perc_edges :
  q -> (node * node) list -> q list -> (node * node) list -> (node * node)
  list result

val percolate_network : graph -> q -> q list -> graph result

val largest_cc_size : graph -> nat result

val size_answer : nat -> graph -> (q * q) result

val lift : 'a1 result -> 'a1 samp

val estimate_SIR_prob_size : graph -> q -> q list -> (q * q) result

type pgraph = { pg_nodes : node list; pg_edges : (node * node) list;
                pg_dur : (node * xtime) list;
                pg_delay : ((node * node) * xtime) list }

val pg_empty : pgraph

val addn : node -> node list -> node list

val eqe : (node * node) -> (node * node) -> bool

val adde : (node * node) -> (node * node) list -> (node * node) list

val p_add_node : bool -> pgraph -> node -> xtime -> pgraph

val p_add_edge : bool -> pgraph -> node -> node -> xtime -> pgraph

val to_graph : pgraph -> graph

val xle : xtime -> xtime -> bool

type rcall =
| CallRec of node
| CallTrans of node * node

val timing_inner :
  (node -> node -> xtime) -> bool -> node -> xtime -> node list -> pgraph ->
  pgraph

val nm_perc_timing :
  (node -> xtime) -> (node -> node -> xtime) -> graph -> bool -> pgraph

val nm_perc_timing_calls : graph -> rcall list

val nm_inner :
  (node -> 'a1 option) -> (node -> 'a2 option) -> ('a1 -> 'a2 -> bool) ->
  node -> node list -> pgraph -> pgraph result

val nm_outer :
  (node -> 'a1 option) -> (node -> 'a2 option) -> ('a1 -> 'a2 -> bool) ->
  graph -> node list -> pgraph -> pgraph result

val nm_perc :
  (node -> 'a1 option) -> (node -> 'a2 option) -> ('a1 -> 'a2 -> bool) ->
  graph -> pgraph result

val draw_time : q -> (xtime -> 'a1 samp) -> 'a1 samp

val dpn_inner :
  q -> bool -> node -> xtime -> node list -> pgraph -> pgraph samp

val dpn_outer : graph -> q -> q -> bool -> node list -> pgraph -> pgraph samp

val directed_percolate_network : graph -> q -> q -> bool -> pgraph samp

val remove_nodes : pgraph -> node list -> pgraph

val as_set : graph -> source -> node list result

val infected_nodes_in : pgraph -> node list -> node list -> node list result

val get_infected_nodes : graph -> q -> q -> source -> source -> node list samp

val nm_perc_tab :
  (node -> node option) -> (node -> node option) -> (node -> node -> bool) ->
  graph -> pgraph result

val exec_pgraph :
  pgraph samp -> q list -> call list -> pgraph result * call list

val exec_qq :
  (q * q) samp -> q list -> call list -> (q * q) result * call list

val exec_nodes :
  node list samp -> q list -> call list -> node list result * call list
