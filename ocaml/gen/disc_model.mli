
val negb : bool -> bool

type nat =
| O
| S of nat

val fst : ('a1 * 'a2) -> 'a1

val snd : ('a1 * 'a2) -> 'a2

val length : 'a1 list -> nat

val app : 'a1 list -> 'a1 list -> 'a1 list

type comparison =
| Eq
| Lt
| Gt

val compOpp : comparison -> comparison

val add : nat -> nat -> nat

type positive =
| XI of positive
| XO of positive
| XH

type n =
| N0
| Npos of positive

type z =
| Z0
| Zpos of positive
| Zneg of positive

module Nat :
 sig
  val pred : nat -> nat

  val sub : nat -> nat -> nat

  val leb : nat -> nat -> bool

  val ltb : nat -> nat -> bool

  val divmod : nat -> nat -> nat -> nat -> nat * nat

  val modulo : nat -> nat -> nat
 end

module Pos :
 sig
  type mask =
  | IsNul
  | IsPos of positive
  | IsNeg
 end

module Coq_Pos :
 sig
  val succ : positive -> positive

  val add : positive -> positive -> positive

  val add_carry : positive -> positive -> positive

  val pred_double : positive -> positive

  type mask = Pos.mask =
  | IsNul
  | IsPos of positive
  | IsNeg

  val succ_double_mask : mask -> mask

  val double_mask : mask -> mask

  val double_pred_mask : positive -> mask

  val sub_mask : positive -> positive -> mask

  val sub_mask_carry : positive -> positive -> mask

  val sub : positive -> positive -> positive

  val mul : positive -> positive -> positive

  val size_nat : positive -> nat

  val compare_cont : comparison -> positive -> positive -> comparison

  val compare : positive -> positive -> comparison

  val eqb : positive -> positive -> bool

  val ggcdn : nat -> positive -> positive -> positive * (positive * positive)

  val ggcd : positive -> positive -> positive * (positive * positive)

  val iter_op : ('a1 -> 'a1 -> 'a1) -> positive -> 'a1 -> 'a1

  val to_nat : positive -> nat

  val of_succ_nat : nat -> positive
 end

module N :
 sig
  val compare : n -> n -> comparison

  val eqb : n -> n -> bool

  val leb : n -> n -> bool
 end

module Z :
 sig
  val double : z -> z

  val succ_double : z -> z

  val pred_double : z -> z

  val pos_sub : positive -> positive -> z

  val add : z -> z -> z

  val opp : z -> z

  val sub : z -> z -> z

  val mul : z -> z -> z

  val compare : z -> z -> comparison

  val sgn : z -> z

  val leb : z -> z -> bool

  val ltb : z -> z -> bool

  val abs : z -> z

  val to_nat : z -> nat

  val of_nat : nat -> z

  val to_pos : z -> positive

  val pos_div_eucl : positive -> z -> z * z

  val div_eucl : z -> z -> z * z

  val div : z -> z -> z

  val modulo : z -> z -> z

  val even : z -> bool

  val ggcd : z -> z -> z * (z * z)
 end

val z_lt_dec : z -> z -> bool

val z_lt_ge_dec : z -> z -> bool

val z_lt_le_dec : z -> z -> bool

val zeq_bool : z -> z -> bool

val nth_error : 'a1 list -> nat -> 'a1 option

val rev : 'a1 list -> 'a1 list

val concat : 'a1 list list -> 'a1 list

val map : ('a1 -> 'a2) -> 'a1 list -> 'a2 list

val flat_map : ('a1 -> 'a2 list) -> 'a1 list -> 'a2 list

val fold_left : ('a1 -> 'a2 -> 'a1) -> 'a2 list -> 'a1 -> 'a1

val fold_right : ('a2 -> 'a1 -> 'a1) -> 'a1 -> 'a2 list -> 'a1

val existsb : ('a1 -> bool) -> 'a1 list -> bool

val filter : ('a1 -> bool) -> 'a1 list -> 'a1 list

val firstn : nat -> 'a1 list -> 'a1 list

val skipn : nat -> 'a1 list -> 'a1 list

type q = { qnum : z; qden : positive }

val inject_Z : z -> q

val qeq_bool : q -> q -> bool

val qplus : q -> q -> q

val qmult : q -> q -> q

val qopp : q -> q

val qminus : q -> q -> q

val qlt_le_dec : q -> q -> bool

val qred : q -> q

type err =
| EoNError
| ZeroDivision
| IndexErr
| KeyErr
| TypeErr
| NameErr
| ValueErr
| PyException
| OutOfDraws
| OutOfFuel

type 'a result =
| Ok of 'a
| Err of err

type xtime = q option

val xlt : q -> xtime -> bool

val qltb : q -> q -> bool

val qleb : q -> q -> bool

val qeqb : q -> q -> bool

val qnat : nat -> q

type key = n list

type 'a samp =
| Ret of 'a
| Fail of err
| Expo of q * (q -> 'a samp)
| Flip of q * 'a samp * 'a samp
| Casc of q list * (nat -> 'a samp)
| Choose of bool * (key * q) list * (key -> 'a samp)
| Unif of key list * (key -> 'a samp)
| Sample of key list * nat * (key list -> 'a samp)

val bind : 'a1 samp -> ('a1 -> 'a2 samp) -> 'a2 samp

type call =
| CExpo of q
| CFlip of q
| CCasc of q list
| CPick of key list
| CAcc of q
| CSample of key list * nat

val rank : q -> nat

val casc_index : q list -> q -> nat -> nat

val choose_exec :
  bool -> (key * q) list -> q list -> call list -> (key result * call
  list) * q list

val rotate : nat -> 'a1 list -> 'a1 list

val exec : 'a1 samp -> q list -> call list -> 'a1 result * call list

type node = n

type graph = { gnodes : node list; gadj : (node -> node list);
               gpred : (node -> node list); gdirected : bool;
               ew : (node -> node -> q); nw : (node -> q); ewt : bool;
               nwt : bool }

val mem : node -> node list -> bool

val order : graph -> z

val stS : n

val stI : n

val stR : n

val fupdN : (node -> 'a1) -> node -> 'a1 -> node -> 'a1

type row = q * z list

type history = (q * n) list

type fulldata = { fd_hist : (node * history) list;
                  fd_trans : ((q * node option) * node) list }

type simout = { so_rows : row list; so_full : fulldata option }

val knode : node -> key

val d_round_half_even : q -> z

val canon : graph -> node list -> node list

val ninsert : node -> node list -> node list

val nsort : node list -> node list

type rules = { r_test : (node -> node -> nat -> bool samp);
               r_pick : (nat -> node -> node list -> node samp) }

val det_rules : (node -> node -> nat -> bool) -> (nat -> node -> nat) -> rules

val simple_rules : q -> rules

type qentry = (nat * node) * node

type pentry = (nat * node) * node list

type rentry = nat * node

type dlogs = { l_q : qentry list; l_p : pentry list; l_r : rentry list }

type dout = { o_sim : simout; o_logs : dlogs }

val contacts : graph -> node list -> (node * node) list

val le_x : q -> xtime -> bool

val inf_append :
  (node * node list) list -> node -> node -> (node * node list) list

val nonempty : 'a1 list -> bool

val lenZ : 'a1 list -> z

val picks :
  rules -> nat -> q -> (node * node list) list -> ((q * node option) * node)
  list -> pentry list -> (((q * node option) * node) list * pentry list) samp

type cst = { c_sus : (node -> bool); c_new : node list;
             c_inf : (node * node list) list; c_nS : z; c_q : qentry list }

type dst = { d_sus : (node -> bool); d_infs : node list;
             d_age : (node -> nat); d_nS : z; d_totR : z; d_rows : row list;
             d_hlog : ((q * node) * n) list;
             d_tlog : ((q * node option) * node) list; d_logs : dlogs }

val cloop :
  rules -> bool -> nat -> (node -> nat) -> (node * node) list -> cst -> cst
  samp

val rec_loop :
  bool -> (node -> nat -> bool) -> nat -> q -> (node -> nat) -> node list ->
  (((z * node list) * ((q * node) * n) list) * rentry list) -> ((z * node
  list) * ((q * node) * n) list) * rentry list

val step :
  graph -> rules -> (node -> nat -> bool) option -> (nat -> node list -> node
  list) -> xtime -> bool -> nat -> q -> dst -> dst samp

val init_status : node list -> node list -> node -> n

val node_events : node -> ((q * node) * n) list -> (q * n) list

val build_hist :
  graph -> q -> node list -> node list -> ((q * node) * n) list ->
  (node * history) list

val rev_logs : dlogs -> dlogs

val finish : graph -> q -> bool -> node list -> node list -> dst -> dout

val dloop :
  graph -> rules -> (node -> nat -> bool) option -> (nat -> node list -> node
  list) -> q -> xtime -> bool -> node list -> node list -> nat -> nat -> q ->
  dst -> dout samp

val init_state : graph -> q -> bool -> node list -> node list -> dst

val opt_list : 'a1 list option -> 'a1 list

val with_initial :
  graph -> node list option -> q option -> (node list -> dout samp) -> dout
  samp

val discrete_SIR :
  graph -> rules -> (node -> nat -> bool) option -> (nat -> node list -> node
  list) -> node list option -> node list option -> q option -> q -> xtime ->
  bool -> nat -> dout samp

val basic_discrete_SIR_R :
  graph -> rules -> (nat -> node list -> node list) -> node list option ->
  node list option -> q option -> q -> xtime -> bool -> nat -> dout samp

val basic_discrete_SIR :
  graph -> q -> (nat -> node list -> node list) -> node list option -> node
  list option -> q option -> q -> xtime -> bool -> nat -> dout samp

type sst = { s_infs : node list; s_rows : row list;
             s_hlog : ((q * node) * n) list;
             s_tlog : ((q * node option) * node) list; s_logs : dlogs }

val sis_cloop :
  rules -> nat -> node list -> (node * node) list -> node list ->
  (node * node list) list -> qentry list -> ((node list * (node * node list)
  list) * qentry list) samp

val sis_step :
  graph -> rules -> (nat -> node list -> node list) -> xtime -> bool -> nat
  -> q -> sst -> sst samp

val sis_finish : graph -> q -> bool -> node list -> sst -> dout

val sis_loop :
  graph -> rules -> (nat -> node list -> node list) -> q -> xtime -> bool ->
  node list -> nat -> nat -> q -> sst -> dout samp

val sis_init : graph -> q -> bool -> node list -> sst

val basic_discrete_SIS_R :
  graph -> rules -> (nat -> node list -> node list) -> node list option -> q
  option -> q -> xtime -> bool -> nat -> dout samp

val basic_discrete_SIS :
  graph -> q -> (nat -> node list -> node list) -> node list option -> q
  option -> q -> xtime -> bool -> nat -> dout samp

val edges_from : graph -> node list -> node list -> (node * node) list

val gedges : graph -> (node * node) list

val perc_loop :
  rules -> (node * node) list -> (node * node) list -> qentry list ->
  ((node * node) list * qentry list) samp

val add_nb : node list -> node -> node list

val perc_adj : (node * node) list -> node -> node list

val perc_graph : graph -> (node * node) list -> graph

val percolate_network_R : graph -> rules -> (graph * qentry list) samp

val percolate_network : graph -> q -> (graph * qentry list) samp

val edge_exists : graph -> node -> node -> bool

val has_edge_rules : graph -> rules -> rules

val add_qlog : qentry list -> dout -> dout

val percolation_based_discrete_SIR_R :
  graph -> rules -> (nat -> node list -> node list) -> node list option ->
  node list option -> q option -> q -> xtime -> bool -> nat -> dout samp

val percolation_based_discrete_SIR :
  graph -> q -> (nat -> node list -> node list) -> node list option -> node
  list option -> q option -> q -> xtime -> bool -> nat -> dout samp
