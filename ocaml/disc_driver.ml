(* GLUE: base err samp graph main *)
(* Driver of component 'disc': the discrete-time simulators (Model/Discrete.v).
   <CMD> <graph> <rules> <trec> <ord> i0? r0? rho? tmin tmax? full fuel <mode>
     CMD   DSIR  discrete_SIR            BSIR basic_discrete_SIR_R / basic_discrete_SIR
           SIS   basic_discrete_SIS      PSIR percolation_based_discrete_SIR
   PERC <graph> <rules> <mode>           percolate_network
     rules T cap ntrue (u v a).. c0 c1 c2   table rule: test u v a = ((u,v,min a (cap-1)) listed),
                                            choice for target v at step k has rank c0+c1*k+c2*v (mod #candidates)
           P num den                        the code's default rule: random.random()<p, random.choice
     trec  0 | 1 cap ntrue (u a)..          test_recovery(u) at its a-th call (a capped at cap-1)
     ord   nsteps (len nodes..)..           iteration order of the set `infecteds` at step k: listed nodes
                                            first (in that order), the others after them in canonical order
     mode  W <entropy> | D k q1..qk | A maxdraws maxpaths k d1..dk *)
let run_one pr m ds =
  let (res, tr) = exec m ds [] in
  print_result pr res; print_draws ds; print_trace tr

let read_rules () : rules =
  match next () with
  | "T" ->
    let cap = nint () in
    let tbl = Hashtbl.create 64 in
    let k = nint () in
    for _ = 1 to k do
      let u = nint () in let v = nint () in let a = nint () in Hashtbl.replace tbl (u, v, a) ()
    done;
    let c0 = nint () in let c1 = nint () in let c2 = nint () in
    det_rules
      (fun u v a -> Hashtbl.mem tbl (int_of_n u, int_of_n v, min (int_of_nat a) (cap - 1)))
      (fun k v -> nat_of_int (c0 + c1 * int_of_nat k + c2 * int_of_n v))
  | "P" -> let p = nq () in simple_rules p
  | c -> failwith ("bad rules " ^ c)

let read_trec () : (n -> nat -> bool) option =
  if nint () = 0 then None else begin
    let cap = nint () in
    let tbl = Hashtbl.create 64 in
    let k = nint () in
    for _ = 1 to k do
      let u = nint () in let a = nint () in Hashtbl.replace tbl (u, a) ()
    done;
    Some (fun u a -> Hashtbl.mem tbl (int_of_n u, min (int_of_nat a) (cap - 1)))
  end

let read_ord () : nat -> n list -> n list =
  let steps = Array.of_list (nlist (fun () -> nlist nint)) in
  fun k l ->
    let k = int_of_nat k in
    if k >= Array.length steps then l else begin
      let li = List.map int_of_n l in
      let seen = Hashtbl.create 16 in
      let first = List.filter (fun x -> if List.mem x li && not (Hashtbl.mem seen x) then (Hashtbl.replace seen x (); true) else false) steps.(k) in
      let rest = List.filter (fun x -> not (Hashtbl.mem seen x)) li in
      List.map n_of_int (first @ rest)
    end

let print_logs (l : dlogs) =
  out " QLOG";
  List.iter (fun ((k, u), v) -> out (" " ^ string_of_int (int_of_nat k) ^ ":" ^ sn u ^ ">" ^ sn v)) l.l_q;
  out " PLOG";
  List.iter (fun ((k, v), c) -> out (" " ^ string_of_int (int_of_nat k) ^ ":" ^ sn v ^ "=" ^ String.concat "," (List.map sn c))) l.l_p;
  out " RLOG";
  List.iter (fun (k, u) -> out (" " ^ string_of_int (int_of_nat k) ^ ":" ^ sn u)) l.l_r

let print_dout (o : dout) = print_simout o.o_sim; print_logs o.o_logs

let print_perc ((h, q) : graph * ((nat * n) * n) list) =
  out " NODES"; List.iter (fun u -> out (" " ^ sn u)) h.gnodes;
  out " ADJ"; List.iter (fun u -> out (" " ^ sn u ^ "=" ^ String.concat "," (List.map sn (h.gadj u)))) h.gnodes;
  out " QLOG";
  List.iter (fun ((k, u), v) -> out (" " ^ string_of_int (int_of_nat k) ^ ":" ^ sn u ^ ">" ^ sn v)) (List.rev q)

let modes pr m =
  match next () with
  | "W" -> let ent = read_entropy () in run_one pr m (walk m ent 4000)
  | "D" -> run_one pr m (nlist nq)
  | "A" ->
    let maxdraws = nint () in let maxpaths = nint () in
    let delays = nlist nq in
    let paths = walk_all m delays maxdraws maxpaths in
    List.iteri (fun i ds -> if i > 0 then out " ## "; run_one pr m ds) paths
  | c -> failwith ("bad mode " ^ c)

let run_sim cmd =
  let g = read_graph () in
  let r = read_rules () in
  let trec = read_trec () in
  let ord = read_ord () in
  let i0 = nopt (fun () -> nlist nn) in
  let r0 = nopt (fun () -> nlist nn) in
  let rho = nopt nq in
  let tmin = nq () in let tmax = nopt nq in
  let full = nbool () in
  let fuel = nat_of_int (nint ()) in
  let m = match cmd with
    | "DSIR" -> discrete_SIR g r trec ord i0 r0 rho tmin tmax full fuel
    | "BSIR" -> basic_discrete_SIR_R g r ord i0 r0 rho tmin tmax full fuel
    | "SIS" -> basic_discrete_SIS_R g r ord i0 rho tmin tmax full fuel
    | "PSIR" -> percolation_based_discrete_SIR_R g r ord i0 r0 rho tmin tmax full fuel
    | c -> failwith ("bad cmd " ^ c) in
  modes print_dout m

let run_perc () =
  let g = read_graph () in
  let r = read_rules () in
  modes print_perc (percolate_network_R g r)

let () = main (function
    | "PERC" -> run_perc ()
    | ("DSIR" | "BSIR" | "SIS" | "PSIR") as c -> run_sim c
    | c -> out ("BADCMD " ^ c))
