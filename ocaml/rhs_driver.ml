(* GLUE: base err main *)
(* Driver of component 'rhs': point evaluation of the generated right-hand sides
   (coq/Gen/Rhs.v) and of the translated loops.  Function parameters arrive as polynomial coefficient lists. *)
let pv l = String.concat " " (List.map sq l)
let nnat () = nat_of_int (nint ())
let npoly () = let c = nlist nq in (fun x -> peval c x)

(* RHS i  nq q..  nv (len q..)..  nn n..  nf (len c..).. *)
let run_rhs () =
  let i = nnat () in
  let qs = nlist nq in
  let vs = nlist (fun () -> nlist nq) in
  let ns = nlist nnat in
  let fs = nlist npoly in
  out ("OK " ^ pv (rhs_call i qs vs ns fs))

(* LOOP i  nq q..  nf poly..  n *)
let run_loop () =
  let i = nnat () in
  let qs = nlist nq in
  let fs = nlist npoly in
  let n = nnat () in
  out ("OK " ^ pv (loop_call i qs fs n))

let () = main (function
    | "RHS" -> run_rhs ()
    | "LOOP" -> run_loop ()
    | c -> out ("BADCMD " ^ c))
