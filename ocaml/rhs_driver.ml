(* GLUE: base err main *)
(* Driver of component 'rhs': point evaluation of the generated right-hand sides
   (coq/Gen/Rhs.v) and of the translated loops; the hand-written wrappers of
   Model/Attack.v.  Function parameters arrive as polynomial coefficient lists. *)
let pv l = String.concat " " (List.map sq l)
let nnat () = nat_of_int (nint ())
let npoly () = let c = nlist nq in (fun x -> peval c x)

(* RHS i  nq q..  nv (len q..)..  nn n..  nf (len c..).. *)
let run_rhs () =
  let i = nnat () in
  let qs = nlist nq in
  let vs = nlist (fun () -> nlist nq) in
  let ns = nlist nnat in
  let fs = nlist npoly in
  out ("OK " ^ pv (rhs_call i qs vs ns fs))

(* LOOP i  nq q..  nf poly..  n *)
let run_loop () =
  let i = nnat () in
  let qs = nlist nq in
  let fs = nlist npoly in
  let n = nnat () in
  out ("OK " ^ pv (loop_call i qs fs n))

(* degree distribution as list of (k, Pk) in dict order *)
let npk () = nlist (fun () -> let k = nnat () in let p = nq () in (k, p))

(* ARD pk p rho? number_its *)
let run_ard () =
  let pk = npk () in let p = nq () in let rho = nopt nq in let n = nnat () in
  out ("OK " ^ sq (attack_rate_discrete pk p rho n))
let run_arc () =
  let pk = npk () in let tau = nq () in let gamma = nq () in let rho = nopt nq in let n = nnat () in
  out ("OK " ^ sq (attack_rate_cts_time pk tau gamma rho n))
(* EBD N psihat psihatPrime p phiS0 phiR0 R0 nsteps -> rows theta R S I *)
let run_ebd () =
  let nn_ = nq () in let f = npoly () in let fp = npoly () in
  let p = nq () in let phis = nq () in let phir = nq () in let r0 = nq () in let n = nnat () in
  let rows = ebcm_discrete_rows nn_ f fp p phis phir r0 n in
  out ("OK " ^ String.concat " ; " (List.map (fun (((a, b), c), d) -> pv [a; b; c; d]) rows))

let () = main (function
    | "RHS" -> run_rhs ()
    | "LOOP" -> run_loop ()
    | "ARD" -> run_ard ()
    | "ARC" -> run_arc ()
    | "EBD" -> run_ebd ()
    | c -> out ("BADCMD " ^ c))
