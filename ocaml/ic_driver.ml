(* GLUE: base err graph main *)
(* Driver of component 'ic': row 0 of the modelled *_from_graph wrappers (C06).
   ROW0 <entry> <full> <graph> <I: 0 | 1 k nodes..> <R: 0 | 1 k nodes..> <rho: 0 | 1 num den> *)
let entry_of = function
  | "SIS_homogeneous_meanfield_from_graph" -> ESISm | "SIR_homogeneous_meanfield_from_graph" -> ESIRm
  | "SIS_homogeneous_pairwise_from_graph" -> ESISp | "SIR_homogeneous_pairwise_from_graph" -> ESIRp
  | "SIS_heterogeneous_meanfield_from_graph" -> ESIShm | "SIR_heterogeneous_meanfield_from_graph" -> ESIRhm
  | "SIS_heterogeneous_pairwise_from_graph" -> ESIShp | "SIR_heterogeneous_pairwise_from_graph" -> ESIRhp
  | "SIS_compact_pairwise_from_graph" -> ESIScp | "SIR_compact_pairwise_from_graph" -> ESIRcp
  | "SIS_super_compact_pairwise_from_graph" -> ESISsc | "SIR_super_compact_pairwise_from_graph" -> ESIRsc
  | "SIS_effective_degree_from_graph" -> ESISed | "SIR_effective_degree_from_graph" -> ESIRed
  | "SIS_compact_effective_degree_from_graph" -> ESISced | "SIR_compact_effective_degree_from_graph" -> ESIRced
  | "EBCM_from_graph" -> EEBCM
  | s -> failwith ("unknown entry " ^ s)

let sname_str = function
  | NS -> "S" | NI -> "I" | NR -> "R" | NSI -> "SI" | NSS -> "SS" | NII -> "II" | NSk -> "Sk" | NIk -> "Ik" | NRk -> "Rk"
  | NSkSl -> "SkSl" | NSkIl -> "SkIl" | NIkIl -> "IkIl" | NSsi -> "Ssi" | NIsi -> "Isi" | NSkappa -> "Skappa" | NTheta -> "theta"

let print_val = function
  | VS x -> out (" s " ^ sq x)
  | VV v -> out (" v " ^ string_of_int (List.length v)); List.iter (fun x -> out (" " ^ sq x)) v
  | VM m ->
    let c = match m with [] -> 0 | r :: _ -> List.length r in
    out (" m " ^ string_of_int (List.length m) ^ " " ^ string_of_int c);
    List.iter (fun r -> List.iter (fun x -> out (" " ^ sq x)) r) m

let read_req () =
  let i = nopt (fun () -> nlist nn) in
  let r = nopt (fun () -> nlist nn) in
  let rho = nopt nq in
  { rq_I = i; rq_R = r; rq_rho = rho }

let run_row0 () =
  let e = entry_of (next ()) in
  let full = nbool () in
  let g = read_graph () in
  let rq = read_req () in
  match row0_entry e g rq full with
  | Ok l -> out "OK"; List.iter (fun (n, v) -> out (" | " ^ sname_str n); print_val v) l
  | Err e -> out ("ERR " ^ err_name e)

let () = main (function
    | "ROW0" -> run_row0 ()
    | c -> out ("BADCMD " ^ c))
