(* GLUE: base err main *)
(* Driver of component 'attack': the hand-written wrappers of Model/Attack.v (C08).
   Function parameters arrive as polynomial coefficient lists. *)
let pv l = String.concat " " (List.map sq l)
let nnat () = nat_of_int (nint ())
let npoly () = let c = nlist nq in (fun x -> peval c x)

(* degree distribution as list of (k, Pk) in dict order *)
let npk () = nlist (fun () -> let k = nnat () in let p = nq () in (k, p))

(* ARD pk p rho? number_its *)
let run_ard () =
  let pk = npk () in let p = nq () in let rho = nopt nq in let n = nnat () in
  out ("OK " ^ sq (attack_rate_discrete pk p rho n))
let run_arc () =
  let pk = npk () in let tau = nq () in let gamma = nq () in let rho = nopt nq in let n = nnat () in
  out ("OK " ^ sq (attack_rate_cts_time pk tau gamma rho n))
(* EBD N psihat psihatPrime p phiS0 phiR0 R0 nsteps -> rows theta R S I *)
let run_ebd () =
  let nn_ = nq () in let f = npoly () in let fp = npoly () in
  let p = nq () in let phis = nq () in let phir = nq () in let r0 = nq () in let n = nnat () in
  let rows = ebcm_discrete_rows nn_ f fp p phis phir r0 n in
  out ("OK " ^ String.concat " ; " (List.map (fun (((a, b), c), d) -> pv [a; b; c; d]) rows))

let () = main (function
    | "ARD" -> run_ard ()
    | "ARC" -> run_arc ()
    | "EBD" -> run_ebd ()
    | c -> out ("BADCMD " ^ c))
