(* GLUE: base err graph main *)
(* Driver of component 'esirx': the extracted checkers of Model/EventSIRChk.v applied to
   GIVEN outputs (the implementation's), and the model's event log.
   XCHK <graph> i0 r0 tmin tmax? <tables> rows? tx? hist?
        tables as in esir_driver (per node an optional duration, then per node per neighbour an
        optional delay; optional = "0" for inf | "1 num den")
        rows? = 0 | 1 k (t_num t_den S I R)*k        tx? = 0 | 1 m (t_num t_den src? tgt)*m, src? = 0 | 1 u
        hist? = 0 | 1 n (k (t_num t_den status)*k)*n   node_history of the nodes 0..n-1 (status 0=S 1=I 2=R)
        prints  OK okb2=<b> traj=<b|-> tx=<b|-> cons=<b|->
        (cons: consistent_b of Model/Investigation.v on (histories, rows) with the moves S->I, I->R)
   XLOG <graph> i0 r0 tmin tmax? <tables>
        prints  OK LOG t:u:s ... ENABLED <b>      (fifo, fuel = esir_fuel) *)
let read_tables (g : graph) =
  let nodes = g.gnodes in
  let durs = Hashtbl.create 16 and dels = Hashtbl.create 64 in
  List.iter (fun u -> Hashtbl.replace durs (int_of_n u) (nopt nq)) nodes;
  List.iter (fun u -> List.iter (fun v -> Hashtbl.replace dels (int_of_n u, int_of_n v) (nopt nq)) (g.gadj u)) nodes;
  ((fun u v -> try Hashtbl.find dels (int_of_n u, int_of_n v) with Not_found -> None),
   (fun u -> try Hashtbl.find durs (int_of_n u) with Not_found -> None))

let sb b = if b then "1" else "0"
let nz () = z_of_zt (nzt ())

let run_xchk () =
  let g = read_graph () in
  let i0 = nlist nn in let r0 = nlist nn in
  let tmin = nq () in let tmax = nopt nq in
  let (delay, dur) = read_tables g in
  let rows = nopt (fun () -> nlist (fun () -> let t = nq () in let a = nz () in let b = nz () in let c = nz () in (t, [a; b; c]))) in
  let txs = nopt (fun () -> nlist (fun () -> let t = nq () in let s = nopt nn in let v = nn () in ((t, s), v))) in
  let hist = nopt (fun () -> nlist (fun () -> nlist (fun () -> let t = nq () in let s = nn () in (t, s)))) in
  out "OK";
  out (" okb2=" ^ sb (esir_okb2 g delay dur i0 r0 tmin tmax));
  out (" traj=" ^ (match rows with Some r -> sb (wf_trajb g tmin tmax r) | None -> "-"));
  out (" tx=" ^ (match txs with Some l -> sb (tx_validb g delay dur tmin tmax i0 r0 l) | None -> "-"));
  out (" cons=" ^ (match rows, hist with
      | Some r, Some hl ->
        let hs = List.mapi (fun i h -> (n_of_int i, h)) hl in
        let iv = { iv_nodes = g.gnodes; iv_hist = hs; iv_default = None; iv_ps = Some sir_ps } in
        sb (consistent_b iv r tmin [(n_of_int 0, n_of_int 1); (n_of_int 1, n_of_int 2)])
      | _, _ -> "-"))

let run_xlog () =
  let g = read_graph () in
  let i0 = nlist nn in let r0 = nlist nn in
  let tmin = nq () in let tmax = nopt nq in
  let (delay, dur) = read_tables g in
  match esir_log fifo g delay dur i0 r0 tmin tmax (esir_fuel g i0) with
  | Ok evs ->
    out "OK LOG";
    List.iter (fun ((t, u), s) -> out (" " ^ sq t ^ ":" ^ sn u ^ ":" ^ sn s)) evs;
    out (" ENABLED " ^ sb (enabledb (esir_init [] r0) evs))
  | Err e -> out ("ERR " ^ err_name e)

let () = main (function
    | "XCHK" -> run_xchk ()
    | "XLOG" -> run_xlog ()
    | c -> out ("BADCMD " ^ c))
