(* GLUE: base err main *)
(* Driver of component 'rhs2': point evaluation of the hand-written 2-D / node-level
   right-hand sides (coq/Model/Rhs2D.v).  Nodes are 0..n-1 (position in list(G.nodes())).
   NODE i n | per node: deg nbrs.. | nodelist (n nodes) | idx (n ints, by node) | rc (n q, by node)
          | ne, per ordered pair: u v q | V (len q..) | t
   CLASS i | X | Nk | NkNl | Ks (each: len q..) | N tau gamma t | r c
   GNODE / GCLASS: same arguments, evaluated by the definitions GENERATED from EoN/analytic.py (Gen/Rhs2.v) *)
let pv l = String.concat " " (List.map sq l)
let nnat () = nat_of_int (nint ())

let run_node gen =
  let i = nnat () in
  let n = nint () in
  let adj = Array.init n (fun _ -> nlist nn) in
  let nodelist = List.init n (fun _ -> nn ()) in
  let idx = Array.init n (fun _ -> nnat ()) in
  let rc = Array.init n (fun _ -> nq ()) in
  let ne = nint () in
  let trs = Hashtbl.create 64 in
  for _ = 1 to ne do
    let u = nint () in let v = nint () in let w = nq () in
    Hashtbl.replace trs (u, v) w
  done;
  let v = nlist nq in
  let t = nq () in
  let zero = qi 0 1 in let one = qi 1 1 in
  let g = { gnodes = List.init n n_of_int;
            gadj = (fun u -> let u = int_of_n u in if u < n then adj.(u) else []);
            gpred = (fun u -> let u = int_of_n u in if u < n then adj.(u) else []);
            gdirected = false;
            ew = (fun _ _ -> one); nw = (fun _ -> one); ewt = false; nwt = false } in
  let idxf u = let u = int_of_n u in if u < n then idx.(u) else O in
  let trf u v = try Hashtbl.find trs (int_of_n u, int_of_n v) with Not_found -> zero in
  let rcf u = let u = int_of_n u in if u < n then rc.(u) else zero in
  out ("OK " ^ pv ((if gen then rhs2g_node else rhs2_node) i g nodelist idxf trf rcf v t))

let run_class gen =
  let i = nnat () in
  let x = nlist nq in
  let nk = nlist nq in
  let nknl = nlist nq in
  let ks = nlist nq in
  let n = nq () in let tau = nq () in let gamma = nq () in let t = nq () in
  let r = nnat () in let c = nnat () in
  out ("OK " ^ pv ((if gen then rhs2g_class else rhs2_class) i x nk nknl ks n tau gamma t r c))

let () = main (function
    | "NODE" -> run_node false
    | "CLASS" -> run_class false
    | "GNODE" -> run_node true        (* the definitions generated from the source *)
    | "GCLASS" -> run_class true
    | c -> out ("BADCMD " ^ c))
