(* GLUE: base err main *)
(* Driver of component 'base': _ListDict_ (C16) and the helpers of auxiliary.py / get_Pk, PGFs (C20). *)
(* ---------- C16: _ListDict_ ---------- *)
let print_ld (s : n ld) =
  let its = List.sort compare (List.map (fun k -> (zt_of_n k, k)) s.items) in
  out (Printf.sprintf "S %d" (List.length its));
  List.iter (fun (kz, k) ->
      out (" " ^ ZZ.to_string kz);
      if s.weighted then out (":" ^ sq (ldN_wread s k))) its;
  out (" T " ^ sq (ldN_total s));
  if s.weighted then out (" M " ^ sq s.maxw)

let run_ld () =
  let w = nint () = 1 in
  let nops = nint () in
  let s = ref (ldN_empty w) in
  let dead = ref false in
  for _ = 1 to nops do
    let c = next () in
    let step o =
      if not !dead then begin
        (match ldN_step !s o with
         | Ok s' -> s := s'; print_ld s'
         | Err e -> dead := true; out ("E " ^ err_name e));
        out " | " end in
    match c with
    | "I" -> let k = nn () in let q = nq () in step (OpInsert (k, q))
    | "U" -> let k = nn () in let q = nq () in step (OpUpdate (k, q))
    | "R" -> let k = nn () in step (OpRemove k)
    | "A" -> let k = nn () in step (OpAdd k)
    | "C" ->
      (* one round of choose_random in which random.choice returned key k *)
      let k = nn () in let u = nq () in
      if not !dead then begin
        let rec idx i = function [] -> -1 | x :: t -> if zt_of_n x = zt_of_n k then i else idx (i + 1) t in
        let r = idx 0 (!s).items in
        if r < 0 then out "X absent" else
        (match ldN_round !s (nat_of_int r) u with
         | Accept k -> out ("A " ^ sn k)
         | Reject -> out "R"
         | Crash e -> out ("X " ^ err_name e));
        out " | " end
    | _ -> failwith ("bad op " ^ c)
  done

(* ---------- C20: helpers ---------- *)
let run_sub () =
  let reports = nlist nq in
  let times = nlist nq in
  let nser = nint () in
  let sers = List.init nser (fun _ -> nlist nq) in
  let pl l = String.concat " " (List.map sq l) in
  (match sers with
   | [a] -> (match subsample reports times a with
       | Ok r -> out ("OK " ^ pl r) | Err e -> out ("ERR " ^ err_name e))
   | [a; b] -> (match subsample2 reports times a b with
       | Ok (r1, r2) -> out ("OK " ^ pl r1 ^ " ; " ^ pl r2) | Err e -> out ("ERR " ^ err_name e))
   | [a; b; c] -> (match subsample3 reports times a b c with
       | Ok ((r1, r2), r3) -> out ("OK " ^ pl r1 ^ " ; " ^ pl r2 ^ " ; " ^ pl r3)
       | Err e -> out ("ERR " ^ err_name e))
   | _ -> failwith "nser")

let run_ts () =
  let times = nlist nq in
  let l = nlist nq in
  let thr = nq () in
  match get_time_shift times l thr with
  | Ok t -> out ("OK " ^ sq t) | Err e -> out ("ERR " ^ err_name e)

let run_deg () =
  let ds = nlist (fun () -> nat_of_int (nint ())) in
  let x = nq () in
  let t = nq () in
  let m = int_of_nat (maxdeg ds) in
  out "PK";
  for k = 0 to m do out (" " ^ sq (pk ds (nat_of_int k))) done;
  out (" PSI " ^ sq (psi ds x) ^ " " ^ sq (psiP ds x) ^ " " ^ sq (psiDP ds x));
  out (" R0 " ^ sq (estimate_R0 ds t))

let run_pnk () =
  let nd = nlist (fun () -> let d = nat_of_int (nint ()) in let l = nlist (fun () -> nat_of_int (nint ())) in (d, l)) in
  let m = int_of_nat (maxdeg (List.map fst nd)) in
  out "PNK";
  for k1 = 0 to m do for k2 = 0 to m do
      out (" " ^ sq (pnk nd (nat_of_int k1) (nat_of_int k2))) done done

let () = main (function
    | "LD" -> run_ld ()
    | "SUB" -> run_sub ()
    | "TS" -> run_ts ()
    | "DEG" -> run_deg ()
    | "PNK" -> run_pnk ()
    | c -> out ("BADCMD " ^ c))
