(* ---------- main loop: one case per line, dispatch on the first token ---------- *)
let main (dispatch : string -> unit) =
  try
    while true do
      let line = input_line stdin in
      toks := List.filter (fun s -> s <> "") (String.split_on_char ' ' line);
      Buffer.clear buf;
      (try dispatch (next ())
       with Failure m -> out (" DRIVERFAIL " ^ m)
          | Stack_overflow -> out " DRIVERFAIL stack_overflow"
          | Not_found -> out " DRIVERFAIL not_found"
          | Invalid_argument m -> out (" DRIVERFAIL invalid_argument " ^ m));
      print_endline (Buffer.contents buf)
    done
  with End_of_file -> ()
