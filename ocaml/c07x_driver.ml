(* GLUE: base err main *)
(* Driver of component 'c07x': point evaluation of the hand-written preferential-mixing models and of the
   polynomial changes of variables of Model/Pgf.v.  Numbers are rationals "num den". *)
let pv l = String.concat " " (List.map sq l)
let nnat () = nat_of_int (nint ())
let npk () = nlist (fun () -> let k = nnat () in let p = nq () in (k, p))
let npnk () = nlist (fun () -> let k = nnat () in let r = npk () in (k, r))

(* PM rho tau gamma X Pk Pnk *)
let run_pm () =
  let rho = nq () in let tau = nq () in let gam = nq () in
  let x = nlist nq in let pk = npk () in let pnk = npnk () in
  out ("OK " ^ pv (dEBCM_pref_mix x (qi 0 1) rho tau gam pk pnk))

(* PMD N rho p Pk Pnk T : the views after 0..T passes of pmd_step from pmd_init (= pmd_loop i).  Between passes every
   rational of the state is normalised with the extracted Qred (value-preserving, Qred_correct) so that numerators
   and denominators do not grow doubly exponentially; the printed values are those of pmd_loop i as rationals. *)
let norm st =
  let r = List.map (fun (k, x) -> (k, qred x)) in
  { pd_theta = r st.pd_theta; pd_R = qred st.pd_R; pd_S = qred st.pd_S; pd_I = qred st.pd_I;
    pd_phiS = r st.pd_phiS; pd_phiI = r st.pd_phiI; pd_phiR = r st.pd_phiR }
let run_pmd () =
  let n = nq () in let rho = nq () in let p = nq () in
  let pk = npk () in let pnk = npnk () in let t = nint () in
  let st = ref (pmd_init n rho pk) in
  let rows = ref [pv (pmd_view !st)] in
  for _ = 1 to t do
    st := norm (pmd_step n rho p pk pnk !st);
    rows := pv (pmd_view !st) :: !rows
  done;
  out ("OK " ^ String.concat " | " (List.rev !rows))

(* PHI which c N tau gam phiS0 phiR0 theta R dth dR *)
let run_phi () =
  let w = next () in
  let c = nlist nq in let n = nq () in let tau = nq () in let gam = nq () in
  let s0 = nq () in let r0 = nq () in let th = nq () in let r = nq () in let dth = nq () in let dr = nq () in
  let (a, b) = match w with
    | "sc" -> (phi_sc c n tau gam s0 r0 th r, dPhi_sc c n tau gam s0 r0 th dth dr)
    | "cp" -> (phi_cp c n tau gam s0 r0 th r, dPhi_cp c n tau gam s0 r0 th dth dr)
    | "ced" -> (phi_ced c n tau gam s0 r0 th r, dPhi_ced c n tau gam s0 r0 th dth dr)
    | "ed" -> (phi_ed c n tau gam s0 r0 th r, dPhi_ed c n tau gam s0 r0 th dth dr)
    | _ -> failwith "which" in
  out ("OK " ^ pv a ^ " | " ^ pv b)

(* PSI c N theta SS SI R dth dSS dSI dR *)
let run_psi () =
  let c = nlist nq in let n = nq () in let th = nq () in let ss = nq () in let si = nq () in let r = nq () in
  let dth = nq () in let dss = nq () in let dsi = nq () in let dr = nq () in
  out ("OK " ^ pv (psi_cp c n th ss si r) ^ " | " ^ pv (dPsi_cp c n th dth dss dsi dr))

(* PHIPM Pk N tau gam theta R dth dR *)
let run_phipm () =
  let pk = npk () in let n = nq () in let tau = nq () in let gam = nq () in
  let th = nq () in let r = nq () in let dth = nq () in let dr = nq () in
  out ("OK " ^ pv (phi_pm pk n tau gam th r) ^ " | " ^ pv (dPhi_pm pk n tau gam dth dr))

let () = main (function
    | "PM" -> run_pm ()
    | "PMD" -> run_pmd ()
    | "PHI" -> run_phi ()
    | "PSI" -> run_psi ()
    | "PHIPM" -> run_phipm ()
    | c -> out ("BADCMD " ^ c))
