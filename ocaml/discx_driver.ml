(* GLUE: base err graph main *)
(* Driver of component 'discx': the extracted checkers of Model/DiscreteChk.v (and consistent_b
   of Model/Investigation.v) applied to GIVEN outputs (the implementation's).
   DXCHK <graph> sir onestep i0 r0 tmin tmax? rows? tx? hist?
        sir = 1: discrete_SIR family (columns S I R), 0: basic_discrete_SIS (columns S I)
        onestep = 1: no test_recovery
        rows? = 0 | 1 k (t_num t_den ncols c1..cn)*k
        tx?   = 0 | 1 m (t_num t_den src? tgt)*m, src? = 0 | 1 u
        hist? = 0 | 1 n (k (t_num t_den status)*k)*n     node_history of the nodes 0..n-1
        prints  OK wf=<b> traj=<b|-> init=<b|-> tx=<b|-> cons=<b|-> *)
let sb b = if b then "1" else "0"
let nz () = z_of_zt (nzt ())

let run_dxchk () =
  let g = read_graph () in
  let sir = nbool () in let onestep = nbool () in
  let i0 = nlist nn in let r0 = nlist nn in
  let tmin = nq () in let tmax = nopt nq in
  let rows = nopt (fun () -> nlist (fun () -> let t = nq () in let c = nlist nz in (t, c))) in
  let txs = nopt (fun () -> nlist (fun () -> let t = nq () in let s = nopt nn in let v = nn () in ((t, s), v))) in
  let hist = nopt (fun () -> nlist (fun () -> nlist (fun () -> let t = nq () in let s = nn () in (t, s)))) in
  let hs = match hist with Some hl -> Some (List.mapi (fun i h -> (n_of_int i, h)) hl) | None -> None in
  let n0 = n_of_int 0 and n1 = n_of_int 1 and n2 = n_of_int 2 in
  out "OK";
  out (" wf=" ^ sb (wf_inputb g i0 r0));
  out (" traj=" ^ (match rows with Some r -> sb (dwf_rowsb sir onestep g tmin tmax r) | None -> "-"));
  out (" init=" ^ (match rows with Some r -> sb (dinit_okb sir g i0 r0 tmin r hs) | None -> "-"));
  out (" tx=" ^ (match txs, hs with Some l, Some h -> sb (dtx_okb sir g i0 tmin h l) | _, _ -> "-"));
  out (" cons=" ^ (match rows, hs with
      | Some r, Some h ->
        let iv = { iv_nodes = g.gnodes; iv_hist = h; iv_default = None; iv_ps = Some (if sir then [n0; n1; n2] else [n0; n1]) } in
        sb (consistent_b iv r tmin (if sir then [(n0, n1); (n1, n2)] else [(n0, n1); (n1, n0)]))
      | _, _ -> "-"))

let () = main (function
    | "DXCHK" -> run_dxchk ()
    | c -> out ("BADCMD " ^ c))
