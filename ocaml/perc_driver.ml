(* GLUE: base err samp graph main *)
(* Driver of component 'perc' (Model/Percolation.v, property C17).  Parsing and
   printing only; every result is computed by the extracted definitions. *)
let sorted_nodes (l : n list) = List.sort compare (List.map int_of_n l)
let snodes (l : n list) = String.concat "," (List.map string_of_int (sorted_nodes l))
let sx (t : q option) = match t with None -> "inf" | Some x -> sq x
let nx_ () : q option = nopt nq
let spair ((a, b) : q * q) = sq a ^ ":" ^ sq b
let uniq l = List.sort_uniq compare l

(* COMP <graph> O|I one? k src..  : _out_component_ / _in_component_ *)
let run_comp () =
  let g = read_graph () in
  let dir = next () in
  let one = nbool () in
  let l = nlist nn in
  let src = if one then One (List.hd l) else Many l in
  match (if dir = "O" then out_component g src else in_component g src) with
  | Ok r -> out ("OK " ^ snodes r)
  | Err e -> out ("ERR " ^ err_name e)

(* SCC <graph> : the classes, each sorted, sorted; then the indices of the largest *)
let run_scc () =
  let g = read_graph () in
  (match sccs g with
   | Ok l -> out ("OK " ^ String.concat "|" (uniq (List.map snodes l)));
     out (" LARGEST " ^ String.concat "|" (uniq (List.map snodes (largest l))))
   | Err e -> out ("ERR " ^ err_name e));
  (match ccs g with
   | Ok l -> out (" CC " ^ String.concat "|" (uniq (List.map snodes l)))
   | Err e -> out (" CC ERR " ^ err_name e))

let print_answers g =
  match estimate_answers g with
  | Ok l -> out ("OK " ^ String.concat " " (uniq (List.map spair l)))
  | Err e -> out ("ERR " ^ err_name e)

(* EST <graph> : every answer estimate_SIR_prob_size_from_dir_perc may give *)
let run_est () = let g = read_graph () in print_answers g

(* ESTALL <graph> : answers | out/in component of every single node | the SCCs *)
let run_estall () =
  let g = read_graph () in
  print_answers g;
  out " | COMPS";
  List.iter (fun u ->
      let f r = match r with Ok l -> snodes l | Err e -> "!" ^ err_name e in
      out (" " ^ sn u ^ ":" ^ f (out_component g (One u)) ^ ":" ^ f (in_component g (One u)))) g.gnodes;
  out " | SCC ";
  (match sccs g with
   | Ok l -> out (String.concat "|" (uniq (List.map snodes l)))
   | Err e -> out ("!" ^ err_name e))

let print_pg (h : pgraph) =
  out ("N " ^ String.concat "," (List.map sn h.pg_nodes));
  out (" E " ^ String.concat "," (List.sort compare (List.map (fun (u, v) -> sn u ^ ">" ^ sn v) h.pg_edges)));
  out (" D " ^ String.concat "," (List.sort compare (List.map (fun (u, d) -> sn u ^ "=" ^ sx d) h.pg_dur)));
  out (" T " ^ String.concat "," (List.sort compare (List.map (fun ((u, v), d) -> sn u ^ ">" ^ sn v ^ "=" ^ sx d) h.pg_delay)))

(* PTIM <graph> w  (dur per node: opt q)  ne (u v opt q).. : with_timing builder + estimator *)
let run_ptim () =
  let g = read_graph () in
  let w = nbool () in
  let n = List.length g.gnodes in
  let durs = Array.init n (fun _ -> nx_ ()) in
  let tab = Hashtbl.create 64 in
  let ne = nint () in
  for _ = 1 to ne do let u = nint () in let v = nint () in let d = nx_ () in Hashtbl.replace tab (u, v) d done;
  let dur u = durs.(int_of_n u) in
  let delay u v = Hashtbl.find tab (int_of_n u, int_of_n v) in
  let h = nm_perc_timing dur delay g w in
  out "OK "; print_pg h;
  out " CALLS";
  List.iter (function CallRec u -> out (" r" ^ sn u) | CallTrans (u, v) -> out (" t" ^ sn u ^ ">" ^ sn v)) (nm_perc_timing_calls g);
  out " EST "; print_answers (to_graph h)

(* PNM <graph> (xi present per node) (zeta present per node) k (u v).. : pairs on which transmission is True *)
let run_pnm () =
  let g = read_graph () in
  let n = List.length g.gnodes in
  let xi = Array.init n (fun _ -> nbool ()) in
  let ze = Array.init n (fun _ -> nbool ()) in
  let tab = Hashtbl.create 64 in
  let k = nint () in
  for _ = 1 to k do let u = nint () in let v = nint () in Hashtbl.replace tab (u, v) true done;
  let fx a u = if a.(int_of_n u) then Some u else None in
  let tr u v = Hashtbl.mem tab (int_of_n u, int_of_n v) in
  match nm_perc_tab (fx xi) (fx ze) tr g with
  | Ok h -> out "OK "; print_pg h; out " EST "; print_answers (to_graph h)
  | Err e -> out ("ERR " ^ err_name e)

let print_ugraph (h : graph) =
  out ("N " ^ String.concat "," (List.map sn h.gnodes));
  let es = List.concat_map (fun u -> List.map (fun v -> let a = int_of_n u and b = int_of_n v in (min a b, max a b)) (h.gadj u)) h.gnodes in
  out (" E " ^ String.concat "," (List.map (fun (a, b) -> string_of_int a ^ "-" ^ string_of_int b) (uniq es)))

(* PERC <graph> p k draws.. : percolate_network and estimate_SIR_prob_size on the same draws *)
let run_perc () =
  let g = read_graph () in
  let p = nq () in
  let ds = nlist nq in
  out ("EDGES " ^ String.concat "," (List.map (fun (u, v) -> sn u ^ "-" ^ sn v) (edges g)) ^ " ");
  (match percolate_network g p ds with
   | Ok h -> out "OK "; print_ugraph h;
     (match largest_cc_size h with Ok m -> out (" SIZE " ^ string_of_int (int_of_nat m)) | Err e -> out (" SIZE ERR " ^ err_name e))
   | Err e -> out ("ERR " ^ err_name e));
  out " | EST ";
  (match estimate_SIR_prob_size g p ds with
   | Ok a -> out ("OK " ^ spair a)
   | Err e -> out ("ERR " ^ err_name e))

(* DPN <graph> tau gamma w k draws.. : directed_percolate_network on scripted expovariate draws *)
let run_dpn () =
  let g = read_graph () in
  let tau = nq () in let gamma = nq () in
  let w = nbool () in
  let ds = nlist nq in
  match exec_pgraph (directed_percolate_network g tau gamma w) ds [] with
  | (Ok h, tr) -> out "OK "; print_pg h; out " EST "; print_answers (to_graph h); print_trace tr
  | (Err e, tr) -> out ("ERR " ^ err_name e); print_trace tr

(* GIN <graph> tau gamma  (one? k ids)  (one? k ids)  k draws.. : get_infected_nodes on scripted expovariate draws *)
let run_gin () =
  let g = read_graph () in
  let tau = nq () in let gamma = nq () in
  let src () = let one = nbool () in let l = nlist nn in if one then One (List.hd l) else Many l in
  let inf = src () in let rc = src () in
  let ds = nlist nq in
  match exec_nodes (get_infected_nodes g tau gamma inf rc) ds [] with
  | (Ok r, tr) -> out ("OK " ^ snodes r); print_trace tr
  | (Err e, tr) -> out ("ERR " ^ err_name e); print_trace tr

let () = main (function
    | "GIN" -> run_gin ()
    | "COMP" -> run_comp ()
    | "SCC" -> run_scc ()
    | "EST" -> run_est ()
    | "ESTALL" -> run_estall ()
    | "PTIM" -> run_ptim ()
    | "PNM" -> run_pnm ()
    | "PERC" -> run_perc ()
    | "DPN" -> run_dpn ()
    | c -> out ("BADCMD " ^ c))
