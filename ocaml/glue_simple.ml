(* ---------- walkers with cascade boundary draws (component 'simple') ----------
   Same as [walk] / [walk_all] of glue_samp.ml, except that a cascade cell is entered
   not only through its midpoint but also just inside its lower and upper boundary
   (cumulative probability +/- 2^-30): a cascade whose thresholds are off by a few per
   cent then takes a different branch than the model (DESIGN 2.4a, 2.6). *)
let casc_bounds (ps : q list) (i : int) : (QQ.t * QQ.t) option =
  let rec go acc j = function
    | [] -> None
    | p :: t ->
      let p = qq_of_q p in
      if j = i then (if QQ.gt p QQ.zero then Some (acc, QQ.add acc p) else None)
      else go (QQ.add acc p) (j + 1) t in
  go QQ.zero 0 ps

(* which = 0: midpoint, 1: just above the lower boundary, 2: just below the upper one *)
let casc_draw_b (ps : q list) (i : int) (which : int) : q option =
  match casc_bounds ps i with
  | None -> None
  | Some (lo, hi) ->
    let two_eps = QQ.add eps30 eps30 in
    if which = 0 || QQ.leq (QQ.sub hi lo) two_eps then Some (q_of_qq (QQ.div (QQ.add lo hi) (QQ.of_int 2)))
    else if which = 1 then Some (q_of_qq (QQ.add lo eps30))
    else Some (q_of_qq (QQ.sub hi eps30))

let walk_b (m : 'a samp) (ent : unit -> int) (maxdraws : int) : q list =
  let ds = ref [] and nd = ref 0 in
  let push d = ds := d :: !ds; incr nd; if !nd > maxdraws then raise Stop in
  let rec go (m : 'a samp) : unit =
    match m with
    | Ret _ | Fail _ -> ()
    | Expo (r, k) ->
      if QQ.equal (qq_of_q r) QQ.zero then () else begin
        let d = expo_delay (ent ()) in push d; go (k d) end
    | Flip (p, kt, kf) ->
      let e = ent () in
      let want = e land 1 = 0 and boundary = e land 6 = 0 in
      (match flip_draw p want boundary with
       | Some d -> push d; go (if want then kt else kf)
       | None ->
         (match flip_draw p (not want) boundary with
          | Some d -> push d; go (if want then kf else kt)
          | None -> ()))
    | Casc (ps, k) ->
      let n = List.length ps in
      if n = 0 then () else begin
        let e = ent () in
        let start = e mod n in
        let which = match (e / 7) mod 4 with 0 -> 1 | 1 -> 2 | _ -> 0 in
        let rec find j c = if c >= n then None else
            match casc_draw_b ps ((start + j) mod n) which with Some d -> Some d | None -> find (j + 1) (c + 1) in
        match find 0 0 with
        | Some d -> push d; go (k (casc_index ps d O))
        | None -> push (qi 1 2); go (k (casc_index ps (qi 1 2) O))
      end
    | Choose (w, c, k) ->
      let n = List.length c in
      if n = 0 then () else begin
        let rec round tries =
          let i = ent () mod n in
          let (key, wt) = List.nth c i in
          push (qi i 1);
          if w then begin
            push acc_draw;
            if QQ.gt (qq_of_q wt) QQ.zero then go (k key)
            else if tries > 60 then raise Stop else round (tries + 1)
          end else go (k key) in
        round 0 end
    | Unif (c, k) ->
      let n = List.length c in
      if n = 0 then () else begin
        let i = ent () mod n in push (qi i 1); go (k (List.nth c i)) end
    | Sample (pop, n, k) ->
      let len = List.length pop in
      if len < int_of_nat n then () else begin
        let i = if len = 0 then 0 else ent () mod len in
        push (qi i 1);
        go (k (firstn n (rotate (nat_of_int i) pop))) end in
  (try go m with Stop -> ());
  List.rev !ds

(* every path; cascade boundaries are added while fewer than [bdraws] draws have been made *)
let walk_all_b (m : 'a samp) (delays : q list) (maxdraws : int) (maxpaths : int) (bdraws : int) : q list list =
  let paths = ref [] and np = ref 0 in
  let fin ds = paths := List.rev ds :: !paths; incr np in
  let rec go (m : 'a samp) (ds : q list) (nd : int) : unit =
    if !np >= maxpaths then () else
    if nd > maxdraws then fin ds else
    match m with
    | Ret _ | Fail _ -> fin ds
    | Expo (r, k) ->
      if QQ.equal (qq_of_q r) QQ.zero then fin ds
      else List.iter (fun d -> go (k d) (d :: ds) (nd + 1)) delays
    | Flip (p, kt, kf) ->
      let any = ref false in
      (match flip_draw p true true with Some d -> any := true; go kt (d :: ds) (nd + 1) | None -> ());
      (match flip_draw p false true with Some d -> any := true; go kf (d :: ds) (nd + 1) | None -> ());
      if not !any then fin ds
    | Casc (ps, k) ->
      List.iteri (fun i _ ->
          List.iter (fun which ->
              match casc_draw_b ps i which with
              | Some d -> go (k (casc_index ps d O)) (d :: ds) (nd + 1)
              | None -> ())
            (if nd < bdraws then [0; 1; 2] else [0])) ps
    | Choose (w, c, k) ->
      if c = [] then fin ds else
      List.iteri (fun i (key, wt) ->
          if w then (if QQ.gt (qq_of_q wt) QQ.zero then go (k key) (acc_draw :: qi i 1 :: ds) (nd + 2))
          else go (k key) (qi i 1 :: ds) (nd + 1)) c
    | Unif (c, k) ->
      if c = [] then fin ds else
      List.iteri (fun i key -> go (k key) (qi i 1 :: ds) (nd + 1)) c
    | Sample (pop, n, k) ->
      let len = List.length pop in
      if len < int_of_nat n then fin ds
      else if len = 0 then go (k []) (qi 0 1 :: ds) (nd + 1)
      else List.iteri (fun i _ -> go (k (firstn n (rotate (nat_of_int i) pop))) (qi i 1 :: ds) (nd + 1)) pop in
  go m [] 0;
  List.rev !paths
