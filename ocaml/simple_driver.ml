(* GLUE: base err samp graph simple main *)
(* Driver of component 'simple': Gillespie_simple_contagion (Model/Simple.v).
   SIMPLE <graph> sortable nsp {A B rate <w>} nin {A B A' C rate <w>} {ic_u}(n) nrs rs.. tmin tmax? full fuel
     <w> = 0 | 1 k {keylen key.. num den} (weight_label dictionary) | 2 k {..} (rate_function table) | 3 (both)
   then one of
     W <entropy>                    choose a draw script by walking the program (cascade cells entered at
                                    their midpoint or just inside a boundary: ocaml/glue_simple.ml)
     A maxdraws maxpaths k d1..dk   every draw script (DFS), delays d1..dk, cascade boundaries for the first draws
     D k q1..qk                     run on the given draws *)
let run_one m ds =
  let (res, tr) = exec m ds [] in
  print_result print_simout res; print_draws ds; print_trace tr

let read_tab () = nlist (fun () -> let k = nlist nn in let w = nq () in (k, w))

let read_w () : wsrc =
  match nint () with
  | 0 -> WNone
  | 1 -> WLabel (read_tab ())
  | 2 ->
    let t = read_tab () in
    let h = Hashtbl.create 16 in
    List.iter (fun (k, w) -> Hashtbl.replace h (List.map int_of_n k) w) t;
    let one = qi 1 1 in
    WFun (fun k -> try Hashtbl.find h (List.map int_of_n k) with Not_found -> one)
  | _ -> WBoth

let run_simple () =
  let g = read_graph () in
  let sortable = nbool () in
  let spont = nlist (fun () ->
      let a = nn () in let b = nn () in let r = nq () in let w = read_w () in
      { tr_from = [a]; tr_to = [b]; tr_rate = r; tr_w = w }) in
  let induced = nlist (fun () ->
      let a = nn () in let b = nn () in let a' = nn () in let c = nn () in let r = nq () in let w = read_w () in
      { tr_from = [a; b]; tr_to = [a'; c]; tr_rate = r; tr_w = w }) in
  let n = List.length g.gnodes in
  let ica = Array.init n (fun _ -> nn ()) in
  let ic = (fun u -> let u = int_of_n u in if u < n then ica.(u) else N0) in
  let rstat = nlist nn in
  let tmin = nq () in let tmax = nopt nq in
  let full = nbool () in
  let fuel = nat_of_int (nint ()) in
  let m = simple g sortable spont induced ic rstat tmin tmax full fuel in
  match next () with
  | "W" -> let ent = read_entropy () in run_one m (walk_b m ent 4000)
  | "D" -> run_one m (nlist nq)
  | "A" ->
    let maxdraws = nint () in let maxpaths = nint () in
    let delays = nlist nq in
    let paths = walk_all_b m delays maxdraws maxpaths 5 in
    List.iteri (fun i ds -> if i > 0 then out " ## "; run_one m ds) paths
  | c -> failwith ("bad mode " ^ c)

let () = main (function
    | "SIMPLE" -> run_simple ()
    | c -> out ("BADCMD " ^ c))
