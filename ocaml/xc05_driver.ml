(* GLUE: base main *)
(* Driver of component 'xc05': the extracted checkers of Model/InitChk.v applied to GIVEN outputs
   (the implementation's).  Nodes are 0..n-1.
   ICSIR n i0 r0 tmin tmax? rows hist?
        i0, r0 = k u*k;  tmin = num den;  tmax? = 0 | 1 num den
        rows = k (t_num t_den m c*m)*k;   hist? = 0 | 1 n (k (t_num t_den status)*k)*n
        prints  OK dom=<b> chk=<b>
   ICGEN n req rstat tmin rows hist?
        req = n statuses (one per node), rstat = k s*k
        prints  OK chk=<b> *)
let sb b = if b then "1" else "0"
let nz () = z_of_zt (nzt ())
let read_rows () = nlist (fun () -> let t = nq () in let c = nlist nz in (t, c))
let read_hist () = nopt (fun () -> List.mapi (fun i h -> (n_of_int i, h)) (nlist (fun () -> nlist (fun () -> let t = nq () in let s = nn () in (t, s)))))

let run_icsir () =
  let n = nint () in
  let nodes = List.init n n_of_int in
  let i0 = nlist nn in let r0 = nlist nn in
  let tmin = nq () in let tmax = nopt nq in
  let rows = read_rows () in
  let hist = read_hist () in
  out ("OK dom=" ^ sb (ic_domb nodes i0 r0 tmin tmax) ^ " chk=" ^ sb (ic_sirb nodes i0 r0 tmin rows hist))

let run_icgen () =
  let n = nint () in
  let nodes = List.init n n_of_int in
  let reqa = Array.init n (fun _ -> nn ()) in
  let req u = let i = int_of_n u in if i < n then reqa.(i) else n_of_int 0 in
  let rstat = nlist nn in
  let tmin = nq () in
  let rows = read_rows () in
  let hist = read_hist () in
  out ("OK chk=" ^ sb (ic_genb nodes req rstat tmin rows hist))

let () = main (function
    | "ICSIR" -> run_icsir ()
    | "ICGEN" -> run_icgen ()
    | c -> out ("BADCMD " ^ c))
