(* GLUE: base err main *)
(* Driver of component 'master' (coq/Extract/XMaster.v).  Nodes are 0..n-1 = positions.
   common prefix:  n | per node: deg nbrs.. | rc (n q) | ne, per ordered pair: u v q | p (len q..)
   EVAL prefix t                              -> OK v1 | v2 | ... (master_eval)
   CUT  prefix j | U (len ints) | pairs (len, c1 c2 ..) | a i b k   -> OK v1 | v2 (cut_eval)
   TREE prefix                                -> OK <1|0> <number of branch cuts> (tree_check) *)
let pv l = String.concat " " (List.map sq l)
let pvs ls = String.concat " | " (List.map pv ls)
let nnat () = nat_of_int (nint ())

let prefix () =
  let n = nint () in
  let adj = Array.init n (fun _ -> nlist nn) in
  let rc = Array.init n (fun _ -> nq ()) in
  let ne = nint () in
  let trs = Hashtbl.create 64 in
  for _ = 1 to ne do
    let u = nint () in let v = nint () in let w = nq () in
    Hashtbl.replace trs (u, v) w
  done;
  let p = nlist nq in
  let zero = qi 0 1 in let one = qi 1 1 in
  let g = { gnodes = List.init n n_of_int;
            gadj = (fun u -> let u = int_of_n u in if u < n then adj.(u) else []);
            gpred = (fun u -> let u = int_of_n u in if u < n then adj.(u) else []);
            gdirected = false;
            ew = (fun _ _ -> one); nw = (fun _ -> one); ewt = false; nwt = false } in
  let nodelist = List.init n n_of_int in
  let idxf u = nat_of_int (int_of_n u) in
  let trf u v = try Hashtbl.find trs (int_of_n u, int_of_n v) with Not_found -> zero in
  let rcf u = let u = int_of_n u in if u < n then rc.(u) else zero in
  (g, nodelist, idxf, trf, rcf, p)

let () = main (function
    | "EVAL" ->
      let (g, nl, idxf, trf, rcf, p) = prefix () in
      let t = nq () in
      out ("OK " ^ pvs (master_eval g nl idxf trf rcf p t))
    | "CUT" ->
      let (g, nl, idxf, trf, rcf, p) = prefix () in
      let j = nnat () in
      let ul = nlist nnat in
      let pairs = nlist (fun () -> let a = nnat () in let b = nnat () in (a, b)) in
      let a = nn () in let i = nnat () in let b = nn () in let k = nnat () in
      out ("OK " ^ pvs (cut_eval g nl idxf trf rcf p j ul pairs a i b k))
    | "TREE" ->
      let (g, nl, idxf, _, _, _) = prefix () in
      let (b, k) = tree_check g nl idxf in
      out ("OK " ^ (if b then "1" else "0") ^ " " ^ string_of_int (int_of_nat k))
    | c -> out ("BADCMD " ^ c))
