(* ---------- graphs and simulator outputs ---------- *)
(* graph tokens: n directed | per node: deg nbrs.. | per node: pdeg preds.. |
   ewt nwt | per node: nw | ne, per edge: u v w   (nodes are 0..n-1) *)
let read_graph () : graph =
  let n = nint () in
  let directed = nbool () in
  let adj = Array.init n (fun _ -> nlist nn) in
  let pred = Array.init n (fun _ -> nlist nn) in
  let ewt = nbool () in let nwt = nbool () in
  let nwa = Array.init n (fun _ -> nq ()) in
  let ne = nint () in
  let ews = Hashtbl.create 64 in
  for _ = 1 to ne do
    let u = nint () in let v = nint () in let w = nq () in
    Hashtbl.replace ews (u, v) w;
    if not directed then Hashtbl.replace ews (v, u) w
  done;
  let one = qi 1 1 in
  { gnodes = List.init n n_of_int;
    gadj = (fun u -> let u = int_of_n u in if u < n then adj.(u) else []);
    gpred = (fun u -> let u = int_of_n u in if u < n then pred.(u) else []);
    gdirected = directed;
    ew = (fun u v -> try Hashtbl.find ews (int_of_n u, int_of_n v) with Not_found -> one);
    nw = (fun u -> let u = int_of_n u in if u < n then nwa.(u) else one);
    ewt; nwt }

let print_rows (rows : (q * z list) list) =
  out " ROWS";
  List.iter (fun (t, cs) -> out (" " ^ sq t ^ ":" ^ String.concat "," (List.map sz cs))) rows

let print_full (f : fulldata) =
  out " HIST";
  List.iter (fun (u, h) ->
      out (" " ^ sn u ^ "=" ^ String.concat "," (List.map (fun (t, s) -> sq t ^ "@" ^ sn s) h))) f.fd_hist;
  out " TRANS";
  List.iter (fun ((t, src), tgt) ->
      out (" " ^ sq t ^ ":" ^ (match src with Some s -> sn s | None -> "-") ^ ">" ^ sn tgt)) f.fd_trans

let print_simout (o : simout) =
  print_rows o.so_rows;
  (match o.so_full with Some f -> print_full f | None -> ())

let print_result (pr : 'a -> unit) (r : 'a result) =
  match r with
  | Ok a -> out "OK"; pr a
  | Err e -> out ("ERR " ^ err_name e)
