(* ---------- the sampler of Model/EventSIRConst.v (expovariate, sample, binomial):
   choosing scripted draws, printing traces (same conventions as glue_samp.ml) ---------- *)
let binom_choices (n : int) (tau : q) (d : q option) : int list =
  match d with
  | None -> [n]
  | Some x -> if QQ.equal (QQ.mul (qq_of_q tau) (qq_of_q x)) QQ.zero then [0] else List.init (n + 1) (fun i -> i)

let bwalk (m : 'a bsamp) (ent : unit -> int) (maxdraws : int) : q list =
  let ds = ref [] and nd = ref 0 in
  let push d = ds := d :: !ds; incr nd; if !nd > maxdraws then raise Stop in
  let rec go (m : 'a bsamp) : unit =
    match m with
    | BRet _ | BFail _ -> ()
    | BExpo (r, k) ->
      if QQ.equal (qq_of_q r) QQ.zero then () else begin
        let d = expo_delay (ent ()) in push d; go (k d) end
    | BSample (pop, n, k) ->
      let len = List.length pop in
      if len < int_of_nat n then () else begin
        let i = if len = 0 then 0 else ent () mod len in
        push (qi i 1);
        go (k (firstn n (rotate (nat_of_int i) pop))) end
    | BBinom (n, tau, d, k) ->
      let ch = binom_choices (int_of_nat n) tau d in
      let i = List.nth ch (ent () mod List.length ch) in
      push (qi i 1); go (k (nat_of_int i)) in
  (try go m with Stop -> ());
  List.rev !ds

let bwalk_all (m : 'a bsamp) (delays : q list) (maxdraws : int) (maxpaths : int) : q list list =
  let paths = ref [] and np = ref 0 in
  let fin ds = paths := List.rev ds :: !paths; incr np in
  let rec go (m : 'a bsamp) (ds : q list) (nd : int) : unit =
    if !np >= maxpaths then () else
    if nd > maxdraws then fin ds else
    match m with
    | BRet _ | BFail _ -> fin ds
    | BExpo (r, k) ->
      if QQ.equal (qq_of_q r) QQ.zero then fin ds
      else List.iter (fun d -> go (k d) (d :: ds) (nd + 1)) delays
    | BSample (pop, n, k) ->
      let len = List.length pop in
      if len < int_of_nat n then fin ds
      else if len = 0 || int_of_nat n = 0 then go (k (firstn n pop)) (qi 0 1 :: ds) (nd + 1)
      else List.iteri (fun i _ -> go (k (firstn n (rotate (nat_of_int i) pop))) (qi i 1 :: ds) (nd + 1)) pop
    | BBinom (n, tau, d, k) ->
      List.iter (fun i -> go (k (nat_of_int i)) (qi i 1 :: ds) (nd + 1)) (binom_choices (int_of_nat n) tau d) in
  go m [] 0;
  List.rev !paths

(* binomial(n, p): p = 1 - exp(-tau*duration) is printed as a float (the model keeps (tau, duration)) *)
let binom_p (tau : q) (d : q option) : float =
  match d with
  | None -> 1.0
  | Some x -> 1.0 -. exp (-. (QQ.to_float (qq_of_q tau)) *. (QQ.to_float (qq_of_q x)))

let print_bcall = function
  | BCExpo r -> out (" E:" ^ sq r)
  | BCSample (pop, n) -> out (" S:" ^ string_of_int (int_of_nat n) ^ ":" ^ skeys pop)
  | BCBinom (n, tau, d) -> out (" B:" ^ string_of_int (int_of_nat n) ^ ":" ^ Printf.sprintf "%.17g" (binom_p tau d))
let print_btrace tr = out " | TRACE"; List.iter print_bcall tr
