(* GLUE: base err samp graph main *)
(* Driver of component 'esis' (Model/EventSIS.v).
   FS <graph> tau gamma tmax? i0? rho? tmin full fuel MODE          fast_SIS
   NM <graph> tmax? i0? rho? tmin full fuel <tables> MODE           fast_nonMarkov_SIS
   NMREF <graph> tmax? i0 tmin full fuel <tables>                   ref_sis (C13 reference), prints REFOK 0|1
   tables: per node u: k d_1..d_k (durations by infection ordinal, cycled);
           per node u, per neighbour v in adjacency order: m, then m lists (k q_1..q_k) (delay lists by ordinal, cycled)
   MODE:  W <entropy> | A maxdraws maxpaths k d1..dk | D k q1..qk *)
let run_one m ds =
  let (res, tr) = exec m ds [] in
  print_result print_simout res; print_draws ds; print_trace tr

let modes m =
  match next () with
  | "W" -> let ent = read_entropy () in run_one m (walk m ent 3000)
  | "D" -> run_one m (nlist nq)
  | "A" ->
    let maxdraws = nint () in let maxpaths = nint () in
    let delays = nlist nq in
    let paths = walk_all m delays maxdraws maxpaths in
    List.iteri (fun i ds -> if i > 0 then out " ## "; run_one m ds) paths
  | c -> failwith ("bad mode " ^ c)

let read_tables (g : graph) =
  let nodes = Array.of_list g.gnodes in
  let n = Array.length nodes in
  let durs = Array.init n (fun _ -> Array.of_list (nlist nq)) in
  let tbl = Hashtbl.create 64 in
  Array.iteri (fun ui u ->
      List.iter (fun v -> Hashtbl.replace tbl (ui, int_of_n v) (Array.of_list (nlist (fun () -> nlist nq)))) (g.gadj u)) nodes;
  let zero = qi 0 1 in
  let dur u k = let a = durs.(int_of_n u) in
    if Array.length a = 0 then zero else a.(int_of_nat k mod Array.length a) in
  let delays u v k =
    match Hashtbl.find_opt tbl (int_of_n u, int_of_n v) with
    | None -> []
    | Some a -> if Array.length a = 0 then [] else a.(int_of_nat k mod Array.length a) in
  (dur, delays)

let run_fs () =
  let g = read_graph () in
  let tau = nq () in let gamma = nq () in
  let tmax = nopt nq in
  let i0 = nopt (fun () -> nlist nn) in
  let rho = nopt nq in
  let tmin = nq () in
  let full = nbool () in
  let fuel = nat_of_int (nint ()) in
  modes (fast_SIS g tau gamma tmax i0 rho tmin full fuel)

let run_nm () =
  let g = read_graph () in
  let tmax = nopt nq in
  let i0 = nopt (fun () -> nlist nn) in
  let rho = nopt nq in
  let tmin = nq () in
  let full = nbool () in
  let fuel = nat_of_int (nint ()) in
  let (dur, delays) = read_tables g in
  modes (fast_nonMarkov_SIS g dur delays tmax i0 rho tmin full fuel)

let run_nmref () =
  let g = read_graph () in
  let tmax = nopt nq in
  let i0 = nlist nn in
  let tmin = nq () in
  let full = nbool () in
  let fuel = nat_of_int (nint ()) in
  let (dur, delays) = read_tables g in
  match ref_sis g dur delays tmax tmin full fuel i0 with
  | Ok (o, ok) -> out "OK"; print_simout o; out (" REFOK " ^ (if ok then "1" else "0"))
  | Err e -> out ("ERR " ^ err_name e)

let () = main (function
    | "FS" -> run_fs ()
    | "NM" -> run_nm ()
    | "NMREF" -> run_nmref ()
    | c -> out ("BADCMD " ^ c))
