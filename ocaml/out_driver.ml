(* GLUE: base err graph main *)
(* Driver of component 'out' (coq/Model/Outputs.v, Outputs2.v; property C06, harness/c06out.py).
   ARGS = nq: k q.. | noq: k (0 | 1 q).. | nv: k (len q..).. | nov: k (0 | 1 len q..).. | nm: k (r rows: (len q..))..
        | nom: k (0 | 1 r rows).. | nf: k (len coeffs..).. | graph: 0 | 1 <graph> | nodelist: 0 | 1 len nodes.. | I: 0 | 1 len nodes..
        | R: 0 | 1 len nodes.. | pk: k (key q).. | pnk: k (key k2 (key q)..).. | ks: 0 | 1 len ints.. | z: k ints.. | n | full
   ODE  <entry> <tmin q> <tmax q> <tcount> ARGS <rest: k (len q..)..>   the solver returns X0 :: rest
        -> OK T len q.. | X0 len q.. | name s n q.. | name v n w q.. | name m n r c q..      or ERR <name>
   DISC <entry> ARGS        -> the same without a solver
   AR   <entry> ARGS        -> OK q
   FWD  <entry> <x q> ARGS  -> OK len q..           (what the wrapper hands to EBCM / EBCM_discrete, functions evaluated at x)
   ARV  ARGS                -> OK pk: k (key q).. | rho: 0|1 q | Sk0: 0 | 1 len q.. | phiS0: 0|1 q | phiR0 q *)
let entry_of = function
  | "SIS_homogeneous_meanfield" -> E_SISm | "SIR_homogeneous_meanfield" -> E_SIRm
  | "SIS_homogeneous_pairwise" -> E_SISp | "SIR_homogeneous_pairwise" -> E_SIRp
  | "SIS_heterogeneous_meanfield" -> E_SIShm | "SIR_heterogeneous_meanfield" -> E_SIRhm
  | "SIS_heterogeneous_pairwise" -> E_SIShp | "SIR_heterogeneous_pairwise" -> E_SIRhp
  | "SIS_compact_pairwise" -> E_SIScp | "SIS_compact_effective_degree" -> E_SISced | "SIR_compact_pairwise" -> E_SIRcp
  | "SIS_super_compact_pairwise" -> E_SISsc | "SIR_super_compact_pairwise" -> E_SIRsc
  | "SIS_effective_degree" -> E_SISed | "SIR_effective_degree" -> E_SIRed | "SIR_compact_effective_degree" -> E_SIRced
  | "EBCM" -> E_EBCM
  | "SIS_individual_based" -> E_SISib | "SIR_individual_based" -> E_SIRib
  | "SIS_individual_based_pure_IC" -> E_SISibp | "SIR_individual_based_pure_IC" -> E_SIRibp
  | "SIS_pair_based" -> E_SISpb | "SIR_pair_based" -> E_SIRpb
  | "SIS_pair_based_pure_IC" -> E_SISpbp | "SIR_pair_based_pure_IC" -> E_SIRpbp
  | "EBCM_uniform_introduction" -> E_EBCMu | "EBCM_pref_mix" -> E_PM | "EBCM_pref_mix_from_graph" -> E_PMg
  | "EBCM_discrete" -> E_EBCMd | "EBCM_discrete_from_graph" -> E_EBCMdg | "EBCM_discrete_uniform_introduction" -> E_EBCMdu
  | "EBCM_pref_mix_discrete" -> E_PMd | "EBCM_pref_mix_discrete_from_graph" -> E_PMdg
  | "Attack_rate_discrete_from_graph" -> E_ARd | "Attack_rate_cts_time_from_graph" -> E_ARc
  | s -> failwith ("unknown entry " ^ s)

let oname_str = function
  | OS -> "S" | OI -> "I" | OR -> "R" | OSI -> "SI" | OSS -> "SS" | OII -> "II" | OSk -> "Sk" | OIk -> "Ik" | ORk -> "Rk"
  | OSkSl -> "SkSl" | OSkIl -> "SkIl" | OIkIl -> "IkIl" | OSsi -> "Ssi" | OIsi -> "Isi" | OSkappa -> "Skappa" | OTheta -> "theta"
  | OSs -> "Ss" | OIs -> "Is" | ORs -> "Rs" | OXs -> "Xs" | OYs -> "Ys" | OZs -> "Zs" | OXY -> "XY" | OXX -> "XX"

let nnat () = nat_of_int (nint ())
let nvec () = nlist nq
let nmat () = nlist nvec
let zero = qi 0 1
let empty_graph : graph =
  { gnodes = []; gadj = (fun _ -> []); gpred = (fun _ -> []); gdirected = false;
    ew = (fun _ _ -> qi 1 1); nw = (fun _ -> qi 1 1); ewt = false; nwt = false }

let read_args () : oargs =
  let q = nlist nq in
  let oq = nlist (fun () -> nopt nq) in
  let v = nlist nvec in
  let ov = nlist (fun () -> nopt nvec) in
  let m = nlist nmat in
  let om = nlist (fun () -> nopt nmat) in
  let f = nlist (fun () -> let c = nvec () in (fun x -> qred (peval c x))) in
  let g = if nbool () then read_graph () else empty_graph in
  let nl = nopt (fun () -> nlist nn) in
  let i = nopt (fun () -> nlist nn) in
  let r = nopt (fun () -> nlist nn) in
  let pk = nlist (fun () -> let k = nnat () in let p = nq () in (k, p)) in
  let pnk = nlist (fun () -> let k = nnat () in let row = nlist (fun () -> let k2 = nnat () in let p = nq () in (k2, p)) in (k, row)) in
  let ks = nopt (fun () -> nlist nnat) in
  let z = nlist (fun () -> z_of_zt (nzt ())) in
  let n = nnat () in
  let full = nbool () in
  { a_q = q; a_oq = oq; a_v = v; a_ov = ov; a_m = m; a_om = om; a_f = f; a_g = g; a_nl = nl; a_I = i; a_R = r;
    a_pk = pk; a_pnk = pnk; a_ks = ks; a_z = z; a_n = n; a_full = full }

let pvec l = out (" " ^ string_of_int (List.length l)); List.iter (fun x -> out (" " ^ sq x)) l
let width = function [] -> 0 | r :: _ -> List.length r
let print_ser (nm, s) =
  out (" | " ^ oname_str nm);
  match s with
  | RS l -> out " s"; pvec l
  | RV l -> out (" v " ^ string_of_int (List.length l) ^ " " ^ string_of_int (width l));
    List.iter (fun r -> List.iter (fun x -> out (" " ^ sq x)) r) l
  | RM l ->
    let r = width l in let c = match l with [] -> 0 | m :: _ -> width m in
    out (" m " ^ string_of_int (List.length l) ^ " " ^ string_of_int r ^ " " ^ string_of_int c);
    List.iter (fun m -> List.iter (fun row -> List.iter (fun x -> out (" " ^ sq x)) row) m) l
let print_ret (r : oret) =
  out "OK T"; pvec r.r_times; out " | X0"; pvec r.r_X0; List.iter print_ser r.r_series

let run_ode () =
  let e = entry_of (next ()) in
  let tmin = nq () in let tmax = nq () in let tcount = nnat () in
  let a = read_args () in
  let rest = nlist nvec in
  match run_entry_ode e a tmin tmax tcount (fun x0 ts -> match ts with [] -> [] | _ -> x0 :: rest) with
  | Ok r -> print_ret r
  | Err e -> out ("ERR " ^ err_name e)

let run_disc () =
  let e = entry_of (next ()) in
  let a = read_args () in
  match run_entry_disc e a with
  | Ok r -> print_ret r
  | Err e -> out ("ERR " ^ err_name e)

let run_ar () =
  let e = entry_of (next ()) in
  let a = read_args () in
  match run_entry_ar e a with
  | Ok x -> out ("OK " ^ sq x)
  | Err e -> out ("ERR " ^ err_name e)

let run_fwd () =
  let e = entry_of (next ()) in
  let x = nq () in
  let a = read_args () in
  match fwd_entry e a x with
  | Ok v -> out "OK"; pvec v
  | Err e -> out ("ERR " ^ err_name e)

let popt pr = function None -> out " 0" | Some x -> out " 1"; pr x
let run_arv () =
  let a = read_args () in
  let rq = { rq_I = a.a_I; rq_R = a.a_R; rq_rho = (match a.a_oq with x :: _ -> x | [] -> None) } in
  match ar_view a.a_g rq with
  | Ok ((((pk, rho), sk0), phis), phir) ->
    out ("OK " ^ string_of_int (List.length pk));
    List.iter (fun (k, p) -> out (" " ^ string_of_int (int_of_nat k) ^ " " ^ sq p)) pk;
    out " |"; popt (fun x -> out (" " ^ sq x)) rho;
    out " |"; popt pvec sk0;
    out " |"; popt (fun x -> out (" " ^ sq x)) phis;
    out (" | " ^ sq phir)
  | Err e -> out ("ERR " ^ err_name e)

let () = main (function
    | "ODE" -> run_ode ()
    | "DISC" -> run_disc ()
    | "AR" -> run_ar ()
    | "FWD" -> run_fwd ()
    | "ARV" -> run_arv ()
    | c -> out ("BADCMD " ^ c))
