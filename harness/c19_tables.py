"""C19, reduction of the trusted base: the translator translate/effects2v.py is CHECKED on every run.

Part 1 (tables).  Every entry of the translator's classification tables (read from the module itself)
is called for real, on the installed numpy / networkx / scipy / builtins and on the classes myQueue and
_ListDict_ of the checked source tree, over a pool of representative arguments (ndarrays of several dtypes
and layouts incl. non-contiguous views, 0-d and object arrays, nested lists, dicts, sets, graphs with
container-valued attributes, graph views, dict views, iterators, callables) and a list of
semantics-changing keywords (out=, copy=False, inplace=True, as_view=True ...).  Before and after each call
the concrete heap reachable from the arguments is recorded object by object; the observation is compared
with what the translator's category says (the abstract statement it emits for such a call):

  LEAF      nothing changes; the result is immutable or a new object holding / viewing nothing that existed
  COPY      nothing changes; new object with its own storage holding (only) what the arguments hold
  DEEP      nothing changes; new object that may hold anything reachable from the arguments
  VIEW      nothing changes; the argument itself or a new object viewing it
  REACH     nothing changes (the result may be anything reachable)
  MUTATING  only the receiver / first argument changes; afterwards it may hold what the translator stores;
            the result is immutable, or (table value True) an element of / a view of the receiver

A category that is more permissive than the library is fine (precision); one that is less permissive is a
soundness defect of the machinery and is reported as a violation (key C19/tables/...).  Entries that cannot
be exercised must be listed in EXCUSED with the reason (absent from the installed version, ...).

Part 2 (statement mapping).  A corpus of small functions (translate/effects_corpus/*.py) is run for real on
snapshot arguments and through translator + Coq checker (vm_compute of Effects.report); the checker may
reject a harmless function but must never accept one that modified an argument.

Part 3 (fail-closed).  Names that are in no table make the translator refuse (probed with synthetic
sources), every method / library function / attribute the source uses is classified, and the module aliases
(np, nx, random, heapq ...) and bare names (Counter, binom, len ...) mean in the source's namespace what the
tables assume."""
import os, sys, ast, gc, io, json, time, types, importlib.util, contextlib, itertools, collections, re, subprocess, warnings
import collections.abc
import random as _random
from . import common as C

TRACE = os.environ.get('C19_TAB_TRACE')      # file that receives every call before it is made (to find a call that crashes the interpreter)
TRANSLATOR = os.path.join(C.VERIF, 'translate', 'effects2v.py')
CORPUS = os.path.join(C.VERIF, 'translate', 'effects_corpus')


def load_translator():
    spec = importlib.util.spec_from_file_location('effects2v_checked', TRANSLATOR)
    T = importlib.util.module_from_spec(spec)
    spec.loader.exec_module(T)
    return T


# ===================================================================== concrete heap ====
def _np():
    import numpy as np
    return np


_LEAF_TYPES = (type(None), bool, int, float, complex, str, bytes, range, slice, type, types.ModuleType,
               types.CodeType, types.FrameType, types.TracebackType, types.GetSetDescriptorType,
               types.MemberDescriptorType, types.MethodDescriptorType, types.WrapperDescriptorType)


def is_leaf(o):
    np = _np()
    if isinstance(o, _LEAF_TYPES) or o is Ellipsis or o is NotImplemented:
        return True
    if isinstance(o, (np.generic, np.dtype, np.ufunc, np.random.RandomState)):
        return True
    if isinstance(o, types.BuiltinFunctionType):
        s = getattr(o, '__self__', None)
        return s is None or isinstance(s, types.ModuleType)
    if isinstance(o, types.FunctionType):
        return not o.__closure__ and not o.__defaults__
    return False


IGNORED_ATTRS = {'__networkx_cache__'}
_DICT_VIEWS = (type({}.keys()), type({}.values()), type({}.items()))


def children(o):
    """objects directly held by o (references), leaves removed"""
    np = _np()
    if is_leaf(o):
        return []
    out = []
    if isinstance(o, np.ndarray):
        if o.dtype == object:
            out = [x for x in o.ravel(order='K').tolist()] if o.size else []
        return [c for c in out if not is_leaf(c)]
    if isinstance(o, np.flatiter):
        return []
    if isinstance(o, collections.abc.MappingView) and not isinstance(o, _DICT_VIEWS) and hasattr(o, '_mapping'):
        return children(o._mapping) if not is_leaf(o._mapping) else []
    if hasattr(o, '__next__') and not isinstance(o, types.GeneratorType):
        # an iterator cannot be written; it holds what the containers it walks hold
        out = []
        try:
            refs = gc.get_referents(o)
        except Exception:
            refs = []
        for r in refs:
            if isinstance(r, (type, types.ModuleType)) or is_leaf(r):
                continue
            if isinstance(r, (list, tuple, set, frozenset, dict, collections.deque, np.ndarray)) or hasattr(r, '__next__') or isinstance(r, _DICT_VIEWS):
                out += children(r)
            else:
                out.append(r)
        return [c for c in out if not is_leaf(c)]
    if isinstance(o, _DICT_VIEWS):
        # a dictionary view cannot be written; reading it yields what the dictionary holds
        ds = [d for d in gc.get_referents(o) if isinstance(d, dict)]
        out = []
        for d in ds:
            out += list(d.keys()) if isinstance(o, _DICT_VIEWS[0]) else list(d.values()) if isinstance(o, _DICT_VIEWS[1]) else list(d.keys()) + list(d.values())
        return [c for c in out if not is_leaf(c)]
    if isinstance(o, (list, tuple, set, frozenset, collections.deque)):
        out = list(o)
    elif isinstance(o, dict):
        out = list(o.keys()) + list(o.values())
        if getattr(o, 'default_factory', None) is not None:
            out.append(o.default_factory)
        if hasattr(o, '__dict__'):
            out += [v for k, v in vars(o).items() if k not in IGNORED_ATTRS]
    elif isinstance(o, types.FunctionType):
        for c in (o.__closure__ or ()):
            try:
                out.append(c.cell_contents)
            except ValueError:
                pass
        out += list(o.__defaults__ or ())
    elif isinstance(o, (types.MethodType, types.BuiltinFunctionType)):
        out = [o.__self__]
        if isinstance(o, types.MethodType):
            out.append(o.__func__)
    else:
        d = getattr(o, '__dict__', None)
        if isinstance(d, dict):
            out += [v for k, v in d.items() if k not in IGNORED_ATTRS]
        for k in type(o).__mro__:
            for s in getattr(k, '__slots__', ()) or ():
                if isinstance(s, str) and s not in ('__dict__', '__weakref__'):
                    try:
                        out.append(getattr(o, s))
                    except AttributeError:
                        pass
        try:
            for r in gc.get_referents(o):
                if r is d or isinstance(r, (type, types.ModuleType)):
                    continue
                if isinstance(r, dict) and r.get('__networkx_cache__', 0) != 0 and r is getattr(o, '__dict__', None):
                    continue
                out.append(r)
        except Exception:
            pass
    return [c for c in out if not is_leaf(c)]


def deep_immutable(o, depth=0):
    if is_leaf(o):
        return True
    if depth > 6:
        return False
    if isinstance(o, (tuple, frozenset)):
        return all(deep_immutable(c, depth + 1) for c in o)
    return False


def ident(e):
    if is_leaf(e):
        try:
            return ('v', type(e).__name__, repr(e))
        except Exception:
            return ('v', type(e).__name__)
    return ('id', id(e))


def shallow(o):
    """the state of ONE object (what an in-place modification of it changes)"""
    np = _np()
    if isinstance(o, np.ndarray):
        try:
            body = o.tobytes() if o.dtype != object else tuple(ident(e) for e in o.ravel(order='K').tolist())
        except Exception:
            body = None
        return ('nd', o.shape, o.strides, str(o.dtype), bool(o.flags.writeable), body)
    if isinstance(o, (list, tuple, collections.deque)):
        return ('seq', tuple(ident(e) for e in o))
    if isinstance(o, (set, frozenset)):
        return ('set', frozenset(ident(e) for e in o))
    if isinstance(o, dict):
        st = ('map', tuple((ident(k), ident(v)) for k, v in o.items()), ident(getattr(o, 'default_factory', None)))
        if hasattr(o, '__dict__'):
            st += (tuple(sorted((k, ident(v)) for k, v in vars(o).items() if k not in IGNORED_ATTRS)),)
        return st
    if isinstance(o, (types.FunctionType, types.MethodType, types.BuiltinFunctionType)) or hasattr(o, '__next__'):
        return None
    d = getattr(o, '__dict__', None)
    if isinstance(d, dict):
        return ('obj', tuple(sorted((str(k), ident(v)) for k, v in d.items() if k not in IGNORED_ATTRS)))
    return None


def arrays_in(objs):
    np = _np()
    res = []
    for o in objs:
        if isinstance(o, np.ndarray):
            res.append((o, o))
        elif isinstance(o, np.flatiter):
            res.append((o, o.base))
    return res


def shares(a, b):
    np = _np()
    if a.size == 0 or b.size == 0:
        return False
    try:
        return bool(np.shares_memory(a, b, max_work=10000))
    except Exception:
        return bool(np.may_share_memory(a, b))


class Reg:
    """the model-level objects of one experiment (arguments, the containers and payload objects the pool
    builders create on purpose); everything else reachable (inner dictionaries of a graph, the mapping
    behind a view ...) is internal storage of the model object it hangs off."""
    def __init__(self):
        self.model = {}        # id -> (name, obj)
        self.keep = []

    def M(self, o, name=None):
        if not is_leaf(o) and id(o) not in self.model:
            self.model[id(o)] = (name or 'o%d' % len(self.model), o)
            self.keep.append(o)
        return o


class Heap:
    def __init__(self, reg, roots, names):
        self.reg = reg
        for r, n in zip(roots, names):
            if id(r) in reg.model:
                reg.model[id(r)] = (n, r)
            else:
                reg.M(r, n)
        self.roots = list(roots)
        self.objs = {}
        self.owner = {}            # id of an internal object -> id of the model object it belongs to
        self.edges = {}            # id -> [child ids]
        order = list(reg.model.values())
        for name, m in order:
            self.objs[id(m)] = m
        for name, m in order:
            stack = [m]
            while stack:
                o = stack.pop()
                if id(o) in self.edges:
                    continue
                cs = children(o)
                self.edges[id(o)] = [id(c) for c in cs]
                for c in cs:
                    if id(c) not in self.objs:
                        self.objs[id(c)] = c
                        if id(c) not in reg.model:
                            self.owner[id(c)] = id(m) if id(o) in reg.model else self.owner.get(id(o), id(m))
                    if id(c) not in reg.model and id(c) not in self.edges:
                        stack.append(c)
        self.state = {i: shallow(o) for i, o in self.objs.items()}
        self.pre_arrays = arrays_in(self.objs.values())

    def name(self, i):
        if i in self.reg.model:
            return self.reg.model[i][0]
        return self.name(self.owner[i]) + '.<internal>' if i in self.owner else '?'

    def norm(self, i):
        """model object an existing object belongs to"""
        return i if i in self.reg.model else self.owner.get(i)

    def mkids(self, i, edges=None):
        """model objects held by model object i (through its internal storage); holding part of the internal
        storage of another model object counts as holding that object"""
        edges = edges or self.edges
        res, seen, stack = set(), set(), [(c, True) for c in edges.get(i, ())]
        while stack:
            c, direct = stack.pop()
            if c in seen:
                continue
            seen.add(c)
            if c in self.reg.model:
                if c != i or direct:
                    res.add(c)
            else:
                if self.owner.get(c, i) != i:
                    res.add(self.owner[c])
                stack.extend((x, False) for x in edges.get(c, ()))
        return res

    def mreach(self, ids):
        res, stack = set(), list(ids)
        while stack:
            c = stack.pop()
            if c in res:
                continue
            res.add(c)
            stack.extend(self.mkids(c))
        return res

    def changed(self):
        """model objects one of whose objects was modified in place"""
        out = set()
        for i, o in self.objs.items():
            if self.state[i] is not None and shallow(o) != self.state[i]:
                out.add(self.norm(i))
        return out

    def current_edges(self):
        e = {}
        stack = [m for _, m in self.reg.model.values()]
        while stack:
            o = stack.pop()
            if id(o) in e:
                continue
            cs = children(o)
            e[id(o)] = [id(c) for c in cs]
            for c in cs:
                if id(c) not in self.reg.model and id(c) not in e:
                    stack.append(c)
        return e

    def mates(self, ids):
        """the existing arrays that share a buffer with one of the arrays ids (a view and its base are one storage)"""
        np = _np()
        res = set(ids)
        for i in list(ids):
            o = self.objs.get(i)
            if isinstance(o, np.ndarray):
                for pa, mem in self.pre_arrays:
                    if shares(mem, o):
                        res.add(self.norm(id(pa)))
        return res

    def explore(self, r):
        """classification of a result: leaf / an existing object / a new object with the existing objects its
        new part holds (frontier) or whose buffer its new arrays share (viewed; own_view for the result itself)"""
        np = _np()
        if is_leaf(r):
            return {'kind': 'leaf'}
        if id(r) in self.objs:
            return {'kind': 'pre', 'is': self.norm(id(r)), 'internal': id(r) not in self.reg.model,
                    'shallow_immutable': isinstance(r, (tuple, frozenset, types.FunctionType)),
                    'plain_mutable': isinstance(r, (list, dict, set, collections.deque, np.ndarray, bytearray)) or hasattr(r, '_adj')}
        consumed = None
        if hasattr(r, '__next__'):
            # an iterator cannot be written; what matters is what reading it yields
            try:
                consumed = list(itertools.islice(r, 200))
            except Exception:
                consumed = []
        frontier, viewed, seen, n = set(), set(), set(), 0
        stack = [consumed] if consumed is not None else [r]
        own_view = set()
        while stack:
            o = stack.pop()
            if id(o) in seen:
                continue
            seen.add(id(o)); n += 1
            if n > 4000:
                return {'kind': 'new', 'toobig': True}
            for na, mem in arrays_in([o]):
                for pa, pmem in self.pre_arrays:
                    if shares(mem, pmem):
                        (own_view if o is r else viewed).add(self.norm(id(pa)))
            for c in children(o):
                if id(c) in self.objs:
                    if not deep_immutable(c):
                        frontier.add(self.norm(id(c)))
                elif id(c) not in seen:
                    stack.append(c)
        return {'kind': 'new', 'frontier': frontier, 'viewed': viewed, 'own_view': own_view,
                'objarray': isinstance(r, np.ndarray) and r.dtype == object,
                'exception': isinstance(r, BaseException), 'iterator': consumed is not None}


# ============================================================================ pool ====
def make_pool(EoN):
    """name -> (tags, builder(reg) -> object).  Builders create fresh objects on every call."""
    import numpy as np, networkx as nx
    from scipy import integrate
    P = collections.OrderedDict()

    def add(name, tags, f):
        P[name] = (set(tags.split()), f)

    def graph(R, directed=False, name='G'):
        G = nx.DiGraph() if directed else nx.Graph()
        G.add_edges_from([(0, 1), (0, 2), (1, 2), (2, 3)])
        for i, n in enumerate(G.nodes()):
            G.nodes[n]['rw'] = 0.5 + 0.25 * i
        G.nodes[0]['box'] = R.M([1, 2], name + '.nodebox')
        for i, (u, v) in enumerate(G.edges()):
            G.edges[u, v]['tw'] = 1.0 + i
        G.edges[0, 1]['box'] = R.M([3], name + '.edgebox')
        G.graph['name'] = 'pool'
        # the cached views are created now, so that reading them later is not seen as a change
        for a in ('nodes', 'edges', 'adj', 'degree', 'pred', 'succ', 'in_edges', 'out_edges', 'in_degree', 'out_degree'):
            getattr(G, a, None)
        return R.M(G, name)

    add('a1', 'arr num', lambda R: R.M(np.array([1.5, 2.5, 0.5, 4.0]), 'a1'))
    add('a2', 'arr num', lambda R: R.M(np.arange(12.0).reshape(3, 4).copy(), 'a2'))
    add('a2f', 'arr num', lambda R: R.M(np.asfortranarray(np.arange(12.0).reshape(3, 4)), 'a2f'))
    add('asq', 'arr num', lambda R: R.M(np.arange(9.0).reshape(3, 3).copy() + 1, 'asq'))
    add('anc', 'arr num', lambda R: R.M(R.M(np.arange(24.0).reshape(4, 6).copy(), 'anc.base')[::2, 1::2], 'anc'))
    add('a0', 'arr num', lambda R: R.M(np.array(2.5), 'a0'))
    add('a141', 'arr num', lambda R: R.M(np.arange(4.0).reshape(1, 4, 1).copy(), 'a141'))
    add('ai', 'arr num', lambda R: R.M(np.array([3, 1, 2, 0]), 'ai'))
    add('ab', 'arr num', lambda R: R.M(np.array([True, False, True, True]), 'ab'))
    add('ac', 'arr num', lambda R: R.M(np.array([1 + 2j, 3 - 1j]), 'ac'))
    add('ae', 'arr num', lambda R: R.M(np.zeros(0), 'ae'))
    add('ao', 'arr obj', lambda R: R.M(np.array([R.M([1], 'ao.box0'), R.M([2, 3], 'ao.box1')], dtype=object), 'ao'))
    # (np.matrix is not in the pool: np.stack(np.matrix, 2) crashes the interpreter in numpy 2.5; EoN does not use it)
    add('l', 'list', lambda R: R.M([3, 1, 2], 'l'))
    add('lf', 'list', lambda R: R.M([0.5, 0.25, 1.0, 2.0], 'lf'))
    add('le', 'list', lambda R: R.M([], 'le'))
    add('ll', 'list nested', lambda R: R.M([R.M([1], 'll.box0'), R.M([2, 3], 'll.box1')], 'll'))
    add('l2d', 'list', lambda R: R.M([R.M([1.0, 2.0], 'l2d.r0'), R.M([3.0, 4.0], 'l2d.r1')], 'l2d'))
    add('la', 'list nested', lambda R: R.M([R.M(np.array([1.0, 2.0]), 'la.a0'), R.M(np.array([3.0, 4.0]), 'la.a1')], 'la'))
    add('lp', 'list nested', lambda R: R.M([R.M((7, R.M([9], 'lp.box0')), 'lp.pair0'), R.M((8, R.M([10], 'lp.box1')), 'lp.pair1')], 'lp'))
    add('t', 'tuple', lambda R: R.M((3, 1, 2), 't'))
    add('tl', 'tuple nested', lambda R: R.M((R.M([1], 'tl.box0'), R.M([2], 'tl.box1')), 'tl'))
    add('d', 'dict', lambda R: R.M({0: 2.0, 1: 3.0, 2: 0.5}, 'd'))
    add('dl', 'dict nested', lambda R: R.M({0: R.M([1], 'dl.box0'), 1: R.M([2], 'dl.box1')}, 'dl'))
    add('dd', 'dict nested', lambda R: R.M(collections.defaultdict(list, {0: R.M([1], 'dd.box0')}), 'dd'))
    add('cnt', 'dict', lambda R: R.M(collections.Counter([1, 1, 2]), 'cnt'))
    add('s', 'set', lambda R: R.M({0, 1, 2, 5}, 's'))
    add('fs', 'set', lambda R: R.M(frozenset([1, 2]), 'fs'))
    add('dq', 'list', lambda R: R.M(collections.deque([R.M([1], 'dq.box0'), R.M([2], 'dq.box1')]), 'dq'))
    add('heap', 'list', lambda R: R.M([R.M((0.5, 0, R.M([1], 'heap.box0')), 'heap.e0'), R.M((1.5, 1, R.M([2], 'heap.box1')), 'heap.e1')], 'heap'))
    add('G', 'graph', lambda R: graph(R))
    add('D', 'graph', lambda R: graph(R, True, 'D'))
    add('Gnodes', 'view', lambda R: graph(R).nodes())
    add('Gnodesd', 'view', lambda R: graph(R).nodes(data=True))
    add('Gnbrs', 'view iter', lambda R: graph(R).neighbors(0))
    add('Gdeg', 'view', lambda R: graph(R).degree())
    add('Gadj0', 'view', lambda R: graph(R).adj[0])
    add('Gedges', 'view', lambda R: graph(R).edges())
    add('Gedgesd', 'view', lambda R: graph(R).edges(data=True))
    add('dkeys', 'view', lambda R: R.M({0: R.M([1], 'dk.box0'), 1: R.M([2], 'dk.box1')}, 'dk').keys())
    add('dvals', 'view', lambda R: R.M({0: R.M([1], 'dv.box0'), 1: R.M([2], 'dv.box1')}, 'dv').values())
    add('ditems', 'view', lambda R: R.M({0: R.M([1], 'di.box0'), 1: R.M([2], 'di.box1')}, 'di').items())
    add('it', 'iter', lambda R: iter(R.M([R.M([1], 'it.box0'), R.M([2], 'it.box1')], 'it.list')))
    add('str', 'scalar', lambda R: 'abc')
    add('i2', 'scalar', lambda R: 2)
    add('f05', 'scalar', lambda R: 0.5)
    add('fn', 'callable', lambda R: (lambda x: x))
    add('ns', 'eon', lambda R: R.M(types.SimpleNamespace(rw=R.M([1], 'ns.box'), other=2), 'ns'))

    def clos(R):
        box = R.M([1, 2], 'clos.box')
        def f(*a):
            return box
        return R.M(f, 'clos')
    add('clos', 'callable', clos)

    def listdict(R, weighted):
        L = EoN.simulation._ListDict_(weighted=weighted)
        for k in (0, 1, 2):
            if weighted:
                L.update(k, weight_increment=0.5 + k)
            else:
                L.update(k)
        return R.M(L, 'LD')
    add('LDw', 'eon', lambda R: listdict(R, True))
    add('LDu', 'eon', lambda R: listdict(R, False))

    def queue(R):
        Q = EoN.simulation.myQueue(10.0)
        box = R.M([], 'Q.box')
        def h(t, b):
            b.append(t)
        Q.add(1.0, h, args=(box,))
        Q.add(2.0, h, args=(box,))
        return R.M(Q, 'Q')
    add('Q', 'eon', queue)

    def ode(R):
        r = integrate.ode(lambda t, y: -y)
        r.set_integrator('vode')
        r.set_initial_value(np.array([1.0, 2.0]), 0.0)
        return R.M(r, 'ode')
    add('ode', 'eon', ode)
    add('sp', 'arr', lambda R: R.M(nx.adjacency_matrix(graph(R)), 'sp'))
    return P


def make_seconds():
    """small second / third arguments: name -> builder(reg)"""
    import numpy as np
    S = collections.OrderedDict()
    for k, v in (('0', 0), ('1', 1), ('2', 2), ('m1', -1), ('f05', 0.5), ('T', True), ('N', None), ('rw', 'rw'), ('vode', 'vode'),
                 ('t22', (2, 2)), ('t01', (0, 1)), ('t34', (4, 3)), ('float', float), ('len', len)):
        S[k] = (lambda v: (lambda R: v))(v)
    S['l01'] = lambda R: R.M([0, 1], 'x.l01')
    S['le'] = lambda R: R.M([], 'x.le')
    S['lbox'] = lambda R: R.M([R.M([7], 'x.box')], 'x.lbox')
    S['pairs'] = lambda R: R.M([R.M((7, R.M([9], 'x.pbox')), 'x.pair')], 'x.pairs')
    S['edges'] = lambda R: R.M([(0, 3), (5, 6)], 'x.edges')
    S['dattr'] = lambda R: R.M({0: R.M([5], 'x.dbox'), 1: 0.5}, 'x.dattr')
    S['ai'] = lambda R: R.M(np.array([0, 1]), 'x.ai')
    S['a4'] = lambda R: R.M(np.array([0.5, 0.25, 0.125, 1.0]), 'x.a4')
    S['a34'] = lambda R: R.M(np.ones((3, 4)), 'x.a34')
    S['fn'] = lambda R: (lambda *a: 0.5)
    S['nh'] = lambda R: R.M({n: R.M((R.M([0.0, 1.0], 'x.nh.t%d' % n), R.M(['S', 'I'], 'x.nh.s%d' % n)), 'x.nh.pair%d' % n) for n in range(4)}, 'x.nh')
    S['trans'] = lambda R: R.M([(0.5, 0, 1), (0.75, 1, 2)], 'x.trans')
    S['stat3'] = lambda R: R.M(['S', 'I', 'R'], 'x.stat3')
    S['pos'] = lambda R: R.M({n: (n, 0) for n in range(4)}, 'x.pos')
    return S


# keyword variants tried on top of every positional call that succeeded; value = builder(args) -> value
KEYWORDS = collections.OrderedDict([
    ('out=arg0', lambda a: {'out': a[0]}),
    ('out=last', lambda a: {'out': a[-1]}),
    ('copy=False', lambda a: {'copy': False}),
    ('inplace=True', lambda a: {'inplace': True}),
    ('as_view=True', lambda a: {'as_view': True}),
    ('data=True', lambda a: {'data': True}),
    ('axis=0', lambda a: {'axis': 0}),
    ('dtype=float', lambda a: {'dtype': float}),
    ('order=F', lambda a: {'order': 'F'}),
    ('subok=True', lambda a: {'subok': True}),
    ('key=len', lambda a: {'key': len}),
    ('default=arg0', lambda a: {'default': a[0]}),
    ('weight=rw', lambda a: {'weight': 'rw'}),
])


# ======================================================================= experiments ====
def resolve(name, EoN):
    """the object a dotted table name denotes in the source modules' namespace"""
    import builtins
    ns = {}
    for m in (EoN.analytic, EoN.simulation):
        ns.update({k: v for k, v in vars(m).items()})
    import numpy, networkx, random, math, scipy, scipy.integrate, scipy.special, heapq, copy
    ns.setdefault('math', math); ns.setdefault('copy', copy); ns.setdefault('collections', collections)
    ns.setdefault('scipy', scipy); ns.setdefault('deque', collections.deque); ns.setdefault('heapq', heapq)
    parts = name.split('.')
    o = ns.get(parts[0], getattr(builtins, parts[0], None))
    if o is None:
        return None
    for p in parts[1:]:
        o = getattr(o, p, None)
        if o is None:
            return None
    return o


class Case:
    __slots__ = ('entry', 'cat', 'desc', 'problems', 'status')


def run_call(reg, roots, names, thunk):
    heap = Heap(reg, roots, names)
    with contextlib.redirect_stdout(io.StringIO()), contextlib.redirect_stderr(io.StringIO()), warnings.catch_warnings():
        warnings.simplefilter('ignore')
        _random.seed(7); _np().random.seed(7)
        try:
            r = thunk()
        except BaseException as e:
            if isinstance(e, (KeyboardInterrupt, SystemExit, MemoryError)):
                raise
            return heap, None, 'raises:' + type(e).__name__
        res = heap.explore(r)
    res['obj'] = r
    return heap, res, 'ok'


def judge(T, kind, entry, cat, heap, res, recv_id, arg_ids, opts):
    """compare the observation with the claim of the category; returns (problems, limits): lists of strings.
    limits = discrepancies that fall under a documented limitation (object-dtype arrays)"""
    N = heap.name
    probs, limits = [], []
    allroots = ([recv_id] if recv_id is not None else []) + [a for a in arg_ids if a != recv_id]
    changed = {c for c in heap.changed() if c is not None}
    target = recv_id if kind in ('method', 'attr') else (arg_ids[0] if arg_ids else None)
    names = lambda xs: sorted(N(x) for x in xs)
    r = res
    # ---- who may change
    if cat == 'MUTATING':
        ok = heap.mates({target}) if target is not None else set()
        bad = changed - ok
        if bad:
            probs.append('modifies %s (only %s may change)' % (names(bad), N(target) if target is not None else 'nothing'))
    elif changed:
        probs.append('modifies %s (category %s claims no modification)' % (names(changed), cat))
    # ---- what the mutated object may hold afterwards
    if cat == 'MUTATING' and target is not None:
        after = heap.mkids(target, heap.current_edges())
        others = [a for a in allroots if a != target]
        allowed = heap.mkids(target) | {target} | (heap.mreach(others) if opts.get('store_reach') else set(others))
        extra = {x for x in after - allowed if not deep_immutable(heap.objs[x])}
        if extra:
            probs.append('afterwards %s holds %s (the translator stores only %s)' % (
                N(target), names(extra), 'what is reachable from the arguments' if opts.get('store_reach') else 'the arguments themselves'))
    # ---- the result
    if cat == 'REACH' or r['kind'] == 'leaf' or r.get('toobig'):
        return probs, limits
    if r.get('exception'):
        return probs, limits      # an exception object keeps its arguments in .args; reading .args back is refused (probe)
    sink = limits if r.get('objarray') else probs
    if cat == 'MUTATING':
        elems = heap.mkids(target) | set(allroots) if target is not None else set(allroots)
        if r['kind'] == 'pre':
            if deep_immutable(res['obj']):
                pass
            elif not opts.get('returns_element'):
                sink.append('returns the existing object %s (translator: the result is immutable)' % N(r['is']))
            elif r['is'] not in elems:
                sink.append('returns %s, neither an element of the receiver nor an argument' % N(r['is']))
        else:
            held = r['frontier'] | r['viewed'] | r['own_view']
            if held and not opts.get('returns_element'):
                sink.append('returns a new object holding/viewing %s (translator: the result is immutable)' % names(held))
            elif held - elems:
                sink.append('returns a new object holding %s beyond the receiver\'s elements' % names(held - elems))
        return probs, limits
    if cat == 'VIEW':
        src = set(allroots) if opts.get('view_all_args') else ({target} if target is not None else set())
        allowed = set(src)
        for x in src:
            allowed |= heap.mkids(x)
        allowed = heap.mates(allowed)
        if r['kind'] == 'pre':
            if not r['shallow_immutable'] and r['is'] not in allowed:
                sink.append('returns the existing object %s, not (a view of) %s' % (N(r['is']), names(src)))
            return probs, limits
        held = (r['frontier'] | r['viewed'] | r['own_view']) - allowed
        if held:
            sink.append('result holds/views %s (translator: view of %s only)' % (names(held), names(src)))
        return probs, limits
    if cat == 'REACH_ATTR':
        allowed = heap.mates(heap.mreach(allroots))
        if r['kind'] == 'pre':
            if r['is'] not in allowed:
                sink.append('attribute is the existing object %s, not reachable from the receiver' % N(r['is']))
            return probs, limits
        held = (r['frontier'] | r['viewed'] | r['own_view']) - allowed
        if held:
            sink.append('attribute holds %s, not reachable from the receiver' % names(held))
        return probs, limits
    # ---- LEAF / COPY / DEEP produce a NEW object (or an immutable one)
    if cat == 'LEAF':
        allowed = set()
    elif cat == 'COPY':
        allowed = set()
        for a in allroots:
            k1 = heap.mkids(a)
            allowed |= k1
            if opts.get('two_level'):
                for k in k1:
                    allowed |= heap.mkids(k)
        allowed |= set(opts.get('_held_args', ()))
        if opts.get('elem_views'):
            allowed |= set(allroots)       # list(A) of a 2-d array holds row views of A: the translator lets the result view its arguments
    else:
        allowed = heap.mreach(allroots)
    allowed = heap.mates(allowed)
    if r['kind'] == 'pre':
        if r['shallow_immutable']:
            held = {x for x in heap.mkids(r['is']) if not deep_immutable(heap.objs[x])} - allowed
            if held:
                sink.append('returns the existing immutable object %s, which holds %s (category %s)' % (N(r['is']), names(held), cat))
        elif cat == 'DEEP' and (hasattr(res['obj'], '__next__') or (r['internal'] and not r['plain_mutable'])) and r['is'] in allowed:
            pass       # iter(iterator) is the iterator; G.degree() is the cached read-only view of G: neither can be written
        else:
            sink.append('returns the EXISTING mutable object %s%s (category %s claims a new object)' % (
                N(r['is']), ' (its internal storage)' if r.get('internal') else '', cat))
        return probs, limits
    held = r['frontier'] - allowed
    if held:
        sink.append('new result holds %s (category %s allows %s)' % (names(held), cat,
                    'nothing' if cat == 'LEAF' else 'what the arguments hold' if cat == 'COPY' else 'what is reachable from the arguments'))
    views = (r['viewed'] | r['own_view']) - allowed
    if views:
        sink.append('new result shares memory with %s (category %s claims own storage)' % (names(views), cat))
    return probs, limits


# ------------------------------------------------------------------ table entries ----
def table_entries(T):
    """[(kind, name, category, opts)] for every entry of every table of the translator"""
    bulk = set(getattr(T, 'BULK_STORE', ()))
    two = getattr(T, 'TWO_LEVEL_COPY', None)
    va = bool(getattr(T, 'VIEW_ALL_ARGS', False))
    E = []
    for m, ret in T.MUTATING_METHODS.items():
        E.append(('method', m, 'MUTATING', {'returns_element': bool(ret), 'store_reach': m in bulk}))
    for m in sorted(T.LEAF_METHODS):
        E.append(('method', m, 'LEAF', {}))
    for m in sorted(T.DEEP_METHODS):
        E.append(('method', m, 'COPY' if m in ('keys', 'values', 'items') else 'DEEP', {'two_level': True, 'noargs_only': m in ('keys', 'values', 'items')}))
    for m in sorted(T.COPY_METHODS):
        E.append(('method', m, 'COPY', {}))
    for m in sorted(T.VIEW_METHODS):
        E.append(('method', m, 'VIEW', {}))
    for m in sorted(T.REACH_METHODS):
        E.append(('method', m, 'REACH', {}))
    for a in sorted(T.VIEW_ATTRS):
        E.append(('attr', a, 'VIEW', {}))
    for a in sorted(T.LEAF_ATTRS):
        E.append(('attr', a, 'LEAF', {}))
    for a in sorted(T.REACH_ATTRS):
        E.append(('attr', a, 'REACH_ATTR', {}))
    for f in sorted(T.LEAF_FUNCS):
        E.append(('func', f, 'LEAF', {}))
    for f in sorted(T.COPY_FUNCS):
        E.append(('func', f, 'COPY', {'two_level': f.startswith('np.') if two is None else (f.startswith('np.') or f in two),
                                      'elem_views': f in getattr(T, 'ELEMENT_VIEWS', ()), 'kw_held': f == 'dict' and two is not None}))
    for f in sorted(T.DEEP_FUNCS):
        E.append(('func', f, 'DEEP', {}))
    for f in sorted(T.REACH_FUNCS):
        E.append(('func', f, 'REACH', {}))
    for f in sorted(T.VIEW_FUNCS):
        E.append(('func', f, 'VIEW', {'view_all_args': va}))
    mret = getattr(T, 'MUTATING_FUNCS_RETURNING', ())
    for f in sorted(T.MUTATING_FUNCS):
        E.append(('func', f, 'MUTATING', {'returns_element': f in mret, 'store_reach': f in bulk}))
    for f in ('defaultdict', 'myQueue', '_ListDict_'):
        E.append(('func', f, 'LEAF', {'ctor': True}))
    return E


# entries that cannot be called here, with the reason (checked: the name must really be absent)
EXCUSED_ABSENT = 'absent from the installed library (a call raises AttributeError before anything is touched)'
# calls that the generic pool cannot produce
SPECIAL_ARGS = {
    'EoN.Simulation_Investigation': [['P:G', 'nh', 'trans', 'stat3'], ['P:G', 'nh', 'trans', 'stat3', 'pos'], ['P:D', 'nh', 'N', 'stat3']],
    'Simulation_Investigation': [['P:G', 'nh', 'trans', 'stat3'], ['P:G', 'nh', 'trans', 'stat3', 'pos']],
    'delattr': [['P:ns', 'rw']],
    'setattr': [['P:ns', 'rw', 'lbox'], ['P:ns', 'rw', 'f05']],
}
TRIPLES = [('ai', 'f05'), ('ai', 'a4'), ('rw', 'lbox'), ('dattr', 'rw'), ('ab4', 'a4'), ('0', '1'), ('1', '2'), ('0', 'f05'),
           ('2', 'f05'), ('0', 'lbox'), ('1', 'rw'), ('f05', '0'), ('rw', 'f05'), ('0', 'N'), ('fn', 'l01')]


def fmt_call(kind, name, rname, anames, kw):
    a = ', '.join(list(anames) + ([kw] if kw else []))
    if kind == 'method':
        return '%s.%s(%s)' % (rname, name, a)
    if kind == 'attr':
        return '%s.%s' % (rname, name)
    return '%s(%s)' % (name, a)


def exercise_entry(T, EoN, entry, pool, seconds, refused_kw, quick=True):
    kind, name, cat, opts = entry
    np = _np()
    out = {'entry': '%s %s' % (kind, name), 'cat': cat, 'ok': 0, 'raised': 0, 'problems': {}, 'limits': {}, 'absent': False}
    S = dict(seconds)
    S['ab4'] = lambda R: R.M(np.array([True, False, True, False]), 'x.ab4')

    def build(rname, anames):
        R = Reg()
        recv = pool[rname][1](R) if rname is not None else None
        args = [(pool[a][1] if a in pool and a not in S else S[a])(R) if not a.startswith('P:') else pool[a[2:]][1](R) for a in anames]
        return R, recv, args

    def thunk_of(recv, args, kw):
        if kind == 'attr':
            return lambda: getattr(recv, name)
        if kind == 'method':
            return lambda: getattr(recv, name)(*args, **kw)
        f = resolve(name, EoN)
        return lambda: f(*args, **kw)

    def one(rname, anames, kwname=None):
        """pretest without instrumentation, then the instrumented run on fresh objects"""
        if TRACE:
            with open(TRACE, 'a') as fh:
                fh.write('%s\n' % fmt_call(kind, name, rname, anames, kwname))
        for instrumented in (False, True):
            R, recv, args = build(rname, anames)
            kw = {}
            if kwname:
                try:
                    kw = KEYWORDS[kwname](([recv] if kind == 'method' else []) + args)
                except IndexError:
                    return 'raises'
            th = thunk_of(recv, args, kw)
            if not instrumented:
                with contextlib.redirect_stdout(io.StringIO()), contextlib.redirect_stderr(io.StringIO()), warnings.catch_warnings():
                    warnings.simplefilter('ignore')
                    try:
                        r = th()
                        if hasattr(r, '__next__'):
                            list(itertools.islice(r, 200))
                    except BaseException as e:
                        if isinstance(e, (KeyboardInterrupt, SystemExit, MemoryError)):
                            raise
                        return 'raises'
                continue
            roots = ([recv] if recv is not None else []) + [a for a in args] + [v for v in kw.values()]
            roots_nl = [r for r in roots if not is_leaf(r)]
            names = (['recv'] if recv is not None and not is_leaf(recv) else []) + ['arg%d' % i for i, a in enumerate(args) if not is_leaf(a)] + \
                    ['kw_%s' % k for k, v in kw.items() if not is_leaf(v)]
            # an object passed twice (np.exp(x, out=x)) is one root
            seen, rr, nn = set(), [], []
            for r_, n_ in zip(roots_nl, names):
                if id(r_) not in seen:
                    seen.add(id(r_)); rr.append(r_); nn.append(n_)
            heap, res, st = run_call(R, rr, nn, th)
            if st != 'ok':
                return 'raises'
            if kwname is None and kind != 'attr' and res.get('kind') == 'new' and isinstance(res.get('obj'), np.ndarray) and res['obj'].dtype != object:
                outprobe.append((rname, list(anames), res['obj'].shape, res['obj'].dtype))
            recv_id = id(recv) if recv is not None and not is_leaf(recv) else None
            arg_ids = [id(a) for a in args if not is_leaf(a)] + [id(v) for v in kw.values() if not is_leaf(v) and id(v) not in [id(a) for a in args] and v is not recv]
            if kind == 'func' and args and is_leaf(args[0]) and cat in ('MUTATING', 'VIEW'):
                probs, lims = [], []
                ch = {c for c in heap.changed() if c is not None}
                if ch:
                    probs = ['modifies %s although the first argument is immutable' % sorted(heap.name(c) for c in ch)]
            else:
                o2 = dict(opts, _held_args=[id(v) for v in kw.values() if not is_leaf(v)]) if opts.get('kw_held') else opts
                probs, lims = judge(T, kind, entry, cat, heap, res, recv_id, arg_ids, o2)
            desc = fmt_call(kind, name, rname, anames, kwname)
            objarr = any('obj' in pool[a][0] for a in ([rname] if rname else []) + [x[2:] for x in anames if x.startswith('P:')])
            for p in probs + lims:
                key = (kwname or '') + '|' + re.sub(r"\[.*?\]", '[..]', p)
                (out['limits'] if objarr or p in lims else out['problems']).setdefault(key, []).append('%s: %s' % (desc, p))
            return 'ok'

    maxpos = getattr(T, 'MAX_POSITIONAL', {}).get(name if kind == 'func' else '.' + name)
    if kind == 'func' and name == 'sum' and hasattr(T, 'MAX_POSITIONAL'):
        maxpos = 1          # sum(xs, start) is translated as an opaque call

    outprobe = []

    def probe_output_buffers():
        """a later positional parameter (or out=) that is an OUTPUT BUFFER: re-run calls whose result was a new numeric
        array with a buffer of that shape appended (after 0..2 None paddings); a call that fills the buffer must be one
        the translator refuses (REFUSED_KEYWORDS / MAX_POSITIONAL)"""
        tried = 0
        for rname, anames, shape, dtype in outprobe[:12]:
            for pad in range(3):
                npos = len(anames) + pad + 1
                if maxpos is not None and npos > maxpos:
                    continue
                for instrumented in (False,):
                    R, recv, args = build(rname, anames)
                    if dtype.kind not in 'fiubc' or int(np.prod(shape)) > 10000:
                        continue
                    buf = R.M((np.zeros(shape) - 7).astype(dtype), 'outbuf')
                    before = buf.tobytes()
                    full = args + [None] * pad + [buf]
                    try:
                        with contextlib.redirect_stdout(io.StringIO()), contextlib.redirect_stderr(io.StringIO()), warnings.catch_warnings():
                            warnings.simplefilter('ignore')
                            (getattr(recv, name) if kind == 'method' else resolve(name, EoN))(*full)
                    except BaseException as e:
                        if isinstance(e, (KeyboardInterrupt, SystemExit, MemoryError)):
                            raise
                        continue
                    tried += 1
                    if buf.tobytes() != before and cat != 'MUTATING':
                        desc = fmt_call(kind, name, rname, anames + ['None'] * pad + ['outbuf'], None)
                        out['problems'].setdefault('positional output buffer', []).append(
                            '%s: positional parameter %d is an output buffer (it was filled); the translator accepts %s positional arguments' % (
                                desc, npos, 'any number of' if maxpos is None else maxpos))
        out['outbuf_probes'] = tried

    def attempt(rname, anames):
        if maxpos is not None and len(anames) > maxpos:
            return          # refused by the translator (probed in part 3)
        st = one(rname, anames)
        if st == 'ok':
            out['ok'] += 1
            shape = (rname, len(anames))
            if kind != 'attr' and kwbudget.get(shape, 0) < 4:
                kwbudget[shape] = kwbudget.get(shape, 0) + 1
                for kwname in KEYWORDS:
                    if kwname.split('=')[0] in refused_kw:
                        continue
                    if one(rname, anames, kwname) == 'ok':
                        out['ok'] += 1
                        out.setdefault('kw_ok', set()).add(kwname)
        else:
            out['raised'] += 1

    kwbudget = {}
    pnames = list(pool)
    snames = [k for k in S if k not in ('nh', 'trans', 'stat3', 'pos')]
    if kind == 'func':
        f = resolve(name, EoN)
        if f is None:
            out['absent'] = True
            return out
        if opts.get('ctor'):
            for a in ((), ('float',), ('f05',), ('T',)):
                attempt(None, list(a))
            return out
        attempt(None, [])
        for an in SPECIAL_ARGS.get(name, []):
            attempt(None, an)
        for p in pnames:
            attempt(None, ['P:' + p])
            for s in snames:
                attempt(None, ['P:' + p, s])
            for s1, s2 in TRIPLES:
                attempt(None, ['P:' + p, s1, s2])
        for s in snames:
            attempt(None, [s])
            for s2 in snames:
                attempt(None, [s, s2])
        for s1, s2 in TRIPLES:
            for s0 in ('0', '1', 'f05', '2'):
                attempt(None, [s0, s1, s2])
        probe_output_buffers()
        return out
    # methods and attributes: every pool object that has the name
    any_recv = False
    for rname in pnames:
        R = Reg()
        try:
            recv = pool[rname][1](R)
            a = getattr(recv, name)
        except Exception:
            continue
        if kind == 'method' and not callable(a):
            continue
        if kind == 'attr' and isinstance(a, (types.MethodType, types.BuiltinFunctionType)) and not hasattr(a, '__getitem__') and cat == 'LEAF':
            continue          # a bound method read as a value; calling it goes through the method tables
        any_recv = True
        if kind == 'attr':
            attempt(rname, [])
            continue
        if not opts.get('args_only'):
            attempt(rname, [])
        if opts.get('noargs_only'):
            continue
        for s in snames:
            attempt(rname, [s])
        for p in pnames:
            attempt(rname, ['P:' + p])
        for s1, s2 in TRIPLES:
            attempt(rname, [s1, s2])
        for s1 in ('0', '1', '5', 'f05', 'rw'):
            for s2 in ('lbox', 'f05', '0', 'N', 'a4'):
                if s1 != '5':
                    attempt(rname, [s1, s2])
    if not any_recv:
        out['absent'] = True
    if kind == 'method':
        probe_output_buffers()
    return out


def _worker(a):
    (i, repo) = a
    os.environ['EON_REPO'] = repo
    if os.environ.get('C19_TAB_CRASH') == str(i):      # self-test of the crash isolation
        os.kill(os.getpid(), 11)
    T = load_translator()
    EoN = C.import_eon()
    pool = make_pool(EoN); seconds = make_seconds()
    E = table_entries(T)
    r = exercise_entry(T, EoN, E[i], pool, seconds, set(getattr(T, 'REFUSED_KEYWORDS', ())))
    r['kw_ok'] = sorted(r.get('kw_ok', ()))
    return i, r


def _child(i, conn):
    try:
        conn.send(_worker((i, C.REPO))[1])
    except BaseException as e:
        conn.send({'_error': '%s: %s' % (type(e).__name__, e)})
    finally:
        conn.close()


def validate_tables(nproc=8, per_entry_timeout=90):
    """returns (translator module, entries, results per entry, seconds).  Every entry runs in its OWN forked process (the
    parent has the libraries imported, so a fork is cheap): a library call that crashes or hangs the interpreter loses that
    entry only, and is reported for it."""
    import multiprocessing as mp
    t0 = time.time()
    T = load_translator()
    E = table_entries(T)
    C.import_eon()
    ctx = mp.get_context('fork')
    done, crashed, running, todo = {}, {}, {}, list(range(len(E)))
    while todo or running:
        while todo and len(running) < nproc:
            i = todo.pop(0)
            pc, cc = ctx.Pipe(duplex=False)
            p = ctx.Process(target=_child, args=(i, cc))
            p.start(); cc.close()
            running[i] = (p, pc, time.time())
        for i, (p, pc, ts) in list(running.items()):
            if pc.poll(0):
                try:
                    r = pc.recv()
                except EOFError:
                    r = {'_error': 'the worker process died (exit code %s)' % p.exitcode}
                p.join(5); pc.close(); del running[i]
                if '_error' in r:
                    crashed[i] = r['_error']
                else:
                    done[i] = r
            elif not p.is_alive():
                p.join(1); pc.close(); del running[i]
                crashed[i] = 'the worker process died (exit code %s)' % p.exitcode
            elif time.time() - ts > per_entry_timeout:
                p.kill(); p.join(5); pc.close(); del running[i]
                crashed[i] = 'timeout after %ds' % per_entry_timeout
        time.sleep(0.005)
    res = []
    for i in range(len(E)):
        if i in done:
            res.append(done[i])
        else:
            res.append({'entry': '%s %s' % (E[i][0], E[i][1]), 'cat': E[i][2], 'ok': 0, 'raised': 0, 'limits': {}, 'absent': False, 'kw_ok': [],
                        'problems': {'crash': ['the validation worker for this entry crashed or timed out (%s)' % crashed.get(i, 'not run')]}})
    return T, E, res, time.time() - t0


def validate_odeint(T, EoN):
    """ODE_FUNCS: f is called with a state array that is NOT the caller's X0, nothing passed is modified, the result is new"""
    np = _np()
    probs, n = [], 0
    for name in sorted(T.ODE_FUNCS):
        fn = resolve(name, EoN)
        if fn is None:
            continue
        for X0 in (np.array([1.0, 2.0]), np.arange(6.0)[::2], np.array([1, 2])):
            ts = np.linspace(0, 1, 5); P = np.array([0.5]); seen = []
            def f(X, t, P):
                seen.append(X)
                return -P[0] * X
            b = (X0.tobytes(), ts.tobytes(), P.tobytes())
            try:
                r = fn(f, X0, ts, args=(P,))
            except Exception as e:
                probs.append('%s raised %s' % (name, type(e).__name__)); continue
            n += 1
            if (X0.tobytes(), ts.tobytes(), P.tobytes()) != b:
                probs.append('%s modifies X0 / times / args' % name)
            if any(shares(x, X0) for x in seen if isinstance(x, np.ndarray)):
                probs.append('%s hands the caller\'s X0 itself to the right-hand side' % name)
            if any(isinstance(r, np.ndarray) and shares(r, a) for a in (X0, ts, P)):
                probs.append('%s returns an array sharing memory with an argument' % name)
    return probs, n


# ================================================================ part 2: corpus ====
def corpus_args(EoN):
    import numpy as np, networkx as nx
    def G():
        g = nx.Graph()
        g.add_edges_from([(0, 1), (0, 2), (1, 2), (2, 3)])
        for i, n in enumerate(g.nodes()):
            g.nodes[n]['rw'] = 0.5 + 0.25 * i
            g.nodes[n]['box'] = [i]
        for i, (u, v) in enumerate(g.edges()):
            g.edges[u, v]['tw'] = 1.0 + i
        return g
    return {
        'L': lambda: [3, 1, 2], 'L0': lambda: [], 'L7': lambda: [1, 2, 3, 4, 5, 6, 7], 'L01': lambda: [0, 1],
        'LL': lambda: [[1], [2, 3]], 'LL3': lambda: [[1], [2], [3]],
        'A': lambda: np.array([1.0, 2.0, 3.0, 4.0]), 'A3': lambda: np.zeros(3), 'AU': lambda: np.array([3.0, 1.0, 2.0]), 'A2': lambda: np.arange(12.0).reshape(3, 4).copy(),
        'A141': lambda: np.arange(4.0).reshape(1, 4, 1).copy(),
        'D': lambda: {0: 1.0, 1: 2.0}, 'DL': lambda: {0: [1], 1: [2]}, 'S': lambda: {0, 1, 2},
        'G': G, 'H': lambda: [(0.5, 0, [1]), (1.5, 1, [2])], 'T': lambda: ([1], [2]), 'N': lambda: 3,
        'F': lambda: (lambda z: z), 'O': lambda: types.SimpleNamespace(flag=0, box=[1]),
    }


def load_corpus(EoN):
    """[(file, function name, source, is_entry)] and the exec'd namespaces"""
    funcs, spaces, cases, regression = [], {}, {}, set()
    for fn in sorted(os.listdir(CORPUS)):
        if not fn.endswith('.py'):
            continue
        src = open(os.path.join(CORPUS, fn)).read()
        tree = ast.parse(src)
        ns = {'myQueue': EoN.simulation.myQueue, '_ListDict_': EoN.simulation._ListDict_, '__name__': 'effects_corpus.' + fn[:-3]}
        exec(compile(src, os.path.join(CORPUS, fn), 'exec'), ns)
        spaces[fn] = ns
        for top in tree.body:
            if isinstance(top, ast.FunctionDef):
                funcs.append((fn, top.name, ast.get_source_segment(src, top), not top.name.startswith('_')))
        for k, v in ns.get('CASES', {}).items():
            cases[k] = (fn, v)
        regression |= set(ns.get('REGRESSION', []))
    return funcs, spaces, cases, regression


def corpus_dynamic(EoN):
    from . import c19 as C19
    import inspect
    funcs, spaces, cases, regression = load_corpus(EoN)
    builders = corpus_args(EoN)
    dyn = {}
    for name, (fn, argsets) in cases.items():
        f = spaces[fn][name]
        params = list(inspect.signature(f).parameters)
        mod, raised, ran = set(), [], 0
        for keys in argsets:
            args = [builders[k]() for k in keys]
            dflt = {p.name: p.default for p in inspect.signature(f).parameters.values() if p.default is not inspect._empty}
            before = [C19.snap(a) for a in args]; dbefore = {k: C19.snap(v) for k, v in dflt.items()}
            with contextlib.redirect_stdout(io.StringIO()), warnings.catch_warnings():
                warnings.simplefilter('ignore')
                try:
                    _random.seed(3)
                    f(*args)
                    ran += 1
                except Exception as e:
                    raised.append(type(e).__name__)
            for prm, b, a in zip(params, before, args):
                if C19.snap(a) != b:
                    mod.add(prm)
            for k, v in dflt.items():
                if C19.snap(v) != dbefore[k]:
                    mod.add(k)
        dyn[name] = {'modified': sorted(mod), 'raised': raised, 'ran': ran}
    return funcs, cases, regression, dyn


def run_translator_on(T, sources, workdir):
    """(rc, message): translate a fake source tree whose EoN/simulation.py is the given function sources"""
    os.makedirs(os.path.join(workdir, 'EoN'), exist_ok=True)
    open(os.path.join(workdir, 'EoN', 'simulation.py'), 'w').write('\n\n'.join(sources) + '\n')
    for f in ('analytic.py', '__init__.py'):
        open(os.path.join(workdir, 'EoN', f), 'w').write('')
    argv, err = sys.argv, io.StringIO()
    sys.argv = ['effects2v.py', '--repo', workdir, '-o', os.path.join(workdir, 'Effects.v'), '--json', os.path.join(workdir, 'table.json')]
    try:
        with contextlib.redirect_stderr(err):
            rc = T.main()
    finally:
        sys.argv = argv
    return rc, err.getvalue().strip()


def corpus_static(T, funcs, workdir):
    """{function: 'refused: ..' | {'mutated': [...] or None}} by translator + Coq checker (vm_compute)"""
    live = list(funcs)
    refused = {}
    for _ in range(len(funcs) + 2):
        rc, msg = run_translator_on(T, [f[2] for f in live], workdir)
        if rc == 0:
            break
        names = [f[1] for f in live]
        hit = [n for n in re.split(r'[:\s]+', msg) if n in names]
        if not hit:
            return None, 'translator failed on the corpus without naming a function: ' + msg
        refused[hit[0]] = msg.split('unsupported construct:')[-1].strip()[:160] if 'unsupported construct' in msg else msg[-160:]
        live = [f for f in live if f[1] != hit[0]]
    else:
        return None, 'translator keeps refusing'
    v = open(os.path.join(workdir, 'Effects.v')).read()
    v += '\nEval vm_compute in (report eon_program eon_program).\n'
    open(os.path.join(workdir, 'EffectsCorpus.v'), 'w').write(v)
    rc, out, dt = C.sh('timeout 300 coqc -Q %s EoNV EffectsCorpus.v' % C.COQ, cwd=workdir, timeout=330)
    if rc != 0:
        return None, 'coqc failed on the translated corpus: ' + out[-600:]
    txt = re.sub(r'\s+', ' ', out)
    res = {n: 'refused: ' + m for n, m in refused.items()}
    for m in re.finditer(r'\("(\w+)", (true|false), (Some \[(.*?)\]|None), \[(.*?)\]\)', txt):
        n, pub, mp, plist, lines = m.groups()
        res[n] = {'mutated': None if mp == 'None' else re.findall(r'"(\w+)"', plist or '')}
    missing = [f[1] for f in live if f[1] not in res]
    if missing:
        return None, 'no verdict for %s' % missing[:5]
    return res, ''


def run_corpus(T, EoN):
    import tempfile, shutil
    t0 = time.time()
    funcs, cases, regression, dyn = corpus_dynamic(EoN)
    work = tempfile.mkdtemp(prefix='c19corpus_')
    try:
        ok, out, dt = C.coq_make(['Model/Effects.vo'], timeout=600)
        stat, err = corpus_static(T, funcs, work) if ok else (None, 'Model/Effects.vo does not build: ' + out[-300:])
    finally:
        shutil.rmtree(work, ignore_errors=True)
    rows, unsound, reg_bad = [], [], []
    if stat is None:
        return {'error': err, 'rows': [], 'unsound': [], 'regression_bad': [], 'seconds': round(time.time() - t0, 1)}
    for name in sorted(cases):
        d = dyn[name]; s_ = stat.get(name)
        if isinstance(s_, str):
            verdict = 'refused'
        elif s_['mutated'] is None:
            verdict = 'rejected(no verdict)'
        elif s_['mutated']:
            verdict = 'rejected'
        else:
            verdict = 'accepted'
        row = {'function': name, 'really_modifies': d['modified'], 'checker': verdict,
               'static_may_modify': None if isinstance(s_, str) else s_['mutated'], 'raised': d['raised'][:1], 'detail': s_ if isinstance(s_, str) else ''}
        rows.append(row)
        if verdict == 'accepted' and d['modified']:
            unsound.append(row)
        if name in regression and (verdict == 'accepted' or not d['modified']):
            reg_bad.append(row)
    return {'rows': rows, 'unsound': unsound, 'regression_bad': reg_bad, 'n': len(rows), 'seconds': round(time.time() - t0, 1),
            'accepted_safe': sum(1 for r in rows if r['checker'] == 'accepted' and not r['really_modifies']),
            'rejected_modifying': sum(1 for r in rows if r['checker'] != 'accepted' and r['really_modifies']),
            'rejected_safe': sorted(r['function'] for r in rows if r['checker'] != 'accepted' and not r['really_modifies']),
            'refused': sorted(r['function'] for r in rows if r['checker'] == 'refused')}


# ============================================================ part 3: fail-closed ====
PROBES_REFUSED = [
    ('unknown method', 'def f(x):\n    x.frobnicate()\n'),
    ('unknown library function', 'def f(x):\n    y = np.frobnicate(x)\n    return y\n'),
    ('np.broadcast_to is in no table', 'def f(x):\n    y = np.broadcast_to(x, (2, 2))\n    return y\n'),
    ('unknown attribute', 'def f(x):\n    y = x.frob\n    return y\n'),
    ('exception arguments read back', 'def f(x):\n    e = ValueError(x)\n    y = e.args\n    return y\n'),
    ('out= keyword', 'def f(x):\n    np.exp(x, out=x)\n'),
    ('out= keyword of a method', 'def f(x):\n    x.cumsum(out=x)\n'),
    ('copy= keyword', 'def f(x):\n    y = np.array(x, copy=False)\n    return y\n'),
    ('copy= keyword of a method', 'def f(x):\n    y = x.astype(float, copy=False)\n    return y\n'),
    ('inplace= keyword', 'def f(x):\n    y = x.byteswap(inplace=True)\n    return y\n'),
    ('as_view= keyword', 'def f(G):\n    H = G.copy(as_view=True)\n    return H\n'),
    ('positional output buffer of a ufunc', 'def f(a, b):\n    np.sqrt(a, b)\n'),
    ('positional output buffer of a method', 'def f(a, b, c):\n    a.dot(b, c)\n'),
    ('positional output buffer of a reduction', 'def f(a, b):\n    a.max(0, b)\n'),
    ('positional as_view', 'def f(G):\n    H = G.copy(True)\n    return H\n'),
    ('deepcopy memo', 'def f(x, m):\n    y = copy.deepcopy(x, m)\n    return y\n'),
    ('** in a library call', 'def f(x, kw):\n    y = np.array(x, **kw)\n    return y\n'),
    ('* in a library call', 'def f(x, a):\n    y = np.sqrt(*a)\n    return y\n'),
    ('with statement', 'def f(x):\n    with x as y:\n        y.append(1)\n'),
    ('global statement', 'def f(x):\n    global Z\n    Z = x\n'),
    ('nonlocal / nested write', 'def f(x):\n    def g():\n        x.append(1)\n    g()\n'),
    ('yield', 'def f(x):\n    yield x\n'),
    ('starred assignment', 'def f(x):\n    a, *b = x\n    b.append(1)\n'),
    ('walrus', 'def f(x):\n    if (y := x):\n        y.append(1)\n'),
    ('import inside a function', 'def f(x):\n    import copy\n    return copy.copy(x)\n'),
    ('*args parameter', 'def f(*x):\n    return x\n'),
    ('decorator', 'def d(g):\n    return g\n@d\ndef f(x):\n    return x\n'),
    ('try/finally', 'def f(x):\n    try:\n        y = 1\n    finally:\n        x.append(1)\n'),
    ('lambda with *args', 'def f(x):\n    g = lambda *a: a\n    return g\n'),
    ('class attribute chain', 'def f(x):\n    x.data.items.append(1)\n'),
    ('set attribute through setattr on unknown', 'def f(x):\n    x.__dict__["a"] = 1\n'),
    ('unbound method call', 'def f(x):\n    list.append(x, 1)\n'),
    ('unbound method call of an EoN class', 'def f(L, x):\n    _ListDict_.insert(L, x)\n'),
    ('computed callee: getattr', 'def f(x):\n    getattr(x, "append")(1)\n'),
    ('computed callee: subscript', 'def f(x, hs):\n    hs[0](x)\n'),
    ('bound mutating method as a value', 'def f(x):\n    m = x.append\n    m(1)\n'),
    ('class statement', 'def f(x):\n    class K:\n        pass\n    return K\n'),
    ('await', 'async def g(x):\n    return x\ndef f(x):\n    y = g(x)\n    return y\n'),
]
PROBES_ACCEPTED = [
    ('copy then write', 'def f(x):\n    y = list(x)\n    y.append(1)\n    return y\n'),
    ('axis keyword', 'def f(x):\n    y = x.sum(axis=0)\n    return y\n'),
]


def probes(T):
    import tempfile, shutil
    work = tempfile.mkdtemp(prefix='c19probe_')
    bad = []
    try:
        for what, src in PROBES_REFUSED:
            rc, msg = run_translator_on(T, [src], work)
            if rc == 0:
                bad.append('NOT refused: %s' % what)
        for what, src in PROBES_ACCEPTED:
            rc, msg = run_translator_on(T, [src], work)
            if rc != 0:
                bad.append('control refused (%s): %s' % (what, msg[-120:]))
    finally:
        shutil.rmtree(work, ignore_errors=True)
    return bad, len(PROBES_REFUSED) + len(PROBES_ACCEPTED)


def source_names(T, EoN):
    """independent ast survey of the translated files: every method call, dotted library call, bare-name call and
    attribute read inside a module-level function must be classified; also the namespace the tables assume"""
    import builtins, numpy, networkx, random, heapq, scipy, scipy.integrate, scipy.special
    meth_tables = [set(T.MUTATING_METHODS), T.LEAF_METHODS, T.DEEP_METHODS, T.COPY_METHODS, T.VIEW_METHODS, T.REACH_METHODS]
    func_tables = [T.LEAF_FUNCS, T.COPY_FUNCS, T.DEEP_FUNCS, T.REACH_FUNCS, T.VIEW_FUNCS, T.MUTATING_FUNCS, T.ODE_FUNCS, {'defaultdict', 'myQueue', '_ListDict_'}]
    allm = set().union(*meth_tables); allf = set().union(*func_tables)
    alla = T.VIEW_ATTRS | T.LEAF_ATTRS | T.REACH_ATTRS | (allm - set(T.MUTATING_METHODS))
    overlap = sorted(m for m in allm if sum(m in t for t in meth_tables) > 1) + sorted(f for f in allf if sum(f in t for t in func_tables) > 1)
    used = {'methods': collections.Counter(), 'functions': collections.Counter(), 'attributes': collections.Counter()}
    unclassified = []
    eon_funcs = set()
    trees = []
    for f in ('simulation.py', 'analytic.py', '__init__.py'):
        tree = ast.parse(open(os.path.join(C.REPO, 'EoN', f)).read())
        trees.append((f, tree))
        eon_funcs |= {t.name for t in tree.body if isinstance(t, ast.FunctionDef)}
    for f, tree in trees:
        for top in tree.body:
            if not isinstance(top, ast.FunctionDef):
                continue
            local = {n.id for n in ast.walk(top) if isinstance(n, ast.Name) and isinstance(n.ctx, ast.Store)} | \
                    {a.arg for n in ast.walk(top) if isinstance(n, (ast.FunctionDef, ast.Lambda)) for a in n.args.args} | \
                    {n.name for n in ast.walk(top) if isinstance(n, ast.FunctionDef)}
            callfuncs = set()
            for n in ast.walk(top):
                if isinstance(n, ast.Call):
                    callfuncs.add(id(n.func))
                    d = T.dotted(n.func)
                    head = d.split('.')[0] if d else None
                    if isinstance(n.func, ast.Attribute) and not (head in T.MODULES and head not in local):
                        used['methods'][n.func.attr] += 1
                        if n.func.attr not in allm:
                            unclassified.append('%s:%d method .%s()' % (f, n.lineno, n.func.attr))
                    elif d is not None:
                        if head in local or d in eon_funcs or (d.startswith('EoN.') and d[4:] in eon_funcs):
                            continue
                        used['functions'][d] += 1
                        if d not in allf:
                            unclassified.append('%s:%d function %s()' % (f, n.lineno, d))
            for n in ast.walk(top):
                if isinstance(n, ast.Attribute) and id(n) not in callfuncs and isinstance(n.ctx, ast.Load):
                    d = T.dotted(n)
                    if d and d.split('.')[0] in T.MODULES and d.split('.')[0] not in local:
                        continue
                    used['attributes'][n.attr] += 1
                    if n.attr not in alla:
                        unclassified.append('%s:%d attribute .%s' % (f, n.lineno, n.attr))
    # the namespace the tables assume
    expect = {'np': numpy, 'nx': networkx, 'random': random, 'heapq': heapq, 'integrate': scipy.integrate, 'scipy': scipy, 'EoN': EoN,
              'binom': scipy.special.binom, 'Counter': collections.Counter, 'defaultdict': collections.defaultdict}
    wrong = []
    for m in (EoN.simulation, EoN.analytic):
        for k, v in vars(m).items():
            if k in expect and v is not expect[k]:
                wrong.append('%s.%s is %r' % (m.__name__, k, v))
            elif k in T.MODULES and k not in expect and not isinstance(v, types.ModuleType):
                wrong.append('%s.%s is not a module' % (m.__name__, k))
            elif k in allf and '.' not in k and k not in expect and hasattr(builtins, k) and v is not getattr(builtins, k):
                wrong.append('%s.%s shadows the builtin' % (m.__name__, k))
            elif k in T.BUILTIN_VALUES and hasattr(builtins, k) and v is not getattr(builtins, k):
                wrong.append('%s.%s shadows the builtin' % (m.__name__, k))
    return {'unclassified': unclassified, 'namespace_mismatch': wrong, 'tables_overlap': overlap,
            'used': {k: dict(v.most_common()) for k, v in used.items()}}


# ================================================================== entry point ====
EXCUSED = {
    'method pop_and_run': 'runs the queued handlers: translated specially (queue_run: SCall of every handler); corpus gr_queue_*',
}


def check(run, tier, report):
    """called from harness/c19.py on every run; records evidence in run.coverage['translator_validation']"""
    import numpy, networkx, scipy
    t0 = time.time()
    ev = {'libraries': 'numpy %s, networkx %s, scipy %s, python %s' % (numpy.__version__, networkx.__version__, scipy.__version__, sys.version.split()[0])}
    run.coverage['translator_validation'] = ev
    try:
        T, E, res, dt = validate_tables()
    except Exception as e:
        report('C19/tables/crash', 'the table validation crashed: %s: %s' % (type(e).__name__, e), {'broken': 'harness/c19_tables.py'}, True)
        return
    EoN = C.import_eon()
    n_calls = sum(r['ok'] for r in res)
    absent, unexercised, problems, limits = [], [], {}, {}
    for e, r in zip(E, res):
        tag = '%s %s' % (e[0], e[1])
        if r['absent']:
            absent.append(tag)
        elif r['ok'] == 0 and tag not in EXCUSED:
            unexercised.append(tag)
        for k, v in r['problems'].items():
            if tag in EXCUSED:
                continue
            problems.setdefault('%s [%s]' % (tag, e[2]), []).append(v[0])
        for k, v in r['limits'].items():
            limits.setdefault('%s [%s]' % (tag, e[2]), []).append(v[0])
    ev.update({'table_entries': len(E), 'calls_observed': n_calls, 'entries_absent_from_installed_libraries_or_without_receiver_in_the_pool': absent,
               'entries_not_exercised': unexercised, 'excused': EXCUSED, 'seconds_tables': round(dt, 1),
               'discrepancies': {k: v[:3] for k, v in problems.items()},
               'object_dtype_limitation_hits': {k: v[:1] for k, v in list(limits.items())[:12]},
               'refused_keywords': sorted(getattr(T, 'REFUSED_KEYWORDS', ())), 'keywords_tried': list(KEYWORDS)})
    for k, v in problems.items():
        report('C19/tables/%s' % k.split(' [')[0].replace(' ', ':'),
               'translator table entry %s disagrees with the installed library (%s): %s' % (k, ev['libraries'], v[0][:300]),
               {'broken': 'translate/effects2v.py table entry ' + k, 'examples': v[:5]}, True)
    for tag in unexercised:
        report('C19/tables/%s/not-exercised' % tag.replace(' ', ':'), 'translator table entry %s could not be exercised by any call of the validation pool' % tag,
               {'broken': 'harness/c19_tables.py pool for ' + tag}, True)
    op, on = validate_odeint(T, EoN)
    ev['odeint_calls'] = on
    for p_ in op:
        report('C19/tables/odeint', 'ODE_FUNCS: %s' % p_, {'broken': 'translate/effects2v.py ODE_FUNCS', 'what': p_}, True)
    ev['output_buffer_probes'] = sum(r.get('outbuf_probes', 0) for r in res)
    # ---- fail-closed probes and the names the source uses
    bad, n_probes = probes(T)
    ev['fail_closed_probes'] = {'n': n_probes, 'failed': bad}
    for b in bad:
        report('C19/translator/probe', 'translator fail-closed probe: %s' % b, {'broken': 'translate/effects2v.py', 'probe': b}, True)
    sn = source_names(T, EoN)
    ev['source_names'] = {'unclassified': sn['unclassified'], 'namespace_mismatch': sn['namespace_mismatch'], 'tables_overlap': sn['tables_overlap'],
                          'methods_used': sn['used']['methods'], 'functions_used': sn['used']['functions'], 'attributes_used': sn['used']['attributes']}
    for what in sn['namespace_mismatch'] + sn['tables_overlap']:
        report('C19/translator/namespace', 'the tables of the translator do not mean what the source namespace says: %s' % what,
               {'broken': 'translate/effects2v.py tables vs. EoN namespace', 'what': what}, True)
    ev['unclassified_names_in_source'] = sn['unclassified']      # the translator refuses them (reported by the main check)
    # ---- the differential corpus
    cr = run_corpus(T, EoN)
    ev['corpus'] = {k: v for k, v in cr.items() if k != 'rows'}
    ev['corpus']['verdicts'] = {r['function']: '%s / really modifies %s' % (r['checker'], r['really_modifies'] or 'nothing') for r in cr['rows']}
    if cr.get('error'):
        report('C19/corpus/error', 'the differential corpus could not be judged: %s' % cr['error'], {'broken': 'translate/effects_corpus', 'log': cr['error']}, True)
    for r in cr['unsound']:
        report('C19/corpus/%s' % r['function'],
               'translator+checker ACCEPT the corpus function %s, which really modifies its argument(s) %s' % (r['function'], r['really_modifies']),
               {'broken': 'translate/effects2v.py statement mapping', 'function': r['function'], 'file': 'translate/effects_corpus'}, True)
    for r in cr['regression_bad']:
        if r not in cr['unsound']:
            report('C19/corpus/%s/regression' % r['function'], 'corpus regression function %s no longer modifies its argument (library behaviour changed?): %s' % (r['function'], r),
                   {'broken': 'translate/effects_corpus', 'row': r}, True)
    if not cr.get('error') and cr['accepted_safe'] < 15:
        report('C19/corpus/vacuous', 'the checker accepts only %d harmless corpus functions: the differential test has lost its power' % cr['accepted_safe'],
               {'broken': 'translate/effects_corpus'}, True)
    ev['seconds'] = round(time.time() - t0, 1)
    run.assumptions += ['translator tables: every entry validated dynamically against %s on this run (%d entries, %d observed calls); statement mapping: '
                        'differential corpus of %d functions (accepted ones never modify an argument)' % (ev['libraries'], len(E), n_calls, cr.get('n', 0))]


if __name__ == '__main__':
    T, E, res, dt = validate_tables()
    nprob = 0
    for e, r in zip(E, res):
        flag = 'ABSENT' if r['absent'] else ('ok=%d' % r['ok'])
        print('%-8s %-28s %-9s %s raised=%d %s' % (e[0], e[1], e[2], flag, r['raised'], ' '.join(r['kw_ok'])))
        for k, v in r['problems'].items():
            nprob += 1
            print('      PROBLEM (%d calls) %s' % (len(v), v[0][:300]))
        for k, v in r['limits'].items():
            print('      limit   (%d calls) %s' % (len(v), v[0][:200]))
    print('entries', len(E), 'problems', nprob, 'time %.1fs' % dt)
    EoN = C.import_eon()
    print(probes(T))
    sn = source_names(T, EoN)
    print({k: v for k, v in sn.items() if k != 'used'})
    cr = run_corpus(T, EoN)
    for r in cr.get('rows', []):
        print('%-34s really=%-22s checker=%-10s static=%s %s %s' % (r['function'], r['really_modifies'], r['checker'], r['static_may_modify'], r['raised'], r['detail'][:90]))
    print({k: v for k, v in cr.items() if k != 'rows'})
