"""hashiter_lib -- table of hash-ordered loops reachable from each public simulator (C18).

    from harness import hashiter_lib
    r = hashiter_lib.check_hashiter(run)

re-runs translate/hashiter2v.py on C.REPO (-> coq/Gen/HashIter.v), rebuilds
Model/HashIter.vo + Gen/HashIter.vo, recompiles Props/HashIterTable.v (the theorems that
pin which entry points reach a SetOrder loop and where) and returns
    {entry: {'set': [(function, line, text)], 'other': [...], 'counts': {kind: n}}, ...,
     '_translator_ok', '_translator_msg', '_theorem_ok', '_failed_theorem', '_props',
     '_set_entries': [entries with SetOrder loops], '_wall_s'}
It never calls run.violation.   cd /verif && /venv/bin/python -m harness.hashiter_lib
"""
import os, sys, json, time, re
from . import common as C

PY = '/venv/bin/python'
TRANSLATOR = os.path.join(C.VERIF, 'translate', 'hashiter2v.py')
GEN = os.path.join(C.COQ, 'Gen', 'HashIter.v')


def check_hashiter(run=None):
    t0 = time.time()
    res = {'_translator_ok': False, '_theorem_ok': False, '_set_entries': None}
    rc, out, _ = C.sh([PY, TRANSLATOR, '--repo', C.REPO, '-o', GEN], timeout=60)
    res['_translator_msg'] = out.strip()
    if rc != 0:
        res['_wall_s'] = round(time.time() - t0, 1)
        return res
    rc, out, _ = C.sh([PY, TRANSLATOR, '--repo', C.REPO, '--json'], timeout=60)
    if rc != 0:
        res['_translator_msg'] = out.strip()
        res['_wall_s'] = round(time.time() - t0, 1)
        return res
    res['_translator_ok'] = True
    tab = json.loads(out[out.index('['):])
    for en, rows in tab:
        counts = {}
        for fn, line, kind, txt in rows:
            counts[kind] = counts.get(kind, 0) + 1
        res[en] = {'set': [(fn, line, txt) for fn, line, kind, txt in rows if kind == 'Set'],
                   'other': [(fn, line, txt) for fn, line, kind, txt in rows if kind == 'Other'],
                   'counts': counts}
    res['_set_entries'] = [en for en, rows in tab if any(r[2] == 'Set' for r in rows)]
    props = C.check_props('HashIterTable')
    res['_props'] = props
    res['_theorem_ok'] = bool(props.get('ok')) and not props.get('print_assumptions_missing')
    if not res['_theorem_ok']:
        res['_log'] = props.get('log', '')[-3000:]
        fa = props.get('failed_at')
        name = None
        if fa and fa[0].endswith('Props/HashIterTable.v'):
            for i, l in enumerate(open(os.path.join(C.COQ, 'Props', 'HashIterTable.v')), 1):
                m = re.match(r'\s*(?:Theorem|Example)\s+([A-Za-z0-9_\']+)', l)
                if m and i <= int(fa[1]):
                    name = m.group(1)
        res['_failed_theorem'] = name
    if run is not None:
        run.coverage.setdefault('hash_iter', {}).update({
            'entries': len(tab), 'set_entries': res['_set_entries'], 'theorem_ok': res['_theorem_ok']})
    res['_wall_s'] = round(time.time() - t0, 1)
    return res


if __name__ == '__main__':
    r = check_hashiter(None)
    print('repo        : %s' % C.REPO)
    print('translator  : %s  %s' % ('ok' if r['_translator_ok'] else 'REFUSED', r['_translator_msg'].split('\n')[-1]))
    if r['_translator_ok']:
        print('Props/HashIterTable.v : %s%s' % ('ok' if r['_theorem_ok'] else 'BROKEN at ', '' if r['_theorem_ok'] else r.get('_failed_theorem')))
        for en in sorted(k for k in r if not k.startswith('_')):
            d = r[en]
            print('%-50s %s' % (en, ' '.join('%s=%d' % kv for kv in sorted(d['counts'].items()))))
            for fn, line, txt in d['set']:
                print('      SetOrder   %s:%d  %s' % (fn, line, txt))
            for fn, line, txt in d['other']:
                print('      OtherOrder %s:%d  %s' % (fn, line, txt))
        print('wall %.1fs' % r['_wall_s'])
    sys.exit(0 if r['_theorem_ok'] else 1)
