"""C08: ODE models are exact where theory says so (trees, final sizes, tau=0 / gamma=0 limits).
Theorems: coq/Props/C08.v over the GENERATED right-hand sides (coq/Gen/Rhs.v, re-emitted by
translate/rhs2v.py from the working tree on every run).  Tie: every translated Python function and
the extracted generated definition are evaluated at random dyadic points (Schwartz-Zippel style);
the hand-modelled wrappers of Model/Attack.v are run against Attack_rate_* / EBCM_discrete.
Clauses the theorems do not reach (tree exactness, t->infinity limits, 2-D and node-level systems)
are carried by numerical oracles on the actual entry points and labelled as validation."""
import os, json, math, itertools
from fractions import Fraction as F
from . import common as C
from . import rhs_lib as L
from . import ode_oracles as O

CLAIM_MORE = 'NOW PROVED beyond one edge (coq/Props/C08t.v, 30 statements): with the master equation as an executable specification for any graph and direction-/node-dependent rates — pure and product-form initial conditions lie in the manifold M where the 2x2 minors across a susceptible cut vertex vanish; the master flow is tangent to M for every graph and cut vertex; on M the regenerated pair-based right-hand side at the marginals equals the marginals of the master equation, for every tree: the executable tree_okb is proved to accept exactly the forests (coq/Props/C08tree.v, 42 statements; trees as pendant-vertex construction = connected with |E| = |V|-1 = connected acyclic). Cited: the ODE lift to the returned curves.'

CLAIM = dict(
    text="Machine-checked theorems (coq/Props/C08.v, closed under the global context) over right-hand sides GENERATED from EoN/analytic.py on "
         "every run: tau=0 => dS=0 (SIR) / d(S+I)=0 (SIS) and dI=-gamma*I for all 12 translated scalar/1-D models; gamma=0 => SIS and SIR "
         "S-subsystems coincide (homogeneous mean-field, homogeneous pairwise, compact pairwise); dtheta/dt=0 in _dEBCM_ <=> theta is a fixed point "
         "of the map iterated by Attack_rate_cts_time, where 1-psihat(theta)=R/N; the theta-sequence of EBCM_discrete IS the iteration of "
         "Attack_rate_discrete so Attack_rate_discrete(n)=1-S(tmin+n)/N exactly, R(t+1)=R(t)+I(t), S+I+R=N.  Translation tied by point evaluation "
         "(>=200 random dyadic points per function).  ALSO PROVED, over hand-written models of the node-level and 2-D right-hand sides (coq/Model/Rhs2D.v; on every run translate/rhs2d2v.py, fail-closed, regenerates coq/Gen/Rhs2.v from the source and the theorems *_generated_* re-prove generated definition = model; model and generated definition are also point-evaluated against the code, >=200 points per function): tau=0 => dX_i=0, dY_i=-gamma_i*Y_i componentwise for individual-based and pair-based (any graph, any rate "
         "functions), dS_k=0 / +gamma*I_k and dI_k=-gamma*I_k for heterogeneous pairwise, and for effective degree the totals S'=0 (SIR) / +gamma*I (SIS, on the feasible region), "
         "I'=-gamma*I; gamma=0 => the SIS system and the S-part of the SIR system have the same right-hand side for all four families (heterogeneous pairwise: where no "
         "zero-denominator guard fires); pair_based_tree_exact_partial: on the single edge the pair-based SIR system is closed (closure sums empty) and equals the marginals of the "
         "9-state master equation for every probability vector, with direction-dependent transmission and node-dependent recovery rates.  VALIDATED NUMERICALLY ONLY (oracles on "
         "the real entry points): SIR_pair_based_pure_IC = exact master equation on every tree up to the size bound (all seeds, edge/node weights); convergence of "
         "EBCM/EBCM_discrete to the Attack_rate values; the tau=0 and gamma=0 CURVES of every graph entry point.",
    design='DESIGN.md section 4, C08; section 2.4(b) (rhs2v)',
    technique='Coq proof over translator-generated model and hand-written model + point-evaluation correspondence + numerical oracles (validation) for the cited clauses',
    note="Cited, not proved: exactness of the pair closure on trees with more than one edge (Sharkey et al. 2015); Picard-Lindeloef uniqueness for lifting vector-field identities to "
         "curves; convergence to the rest points.  'S constant when tau=0' is read as S constant for SIR models and S+I constant for SIS models (in SIS "
         "recovered nodes become susceptible again, dS=+gamma*I is what the equations say and what is proved).")

TOL = 1e-4      # times N, absolute (DESIGN 2.6)


# ------------------------------------------------------------------ findings ----
def proposed():
    try:
        return {(f['property'], f['key']): f for f in json.load(open(os.path.join(C.VERIF, 'proposed_known_findings.json')))['findings']}
    except Exception:
        return {}


def report(run, key, what, replay, no_input=False):
    """violations whose key is a *proposed* known finding are listed in the evidence and do not fail
    (they are merged into known_findings.json by the integrator, after which Run.violation handles them)"""
    pk = proposed()
    if (run.pid, key) in pk:
        hits = run.coverage.setdefault('proposed_known_findings_hit', [])
        if key not in hits:
            hits.append(key)
            print('KNOWN-FINDING (proposed): property=%s %s' % (run.pid, pk[(run.pid, key)].get('what', what)))
        return False
    n0 = len(run.violations)
    run.violation(key, what, replay, no_input)
    return len(run.violations) > n0          # False when known_findings.json lists it


# ------------------------------------------------------------------ oracle cases --
def _weights(G, p):
    tw = p.get('tw'); rw = p.get('rw')
    if tw:
        for (u, v), w in zip(list(G.edges()), tw['values']):
            G[u][v][tw['attr']] = w
    if rw:
        for u, w in zip(list(G.nodes()), rw['values']):
            G.nodes[u][rw['attr']] = w


def case_tree(EoN, p):
    """SIR_pair_based_pure_IC against the exact master equation on a tree"""
    import numpy as np
    G = O.graph_from_desc(p['graph']); _weights(G, p)
    nodes = list(G.nodes())
    seeds = [nodes[i] for i in (p['seed'] if isinstance(p['seed'], list) else [p['seed']])]
    tau, gamma = p['tau'], p['gamma']
    kw = {}
    if p.get('tw'): kw['transmission_weight'] = p['tw']['attr']
    if p.get('rw'): kw['recovery_weight'] = p['rw']['attr']
    if p.get('nodelist'):
        kw['nodelist'] = [nodes[i] for i in p['nodelist']]
    rec = [nodes[i] for i in p.get('recovered', [])]
    st, r = O.call(EoN.SIR_pair_based_pure_IC, G, tau, gamma, list(seeds), initial_recovereds=(rec or None),
                   tmax=p['tmax'], tcount=p['tcount'], **kw)
    if st != 'ok':
        return 'CRASH ' + r
    times = r[0]
    tw = (lambda u, v: tau * G[u][v][p['tw']['attr']]) if p.get('tw') else (lambda u, v: tau)
    rw = (lambda u: gamma * G.nodes[u][p['rw']['attr']]) if p.get('rw') else (lambda u: gamma)
    S, I, R, nst = O.master_sir(G, tw, rw, set(seeds), set(rec), times)
    d = max(O.maxdiff(r[1], S), O.maxdiff(r[2], I), O.maxdiff(r[3], R))
    if d > TOL * G.order():
        k = int(np.argmax(np.abs(np.array(r[2]) - I)))
        return 'pair-based (S,I,R)(t=%.3g) = (%.6f, %.6f, %.6f), exact master equation (%d states) = (%.6f, %.6f, %.6f); max deviation %.3g > %.1g*N' % (
            times[k], r[1][k], r[2][k], r[3][k], nst, S[k], I[k], R[k], d, TOL)
    return None


def _pk(p):
    return {int(k): float(v) for k, v in p['Pk'].items()}


def case_attack_discrete(EoN, p):
    """Attack_rate_discrete(number_its=n) = 1 - S(n)/N of EBCM_discrete_uniform_introduction, R(t+1)=R(t)+I(t)"""
    import numpy as np
    Pk = _pk(p); N = p['N']; n = p['n']
    psi, psiP = O.vpoly_from_Pk(Pk)
    st, ar = O.call(lambda: (EoN.Attack_rate_discrete(Pk, p['p'], rho=p['rho'], number_its=n),))
    if st != 'ok':
        return 'CRASH Attack_rate_discrete ' + ar
    st, r = O.call(EoN.EBCM_discrete_uniform_introduction, N, psi, psiP, p['p'], p['rho'], tmax=max(n, 1))
    if st != 'ok':
        return 'CRASH EBCM_discrete_uniform_introduction ' + r
    t, S, I, R = r[:4]
    want = 1 - S[n] / N
    if not C.close(float(ar[0]), float(want), 1e-9):
        return 'Attack_rate_discrete(number_its=%d) = %.12g but 1 - S(%d)/N of EBCM_discrete = %.12g' % (n, ar[0], n, want)
    for k in range(len(t) - 1):
        if not C.close(R[k + 1], R[k] + I[k], 1e-9):
            return 'EBCM_discrete: R(%d)=%.12g but R(%d)+I(%d)=%.12g' % (k + 1, R[k + 1], k, k, R[k] + I[k])
    return None


def case_attack_general(EoN, p):
    """explicit Sk0 / phiS0 / phiR0: Attack_rate_discrete(n) = 1 - S(n)/N of EBCM_discrete with the same psihat;
    Attack_rate_cts_time = lim R/N of EBCM with the same psihat"""
    Pk = _pk(p); N = p['N']
    Sk0 = {int(k): float(v) for k, v in p['Sk0'].items()}
    items = sorted(Pk.items())
    psihat = lambda x: sum(q * Sk0[k] * x ** k for k, q in items)
    psihatP = lambda x: sum(k * q * Sk0[k] * x ** (k - 1) for k, q in items if k >= 1)
    R0 = p['R0']
    if p['kind'] == 'discrete':
        n = p['n']
        st, ar = O.call(lambda: (EoN.Attack_rate_discrete(Pk, p['p'], Sk0=Sk0, phiS0=p['phiS0'], phiR0=p['phiR0'], number_its=n),))
        if st != 'ok':
            return 'CRASH Attack_rate_discrete ' + ar
        st, r = O.call(EoN.EBCM_discrete, N, psihat, psihatP, p['p'], p['phiS0'], phiR0=p['phiR0'], R0=R0, tmax=max(n, 1))
        if st != 'ok':
            return 'CRASH EBCM_discrete ' + r
        want = 1 - r[1][n] / N
        if not C.close(float(ar[0]), float(want), 1e-9):
            return 'Attack_rate_discrete(Sk0, phiS0=%g, phiR0=%g, number_its=%d) = %.12g but 1 - S(%d)/N of EBCM_discrete = %.12g' % (p['phiS0'], p['phiR0'], n, ar[0], n, want)
        return None
    st, ar = O.call(lambda: (EoN.Attack_rate_cts_time(Pk, p['tau'], p['gamma'], number_its=3000, Sk0=Sk0, phiS0=p['phiS0'], phiR0=p['phiR0']),))
    if st != 'ok':
        return 'CRASH Attack_rate_cts_time ' + ar
    tmax = 200.0
    for _ in range(3):
        st, r = O.call(EoN.EBCM, N, psihat, psihatP, p['tau'], p['gamma'], p['phiS0'], phiR0=p['phiR0'], R0=R0, tmax=tmax, tcount=5)
        if st != 'ok':
            return 'CRASH EBCM ' + r
        if abs(r[2][-1]) < 1e-7 * N:
            break
        tmax *= 4
    else:
        return 'SKIP not converged'
    lim = 1 - r[1][-1] / N
    if abs(ar[0] - lim) > TOL:
        return 'Attack_rate_cts_time(Sk0, phiS0=%g, phiR0=%g) = %.9g but 1 - S(%g)/N of EBCM = %.9g' % (p['phiS0'], p['phiR0'], ar[0], tmax, lim)
    return None


def case_attack_limit(EoN, p):
    """t -> infinity: Attack_rate_cts_time vs EBCM's R/N; Attack_rate_discrete vs EBCM_discrete's R/N"""
    Pk = _pk(p); N = p['N']; rho = p['rho']
    psi, psiP = O.vpoly_from_Pk(Pk)
    if p['kind'] == 'cts':
        st, ar = O.call(lambda: (EoN.Attack_rate_cts_time(Pk, p['tau'], p['gamma'], number_its=p.get('its', 3000), rho=rho),))
        if st != 'ok':
            return 'CRASH Attack_rate_cts_time ' + ar
        tmax = p['tmax']
        for _ in range(3):
            st, r = O.call(EoN.EBCM_uniform_introduction, N, psi, psiP, p['tau'], p['gamma'], rho, tmax=tmax, tcount=5)
            if st != 'ok':
                return 'CRASH EBCM_uniform_introduction ' + r
            if abs(r[2][-1]) < 1e-7 * N:
                break
            tmax *= 4
        else:
            return 'SKIP not converged'
        lim = r[3][-1] / N
        if abs(ar[0] - lim) > TOL:
            return 'Attack_rate_cts_time = %.9g but EBCM R(%g)/N = %.9g (I = %.2g)' % (ar[0], tmax, lim, r[2][-1])
        return None
    st, ar = O.call(lambda: (EoN.Attack_rate_discrete(Pk, p['p'], rho=rho, number_its=p.get('its', 3000)),))
    if st != 'ok':
        return 'CRASH Attack_rate_discrete ' + ar
    st, r = O.call(EoN.EBCM_discrete_uniform_introduction, N, psi, psiP, p['p'], rho, tmax=p.get('tmaxd', 3000))
    if st != 'ok':
        return 'CRASH EBCM_discrete_uniform_introduction ' + r
    if abs(r[2][-1]) > 1e-7 * N:
        return 'SKIP not converged'
    lim = r[3][-1] / N
    if abs(ar[0] - lim) > TOL:
        return 'Attack_rate_discrete = %.9g but EBCM_discrete R(end)/N = %.9g' % (ar[0], lim)
    return None


def case_attack_from_graph(EoN, p):
    """Attack_rate_*_from_graph: rho form agrees with Attack_rate_*(get_Pk(G)); explicit sets are accepted"""
    G = O.graph_from_desc(p['graph'])
    nodes = list(G.nodes())
    f = EoN.Attack_rate_discrete_from_graph if p['kind'] == 'discrete' else EoN.Attack_rate_cts_time_from_graph
    rates = (p['p'],) if p['kind'] == 'discrete' else (p['tau'], p['gamma'])
    if p['mode'] == 'rho':
        st, a = O.call(lambda: (f(G, *rates, rho=p['rho']),))
        if st != 'ok':
            return 'CRASH ' + a
        Pk = EoN.get_Pk(G)
        g = EoN.Attack_rate_discrete if p['kind'] == 'discrete' else EoN.Attack_rate_cts_time
        b = g(Pk, *rates, rho=p['rho'])
        if not C.close(float(a[0]), float(b), 1e-9):
            return '%s(G, rho=%g) = %.12g but %s(get_Pk(G), rho) = %.12g' % (f.__name__, p['rho'], a[0], g.__name__, b)
        return None
    inf = [nodes[i] for i in p['infected']]
    st, a = O.call(lambda: (f(G, *rates, initial_infecteds=inf),))
    if st != 'ok':
        return 'CRASH ' + a
    if not (0 <= a[0] <= 1):
        return 'attack rate %.6g outside [0,1]' % a[0]
    return None


def _entry_call(EoN, name, G, tau, gamma, rho, tmax, tcount, tmin=0):
    # tmax is the LENGTH of the window: the limiting identities are time-translation invariant, so a start time tmin != 0
    # must give the same curves shifted (a solver that ignores tmin does not)
    return O.call(getattr(EoN, name), G, tau, gamma, rho=rho, tmin=tmin, tmax=tmin + tmax, tcount=tcount)


def case_tau0(EoN, p):
    """tau = 0: I(t) = I(0) exp(-gamma t); S constant (SIR) / S + I constant (SIS)"""
    import numpy as np
    G = O.graph_from_desc(p['graph']); N = G.order()
    st, r = _entry_call(EoN, p['entry'], G, 0.0, p['gamma'], p['rho'], p['tmax'], p['tcount'], p.get('tmin', 0))
    if st != 'ok':
        return 'CRASH ' + r
    t, S, I = r[0], r[1], r[2]
    want = I[0] * np.exp(-p['gamma'] * (t - t[0]))
    d = O.maxdiff(I, want)
    if d > TOL * N:
        k = int(np.argmax(np.abs(I - want)))
        return 'tau=0: I(%.3g) = %.6f but I(0) exp(-gamma t) = %.6f' % (t[k], I[k], want[k])
    if p['entry'].startswith('SIS'):
        d = O.maxdiff(S + I, np.full_like(S, S[0] + I[0]))
        if d > TOL * N:
            return 'tau=0 (SIS): S+I moves by %.3g' % d
    else:
        d = O.maxdiff(S, np.full_like(S, S[0]))
        if d > TOL * N:
            k = int(np.argmax(np.abs(S - S[0])))
            return 'tau=0: S(%.3g) = %.6f but S(0) = %.6f' % (t[k], S[k], S[0])
    return None


def case_gamma0(EoN, p):
    """gamma = 0: SIS_x and SIR_x give the same S(t)"""
    import numpy as np
    G = O.graph_from_desc(p['graph']); N = G.order()
    a = _entry_call(EoN, 'SIS_' + p['model'], G, p['tau'], 0.0, p['rho'], p['tmax'], p['tcount'], p.get('tmin', 0))
    b = _entry_call(EoN, 'SIR_' + p['model'], G, p['tau'], 0.0, p['rho'], p['tmax'], p['tcount'], p.get('tmin', 0))
    if a[0] != 'ok':
        return 'CRASH SIS_%s %s' % (p['model'], a[1])
    if b[0] != 'ok':
        return 'CRASH SIR_%s %s' % (p['model'], b[1])
    d = O.maxdiff(a[1][1], b[1][1])
    if d > TOL * N:
        k = int(np.argmax(np.abs(a[1][1] - b[1][1])))
        return 'gamma=0: SIS_%s S(%.3g) = %.6f, SIR_%s S = %.6f' % (p['model'], a[1][0][k], a[1][1][k], p['model'], b[1][1][k])
    return None


def case_rhs_spec(EoN, p):
    """a theorem of Props/C08.v evaluated numerically on the Python right-hand side at one point"""
    import numpy as np
    A = EoN.analytic
    th = p['theorem']; a = p['args']
    fl = lambda l: np.array([float(F(x)) for x in l])
    q = lambda x: float(F(x))
    g = q(a.get('gamma', 0)); tau = q(a.get('tau', 0))
    def cl(x, y): return all(C.close(float(u), float(v), 1e-9) for u, v in zip(np.atleast_1d(x), np.atleast_1d(y))) and np.shape(np.atleast_1d(x)) == np.shape(np.atleast_1d(y))
    if th == 'tau0_SIR_compact_pairwise':
        Sk = fl(a['Sk']); X = np.concatenate((Sk, [q(a['SS']), q(a['SI']), q(a['R'])]))
        d = A._dSIR_compact_pairwise_(X, 0, q(a['N']), 0.0, g)
        ok = cl(d[:-3], np.zeros(len(Sk))) and cl(d[-1], g * (q(a['N']) - Sk.sum() - q(a['R'])))
        return None if ok else 'tau=0: _dSIR_compact_pairwise_ gives dSk=%s dR=%.9g, expected 0 and %.9g' % (list(d[:-3]), d[-1], g * (q(a['N']) - Sk.sum() - q(a['R'])))
    if th == 'tau0_SIS_compact_pairwise':
        Sk = fl(a['Sk']); Nk = fl(a['Nk']); X = np.concatenate((Sk, [q(a['SI']), q(a['SS'])]))
        d = A._dSIS_compact_pairwise_(X, 0, Nk, q(a['twoM']), 0.0, g)
        return None if cl(d[:-2], g * (Nk - Sk)) else 'tau=0: _dSIS_compact_pairwise_ dSk=%s, expected gamma*Ik=%s' % (list(d[:-2]), list(g * (Nk - Sk)))
    if th == 'tau0_SIR_compact_effective_degree':
        Sk = fl(a['Sk']); X = np.concatenate((Sk, [q(a['R']), q(a['SI'])]))
        d = A._dSIR_compact_effective_degree_(X, 0, q(a['N']), 0.0, g)
        ok = C.close(float(d[:-2].sum()) + 1.0, 1.0, 1e-9) and cl(d[-2], g * (q(a['N']) - q(a['R']) - Sk.sum()))
        return None if ok else 'tau=0: _dSIR_compact_effective_degree_ sum dSkappa=%.3g dR=%.9g' % (d[:-2].sum(), d[-2])
    if th == 'tau0_SIS_heterogeneous_meanfield':
        S = fl(a['S']); I = fl(a['I']); X = np.concatenate((S, I))
        d = A._dSIS_heterogeneous_meanfield_(X, 0, len(S), 0.0, g)
        return None if cl(d[:len(S)], g * I) and cl(d[len(S):], -g * I) else 'tau=0: _dSIS_heterogeneous_meanfield_ = %s' % list(d)
    if th == 'tau0_SIR_heterogeneous_meanfield':
        Rk = fl(a['Rk']); S0 = fl(a['S0']); Nk = fl(a['Nk']); th0 = q(a['theta'])
        d = A._dSIR_heterogeneous_meanfield_(np.concatenate(([th0], Rk)), 0, S0, Nk, 0.0, g)
        Ik = Nk - S0 * th0 ** np.arange(len(Rk)) - Rk
        return None if cl(d[0], 0.0) and cl(d[1:], g * Ik) else 'tau=0: _dSIR_heterogeneous_meanfield_ = %s' % list(d)
    if th == 'tau0_scalar':
        fn = a['fn']; X = fl(a['X']); extra = [q(x) for x in a['extra']]
        P = [O_poly(c) for c in a.get('polys', [])]
        if fn == '_dSIS_homogeneous_meanfield_':
            d = A._dSIS_homogeneous_meanfield_(X, 0, extra[0], 0.0, g); ok = cl(d, [g * X[1], -g * X[1]])
        elif fn == '_dSIR_homogeneous_meanfield_':
            d = A._dSIR_homogeneous_meanfield_(X, 0, extra[0], 0.0, g); ok = cl(d, [0.0, -g * X[1]])
        elif fn == '_dSIS_homogeneous_pairwise_':
            d = A._dSIS_homogeneous_pairwise_(X, 0, extra[0], extra[1], 0.0, g); ok = cl(d[0], g * (extra[0] - X[0]))
        elif fn == '_dSIR_homogeneous_pairwise_':
            d = A._dSIR_homogeneous_pairwise_(X, 0, extra[0], 0.0, g); ok = cl(d[:2], [0.0, -g * X[1]])
        elif fn == '_dSIS_super_compact_pairwise_':
            d = A._dSIS_super_compact_pairwise_(X, 0, 0.0, g, *extra); ok = cl(d[0], -g * X[0])
        elif fn == '_dSIR_super_compact_pairwise_':
            d = A._dSIR_super_compact_pairwise_(X, 0, 0.0, g, P[0], P[1], P[2], extra[0])
            ok = cl(d[0], 0.0) and cl(d[3], g * (extra[0] - extra[0] * P[0](X[0]) - X[3]))
        elif fn == '_dEBCM_':
            X = np.array([1.0, X[1]])
            d = A._dEBCM_(X, 0, extra[0], 0.0, g, P[0], P[1], extra[1], extra[2])
            ok = cl(d[0], 0.0) and cl(d[1], g * (extra[0] - extra[0] * P[0](1.0) - X[1]))
        else:
            return 'unknown fn'
        return None if ok else 'tau=0: %s(%s) = %s violates dS=0 / dI=-gamma*I' % (fn, list(X), list(np.atleast_1d(d)))
    if th == 'gamma0_homogeneous_meanfield':
        X = fl(a['X']); c = q(a['c'])
        x = A._dSIS_homogeneous_meanfield_(X, 0, c, tau, 0.0); y = A._dSIR_homogeneous_meanfield_(X, 0, c, tau, 0.0)
        return None if cl(x, y) else 'gamma=0: SIS rhs %s, SIR rhs %s' % ([float(v) for v in x], [float(v) for v in y])
    if th == 'gamma0_homogeneous_pairwise':
        S, I, SI, SS = fl(a['X']); N = q(a['N']); n = q(a['n'])
        x = A._dSIS_homogeneous_pairwise_(np.array([S, SI, SS]), 0, N, n, tau, 0.0)
        y = A._dSIR_homogeneous_pairwise_(np.array([S, I, SI, SS]), 0, n, tau, 0.0)
        return None if cl(x, [y[0], y[2], y[3]]) else 'gamma=0: SIS (dS,dSI,dSS)=%s, SIR %s' % (list(x), [y[0], y[2], y[3]])
    if th == 'gamma0_compact_pairwise':
        Sk = fl(a['Sk']); Nk = fl(a['Nk'])
        x = A._dSIS_compact_pairwise_(np.concatenate((Sk, [q(a['SI']), q(a['SS'])])), 0, Nk, q(a['twoM']), tau, 0.0)
        y = A._dSIR_compact_pairwise_(np.concatenate((Sk, [q(a['SS']), q(a['SI']), q(a['R'])])), 0, q(a['N']), tau, 0.0)
        ok = cl(x[:-2], y[:-3]) and cl(x[-2], y[-2]) and cl(x[-1], y[-3])
        return None if ok else 'gamma=0: SIS compact pairwise (dSk,dSI,dSS)=%s, SIR (dSk,dSS,dSI,dR)=%s' % ([float(v) for v in x], [float(v) for v in y])
    if th == 'attack_cts_dtheta':
        theta = q(a['theta']); R = q(a['R']); N = q(a['N']); phiS0 = q(a['phiS0']); phiR0 = q(a['phiR0'])
        ps, psP = O_poly(a['ps']), O_poly(a['psP'])
        d = A._dEBCM_(np.array([theta, R]), 0, N, tau, g, ps, psP, phiS0, phiR0)
        Fth = g / (g + tau) + tau * phiS0 * psP(theta) / (psP(1.0) * (g + tau)) + tau * phiR0 / (g + tau)     # (6.7) Kiss-Miller-Simon
        ok = cl(d[0], (g + tau) * (Fth - theta)) and cl(d[1], g * (N - N * ps(theta) - R))
        return None if ok else '_dEBCM_(theta=%g,R=%g) = %s but (gamma+tau)(F(theta)-theta) = %.9g, gamma*I = %.9g' % (theta, R, list(d), (g + tau) * (Fth - theta), g * (N - N * ps(theta) - R))
    return 'unknown theorem'


def O_poly(c):
    return L.poly([F(x) for x in c])


def _rhs2_case(EoN, p):
    from . import rhs2_spec as S2
    return S2.case_spec(EoN, p)


CASES = {'rhs2_spec': _rhs2_case, 'tree': case_tree, 'attack_discrete': case_attack_discrete, 'attack_limit': case_attack_limit, 'attack_general': case_attack_general,
         'attack_from_graph': case_attack_from_graph, 'tau0': case_tau0, 'gamma0': case_gamma0, 'rhs_spec': case_rhs_spec}


def replay(rp):
    EoN = C.import_eon()
    r = rp.get('replay', {})
    if 'kind' not in r:
        print('replay: no concrete input recorded (%s)' % rp.get('what', '')[:200]); return 0
    res = CASES[r['kind']](EoN, r['params'])
    print('replay %s: %s' % (r['kind'], res or 'holds'))
    return 1 if (res and not res.startswith('SKIP')) else 0


# ------------------------------------------------------------------ generators ----
def rand_Pk(rng, kmax=6):
    ks = sorted(rng.sample(range(0, kmax + 1), rng.randint(2, min(4, kmax + 1))))
    if ks == [0]:
        ks = [0, 2]
    w = [rng.randint(1, 8) for _ in ks]
    if max(ks) == 0:
        ks[-1] = 3
    den = sum(w)
    return {k: F(x, den) for k, x in zip(ks, w)}


def spec_points(rng, n):
    """random dyadic points for the numerical version of each theorem"""
    d = lambda lo=1, hi=64, den=8: str(L.dy(rng, lo, hi, den))
    vec = lambda k: [d() for _ in range(k)]
    pol = lambda: [str(L.dy(rng, 1, 16, 16)) for _ in range(rng.randint(2, 4))]
    out = []
    for _ in range(n):
        K = rng.randint(2, 5); g = d(1, 24, 8); tau = d(1, 24, 8)
        out.append({'theorem': 'tau0_SIR_compact_pairwise', 'args': {'Sk': vec(K), 'SS': d(), 'SI': d(), 'R': d(), 'N': d(), 'gamma': g}})
        out.append({'theorem': 'tau0_SIS_compact_pairwise', 'args': {'Sk': vec(K), 'Nk': vec(K), 'SS': d(), 'SI': d(), 'twoM': d(), 'gamma': g}})
        out.append({'theorem': 'tau0_SIR_compact_effective_degree', 'args': {'Sk': vec(K), 'SI': d(), 'R': d(), 'N': d(), 'gamma': g}})
        out.append({'theorem': 'tau0_SIS_heterogeneous_meanfield', 'args': {'S': vec(K), 'I': vec(K), 'gamma': g}})
        out.append({'theorem': 'tau0_SIR_heterogeneous_meanfield', 'args': {'Rk': vec(K), 'S0': vec(K), 'Nk': vec(K), 'theta': d(1, 16, 16), 'gamma': g}})
        for fn, nx_, nextra, npol in (('_dSIS_homogeneous_meanfield_', 2, 1, 0), ('_dSIR_homogeneous_meanfield_', 2, 1, 0),
                                      ('_dSIS_homogeneous_pairwise_', 3, 2, 0), ('_dSIR_homogeneous_pairwise_', 4, 1, 0),
                                      ('_dSIS_super_compact_pairwise_', 4, 4, 0), ('_dSIR_super_compact_pairwise_', 4, 1, 3), ('_dEBCM_', 2, 3, 2)):
            X = vec(nx_)
            if npol: X[0] = d(1, 16, 16)
            out.append({'theorem': 'tau0_scalar', 'args': {'fn': fn, 'X': X, 'extra': vec(nextra), 'polys': [pol() for _ in range(npol)], 'gamma': g}})
        out.append({'theorem': 'gamma0_homogeneous_meanfield', 'args': {'X': vec(2), 'c': d(), 'tau': tau}})
        out.append({'theorem': 'gamma0_homogeneous_pairwise', 'args': {'X': vec(4), 'N': d(), 'n': d(2, 40, 8), 'tau': tau}})
        out.append({'theorem': 'gamma0_compact_pairwise', 'args': {'Sk': vec(K), 'Nk': vec(K), 'SS': d(), 'SI': d(), 'R': d(), 'N': d(), 'twoM': d(), 'tau': tau}})
        out.append({'theorem': 'attack_cts_dtheta', 'args': {'theta': d(1, 16, 16), 'R': d(), 'N': d(), 'phiS0': d(1, 16, 16), 'phiR0': d(0, 4, 16),
                                                            'ps': pol(), 'psP': pol(), 'tau': tau, 'gamma': g}})
    return out


def oracle_cases(rng, tier):
    import networkx as nx
    cases = []        # (key-stem, kind, params)
    thorough = tier == 'thorough'
    # ---- trees ---------------------------------------------------------------
    nmax = 6 if thorough else 5
    for T in O.all_trees(nmax):
        H = O.labelled(T, rng)
        desc = O.graph_desc(H); n = H.order(); m = H.number_of_edges()
        seeds = list(range(n))
        for s in seeds:
            cases.append(('SIR_pair_based_pure_IC/tree', 'tree', {'graph': desc, 'seed': s, 'tau': rng.choice([0.5, 1.0, 2.0]), 'gamma': rng.choice([0.5, 1.0]),
                                                                 'tmax': 4.0, 'tcount': 9}))
        wseeds = seeds if thorough else [rng.randrange(n)]
        for s in wseeds:
            cases.append(('SIR_pair_based_pure_IC/tree-weighted', 'tree', {
                'graph': desc, 'seed': s, 'tau': rng.choice([0.5, 1.0]), 'gamma': 1.0, 'tmax': 4.0, 'tcount': 9,
                'tw': {'attr': 'contact', 'values': [rng.choice([0.5, 1.0, 1.5, 2.0]) for _ in range(m)]},
                'rw': {'attr': 'frailty', 'values': [rng.choice([0.5, 1.0, 2.0]) for _ in range(n)]}}))
        # multiple seed placements (the property quantifies over them), with and without non-uniform weights:
        # every pair of seeds on trees <= 4 nodes (quick: <= 5 in thorough), a random pair / triple on larger ones
        import itertools
        if n >= 3:
            pairs = list(itertools.combinations(range(n), 2))
            chosen = pairs if n <= (5 if thorough else 4) else rng.sample(pairs, min(len(pairs), 3 if thorough else 1))
            if n >= 5: chosen = chosen + [tuple(rng.sample(range(n), 3))]
            for ss in chosen:
                cases.append(('SIR_pair_based_pure_IC/tree-multi-seed', 'tree', {'graph': desc, 'seed': list(ss), 'tau': rng.choice([0.5, 1.0]), 'gamma': 1.0, 'tmax': 4.0, 'tcount': 9}))
                cases.append(('SIR_pair_based_pure_IC/tree-multi-seed-weighted', 'tree', {
                    'graph': desc, 'seed': list(ss), 'tau': rng.choice([0.5, 1.0]), 'gamma': 1.0, 'tmax': 4.0, 'tcount': 9,
                    'tw': {'attr': 'contact', 'values': [rng.choice([0.5, 1.0, 2.0, 3.0]) for _ in range(m)]},
                    'rw': {'attr': 'frailty', 'values': [rng.choice([0.5, 1.0, 2.0]) for _ in range(n)]}}))
        if n >= 3:
            s = rng.randrange(n)
            rec = rng.choice([i for i in range(n) if i != s])
            cases.append(('SIR_pair_based_pure_IC/tree-initial-recovered', 'tree', {'graph': desc, 'seed': s, 'recovered': [rec], 'tau': 1.0, 'gamma': 1.0, 'tmax': 4.0, 'tcount': 9}))
    # probes of documented options on one small tree: an edge attribute that happens to be called 'weight'; a permuted nodelist
    P = O.labelled(nx.path_graph(4), rng, 'str'); dP = O.graph_desc(P)
    cases.append(('SIR_pair_based_pure_IC/edge-attribute-named-weight', 'tree', {'graph': dP, 'seed': 0, 'tau': 1.0, 'gamma': 1.0, 'tmax': 4.0, 'tcount': 9,
                                                                               'tw': {'attr': 'weight', 'values': [2.0, 0.5, 1.5]}}))
    cases.append(('SIR_pair_based_pure_IC/nodelist-order', 'tree', {'graph': dP, 'seed': 0, 'tau': 1.0, 'gamma': 1.0, 'tmax': 4.0, 'tcount': 9, 'nodelist': [2, 0, 3, 1]}))
    # ---- final sizes -----------------------------------------------------------
    for i in range(120 if thorough else 10):
        Pk = rand_Pk(rng); pk = {str(k): float(v) for k, v in Pk.items()}
        rho = rng.choice([0.05, 0.1, 0.25, 0.5]); N = rng.choice([10, 100, 1000])
        for n in (0, 1, 2, 5, 17):
            cases.append(('Attack_rate_discrete/exact', 'attack_discrete', {'Pk': pk, 'N': N, 'p': rng.choice([0.125, 0.25, 0.5, 0.75, 0.875]), 'rho': rho, 'n': n}))
        cases.append(('Attack_rate_discrete/limit', 'attack_limit', {'kind': 'discrete', 'Pk': pk, 'N': N, 'p': rng.choice([0.25, 0.5, 0.75]), 'rho': rho}))
        cases.append(('Attack_rate_cts_time/limit', 'attack_limit', {'kind': 'cts', 'Pk': pk, 'N': N, 'tau': rng.choice([0.25, 0.5, 1.0, 2.0]), 'gamma': rng.choice([0.5, 1.0, 2.0]), 'rho': rho, 'tmax': 200.0}))
    for i in range(80 if thorough else 6):
        Pk = rand_Pk(rng); pk = {str(k): float(v) for k, v in Pk.items()}
        Sk0 = {str(k): rng.choice([0.5, 0.75, 0.875, 1.0]) for k in Pk}
        phiS0 = 0.0 if i % 3 == 1 else rng.choice([0.5, 0.625, 0.75]); phiR0 = 0.0 if i % 3 == 2 else rng.choice([0.0625, 0.125])      # phiS0 + phiR0 < 1: some edges lead to infected nodes (else theta = 1 is a second rest point)
        # phiS0 = 0 (no susceptible node has a susceptible neighbour: star with the centre infected, one side of a bipartite graph) and
        # phiR0 = 0 are legitimate explicit values, not "use the default"
        base = dict(Pk=pk, Sk0=Sk0, N=rng.choice([10, 100]), phiS0=phiS0, phiR0=phiR0, R0=rng.choice([0.0, 1.0]))
        cases.append(('Attack_rate_discrete/exact-Sk0-phiS0-phiR0', 'attack_general', dict(base, kind='discrete', p=rng.choice([0.25, 0.5, 0.75]), n=rng.choice([1, 2, 5, 17]))))
        cases.append(('Attack_rate_cts_time/limit-Sk0-phiS0-phiR0', 'attack_general', dict(base, kind='cts', tau=rng.choice([0.5, 1.0, 2.0]), gamma=rng.choice([0.5, 1.0]))))
    # fixed probe: p = 1 with isolated nodes in the degree distribution; theta underflows to 0.0 and the k = 0 term evaluates 0.0**-1
    cases.append(('Attack_rate_discrete/degree0-theta-underflow', 'attack_discrete', {'Pk': {'0': 0.5, '5': 0.5}, 'N': 1000, 'p': 1.0, 'rho': 0.25, 'n': 17}))
    G = O.labelled(O.hetero_graph(rng, 12), rng); dG = O.graph_desc(G)
    for kind, rates in (('discrete', {'p': 0.5}), ('cts', {'tau': 0.75, 'gamma': 1.0})):
        cases.append(('Attack_rate_%s_from_graph/rho' % ('discrete' if kind == 'discrete' else 'cts_time'), 'attack_from_graph', dict(graph=dG, kind=kind, mode='rho', rho=0.25, **rates)))
        cases.append(('Attack_rate_%s_from_graph/explicit-sets' % ('discrete' if kind == 'discrete' else 'cts_time'), 'attack_from_graph', dict(graph=dG, kind=kind, mode='sets', infected=[0, 3], **rates)))
    # ---- tau = 0 and gamma = 0 on every graph entry point --------------------------
    graphs = [dG, O.graph_desc(O.labelled(O.regular_graph(rng, 3, 10), rng))]
    if thorough:
        graphs += [O.graph_desc(O.labelled(O.hetero_graph(rng, 16), rng)), O.graph_desc(O.labelled(O.regular_graph(rng, 4, 9), rng)),
                   O.graph_desc(O.labelled(O.regular_graph(rng, 2, 8), rng))]
    for gi, dg in enumerate(graphs):
        rho = rng.choice([0.125, 0.25]); gam = rng.choice([0.5, 1.0, 1.5]); tmin0 = [0, 2.5, -1.5][gi % 3]
        regular = len({d for _, d in O.graph_from_desc(dg).degree()}) == 1
        for e in O.GRAPH_SIR + O.GRAPH_SIS:
            if regular and e == 'SIS_super_compact_pairwise_from_graph':
                continue      # its closure divides by <k^2> - <k>^2, which is 0 on a regular graph: outside the model's domain
            cases.append(('%s/tau0' % e, 'tau0', {'entry': e, 'graph': dg, 'gamma': gam, 'rho': rho, 'tmin': tmin0, 'tmax': 3.0, 'tcount': 7}))
        for m in ('individual_based', 'pair_based', 'homogeneous_meanfield_from_graph', 'homogeneous_pairwise_from_graph', 'heterogeneous_meanfield_from_graph',
                  'heterogeneous_pairwise_from_graph', 'compact_pairwise_from_graph', 'effective_degree_from_graph', 'compact_effective_degree_from_graph'):
            cases.append(('SIS_SIR_%s/gamma0' % m, 'gamma0', {'model': m, 'graph': dg, 'tau': rng.choice([0.25, 0.5]), 'rho': rho, 'tmin': tmin0, 'tmax': 3.0, 'tcount': 7}))
    return cases


# ------------------------------------------------------------------ wrappers tie --
def wrapper_tie(EoN, rng, n):
    """hand-written Model/Attack.v (argument defaulting + closures) and the translated loops against the entry points"""
    import numpy as np
    lines = []; want = []
    def pkline(Pk): return '%d %s' % (len(Pk), ' '.join('%d %s' % (k, C.qtok(v)) for k, v in Pk.items()))
    for i in range(n):
        Pk = rand_Pk(rng, 4); Pkf = {k: float(v) for k, v in Pk.items()}
        its = rng.randint(0, 2)      # exact rational iterates grow doubly exponentially; more iterations are covered by the theorems + the Python-side oracle
        rho = rng.choice([None, F(0), F(1, 8), F(1, 4), F(1, 2)])
        p = F(rng.randint(1, 7), 8)       # p = 1 makes alpha = 0 and get_PGFPrime evaluates 0**-1 (outside the fragment)
        rtok = '0' if rho is None else '1 ' + C.qtok(rho)
        lines.append('ARD %s %s %s %d' % (pkline(Pk), C.qtok(p), rtok, its))
        want.append(('Attack_rate_discrete', dict(Pk={str(k): str(v) for k, v in Pk.items()}, p=str(p), rho=None if rho is None else str(rho), its=its),
                     O.call(lambda: (EoN.Attack_rate_discrete(Pkf, float(p), rho=None if rho is None else float(rho), number_its=its),))))
        tau = F(rng.randint(1, 16), 8); gam = F(rng.randint(1, 16), 8)
        rho2 = rng.choice([None, F(1, 8), F(1, 4), F(1, 2)]); rtok = '0' if rho2 is None else '1 ' + C.qtok(rho2)
        lines.append('ARC %s %s %s %s %d' % (pkline(Pk), C.qtok(tau), C.qtok(gam), rtok, its))
        want.append(('Attack_rate_cts_time', dict(Pk={str(k): str(v) for k, v in Pk.items()}, tau=str(tau), gamma=str(gam), rho=None if rho2 is None else str(rho2), its=its),
                     O.call(lambda: (EoN.Attack_rate_cts_time(Pkf, float(tau), float(gam), number_its=its, rho=None if rho2 is None else float(rho2)),))))
        ps = [F(rng.randint(0, 8), 16) for _ in range(rng.randint(2, 3))]; ps[-1] += F(1, 16)
        pp = [F(rng.randint(0, 8), 16) for _ in range(rng.randint(2, 3))]; pp[-1] += F(1, 16)
        N = F(rng.choice([10, 64, 100])); phiS0 = F(rng.randint(1, 16), 16); phiR0 = F(rng.randint(0, 4), 16); R0 = F(rng.randint(0, 8), 4)
        nst = rng.randint(1, 3)
        ql = lambda l: '%d %s' % (len(l), ' '.join(C.qtok(x) for x in l))
        lines.append('EBD %s %s %s %s %s %s %s %d' % (C.qtok(N), ql(ps), ql(pp), C.qtok(p), C.qtok(phiS0), C.qtok(phiR0), C.qtok(R0), nst))
        r = O.call(EoN.EBCM_discrete, float(N), L.poly(ps), L.poly(pp), float(p), float(phiS0), phiR0=float(phiR0), R0=float(R0), tmin=0, tmax=nst, return_full_data=True)
        want.append(('EBCM_discrete', dict(N=str(N), psihat=[str(x) for x in ps], psihatPrime=[str(x) for x in pp], p=str(p), phiS0=str(phiS0), phiR0=str(phiR0), R0=str(R0), tmax=nst), r))
    outs = C.run_model(lines, 'attack', timeout=150, shards=8)
    mism = []; ok = 0
    for line, (name, args, (st, r)), o in zip(lines, want, outs):
        if not o.startswith('OK'):
            mism.append((name, args, 'model driver: ' + o, r)); continue
        if st != 'ok':
            mism.append((name, args, o, 'python raised ' + str(r))); continue
        if name == 'EBCM_discrete':
            rows = [[float(F(x)) for x in part.split()] for part in o[2:].split(';')]
            t, S, I, R, th = r
            py = [[th[k], R[k], S[k], I[k]] for k in range(len(t))]
            good = len(py) == len(rows) and all(C.close(a, b) for pr, mr in zip(py, rows) for a, b in zip(pr, mr))
        else:
            mo = float(F(o.split()[1])); py = float(r[0]); good = C.close(py, mo)
            rows = mo
        if good: ok += 1
        else: mism.append((name, args, rows, py))
    return {'n': len(lines), 'ok': ok, 'mism': mism, 'distinct': len(set(lines))}


# ------------------------------------------------------------------ main ----------
def run(run, tier):
    EoN = C.import_eon()
    rng = run.rng
    thorough = tier == 'thorough'
    broken = []           # (what broke, detail)
    # 1. translator
    table = None
    try:
        L.regen_rhs('all'); table = L.sigs()
    except L.RhsRefused as e:
        broken.append(('translator', 'translate/rhs2v.py refuses the current EoN/analytic.py: %s' % e))
    # 2. theorems over the generated file
    from . import rhs2_spec as S2
    regen2 = S2.regen_phase()
    props = (C.check_props('C08') if regen2 is None else S2.REFUSED_PROPS(regen2)) if table else {'ok': False, 'theorems': [], 'axioms': {}, 'log': 'translator refused'}
    if table and not props['ok'] and regen2 is None:
        m = None
        import re
        mm = re.findall(r'File "\./((?:Proofs|Props|Model|Gen)/[A-Za-z0-9]+\.v)", line (\d+)', props.get('log', ''))
        where = ''
        if mm:
            f, ln = mm[-1]
            try:
                src = open(os.path.join(C.COQ, f)).read().split('\n')
                for k in range(int(ln) - 1, -1, -1):
                    m = re.match(r'\s*(?:Lemma|Theorem|Example|Definition)\s+([A-Za-z0-9_\']+)', src[k])
                    if m:
                        where = '%s (%s:%s)' % (m.group(1), f, ln); break
            except Exception:
                pass
        broken.append(('proof', 'theorem over the generated right-hand sides no longer checks: %s; %s' % (where or 'see log', props.get('log', '')[-300:].replace('\n', ' '))))
    from . import c08t; c08t.part(run, EoN, tier, props, report, CASES)      # tree clause, algebraic part: Props/C08t.v + its ties and failing-input search
    C.extra_props(run, 'C08', props, ['C08tree'])
    # 3. ties
    n_eval = 0; n_distinct = 0; samples = []; dist = {}
    tie = wt = None
    if table:
        ok, log = L.build()
        if not ok:
            broken.append(('model-build', 'generated model / Model/Attack.v / extracted driver does not build: ' + log[-300:].replace('\n', ' ')))
        else:
            tie = L.point_check(EoN, rng, 1500 if thorough else 220, table)
            n_eval += tie['n']; n_distinct += tie['distinct']
            samples += tie['samples']
            dist['rhs_points_agreeing_per_function'] = tie['per_fn']
            if tie['mism']:
                m = tie['mism'][0]
                broken.append(('tie', 'translation is not faithful at a point: %s args=%s python=%s model=%s (%d of %d points)' % (m[0], m[1], m[2], m[3], len(tie['mism']), tie['n'])))
        ok, log = C.build_driver('attack')
        if not ok:
            broken.append(('attack-model-build', 'Model/Attack.v (hand-written wrappers around the generated loops) / its driver does not build: ' + log[-300:].replace('\n', ' ')))
        else:
            wt = wrapper_tie(EoN, rng, 400 if thorough else 80)
            n_eval += wt['n']; n_distinct += wt['distinct']
            dist['wrapper_cases'] = {'n': wt['n'], 'agree': wt['ok']}
            if wt['mism']:
                m = wt['mism'][0]
                broken.append(('wrapper-tie', 'Model/Attack.v disagrees with %s on %s: model=%s python=%s (%d of %d cases)' % (m[0], m[1], m[2], m[3], len(wt['mism']), wt['n'])))
    # 4. numerical version of each theorem on the Python right-hand sides + oracles on the entry points
    found = 0; skipped = 0; stats = {}
    from . import rhs2_spec as S2
    blk = S2.check_block(run, EoN, 'C08', tier, report, regen2)           # 2-D / node-level systems: own RNG stream, does not shift the cases below
    broken += blk['broken']; found += blk['found']; n_eval += blk['n_eval']; n_distinct += blk['n_distinct']; samples += blk['samples']; dist.update(blk['dist'])
    sp = spec_points(rng, 40 if thorough else 8)
    for p in sp:
        n_eval += 1
        try:
            res = case_rhs_spec(EoN, p)
        except Exception as e:
            res = 'CRASH %s: %s' % (type(e).__name__, str(e)[:100])
        stats['rhs_spec'] = stats.get('rhs_spec', 0) + 1
        if res:
            fn = p['args'].get('fn', p['theorem'])
            found += report(run, 'C08/%s/%s' % (fn, p['theorem']), 'the statement of theorem %s fails on the Python right-hand side: %s' % (p['theorem'], res),
                   {'kind': 'rhs_spec', 'params': p, 'detail': res, 'also_broken': [b[0] for b in broken]})
    cases = oracle_cases(rng, tier)
    n_states = 0
    for stem, kind, p in cases:
        n_eval += 1
        try:
            res = CASES[kind](EoN, p)
        except Exception as e:
            import traceback
            res = 'CRASH(oracle) %s: %s' % (type(e).__name__, traceback.format_exc()[-300:])
        stats[kind] = stats.get(kind, 0) + 1
        if res is None:
            if len(samples) < 5 and kind == 'tree' and p['graph']['nodes'].__len__() == 5:
                samples.append({'tree_case_agrees_with_master_equation': {k: p[k] for k in ('graph', 'seed', 'tau', 'gamma')}})
            continue
        if res.startswith('SKIP'):
            skipped += 1; continue
        key = 'C08/%s%s' % (stem, '/crash' if res.startswith('CRASH') else '')
        found += report(run, key, '%s: %s' % (stem, res), {'kind': kind, 'params': p, 'detail': res, 'also_broken': [b[0] for b in broken]})
    # 5. proof / tie breaks without a concrete input of the property
    if broken and not found:
        for what, detail in broken:
            report(run, 'C08/%s' % what, detail + ' -- numerical oracles found no failing input of the property', {'broken': what, 'detail': detail, 'log': props.get('log', '')[-2000:]}, no_input=True)
    elif broken:
        run.coverage['also_broken'] = broken
    nontriv = n_eval - skipped
    C.proof_coverage(run, props, n_eval, min(n_distinct + len(cases) + len(sp), nontriv),
                     'TIE (every run): each of the 12 translated right-hand sides evaluated in Python and in the extracted generated Coq definition at random dyadic points '
                     '(positive state, K=2..6 degree classes, rates dyadic in (0,3], 8%% zero rates; points with a zero denominator are not used) compared to rel 1e-9; '
                     'Model/Attack.v wrappers vs Attack_rate_discrete / Attack_rate_cts_time (rho None/0/>0, 0..2 iterations) and EBCM_discrete (1..3 steps) on random degree '
                     'distributions over degrees 0..4.  VALIDATION ORACLES (not proof): SIR_pair_based_pure_IC vs exact master equation on every non-isomorphic tree with 2..%d nodes, '
                     'every single-seed placement (shuffled string/tuple labels), edge+node weights, one initially recovered node; Attack_rate_discrete(n) vs EBCM_discrete row n; '
                     'Attack_rate_* vs t->infinity of EBCM/EBCM_discrete; tau=0 and gamma=0 on all %d graph entry points (rho form) on heterogeneous and regular graphs; each theorem of '
                     'Props/C08.v re-evaluated numerically on the Python right-hand sides.  Tolerance 1e-4*N for curves, rel 1e-9 for point values.  Non-trivial = not skipped for '
                     'non-convergence.  ' % (6 if thorough else 5, len(O.GRAPH_SIR + O.GRAPH_SIS)) + S2.RULE,
                     samples, {'distribution': dict(dist, oracle_cases=stats, skipped_not_converged=skipped),
                               'validated_numerically_only': ['pair-based tree exactness beyond the single edge (cited: Sharkey et al. 2015)', 't->infinity limits (convergence)',
                                                              'tau=0 / gamma=0 for pref_mix, heterogeneous_meanfield gamma=0; the curves of every graph entry point at tau=0 / gamma=0'],
                               'proved_over_hand_written_model': ['tau=0 and gamma=0 right-hand-side identities of individual_based, pair_based, heterogeneous_pairwise, effective_degree (SIS and SIR)',
                                                                  'pair_based_tree_exact_partial: single edge = marginals of the 9-state master equation, closure sums empty'],
                               'hand_written_model': 'coq/Model/Rhs2D.v (component rhs2): proved equal to the definitions generated from the source (Props: *_generated_*), both tied by point evaluation',
                               'cited': ['Picard-Lindeloef uniqueness (vector-field identity => curves coincide)', 'I\' = -gamma I => I = I0 exp(-gamma t)'],
                               'translator': 'translate/rhs2v.py (fail-closed); generated file coq/Gen/Rhs.v; translate/rhs2d2v.py (fail-closed); generated file coq/Gen/Rhs2.v'})
    run.assumptions += ['Model/Rhs2D.v is a hand-written model of the 2-D / node-level right-hand sides; its precondition is index_of_node = enumerate(nodelist) over a simple graph (what every caller in analytic.py builds)',
                        'numpy elementwise/broadcast/slice/dot semantics and scipy.ndimage.shift(a,-1) as modelled in Model/Vec.v (tied by point evaluation)',
                        'scipy.integrate.odeint returns the ODE solution on the grid to tolerance',
                        'division by zero is outside the translated fragment (theorems carry non-zero hypotheses where they divide)']
