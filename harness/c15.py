"""C15: Gillespie_complex_contagion always acts on up-to-date rates.
Theorems: coq/Props/C15.v over the executable model coq/Model/Complex.v (the user's three
functions are oracles; nodes_by_rate is the concrete _ListDict_ of C16).  Tie: the extracted
model chooses draw scripts (random walks and every path on small graphs), the implementation
in /repo runs on them with callbacks that log their arguments; trace (rates handed to
expovariate, candidates handed to choice), rows, histories and callback arguments are compared.
Failing-input search: an L0 oracle that replays the implementation's own trace and recomputes
every rate from scratch with the user's function, plus a binary64 residue search."""
import itertools, json, math, random as _random
from fractions import Fraction as F
from . import common as C
from . import simrun as R
from . import sim_check as SC
from . import complex_lib as L

CLAIM_MORE = 'ALSO (coq/Props/C15x.v): the call trace and the user-callback log of every returning run (choice on the statuses before, rate / influence set / rates on the statuses after, for exactly the changed node and its influence set), no Python error inside the covering domain, step law at every loop head.'

CLAIM = dict(
    text="Machine-checked theorems (coq/Props/C15.v, closed under the global context) over an executable model of Gillespie_complex_contagion "
         "written as the code is, for ARBITRARY user rate / transition / influence-set functions (Section variables) with non-negative rates and a "
         "covering influence set: after the initial fill and after every event the weighted _ListDict_ holds exactly {u -> rate(u, current statuses) | rate > 0}; "
         "the next node is drawn with probability rate(u)/sum, the waiting time has rate = that sum, the new status is the chooser's answer; the loop ends "
         "exactly when the sum is 0 or t >= tmax; the loop cannot raise (no expovariate(0), no choice([])) - the only failures are a missing IC entry and the full-data constructor; "
         "rows count the replayed statuses; for every draw script the whole program equals (same calls to the random source, same outputs incl. the arguments of every user callback) "
         "the textbook direct method that recomputes every rate from scratch. With the calls (coq/Props/C15x.v): for every draw script a returning run is the initial fill + "
         "a sequence of steps + the stop rule, and the logged trace is exactly their calls: every waiting time is drawn with total_weight() == the sum of the user's rates over all nodes "
         "on the current statuses, choose_random is offered exactly the nodes with a positive current rate, every event node has a positive current rate, event times never go back and "
         "stay below tmax, and the complete log of user-function calls is: per event transition_choice on the statuses before, then AFTER the change rate_function at the node, "
         "get_influence_set at the node and rate_function at exactly its members; rows, histories and that call log are functions of one chronological event list. Tie: extracted model vs /repo on random and "
         "exhaustively enumerated draw scripts (threshold/SIS/SIR/cascade/long-range families and arbitrary rate tables; string/tuple labels and statuses), "
         "comparing every call to the random source, the outputs and the arguments every user callback received. An independent Python oracle replays the "
         "implementation's trace against rates recomputed from scratch; a separate binary64 search looks for rate tables whose running total does not cancel.",
    design='DESIGN.md section 4 C15 (and C16), Appendix A.3, section 5 row 18',
    technique='Coq proof (bookkeeping invariant via the C16 insert lemmas, law of the jump, refinement to the from-scratch direct method) + extracted-model/implementation correspondence with model-guided exhaustive exploration + L0 trace oracle + float-residue search',
    note="Exact arithmetic in the theorems; random.expovariate/choice/random read as in DESIGN 2.3 (choose_random's law is C16). The float residue of "
         "_ListDict_._total_weight (DESIGN section 5 row 18) lives outside the exact model and is reported through the known-findings mechanism.")

PID = 'C15'
ENTRY = 'Gillespie_complex_contagion'
RESIDUE_KEY = 'C15/Gillespie_complex_contagion/float-residue-total-weight'


# ------------------------------------------------------- float-residue search ----
class Live:
    """random source answering on the fly: expovariate -> 1.0, choice -> the scripted rank
    among the offered candidates (sorted), accept tests -> 2^-40"""
    def __init__(self, ranks, key):
        self.ranks = list(ranks); self.i = 0; self.key = key; self.log = []

    def expovariate(self, rate):
        self.log.append(('E', rate))
        if rate == 0: raise ZeroDivisionError('float division by zero')
        if len(self.log) > 200: raise R.OutOfDraws()
        return 1.0

    def choice(self, seq):
        seq = sorted(seq, key=self.key)
        self.log.append(('P', list(seq)))
        if not seq: raise IndexError('Cannot choose from an empty sequence')
        r = self.ranks[self.i % len(self.ranks)] if self.ranks else 0
        self.i += 1
        return seq[r % len(seq)]

    def random(self):
        return R.ACC


def residue_run(EoN, sim, rates, ranks, tmax=float('inf')):
    """n isolated nodes 'a','b',..; node i is 'I' and recovers ('R', absorbing) at rate rates[i].
    Returns (status, detail): 'ok' | 'exc' | 'runaway'."""
    import networkx as nx
    names = ['n%s' % chr(97 + i) for i in range(len(rates))]
    G = nx.Graph(); G.add_nodes_from(names)
    r = dict(zip(names, rates))
    rate = lambda G, u, status, parameters: r[u] if status[u] == 'I' else 0
    choice = lambda G, u, status, parameters: 'R'
    infl = lambda G, u, status, parameters: []
    src = Live(ranks, key=lambda x: x)
    old = sim.random; sim.random = src
    try:
        out = EoN.Gillespie_complex_contagion(G, rate, choice, infl, {u: 'I' for u in names}, ('I', 'R'), tmax=tmax)
        return 'ok', [list(map(float, a)) for a in out], src.log
    except R.OutOfDraws:
        return 'runaway', None, src.log
    except Exception as e:
        return 'exc', type(e).__name__, src.log
    finally:
        sim.random = old


def residue_search(EoN, sim, tier):
    """smallest model first: multisets of decimal rates on isolated nodes, every removal order.
    Every rate is exactly zero once all nodes recovered, so the property requires the run to
    stop there with n events; an exception or a further draw is a violation."""
    pool = [0.1, 0.2, 0.3, 0.7] if tier == 'quick' else [0.1, 0.2, 0.3, 0.4, 0.6, 0.7, 1.1, 2.3]
    tried = 0; hits = []
    for n in (1, 2, 3) if tier == 'quick' else (1, 2, 3, 4):
        for rates in itertools.combinations_with_replacement(pool, n):
            for ranks in itertools.product(*[range(k) for k in range(n, 0, -1)]):     # every removal order
                tried += 1
                st, det, log = residue_run(EoN, sim, rates, ranks)
                if st != 'ok' or len(det[0]) != n + 1:
                    hits.append((n, rates, ranks, st, det, log))
        if hits: break
    return tried, hits


def is_residue(hit):
    n, rates, ranks, st, det, log = hit
    es = [e[1] for e in log if e[0] == 'E']
    return bool(es) and 0 < es[-1] < 1e-9 and (st == 'runaway' or (st == 'exc' and log[-1] == ('P', [])))


def report_residue(run, tried, hits):
    if not hits: return None
    res = [h for h in hits if is_residue(h)]
    other = [h for h in hits if not is_residue(h)]
    what = None
    if res:
        n, rates, ranks, st, det, log = res[0]
        last_rate = [e[1] for e in log if e[0] == 'E'][-1]
        what = ('%s: %d isolated nodes, all initially I, node i recovers (I->R, absorbing) at rate %r, tmax=inf: after the %d recoveries every rate is exactly 0, '
                'but nodes_by_rate.total_weight() = %r > 0 with no item left (binary64 residue of the running +=/-= total), the loop goes on and '
                '%s. The property requires the run to stop exactly when all rates are zero. (%d of %d rate tables / orders tried fail at this size.)'
                % (ENTRY, n, list(rates), n, last_rate,
                   'choose_random() raises %s from random.choice([])' % det if st == 'exc' else 'never ends', len(res), tried))
        run.violation(RESIDUE_KEY, what, {'kind': 'float-residue', 'rates': list(rates), 'ranks': list(ranks), 'observed': [st, det], 'entry': ENTRY})
    if other:
        n, rates, ranks, st, det, log = other[0]
        w2 = ('%s: %d isolated nodes, all initially I, node i recovers at rate %r, tmax=inf: the run should consist of exactly %d recoveries; observed %s %r, calls to the random source %r'
              % (ENTRY, n, list(rates), n, st, det if st != 'ok' else det[0], log[:8]))
        run.violation('C15/%s/decimal-rates-run' % ENTRY, w2, {'kind': 'float-residue', 'rates': list(rates), 'ranks': list(ranks), 'observed': [st, str(det)], 'entry': ENTRY})
        what = what or w2
    return what


# ---------------------------------------------------------------------- run ----
def nontrivial(case, m, impl):
    return m.get('status') == 'OK' and len(m.get('rows', [])) >= 2 or (m.get('status') == 'ERR' and len(m.get('trace', [])) >= 3)


def run(run, tier):
    EoN = C.import_eon()
    import EoN.simulation as sim
    rng = run.rng
    props = C.check_props(PID)
    ok, log = C.build_driver(L.COMP)
    if not ok:
        run.violation('C15/build', 'extracted model does not build: ' + log[-500:], {'log': log[-3000:]}, no_input=True)
        C.proof_coverage(run, props, 1, 0, 'build failed', [log[-300:]]); return
    res = SC.Result()
    # 0. corpus of minimised past failures
    corpus = [L.case_from_json(j) for j in C.load_corpus(PID)]
    # 1. random stream (walks chosen by the model), 4% malformed
    nrand = 4000 if tier == 'quick' else 40000
    cases = list(corpus); modes = ['D %d %s' % (len(j.get('draws', [])), R.qtoks([F(x) for x in j.get('draws', [])])) for j in C.load_corpus(PID)]
    for i in range(nrand):
        cases.append(L.gen_case(rng, malformed=(i % 25 == 7))); modes.append('W ' + R.ent_tokens(rng))
    SC.run_cases(L, EoN, sim, cases, modes, oracle=L.oracle_rates, nontrivial=nontrivial, res=res, label='random')
    # 2. every path of the sampler program on every small graph
    small = L.small_cases(rng, 3 if tier == 'quick' else 4, directed=False)
    small += L.small_cases(rng, 2, directed=True)
    small += [c for c in L.small_cases(rng, 3, directed=True, kinds=('threshold', 'sir', 'cascade', 'table')) if len(c['gc'].order) == 3 and (tier != 'quick' or rng.random() < .25)]
    delays = [F(1, 2)] if tier == 'quick' else [F(1, 2), F(5, 4)]
    amode = 'A 16 %d %d %s' % (300 if tier == 'quick' else 250, len(delays), R.qtoks(delays))
    SC.run_cases(L, EoN, sim, small, [amode] * len(small), oracle=L.oracle_rates, nontrivial=nontrivial, res=res, label='exhaustive_paths')
    res.stat('exhaustive_cases', len(small))
    SC.report(run, PID, ENTRY, res, 'Model/Complex.v', 'Props/C15.v')
    # 3. binary64 residue search (outside the exact model)
    tried, hits = residue_search(EoN, sim, tier)
    residue = report_residue(run, tried, hits)
    C.extra_props(run, 'C15', props, ['C15x'])
    # 4. "the next node is drawn with probability rate/sum of current rates" rests on the weighted candidate structure that
    # Gillespie_complex_contagion re-rates with insert(): its selection law is judged on the class itself (specification oracle of c16)
    from . import c16
    lawper = {}
    c16.selection_law_part(run, 'C15', sim, run.rng, 500 if tier == 'quick' else 6000, lawper)
    if not props['ok']:
        run.violation('C15/proof', 'Props/C15.v no longer checks: %s' % props['log'][-400:], {'broken': 'coq/Props/C15.v', 'log': props['log']}, no_input=True)
    dist = dict(res.stats)
    fams = {}
    for c in cases + small: fams[c['fam']] = fams.get(c['fam'], 0) + 1
    C.proof_coverage(run, props, res.n, min(len(res.distinct), res.nontrivial),
                     'random stream: %d cases (graphs of 1-8 nodes, 30%% directed, permuted/string/tuple/mixed node labels, string/tuple/mixed status labels, edge and node '
                     'weights incl. 0, families %s + arbitrary rate/choice/influence TABLES on <=4 nodes with the minimal covering influence set, return_statuses '
                     'permuted/partial/with an absent status, dict and defaultdict IC, tmin in {0,5/2,-3/2,..}, finite and infinite tmax, 25%% full data, 4%% malformed (IC lacks a node), '
                     '~8%% non-covering influence sets for the model<->code tie only); exhaustive: every sampler path (every candidate of every choose_random, delays %s, <=16 draws) on every '
                     'labelled graph with <=%d nodes (directed <=%d, a quarter of the 3-node digraphs in the quick tier) x every S/I initial assignment x 4-6 model kinds. Compared: every call to the random source with its arguments, '
                     'rows, histories, every user-callback call with the statuses it saw. Oracle: rates recomputed from scratch on the implementation\'s own trace. '
                     'Non-trivial = at least one event.' % (nrand, ', '.join(L.FAMILIES), [str(d) for d in delays], 3 if tier == 'quick' else 4, 3),
                     res.samples, {'distribution': dist, 'families': fams, 'mismatches': len(res.mism), 'oracle_failures': len(res.oracle_bad),
                                   'selection_law': lawper, 'float_residue_search': {'tables_x_orders_tried': tried, 'failing': len(hits), 'first': residue},
                                   'exhaustive_part': 'all sampler paths on all graphs <=%d nodes' % (3 if tier == 'quick' else 4)})
    run.assumptions += ['random.expovariate(r) is exponential with rate r; choose_random selects proportionally to weight (C16); user functions are deterministic functions of (G, node, statuses)',
                        'hypotheses of the theorems: rates >= 0, influence set covers (influence_covers), nodes of G distinct']


def replay(rp):
    EoN = C.import_eon()
    import EoN.simulation as sim
    r = rp['replay']
    if r.get('listdict'):
        from . import c16
        return c16.replay(rp)
    if r.get('kind') == 'float-residue':
        st, det, log = residue_run(EoN, sim, r['rates'], r['ranks'])
        print('rates', r['rates'], 'removal ranks', r['ranks'], '->', st, det)
        print('calls to the random source:', log)
        return 1 if (st != 'ok' or len(det[0]) != len(r['rates']) + 1) else 0
    if 'graph' not in r:
        print(rp.get('what')); return 1
    case = L.case_from_json(r)
    draws = [F(x) for x in r.get('draws', [])]
    ok, log = C.build_driver(L.COMP)
    out = C.run_model([L.model_line(case, 'D %d %s' % (len(draws), R.qtoks(draws)))], L.COMP)[0]
    m = R.parse_model_line(out)
    impl = L.run_impl(EoN, sim, case, draws)
    d = L.compare(case, m, impl)
    bad = L.oracle_rates(case, impl, m)
    print('implementation:', impl['status'], impl.get('err', ''), impl.get('rows'))
    print('random-source calls:', impl['log'])
    print('model:', out[:600])
    print('correspondence:', d or 'agrees')
    print('oracle:', bad or 'holds')
    return 1 if (d or bad) else 0
