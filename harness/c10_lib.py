"""Library for property C10 (full-data object and plain time series describe the same
epidemic), generic part: token encoding of Simulation_Investigation objects for the
extracted model (component 'inv', Model/Investigation.v), the extracted decidable
checker `consistent` applied to implementation outputs, and pure-Python oracles that
are independent of the model (the L0 reading of the documentation).

    check_outputs(hist, rows, tmin, moves, nodes=None, statuses=('S','I','R')) -> None | str
    check_outputs_batch(cases) -> [None | str]
    spec_summary(hist, statuses, nodelist) -> (times, {status: counts})
    spec_node_status(times, stats, t) -> status

`hist` is what EoN keeps: {node: (times, statuses)}; `rows` the time series returned
without return_full_data as [(t, [count per status, in the order of `statuses`])];
`moves` the allowed (from, to) status pairs."""
from fractions import Fraction as F
from . import common as C

STATUS_ID = {'S': 0, 'I': 1, 'R': 2}


def status_id(s, table=None):
    """statuses 'S','I','R' are 0,1,2 (stS, stI, stR of Base/Graph.v); others are numbered from 3"""
    table = STATUS_ID if table is None else table
    if s not in table:
        table[s] = max(list(table.values()) + [2]) + 1
    return table[s]


class Labels:
    """label -> N by first appearance"""
    def __init__(self, nodes=()):
        self.idx = {}; self.labels = []
        for u in nodes: self.id(u)
    def id(self, u):
        if u not in self.idx:
            self.idx[u] = len(self.labels); self.labels.append(u)
        return self.idx[u]


def q(x):
    return C.qtok(F(x))


def hist_tokens(times, stats, table):
    return '%d %s' % (len(times), ' '.join('%s %d' % (q(t), status_id(s, table)) for t, s in zip(times, stats)))


def inv_tokens(lab, nodes, hist, default, statuses, table=None):
    """the object format of ocaml/inv_driver.ml read_inv: nodes | histories | default | possible statuses"""
    table = dict(STATUS_ID) if table is None else table
    t = ['%d %s' % (len(nodes), ' '.join(str(lab.id(u)) for u in nodes))]
    t.append(str(len(hist)))
    for u, (times, stats) in hist.items():
        t.append('%d %s' % (lab.id(u), hist_tokens(times, stats, table)))
    t.append('0' if default is None else '1 ' + hist_tokens(default[0], default[1], table))
    t.append('0' if statuses is None else '1 %d %s' % (len(statuses), ' '.join(str(status_id(s, table)) for s in statuses)))
    return ' '.join(t)


def rows_tokens(rows):
    return '%d %s' % (len(rows), ' '.join('%s %d %s' % (q(t), len(cs), ' '.join(str(int(c)) for c in cs)) for t, cs in rows))


def chk_line(hist, rows, tmin, moves, nodes=None, statuses=('S', 'I', 'R'), default=None):
    nodes = list(hist.keys()) if nodes is None else list(nodes)
    lab = Labels(nodes); table = dict(STATUS_ID)
    obj = inv_tokens(lab, nodes, hist, default, None if statuses is None else list(statuses), table)
    mv = '%d %s' % (len(moves), ' '.join('%d %d' % (status_id(a, table), status_id(b, table)) for a, b in moves))
    return 'INVCHK %s %s %s %s' % (obj, rows_tokens(rows), q(tmin), mv), lab


def explain(out, lab):
    tk = out.split()
    if not tk: return 'checker gave no verdict'
    if tk[0] == 'OK': return None
    if tk[0] == 'BADHIST':
        return 'history of node %r does not start at tmin / is not time-ordered / uses an impossible status / makes an illegal move' % (lab.labels[int(tk[1])],)
    if tk[0] == 'BADSUM':
        return 'the summary computed from the node histories and the returned time series differ at time %s' % float(F(tk[1]))
    if tk[0] == 'ERR':
        return 'summary of the node histories fails with %s' % tk[1]
    return 'checker: ' + out[:200]


def check_outputs_batch(cases):
    """cases: dicts with hist, rows, tmin, moves[, nodes, statuses, default].  Runs the extracted checker
    (Model/Investigation.v `consistent`) on all of them; returns None (consistent) or a description per case."""
    ok, log = C.build_driver('inv')
    if not ok:
        raise RuntimeError('extracted checker does not build: ' + log[-400:])
    lines = []; labs = []
    for c in cases:
        line, lab = chk_line(c['hist'], c['rows'], c['tmin'], c['moves'], c.get('nodes'), c.get('statuses', ('S', 'I', 'R')), c.get('default'))
        lines.append(line); labs.append(lab)
    outs = C.run_model(lines, 'inv')
    return [explain(o, l) for o, l in zip(outs, labs)]


def check_outputs(hist, rows, tmin, moves, nodes=None, statuses=('S', 'I', 'R'), default=None):
    return check_outputs_batch([dict(hist=hist, rows=rows, tmin=tmin, moves=moves, nodes=nodes, statuses=statuses, default=default)])[0]


# ------------------------------------------------------------------ oracles (independent of the model)
def spec_node_status(times, stats, t):
    """the status of the latest change at or before t (ties: the last entry at that time); None before the first change"""
    best = None
    for i, ct in enumerate(times):
        if ct <= t and (best is None or ct >= times[best]):
            best = i
    return None if best is None else stats[best]


def spec_summary(hist, statuses, nodelist):
    """at every change time of a listed node: how many listed nodes have each status"""
    times = sorted({t for u in nodelist for t in hist[u][0]})
    D = {s: [sum(1 for u in nodelist if spec_node_status(hist[u][0], hist[u][1], t) == s) for t in times] for s in statuses}
    return times, D


def legal_history(times, stats, tmin, moves, statuses):
    """starts at tmin, time-ordered, possible statuses, legal moves"""
    if not times or len(times) != len(stats) or times[0] != tmin: return False
    if any(a > b for a, b in zip(times, times[1:])): return False
    if any(s not in statuses for s in stats): return False
    return all((a, b) in moves for a, b in zip(stats, stats[1:]))


def series_value(rows, t):
    cur = None
    for rt, cs in rows:
        if rt <= t: cur = list(cs)
    return cur


def spec_consistent(hist, rows, tmin, moves, nodes, statuses):
    """python reading of the property on implementation outputs: None or a description"""
    for u in nodes:
        if u not in hist: return 'node %r has no history' % (u,)
        if not legal_history(hist[u][0], hist[u][1], tmin, moves, statuses):
            return 'history of node %r = %r is not legal (start at tmin=%r, ordered, moves %r)' % (u, hist[u], tmin, moves)
    times, D = spec_summary(hist, statuses, nodes)
    srows = [(t, [D[s][i] for s in statuses]) for i, t in enumerate(times)]
    for t in sorted(set(times) | {r[0] for r in rows}):
        a = series_value(srows, t); b = series_value(rows, t)
        if a != (None if b is None else [int(x) for x in b]):
            return 'at time %r the node histories give %r, the returned time series %r (statuses %r)' % (t, a, b, list(statuses))
    return None
