"""ODE half of C14: relabelling the nodes of the contact network (arbitrary hashable labels)
and permuting node / edge insertion order leaves the output of every graph-consuming ODE entry
point unchanged up to rounding; per-node outputs are mapped through the relabelling.

`run_ode_part(run, tier)` runs every such entry point (all *_from_graph wrappers, the
individual-based and pair-based systems incl. *_pure_IC, get_Pk / get_Pnk / estimate_R0 and
the Attack_rate_*_from_graph functions) on a base graph with labels 0..N-1 in natural order and
on 3 relabelled (permuted ints / strings / tuples) + insertion-order-permuted copies, and compares
  * aggregated series (times, S, I, R and degree-class / pair-count series) directly,
  * per-node series (Ss, Is, Rs, Xs, Ys, Zs and the pair arrays XY, XX) after mapping positions
    through the relabelling (the caller fixes the order with `nodelist` or G.nodes() is used).
Tolerance 1e-6 relative + 1e-8 absolute; the pair-based / individual-based integrators are
adaptive (odeint, vode/adams): calibrated 1e-5 relative + 1e-7 absolute.
Returns a dict with counts, samples and a list of (key, what, replay) violations; it also files
them with run.violation when `run` is not None.  The implementation is compared with itself only
(no model needed): a label used as an array index cannot agree on all four labelings."""
import json, warnings
from fractions import Fraction as F
import numpy as np
from . import common as C
from . import ode_common as OC

ADAPTIVE = ('individual_based', 'pair_based')
HELPERS = ('get_Pk', 'get_Pnk', 'estimate_R0')


def variants(rng, case):
    """base: labels 0..n-1, natural order; + permuted ints, strings, tuples with shuffled node / edge insertion order"""
    n = len(case['nodes'])
    out = [('natural', list(range(n)), None)]
    for kind in ('perm', 'str', 'tup'):
        _, labels = OC.gen_labels(rng, n, kind)
        no = list(range(n)); rng.shuffle(no)
        eo = list(range(len(case['edges']))); rng.shuffle(eo)
        out.append((kind, [OC.dec_label(x) for x in labels], (no, eo)))
    return out


def call_variant(EoN, e, case, labels, perm, weight_attr=False):
    o = OC.Oracle(case, e.sir)
    G, labels = OC.build_graph(case, perm=perm, relabel=labels)
    if weight_attr:     # an unrelated edge attribute that happens to be called 'weight' must not matter
        for k, (u, v) in enumerate(G.edges()):
            G.edges[u, v]['weight'] = 2.0
    try:
        with warnings.catch_warnings():
            warnings.simplefilter('ignore')
            old = np.seterr(all='ignore')
            try:
                out = e.call(EoN, G, labels, o, case['full'])
            finally:
                np.seterr(**old)
        return ('OK', out, G, labels)
    except Exception as ex:
        return ('ERR', type(ex).__name__, str(ex)[:120])


def canon(e, case, res, labels):
    """output tuple -> dict name -> array with per-node axes re-ordered to the node index of the case"""
    out = res[1]
    if e.scalar:
        return {'AR': np.array(float(out))}
    layout = e.layout(case['full'])
    if not isinstance(out, tuple) or len(out) != len(layout):
        return {'__layout__': np.array(float(len(out) if isinstance(out, tuple) else -1))}
    d = {}
    G = res[2]
    # position -> node index: nodelist if given (the entry was called with it), else list(G.nodes())
    if case.get('nodelist') is not None:
        pos = list(case['nodelist'])
    else:
        idx = {lab: i for i, lab in enumerate(labels)}
        pos = [idx[u] for u in G.nodes()]
    inv = np.argsort(pos)
    for nm, v in zip(layout, out):
        if isinstance(v, dict):
            for k, x in v.items():
                d['%s[%s]' % (nm, k)] = np.asarray(x, dtype=float)
            continue
        a = np.asarray(v, dtype=float)
        if nm in e.pernode:
            a = a[inv] if a.ndim == 2 else a[inv][:, inv]
        d[nm] = a
    return d


def same(a, b, rtol, atol):
    if set(a) != set(b):
        return False, 'different series: %s vs %s' % (sorted(a), sorted(b))
    for k in a:
        x, y = a[k], b[k]
        if x.shape != y.shape:
            return False, '%s: shapes %s vs %s' % (k, x.shape, y.shape)
        fx, fy = np.isfinite(x), np.isfinite(y)
        if not np.array_equal(fx, fy):
            return False, '%s: non-finite values differ' % k
        if fx.any():
            dlt = np.abs(x[fx] - y[fx]); scale = np.maximum(np.abs(x[fx]), np.abs(y[fx]))
            bad = dlt > atol + rtol * np.maximum(scale, 1.0)
            if bad.any():
                i = int(np.argmax(dlt))
                return False, '%s differs by %.3g (values %.9g vs %.9g)' % (k, float(dlt.max()), float(x[fx][i]), float(y[fx][i]))
    return True, ''


def shape_key(entry, case, kind, what):
    k = 'C14/%s/%s/labels=%s' % (entry, what, kind)
    if case.get('nodelist') is not None:
        k += '/nodelist=1'
    return k


def generalise(key, known):
    parts = key.split('/')
    for k in known:
        kp = k.split('/')
        if kp[:3] == parts[:3] and set(kp[3:]) <= set(parts[3:]):
            return k
    return key


def helper_compare(EoN, rng, case):
    """get_Pk / get_Pnk / estimate_R0 on the variants"""
    bad = []
    outs = []
    for kind, labels, perm in variants(rng, case):
        G, _ = OC.build_graph(case, perm=perm, relabel=labels)
        Pk = EoN.get_Pk(G); Pnk = EoN.get_Pnk(G)
        r0 = EoN.estimate_R0(G, transmissibility=0.5)
        outs.append((kind, {k: float(v) for k, v in Pk.items()}, {k1: {k2: float(v) for k2, v in d.items()} for k1, d in Pnk.items()}, float(r0)))
    b = outs[0]
    for o in outs[1:]:
        for i, nm in ((1, 'get_Pk'), (2, 'get_Pnk'), (3, 'estimate_R0')):
            x, y = b[i], o[i]
            ok = (abs(x - y) < 1e-9) if i == 3 else (json.dumps(_round(x), sort_keys=True) == json.dumps(_round(y), sort_keys=True))
            if not ok:
                bad.append((nm, o[0], '%s differs between natural labels and %s labels: %r vs %r' % (nm, o[0], x, y)))
    return bad


def _round(d):
    return {str(k): (_round(v) if isinstance(v, dict) else round(v, 9)) for k, v in d.items()}


def gen_cases(rng, tier):
    per = 12 if tier == 'quick' else 60
    cases = []
    for name, e in OC.ENTRIES.items():
        if e.kind != 'graph':
            continue
        for full in e.fulls():
            heavy = any(x in name for x in ('pair_based', 'effective_degree', 'heterogeneous_pairwise'))
            for i in range(max(3, (2 * per) // 3) if heavy else per):
                # two thirds of the cases with explicit initial sets where the entry point takes them: that is where labels and insertion order enter
                modes_i = tuple(m for m in e.modes if m == 'sets') if (i % 3 and 'sets' in e.modes) else e.modes
                c = OC.gen_case(rng, name, full, e.sir, isolated=e.isolated and rng.random() < 0.35, force_iso=True, modes=modes_i, nmax=e.nmax, discrete=bool(e.discrete))
                if c['gamma'] == '0' and c['tau'] != '0':
                    c['gamma'] = '1'        # exhaustion of S makes the closures 0/0 up to rounding (see c06.curve_domain)
                if c['tau'] == '0' and c['gamma'] == '0' and e.scalar:
                    c['gamma'] = '1'
                if any(x in name for x in ADAPTIVE) and rng.random() < 0.5:
                    nl = list(range(len(c['nodes']))); rng.shuffle(nl); c['nodelist'] = nl
                cases.append(c)
    return cases


def run_ode_part(run, tier, rng=None):
    EoN = C.import_eon()
    rng = rng or run.rng
    known = [f['key'] for f in C.known_findings().get('findings', []) if f.get('property') == 'C14']
    cases = gen_cases(rng, tier)
    stats = {'cases': 0, 'comparisons': 0, 'agree': 0, 'errors_consistent': 0, 'per_entry': {}}
    found = {}
    samples = []
    for case in cases:
        e = OC.ENTRIES[case['entry']]
        vs = variants(rng, case)
        adaptive = any(x in e.name for x in ADAPTIVE)
        rtol, atol = (1e-5, 1e-7) if adaptive else (1e-6, 1e-8)
        stats['cases'] += 1
        pe = stats['per_entry'].setdefault(e.name, {'comparisons': 0, 'agree': 0})
        base = None
        rows = []
        for vi, (kind, labels, perm) in enumerate(vs):
            wa = 'pair_based' in e.name and vi == 2       # one variant carries an unrelated attribute called 'weight'
            res = call_variant(EoN, e, case, labels, perm, weight_attr=wa)
            rows.append((kind + ('+weight-attr' if wa else ''), labels, perm, res))
        b = rows[0]
        for kind, labels, perm, res in rows[1:]:
            stats['comparisons'] += 1; pe['comparisons'] += 1
            if b[3][0] == 'ERR' and res[0] == 'ERR' and b[3][1] == res[1]:
                stats['errors_consistent'] += 1; stats['agree'] += 1; pe['agree'] += 1
                continue            # the same failure on every labeling is C06's business (acceptance), not C14's
            if b[3][0] != res[0] or (res[0] == 'ERR' and b[3][1] != res[1]):
                what = 'raises' if res[0] == 'ERR' else 'natural-labels-raise'
                detail = '%s: natural labels 0..N-1 -> %s, %s labels -> %s' % (e.name, b[3][1] if b[3][0] == 'ERR' else 'a result', kind, res[1] if res[0] == 'ERR' else 'a result')
            else:
                ok, why = same(canon(e, case, b[3], b[1]), canon(e, case, res, labels), rtol, atol)
                if ok:
                    stats['agree'] += 1; pe['agree'] += 1
                    if len(samples) < 3 and case['full']:
                        samples.append({'entry': e.name, 'labels': kind, 'nodes': len(case['nodes']), 'agree': True})
                    continue
                what = 'differs'
                detail = '%s: output changes under relabelling to %s labels + permuted insertion order: %s' % (e.name, kind, why)
            key = generalise(shape_key(e.name, case, kind.split('+')[0] + ('+weight-attr' if '+weight-attr' in kind else ''), what), known)
            size = len(case['nodes']) + len(case['edges'])
            if key not in found or size < found[key][0]:
                found[key] = (size, detail, {'case': case, 'labels': [list(x) if isinstance(x, tuple) else x for x in labels], 'perm': perm,
                                             'weight_attr': '+weight-attr' in kind, 'what': what})
    # degree-distribution helpers
    hb = 0
    for i in range(20 if tier == 'quick' else 200):
        c = OC.gen_case(rng, 'EBCM_from_graph', False, True)
        for nm, kind, detail in helper_compare(EoN, rng, c):
            hb += 1
            key = generalise('C14/%s/differs/labels=%s' % (nm, kind), known)
            found.setdefault(key, (0, detail, {'case': c, 'helper': nm}))
    stats['helper_cases'] = 20 if tier == 'quick' else 200
    violations = [(k, v[1], v[2]) for k, v in found.items()]
    if run is not None:
        for k, what, rp in violations:
            run.violation(k, what, rp)
    return {'counts': stats, 'samples': samples, 'violations': violations,
            'rule': 'every graph-consuming ODE entry point on random graphs of 3-9 nodes: labels 0..N-1 in natural order vs permuted ints / strings / tuples with shuffled node '
                    'and edge insertion order (3 copies); one pair_based copy also carries an unrelated edge attribute named weight; half of the node-level cases pass an explicit nodelist'}


def replay(rp):
    """re-execute one recorded comparison; 1 if the outputs still differ"""
    EoN = C.import_eon()
    r = rp['replay']
    if 'helper' in r:
        import random
        return 1 if helper_compare(EoN, random.Random(1), r['case']) else 0
    case = r['case']; e = OC.ENTRIES[case['entry']]
    labels = [OC.dec_label(x) for x in r['labels']]
    perm = r['perm']
    b = call_variant(EoN, e, case, list(range(len(case['nodes']))), None)
    v = call_variant(EoN, e, case, labels, perm, weight_attr=r.get('weight_attr', False))
    if b[0] != v[0]:
        print('natural labels:', b[0], b[1] if b[0] == 'ERR' else '', '| relabelled:', v[0], v[1] if v[0] == 'ERR' else ''); return 1
    if b[0] == 'ERR':
        return 0 if b[1] == v[1] else 1
    adaptive = any(x in e.name for x in ADAPTIVE)
    ok, why = same(canon(e, case, b, list(range(len(case['nodes'])))), canon(e, case, v, labels), *((1e-5, 1e-7) if adaptive else (1e-6, 1e-8)))
    print('agree' if ok else 'still differs: ' + why)
    return 0 if ok else 1
