"""C06: ODE outputs conserve the population and start from the requested state.
Theorems: coq/Props/C06.v (row 0 of every modelled *_from_graph wrapper equals the
requested state / refuted with a witness where the code misreports; acceptance;
structural conservation; degree-class sum lemmas).  Tie: the extracted model
(Model/IC.v + Model/Wrappers.v) computes row 0 of every returned series for the
same request and is compared with row 0 of the implementation's output (exact up
to 1e-9).  Failing-input search: an oracle written in Python from the property
text (harness/ode_common.Oracle: counts taken directly from the graph and the
request) is evaluated on the implementation's output of EVERY ODE entry point:
times == linspace, row 0 == request, S+I(+R) == N along the curve, compartments
within [0,N], SIR monotonicity, and acceptance of every consistent request."""
import json, os, sys, time, traceback, warnings
from fractions import Fraction as F
import numpy as np
from . import common as C
from . import ode_common as OC

CLAIM = dict(
    text="Machine-checked theorems (coq/Props/C06.v) over executable models, written as the code is, of _initialize_node_status_, "
         "_count_edge_types_, _get_Nk_and_IC_as_arrays_, _get_NkNl_and_IC_as_arrays_ and of the initial-condition arithmetic, initial vector layout "
         "and output slicing of the *_from_graph wrappers: row 0 of S, I, R and of every auxiliary series equals the requested state for ALL "
         "well-formed graphs and requests (or is refuted by a concrete witness that is replayed on the code), consistent requests are accepted, "
         "and S+I(+R)=N is structural where the tuple is built by subtraction. The model is tied to /repo on every run by comparing the extracted "
         "model's row 0 with the implementation's on random relabelled graphs; an independent Python oracle checks times, row 0, conservation, "
         "bounds and SIR monotonicity on the output of every ODE entry point.  Conservation / sign clauses of the right-hand sides: over the GENERATED scalar/1-D systems "
         "(Gen/Rhs.v), and over hand-written models of the node-level and 2-D systems (coq/Model/Rhs2D.v; on every run translate/rhs2d2v.py, fail-closed, regenerates coq/Gen/Rhs2.v from the source and the theorems *_generated_* re-prove generated definition = model; model and generated definition are also point-evaluated against the code, >=200 points per function): individual-based and pair-based SIR dX_i+dY_i=-gamma_i*Y_i (Z_i=1-X_i-Y_i grows at gamma_i*Y_i), dX_i<=0; individual-based SIS inward on the faces Y_i=0,1; "
         "heterogeneous pairwise: S_k+I_k=N_k and the pair total structural (SIS), dS_k+dI_k=-gamma*I_k and dS_k<=0 (SIR), [S_kS_l] stays symmetric, pair counts stay consistent "
         "with class sizes; effective degree SIS: exact totals of both blocks and sum(dS_si+dI_si)=0 on the feasible region (with an example off it where the code loses mass), "
         "SIR: dR=gamma*(N-S-R), total S non-increasing.",
    design='DESIGN.md section 4, C06',
    technique='Coq proof over hand-written model + extracted-model/implementation correspondence + specification oracle on every entry point',
    note="Bounds and monotonicity along the curve, and conservation where it relies on the right-hand side summing to zero, are checked "
         "numerically on the implementation's output (the flow lift is cited, DESIGN section 3.7); the solver (scipy odeint/ode) is assumed to "
         "return the initial value as first row. Modelled in Coq: the 17 ODE *_from_graph wrappers (row 0 correspondence on every run); row0/accepts theorems "
         "for the homogeneous and heterogeneous mean field, homogeneous pairwise (partial), compact pairwise, super compact, SIR effective degree (explicit sets) "
         "and EBCM_from_graph (partial) wrappers, following the code after the fix: commits (no refutation is left; acceptance of SIS_heterogeneous_pairwise_from_graph is proved, its row 0 shown on an example); "
         "the other entry points (solver-level functions, SIS effective degree, compact effective degree, "
         "heterogeneous pairwise, pref-mix, individual/pair based, Attack_rate_*_from_graph) are covered by the oracle (and, for the 17 wrappers, the row-0 correspondence) only "
         "as far as row 0 / acceptance go; their right-hand sides' conservation and sign clauses are proved over the hand-written Model/Rhs2D.v, which is proved equal on every run to the "
         "definitions regenerated from the source (theorems C06_generated_*; pair-based under index_of_node = enumerate(nodelist) over a simple graph); each such theorem is also "
         "re-evaluated numerically on the Python functions.  Output layer of the 35 entry points that have no *_from_graph model (solver-level functions, "
         "SIS/SIR_individual_based, SIS/SIR_pair_based and their *_pure_IC wrappers, EBCM, EBCM_uniform_introduction, EBCM_pref_mix(_from_graph), the five discrete-time EBCM functions, "
         "Attack_rate_*_from_graph): executable models coq/Model/Outputs.v, Outputs2.v (initial vector handed to the solver, linspace grid, assembly of the returned tuple from the "
         "solver's matrix; the 16 solver-level assemblies are the definitions of Model/Wrappers.v), theorems coq/Props/C06out.v (shape, documented order, row 0 = requested quantities, "
         "S+I(+R) = structural total at every row; with a solver that preserves the linear invariant, e.g. explicit Euler on the GENERATED right-hand side, = N), component 'out' tied on every "
         "run by harness/c06out.py with odeint/_my_odeint_ replaced from outside by a solver returning X0 followed by random dyadic rows (initial vector, grid and every row of every series compared; "
         "forwarded arguments of the wrappers captured).")

TOL0 = 1e-9


def icshape(case):
    ic = case['ic']
    if ic['mode'] != 'sets':
        return ic['mode']
    R = ic.get('R')
    return 'sets' if R is None else ('sets+R[]' if R == [] else 'sets+R')


NODE_LEVEL = ('individual_based', 'pair_based')


def qualifiers(case, o):
    """input-shape qualifiers of a case; a known-finding key lists the subset that matters"""
    q = ['ic=%s' % icshape(case), 'full=%d' % int(case['full'])]
    if any(x in case['entry'] for x in NODE_LEVEL):
        q += ['labels=%s' % case['labelkind'], 'nodelist=%d' % int(case.get('nodelist') is not None)]
    if len(set(o.deg)) == 1: q.append('regular=1')
    if min(o.deg) == 0: q.append('iso=1')
    if o.SS == 0: q.append('SS0=1')
    if o.SI == 0: q.append('SI0=1')
    if o.II == 0: q.append('II0=1')
    if o.tau == 0: q.append('tau0=1')
    if o.gamma == 0: q.append('gamma0=1')
    if o.p == 1 and (OC.ENTRIES[case['entry']].discrete or 'discrete' in case['entry']): q.append('p1=1')
    return q


def key_of(case, clause, o=None):
    o = o or OC.Oracle(case, OC.ENTRIES[case['entry']].sir)
    return 'C06/%s/%s/%s' % (case['entry'], clause, '/'.join(qualifiers(case, o)))


def generalise(key, known_keys):
    """a known-finding key C06/<entry>/<clause>/<q1>/<q2>.. covers every violation of the same
    entry and clause whose qualifiers include q1, q2, ..; returns the covering known key or key"""
    parts = key.split('/')
    for k in known_keys:
        kp = k.split('/')
        if kp[:3] == parts[:3] and set(kp[3:]) <= set(parts[3:]):
            return k
    # not a known finding: report per entry point, clause, kind of request and return_full_data
    return '/'.join(parts[:3] + [q for q in parts[3:] if q.startswith(('ic=', 'full=', 'labels=', 'nodelist='))])


def execute(EoN, case):
    e = OC.ENTRIES[case['entry']]
    o = OC.Oracle(case, e.sir)
    G, labels = OC.build_graph(case)
    try:
        with warnings.catch_warnings():
            warnings.simplefilter('ignore')
            old = np.seterr(all='ignore')
            try:
                out = e.call(EoN, G, labels, o, case['full'])
            finally:
                np.seterr(**old)
        return e, o, ('OK', out)
    except Exception as ex:
        return e, o, ('ERR', type(ex).__name__, str(ex)[:160])


def row0(v):
    if isinstance(v, dict):
        return {k: row0(x) for k, x in v.items()}
    a = np.asarray(v, dtype=float)
    if a.ndim == 0:
        return float(a)
    return a[..., 0] if a.ndim > 1 else float(a[0])


def near(a, b, tol=TOL0):
    if isinstance(b, dict):
        return isinstance(a, dict) and set(a) == set(b) and all(near(a[k], b[k], tol) for k in b)
    a = np.asarray(a, dtype=float); b = np.asarray(b, dtype=float)
    if a.shape != b.shape:
        return False
    return bool(np.all(np.abs(a - b) <= tol * np.maximum(1.0, np.maximum(np.abs(a), np.abs(b)))))


def short(x):
    if isinstance(x, dict):
        return {k: short(v) for k, v in x.items()}
    a = np.asarray(x, dtype=float)
    return a.round(9).tolist()


def curve_domain(e, o):
    """requests for which the clauses about the whole curve are meaningful for this model"""
    if 'homogeneous_pairwise' in e.name and o.mode == 'sets' and len(set(o.deg)) > 1:
        # the homogeneous closure assumes every node has n partners; explicit sets on a non-regular graph give it
        # more S-edges than n*S and its exact solution is singular (S -> 0 in finite time): outside the model's domain
        return False
    if ('pairwise' in e.name or 'effective_degree' in e.name or 'pair_based' in e.name) and o.gamma == 0 and o.tau > 0:
        # without recovery the susceptible pool is exhausted and the closures (.. * SI / S, ISS / SS) are 0/0 up to
        # rounding: "to solver tolerance" is not meaningful there.  Row 0, times and acceptance are still checked.
        return False
    return True


def judge(case, e, o, res, curve=True):
    """-> (violations [(clause, what)], observed row-0 dict or None); curve=False: skip the checks along the curve"""
    full = case['full']
    if res[0] == 'ERR':
        return [('accept:%s' % res[1], '%s raises %s (%s) on a consistent request' % (e.name, res[1], res[2]))], None
    out = res[1]
    if e.scalar:
        v = float(out)
        bad = [] if (np.isfinite(v) and -1e-9 <= v <= 1 + 1e-9) else [('range', 'attack rate %r outside [0,1]' % v)]
        return bad, {'AR': v}
    layout = e.layout(full)
    vio = []
    if not isinstance(out, tuple) or len(out) != len(layout):
        n = len(out) if isinstance(out, tuple) else -1
        return [('layout', '%s(return_full_data=%s) returns %d values, documented %d: %s' % (e.name, full, n, len(layout), ','.join(layout)))], None
    named = dict(zip(layout, out))
    exp = e.expect(o, full)
    try:     # aggregated series that the documented tuple leaves out are the sums of the class series
        for agg, parts in (('S', ('Sk', 'Ss')), ('I', ('Ik', 'Is')), ('R', ('Rk', 'Rs'))):
            for pnm in parts:
                if agg not in named and pnm in named and np.asarray(named[pnm]).ndim == 2:
                    named[agg] = np.asarray(named[pnm], dtype=float).sum(axis=0)
    except Exception:
        pass
    exp = {k: v for k, v in exp.items() if k in named}
    # shapes of the documented auxiliary series
    for nm, want in exp.items():
        got = named[nm]
        if isinstance(want, dict) != isinstance(got, dict):
            return [('layout', '%s: series %s has the wrong type' % (e.name, nm))], None
        if not isinstance(want, dict) and np.asarray(got).ndim != np.asarray(want).ndim + 1:
            return [('layout', '%s(return_full_data=%s): returned value in the slot of %s has %d dimensions, documented %d (return_full_data ignored?)'
                     % (e.name, full, nm, np.asarray(got).ndim, np.asarray(want).ndim + 1))], None
    # times
    t = np.asarray(named['times'], dtype=float)
    if e.discrete:
        a, b = case['grid'][:2]
        if e.discrete == 'notmin':
            a = 0
        want_t = np.arange(a, b + 1, dtype=float)
    else:
        a, b, c = case['grid']
        want_t = np.linspace(a, b, c)
    if t.shape != want_t.shape or not near(t, want_t, 1e-12):
        vio.append(('times', '%s: times[0..]=%s len %d, requested grid %s' % (e.name, t[:3].tolist(), len(t), case['grid'])))
    # row 0
    obs = {}
    bad0 = False
    for nm, want in exp.items():
        got = row0(named[nm]); obs[nm] = got
        if not near(got, want):
            bad0 = True
            vio.append(('row0:%s' % nm, '%s: %s at tmin is %s, requested state gives %s' % (e.name, nm, short(got), short(want))))
    if bad0 or vio or not curve or not curve_domain(e, o):
        return vio, obs
    # along the curve
    N = float(o.N); tol = 1e-6 * N
    comp = [np.asarray(named[x], dtype=float) for x in (('S', 'I', 'R') if e.sir else ('S', 'I')) if x in named]
    if len(comp) == (3 if e.sir else 2):
        tot = sum(comp)
        if not np.all(np.isfinite(tot)):
            vio.append(('nan', '%s: non-finite values in S/I/R' % e.name))
            return vio, obs
        if np.max(np.abs(tot - N)) > tol:
            i = int(np.argmax(np.abs(tot - N)))
            vio.append(('conserve', '%s: S+I%s = %.9g at t=%.4g, N = %g' % (e.name, '+R' if e.sir else '', tot[i], t[i], N)))
        btol = 1e-5 * N
        for nm, x in zip('SIR', comp):
            if np.min(x) < -btol or np.max(x) > N + btol:
                vio.append(('bounds:%s' % nm, '%s: %s ranges over [%.6g, %.6g], outside [0,%g]' % (e.name, nm, np.min(x), np.max(x), N)))
        if e.sir:
            S, R = comp[0], comp[2]
            if np.max(np.diff(S)) > btol:
                vio.append(('monotone:S', '%s: S increases by %.3g' % (e.name, np.max(np.diff(S)))))
            if np.min(np.diff(R)) < -btol:
                vio.append(('monotone:R', '%s: R decreases by %.3g' % (e.name, -np.min(np.diff(R)))))
    return vio, obs


def evaluate(EoN, case):
    """run one case and judge it.  A plain (return_full_data=False) run whose hidden state is wrong at tmin
    (seen by running the same request with return_full_data=True) is not judged along the curve: the
    row-0 violation is reported by the full-data cases of the same shape."""
    e, o, res = execute(EoN, case)
    curve = True
    if res[0] == 'OK' and not case['full'] and e.layout_full and not e.scalar:
        c2 = dict(case); c2['full'] = True
        e2, o2, res2 = execute(EoN, c2)
        v2, _ = judge(c2, e2, o2, res2, curve=False)
        if any(cl.startswith('row0') or cl.startswith('layout') for cl, _ in v2):
            curve = False
    vio, obs = judge(case, e, o, res, curve)
    return e, o, res, vio, obs


def in_domain(case, o):
    if case['entry'].startswith('Attack_rate_cts') and o.tau == 0 and o.gamma == 0:
        return False          # transmissibility tau/(tau+gamma) undefined
    return True


def gen_cases(rng, tier):
    per = 24 if tier == 'quick' else 400
    cases = []
    for name, e in OC.ENTRIES.items():
        for full in e.fulls():
            heavy = any(x in name for x in ('pair_based', 'effective_degree', 'heterogeneous_pairwise'))
            n = max(6, per // 3) if heavy else per
            k = 0
            while k < n:
                c = OC.gen_case(rng, name, full, e.sir, isolated=e.isolated and rng.random() < 0.35, force_iso=True, modes=e.modes, nmax=e.nmax, discrete=bool(e.discrete))
                if any(x in name for x in NODE_LEVEL) and rng.random() < 0.5:
                    nl = list(range(len(c['nodes']))); rng.shuffle(nl); c['nodelist'] = nl
                if not in_domain(c, OC.Oracle(c, e.sir)):
                    continue
                cases.append(c); k += 1
    return cases


def _wcase(entry, full, ic, tau='1', gamma='1'):
    return {'entry': entry, 'full': full, 'labelkind': 'str', 'nodes': ['a', 'b', 'c'], 'edges': [[0, 1], [1, 2]], 'ic': ic,
            'tau': tau, 'gamma': gamma, 'p': '1/2', 'grid': [0, 5, 11], 'nodelist': None}


# witnesses of the `_refuted` theorems of Props/C06.v (graph path3 = a - b - c), replayed on the code on every run
WITNESSES = []      # no _refuted theorem is left in Props/C06.v


def known_keys():
    return [f['key'] for f in C.known_findings().get('findings', []) if f.get('property') == 'C06']


def run(run, tier):
    EoN = C.import_eon()
    rng = run.rng
    t0 = time.time()
    # the conservation theorems are about the right-hand sides GENERATED from the source: regenerate, fail closed
    regen = 'ok'
    try:
        from . import rhs_lib
        rhs_lib.regen_rhs()
    except Exception as ex:
        regen = 'translator refused: %s' % str(ex)[-300:]
        run.violation('C06/rhs-translation', 'translate/rhs2v.py refuses the current analytic.py (%s); the conserve_ theorems over Gen/Rhs.v are not re-established; '
                      'conservation is still checked numerically on every entry point below' % regen, {'broken': 'translate/rhs2v.py', 'log': regen}, no_input=True)
    from . import rhs2_spec as S2
    regen2 = S2.regen_phase()
    props = C.check_props('C06') if regen2 is None else S2.REFUSED_PROPS(regen2)
    proof_broken = not props['ok'] and regen2 is None
    # conservation / sign clauses of the 2-D and node-level right-hand sides: hand-written model tied by point evaluation,
    # every theorem re-evaluated on the Python functions (own RNG stream: the cases below are not shifted)
    from . import rhs2_spec as S2
    def _report(run_, key, what, rp, no_input=False):
        n0 = len(run_.violations); run_.violation(key, what, rp, no_input); return len(run_.violations) > n0
    blk = S2.check_block(run, EoN, 'C06', tier, _report, regen2)
    t1 = time.time()
    wit = [dict(w[1]) for w in WITNESSES]
    cases = wit + C.load_corpus('C06') + gen_cases(rng, tier)
    kk = known_keys()
    stats = {}; samples = []; nviol = 0; distinct = set()
    per_entry = {}
    results = []
    seen = {}
    for case in cases:
        e, o, res, vio, obs = evaluate(EoN, case)
        results.append((case, o, res, vio, obs))
        d = per_entry.setdefault(e.name, {'cases': 0, 'ok': 0, 'violating': 0, 'err': 0})
        d['cases'] += 1
        d['err'] += res[0] == 'ERR'
        d['violating'] += bool(vio)
        d['ok'] += not vio
        stats[icshape(case)] = stats.get(icshape(case), 0) + 1
        stats['labels=' + case['labelkind']] = stats.get('labels=' + case['labelkind'], 0) + 1
        distinct.add(json.dumps(case, sort_keys=True))
        for clause, what in vio:
            nviol += 1
            key = generalise(key_of(case, clause, o), kk)
            size = len(case['nodes']) + len(case['edges'])
            if key not in seen or size < seen[key][0]:      # keep the smallest witness per key
                seen[key] = (size, what, case, clause, obs)
        if not vio and len(samples) < 5 and case['full'] and obs:
            samples.append({'case': case, 'row0': short(obs)})
    # the witnesses of the _refuted theorems must still misbehave on the code in the way the theorem says
    wrep = {}
    for (thm, wc, clause), (case, o, res, vio, obs) in zip(WITNESSES, results[:len(WITNESSES)]):
        wrep[thm] = any(cl == clause for cl, _ in vio)
        if not wrep[thm]:
            run.violation('C06/witness/%s' % thm, 'the witness of theorem %s no longer shows %s on the implementation: the model (Model/Wrappers.v) is behind the code; '
                          'update the model and replace the _refuted theorem by the positive one' % (thm, clause),
                          {'case': wc, 'clause': clause, 'broken': 'Props/C06.v ' + thm}, no_input=True)
    if proof_broken:
        new_seen = {k: v for k, v in seen.items() if k not in set(kk)}          # violations that are not known findings
        w = min(new_seen.values(), key=lambda x: x[0]) if new_seen else None
        run.violation('C06/proof', 'Props/C06.v no longer checks (%s): %s; the entry-point oracle found %d violating cases that are not known findings, the numerical versions of the '
                      'right-hand-side theorems %d' % (props.get('failed_at'), props['log'][-300:].replace('\n', ' '), len(new_seen), blk['found']),
                      {'broken': 'coq/Props/C06.v', 'log': props['log'], 'case': (w[2] if w else None), 'clause': (w[3] if w else None)},
                      no_input=(not new_seen and not blk['found']))
    for key, (size, what, case, clause, obs) in seen.items():
        run.violation(key, what + ' [%s]' % ', '.join(qualifiers(case, OC.Oracle(case, OC.ENTRIES[case['entry']].sir))),
                      {'case': case, 'clause': clause, 'observed_row0': short(obs) if obs else None})
    if blk['broken'] and not run.violations:          # (known findings are not in run.violations)
        for what, detail in blk['broken']:
            run.violation('C06/%s' % what, detail + ' -- the numerical versions of the theorems and the entry-point oracle found no failing input of the property',
                          {'broken': what, 'detail': detail}, no_input=True)
    elif blk['broken']:
        run.coverage['also_broken'] = blk['broken']
    t2 = time.time()
    from . import c06_model
    corr = c06_model.correspondence(run, EoN, results, tier) if hasattr(c06_model, 'correspondence') else {'status': 'not built yet'}
    from . import c06out
    corr_out = c06out.part(run, EoN, tier, props)      # output layer of the 35 entry points without a *_from_graph model (Props/C06out.v, component 'out')
    nontriv = sum(1 for r in results if r[2][0] == 'OK')
    C.proof_coverage(run, props, len(cases) + blk['n_eval'], min(len(distinct), nontriv) + blk['n_distinct'],
                     'every ODE entry point of analytic.py (%d entries, both return_full_data values where offered) on random graphs of 3-9 nodes '
                     '(ER / tree / ring / star; permuted-int, offset-int, string and tuple labels; shuffled node and edge insertion order; isolated nodes in ~30%% '
                     'of the cases), tau and gamma from dyadic sets incl. 0, rho dyadic / default 1/N / explicit initial sets (>=1 infected node, >=1 susceptible node with an edge) '
                     'with initial_recovereds absent, empty or non-empty, 3 time grids.  Non-trivial = the implementation returned a result.  Curve checks of the '
                     'homogeneous pairwise models are limited to requests inside the closure\'s domain (rho, or a regular graph).  ' % len(OC.ENTRIES) + S2.RULE,
                     samples, {'distribution': stats, 'per_entry': per_entry, 'oracle_violations': nviol, 'distinct_violation_keys': len(seen), 'refutation_witnesses_confirmed_on_code': wrep, 'rhs_regeneration': regen,
                               'rhs2': dict(blk['dist'], samples=blk['samples'], hand_written_model='coq/Model/Rhs2D.v (component rhs2): proved equal to the definitions generated from the source by translate/rhs2d2v.py (Gen/Rhs2.v, theorems C06_generated_*), both tied by point evaluation'),
                               'correspondence': corr, 'correspondence_out': corr_out, 'wall_coq_s': round(t1 - t0, 1), 'wall_impl_s': round(t2 - t1, 1)})
    run.assumptions += ['Model/Rhs2D.v is a hand-written model of the 2-D / node-level right-hand sides; its precondition is index_of_node = enumerate(nodelist) over a simple graph (what every caller in analytic.py builds)',
                        'scipy.integrate.odeint / ode return the initial value as first row and the solution to tolerance',
                        'curve checks use tolerances 1e-6*N (sum) and 1e-5*N (bounds, monotonicity); row 0 relative 1e-9']


def replay(rp):
    EoN = C.import_eon()
    r = rp['replay']
    if r.get('kind') == 'rhs2_spec':
        from . import rhs2_spec as S2
        res = S2.case_spec(EoN, r['params'])
        print('replay rhs2_spec: %s' % (res or 'holds'))
        return 1 if res else 0
    if r.get('kind') == 'c06out':
        from . import c06out
        return c06out.replay(r)
    if not r.get('case'):
        print('replay: no concrete input recorded (%s)' % rp.get('what', '')[:200]); return 0
    case, clause = r['case'], r['clause']
    e, o, res, vio, obs = evaluate(EoN, case)
    hit = [v for v in vio if v[0] == clause]
    for v in vio:
        print('still failing:' if v[0] == clause else 'also:', v[0], v[1])
    if not hit:
        print('replay: clause %s no longer fails' % clause)
    return 1 if hit else 0
