"""C13x: C13 without the fuel condition (coq/Props/C13x.v) — termination of fast_nonMarkov_SIS and of
the reference agenda run within an explicit fuel, on two domains of rule tables:
  (A) finite tmax, durations >= delta > 0 and delays >= 0 on the ordinals k < K = ceil((tmax-tmin)/delta);
  (B) finite tables (nothing listed from ordinal K on), ANY tmax including infinity.
What this module runs against /repo's working tree (`part`, also `./check C13X` stand-alone):
  1. Props/C13x.v is rebuilt and re-checked (its theorems join the obligations of C13);
  2. BUDGET ORACLE (independent of the Coq model): the implementation is run with myQueue.pop_and_run
     counted from outside; the theorems bound the number of queue events by nm_fuel = 2|I0| + 2*sum of the
     listed attempts of the ordinals below K.  A run that pops more than that (in particular one that
     does not end) is a failing input of the property: the history is no longer the reference history;
  3. (B) with tmax = inf: the call must RETURN and, when the event times are pairwise distinct, its arrays /
     histories / transmissions must be those of the plain agenda oracle (esis_lib.ref_sis) with no horizon;
  4. the Python fuel formula and the domain predicate are compared with the Coq definitions themselves
     ([ref_fuel], [rules_boundedb], and [nm_run] at fuel nm_fuel) by evaluating them with coqc on sampled
     cases (a generated scratch .v file outside the tree), and the row count of the model run is compared
     with the implementation's;
  5. the input on which no bound exists (zero durations + zero delays: Props/C13x.v last example) is
     reproduced under a timeout and recorded in the evidence (it is outside C13's domain: not a violation)."""
import math, os, re, subprocess, sys, tempfile, json
from fractions import Fraction as F
from . import common as C
from . import simrun as R
from . import esis_lib as L

CLAIM = dict(
    claimed=False,
    text="Machine-checked theorems (coq/Props/C13x.v, closed under the global context): the reference agenda run and the model of fast_nonMarkov_SIS end within "
         "an explicit fuel (|I0| + 2 * listed attempts of the infection ordinals below K) when tmax is finite and durations are bounded below by delta > 0 "
         "(K = ceil((tmax-tmin)/delta); decidable predicate rules_boundedb) or when the delay tables are finite (any tmax, incl. infinity); hence C13's refinement "
         "theorem holds with no termination hypothesis on those domains. Tie: the implementation's own number of queue events against that bound, its outputs with "
         "tmax = inf against the plain agenda oracle, the fuel formula against the Coq definition by evaluation.",
    design='DESIGN.md section 4, C13 and Appendix A.2; section 8.2 row C13',
    technique='Coq proof (potential function over agenda/queue + rule tables; time invariant for the ordinal bound) + budget oracle on the implementation',
    note='stand-alone form of the C13x part of C13; zero durations with zero delays loop forever at one instant (outside the domain of C13, recorded)')

ENTRY = 'fast_nonMarkov_SIS'


class Budget(Exception):
    pass


# ------------------------------------------------------------------ tables ----
def dur_at(case, u, k):
    d = case['durs'][u]; return d[k % len(d)]


def del_at(case, u, v, k):
    ls = case['dels'][(u, v)]; return ls[k % len(ls)] if ls else []


def natt(case, u, k):
    return sum(len(del_at(case, u, v, k)) for v in case['gc'].G.neighbors(u))


def ref_fuel(case, K):
    """|I0| + 2 * sum_{v} sum_{k<K} sum_{w in adj v} |delays v w k|   (Proofs/C13xTerm.v [ref_fuel])"""
    return len(case['i0']) + 2 * sum(natt(case, u, k) for u in case['gc'].order for k in range(K))


def nm_fuel(case, K):
    return len(case['i0']) + ref_fuel(case, K)


def domain_A(case):
    """(delta, K) with rules_boundedb true, or None"""
    if case['tmax'] is None or case['i0'] is None or case['rho'] is not None: return None
    vals = [x for d in case['durs'].values() for x in d]
    if not vals: return None
    delta = min(vals)
    if delta <= 0: return None
    if any(x < 0 for ls in case['dels'].values() for l in ls for x in l): return None
    if not case['tmin'] < case['tmax']: return None
    K = int(math.ceil((case['tmax'] - case['tmin']) / delta))
    return delta, K


def make_finite(case, K):
    """(B): the same tables cut at ordinal K (explicit empty lists behind; the cyclic indexing of
    esis_lib.make_rules / ref_sis never wraps because no node can be infected more often than the
    total number of listed attempts + |I0|), and no horizon"""
    c = dict(case)
    gc = case['gc']
    first = {(u, v): [list(del_at(case, u, v, k)) for k in range(K)] for u in gc.order for v in gc.G.neighbors(u)}
    total = len(case['i0']) + sum(len(l) for ls in first.values() for l in ls)
    pad = total + K + 2
    c['dels'] = {e: ls + [[] for _ in range(pad)] for e, ls in first.items()}
    c['tmax'] = None
    return c


# ------------------------------------------------------------- budget run ----
def run_budget(EoN, sim, case, limit, full=None):
    """the implementation with its queue events counted from outside; Budget when it pops more than limit"""
    orig = sim.myQueue.pop_and_run
    cnt = [0]
    def counted(self):
        cnt[0] += 1
        if cnt[0] > limit:
            self._Q_[:] = []
            raise Budget()
        return orig(self)
    sim.myQueue.pop_and_run = counted
    try:
        try:
            val = L.call_impl(EoN, case, full)
            st = 'OK'
        except Budget:
            return {'status': 'BUDGET', 'pops': cnt[0]}
        except Exception as e:
            return {'status': 'EXC', 'err': type(e).__name__, 'pops': cnt[0]}
    finally:
        sim.myQueue.pop_and_run = orig
    out = {'status': st, 'pops': cnt[0]}
    isfull = case['full'] if full is None else full
    gc = case['gc']
    if isfull:
        out['hist'], out['trans'] = R.canon_full(val, gc, L.CODE)
        out['rows'] = R.canon_arrays([val.t(), val.S(), val.I()])
    else:
        out['rows'] = R.canon_arrays(val)
    return out


# -------------------------------------------------- Coq evaluation of cases ----
def _q(x):
    x = F(x); return '(%d # %d)' % (x.numerator, x.denominator) if x >= 0 else '((-%d) # %d)' % (-x.numerator, x.denominator)


def _ql(l):
    return '[' + '; '.join(_q(x) for x in l) + ']'


def coq_case(i, case, delta, K):
    gc = case['gc']; im = gc.idmap
    n = len(gc.order)
    adj = ' | '.join('%d%%N => [%s]' % (im[u], '; '.join('%d%%N' % im[v] for v in gc.G.neighbors(u))) for u in gc.order)
    durs = ' | '.join('%d%%N => %s' % (im[u], _ql(case['durs'][u])) for u in gc.order)
    dels = ' | '.join('%d%%N, %d%%N => [%s]' % (im[u], im[v], '; '.join(_ql(l) for l in case['dels'][(u, v)]))
                      for u in gc.order for v in gc.G.neighbors(u))
    tmax = 'None' if case['tmax'] is None else '(Some %s)' % _q(case['tmax'])
    i0 = '[' + '; '.join('%d%%N' % im[u] for u in case['i0']) + ']'
    s = []
    s.append('Definition adj%d (u : node) : list node := match u with %s | _ => [] end.' % (i, adj))
    s.append('Definition g%d : graph := mkGraph [%s] adj%d adj%d false (fun _ _ => 1) (fun _ => 1) false false.' % (i, '; '.join('%d%%N' % k for k in range(n)), i, i))
    s.append('Definition durL%d (u : node) : list Q := match u with %s | _ => [] end.' % (i, durs))
    s.append('Definition dur%d (u : node) (k : nat) : Q := nth (k mod length (durL%d u)) (durL%d u) 0.' % (i, i, i))
    s.append('Definition delL%d (u v : node) : list (list Q) := match u, v with %s | _, _ => [] end.' % (i, dels if dels else '0%N, 0%N => []'))
    s.append('Definition del%d (u v : node) (k : nat) : list Q := match delL%d u v with [] => [] | ls => nth (k mod length ls) ls [] end.' % (i, i))
    s.append('Eval vm_compute in (%d%%nat, ref_fuel g%d del%d %d %s, nm_fuel g%d del%d %d %s, rules_boundedb g%d dur%d del%d %s %s %s %d, graph_closedb g%d %s,'
             ' match nm_run g%d dur%d del%d %s %s false (nm_fuel g%d del%d %d %s) %s with Ok o => Some (length (so_rows o)) | Err _ => None end,'
             ' match ref_sis g%d dur%d del%d %s %s false (ref_fuel g%d del%d %d %s) %s with Ok (_, b) => Some b | Err _ => None end).'
             % (i, i, i, K, i0, i, i, K, i0, i, i, i, tmax, _q(case['tmin']), _q(delta), K, i, i0,
                i, i, i, tmax, _q(case['tmin']), i, i, K, i0, i0,
                i, i, i, tmax, _q(case['tmin']), i, i, K, i0, i0))
    return '\n'.join(s)


def coq_eval(cases):
    """[(case, delta, K)] -> list of parsed tuples, or an error string"""
    src = 'From EoNV Require Import Prelude Samp Graph EventSIS C13xTerm C13xFin C13xTime.\n' + \
          '\n'.join(coq_case(i, c, d, K) for i, (c, d, K) in enumerate(cases)) + '\n'
    d = tempfile.mkdtemp(prefix='c13x_')
    p = os.path.join(d, 'C13xEval.v')
    open(p, 'w').write(src)
    rc, out, dt = C.sh('timeout 300 coqc -Q . EoNV %s' % p, cwd=C.COQ, timeout=330)
    if rc != 0:
        return 'coqc failed on the generated evaluation file: ' + out[-600:], src
    flat = re.sub(r'\s+', ' ', out)
    res = []
    for m in re.finditer(r'= \((\d+)%nat, (\d+)%nat, (\d+)%nat, (true|false), (true|false), (None|Some (\d+)%nat), (None|Some (true|false))\)', flat):
        res.append({'i': int(m.group(1)), 'ref_fuel': int(m.group(2)), 'nm_fuel': int(m.group(3)), 'bounded': m.group(4) == 'true',
                    'closed': m.group(5) == 'true', 'rows': None if m.group(6) == 'None' else int(m.group(7)),
                    'refok': None if m.group(8) == 'None' else m.group(9) == 'true'})
    if len(res) != len(cases):
        return 'could not parse the output of the evaluation file (%d of %d): %s' % (len(res), len(cases), flat[-400:]), src
    return res, src


# ----------------------------------------------------------------- zero rules ----
ZERO_SNIPPET = ("import sys; sys.path.insert(0, %r); import networkx as nx, EoN; "
                "EoN.fast_nonMarkov_SIS(nx.path_graph(2), trans_time_fxn=lambda u, v, r: [0.0], rec_time_fxn=lambda u: 0.0, "
                "initial_infecteds=[0], tmax=1); print('RETURNED')")


def zero_rules_probe(repo):
    try:
        p = subprocess.run(['/venv/bin/python', '-W', 'ignore', '-c', ZERO_SNIPPET % repo], capture_output=True, text=True, timeout=4,
                           preexec_fn=lambda: __import__('resource').setrlimit(__import__('resource').RLIMIT_AS, (3 << 30, 3 << 30)))
        return 'returned' if 'RETURNED' in p.stdout else 'raised: ' + (p.stderr.strip().split('\n')[-1][:120] if p.stderr else '?')
    except subprocess.TimeoutExpired:
        return 'did not return within 4 s'


# ------------------------------------ fast_SIS as an instance of the reference ----
def fsis_tables(case, impl, draws):
    """Replays the implementation's OWN calls to expovariate (fast_SIS under a scripted source) and
    collects the rule tables those draws define: dur(v,k) = the k-th duration drawn for v; delays(u,v,k) =
    every attempt time of the pair (u,v) drawn during u's k-th infectious period that falls BEFORE u's
    recovery, relative to the start of that period (the attempt discarded because it falls inside v's
    infectious period is listed too: the reference semantics ignores it for the same reason).
    Returns a fast_nonMarkov_SIS-style case, or None when the trace is not the clock construction
    (that is oracle_clock's business, harness/esis_lib.py)."""
    import heapq
    gc = case['gc']; G = gc.G; im = gc.idmap; inv = gc.order; n = len(inv)
    tau, gamma, tmin, tmax = case['tau'], case['gamma'], case['tmin'], case['tmax']
    log = impl['log']
    if case['i0'] is None or tmax is None: return None
    i0 = [im[u] for u in case['i0']]
    nw = (lambda i: F(G.nodes[inv[i]][gc.nwl])) if gc.nwl else (lambda i: F(1))
    ew = (lambda i, j: F(G.adj[inv[i]][inv[j]][gc.ewl])) if gc.ewl else (lambda i, j: F(1))
    nbrs = {im[u]: [im[v] for v in G.neighbors(u)] for u in inv}
    INF = math.inf
    st = [0] * n; rec = [tmin - 1] * n; inft = [None] * n; ordn = [0] * n
    durs = {i: [] for i in range(n)}; atts = {}
    agenda = []; seq = [0]; pos = [0]
    class Stop(Exception): pass
    def draw(rate):
        if pos[0] >= len(log) or pos[0] >= len(draws): raise Stop()
        e = log[pos[0]]
        if e[0] != 'E' or not C.close(e[1], float(rate)): raise Stop()
        d = F(draws[pos[0]]); pos[0] += 1
        return d
    def note(u, v, t):
        if t < rec[u]: atts.setdefault((u, ordn[u] - 1, v), []).append(t - inft[u])
    def clock(u, v, now):
        if not rec[v] < rec[u]: return
        rate = tau * ew(u, v)
        if rate <= 0: return
        t = now + draw(rate)
        if t < rec[v]:
            note(u, v, t)
            t = rec[v] + draw(rate)
        note(u, v, t)
        if t < rec[u] and t < tmax:
            heapq.heappush(agenda, (t, seq[0], ('A', u, v))); seq[0] += 1
    def infect(t, v):
        st[v] = 1; inft[v] = t; ordn[v] += 1
        rr = gamma * nw(v)
        if rr > 0:
            d = draw(rr); rec[v] = t + d; durs[v].append(d)
        else:
            rec[v] = INF; durs[v].append(tmax - t + 1)
        if rec[v] < tmax:
            heapq.heappush(agenda, (rec[v], seq[0], ('R', v))); seq[0] += 1
        for w in nbrs[v]: clock(v, w, t)
    try:
        for v in i0:
            heapq.heappush(agenda, (tmin, seq[0], ('A', None, v))); seq[0] += 1
        while agenda:
            t, _, what = heapq.heappop(agenda)
            if what[0] == 'R':
                st[what[1]] = 0
            else:
                _, u, v = what
                if st[v] == 0: infect(t, v)
                if u is not None: clock(u, v, t)
    except Stop:
        return None
    if pos[0] != len(log): return None
    c = {'kind': 'fast_nonMarkov_SIS', 'gc': gc, 'full': case['full'], 'tmin': tmin, 'tmax': tmax, 'rho': None,
         'i0': case['i0'], 'i0_form': case['i0_form'], 'api': 'separate'}
    c['durs'] = {inv[i]: durs[i] + [F(1)] * 3 for i in range(n)}
    c['dels'] = {(inv[u], inv[v]): [sorted(atts.get((u, k, v), [])) for k in range(ordn[u])] + [[], [], []] for u in range(n) for v in nbrs[u]}
    return c


def fsis_part(run, tier, EoN, sim, per):
    """goal: fast_SIS's run on a draw script = the reference semantics of C13 on the tables the same draws define"""
    rng = run.rng
    n = 500 if tier == 'quick' else 6000
    per.update({'fsis_cases': 0, 'fsis_judged': 0, 'fsis_with_dead_attempts': 0, 'fsis_events': 0})
    for i in range(n):
        case = L.gen_case(rng, 'fast_SIS', nmax=6)
        if case['i0'] is None or case['rho'] is not None or not case['i0'] or len(set(case['i0'])) != len(case['i0']): continue
        used = set(); draws = []
        while len(draws) < 400:
            x = F(rng.randint(1, 1 << 13) | 1, 1 << 12)
            if x not in used:
                used.add(x); draws.append(x)
        impl = L.run_impl(EoN, sim, case, draws)
        if impl['status'] != 'OK': continue
        per['fsis_cases'] += 1
        c2 = fsis_tables(case, impl, draws)
        if c2 is None: continue
        ref = L.ref_sis(c2, [case['gc'].idmap[u] for u in case['i0']])
        if ref['ties'] or ref['unfinished']: continue
        per['fsis_judged'] += 1; per['fsis_events'] += len(ref['events'])
        if ref['n'] > len(ref['events']) - len(case['i0']): per['fsis_with_dead_attempts'] += 1
        for kind, what in L.oracle_ref(c2, impl):
            run.violation('C13/fast_SIS/instance-of-reference/%s' % kind,
                          'fast_SIS under a draw script is not the reference agenda semantics of C13 on the duration/delay tables that the same draws define: ' + what,
                          dict(L.case_json(case, draws[:impl['used']]), entry='fast_SIS', tables=L.case_json(c2), what=what))


# ------------------------------------------------------------------ the part ----
def judge(run, case, impl, limit, label, per, K):
    key = 'C13/%s/%s' % (ENTRY, label)
    rj = dict(L.case_json(case), entry=ENTRY, K=K, nm_fuel=limit, domain=label)
    if impl['status'] == 'BUDGET':
        per['over_budget'] += 1
        run.violation(key + '/queue-events-bound',
                      'the implementation processed more than nm_fuel = %d queue events (Props/C13x.v: every run inside this domain ends within that many, and equals the reference '
                      'history): it does not follow the reference semantics (or does not terminate)' % limit, rj)
        return False
    if impl['status'] == 'EXC':
        per['raised'] += 1
        run.violation(key + '/raises', 'raised %s on a valid input' % impl['err'], rj)
        return False
    return True


def part(run, tier, props=None, per=None):
    """the C13x part of C13; `props` (the dict of C.check_props('C13')) gets the theorems of Props/C13x.v"""
    EoN = C.import_eon()
    import EoN.simulation as sim
    if props is not None:
        C.extra_props(run, 'C13', props, ['C13x'])
    per = per if per is not None else {}
    per.update({'A_cases': 0, 'B_cases': 0, 'over_budget': 0, 'raised': 0, 'B_judged_by_agenda_oracle': 0, 'max_pops_over_bound': 0.0,
                'coq_evaluated': 0, 'pops': 0})
    rng = run.rng
    nA = 600 if tier == 'quick' else 8000
    nB = 400 if tier == 'quick' else 5000
    sample = []
    # (A) bounded durations, finite horizon
    for i in range(nA):
        case = L.gen_case(rng, ENTRY, nmax=7)
        if case['i0'] is None or case['rho'] is not None or not case['i0']: continue
        dom = domain_A(case)
        if dom is None: continue
        delta, K = dom
        if K > 400: continue
        limit = nm_fuel(case, K)
        impl = run_budget(EoN, sim, case, limit)
        per['A_cases'] += 1; per['pops'] += impl['pops']
        if not judge(run, case, impl, limit, 'bounded-durations', per, K): continue
        per['max_pops_over_bound'] = max(per['max_pops_over_bound'], impl['pops'] / max(1, limit))
        if len(sample) < (4 if tier == 'quick' else 12) and len(case['gc'].order) <= 5 and K <= 40 and len(impl['rows']) >= 4:
            sample.append((case, delta, K, impl))
    # (B) finite tables, no horizon
    for i in range(nB):
        base = L.gen_case(rng, ENTRY, nmax=6)
        if base['i0'] is None or base['rho'] is not None or not base['i0']: continue
        K = rng.choice([1, 1, 2, 2, 3])
        case = make_finite(base, K)
        case['full'] = True
        limit = nm_fuel(case, K)
        impl = run_budget(EoN, sim, case, limit)
        per['B_cases'] += 1; per['pops'] += impl['pops']
        if not judge(run, case, impl, limit, 'finite-tables-tmax-inf', per, K): continue
        per['max_pops_over_bound'] = max(per['max_pops_over_bound'], impl['pops'] / max(1, limit))
        bad = L.oracle_ref(case, dict(impl, log=[], used=0))
        ref = L.ref_sis(case, [case['gc'].idmap[u] for u in case['i0']])
        if not ref['ties'] and not ref['unfinished']:
            per['B_judged_by_agenda_oracle'] += 1
        for kind, what in bad:
            run.violation('C13/%s/finite-tables-tmax-inf/%s' % (ENTRY, kind), 'with finite delay tables and tmax = inf: ' + what,
                          dict(L.case_json(case), entry=ENTRY, K=K, domain='finite-tables-tmax-inf', what=what))
        if len(sample) < (8 if tier == 'quick' else 24) and len(case['gc'].order) <= 4 and len(impl['rows']) >= 4 and i % 3 == 0:
            sample.append((case, F(1), K, impl))
    # Coq evaluation of the same definitions on sampled cases
    if sample:
        r, src = coq_eval([(c, d, K) for c, d, K, _ in sample])
        if isinstance(r, str):
            run.violation('C13/proof/C13x-eval', r, {'broken': 'evaluation of ref_fuel / rules_boundedb / nm_run by coqc', 'source': src[-3000:]}, no_input=True)
        else:
            per['coq_evaluated'] = len(r)
            for (case, delta, K, impl), v in zip(sample, r):
                rj = dict(L.case_json(case), entry=ENTRY, K=K, coq=v)
                if v['ref_fuel'] != ref_fuel(case, K) or v['nm_fuel'] != nm_fuel(case, K):
                    run.violation('C13/proof/C13x-fuel-formula', 'the harness fuel formula (%d, %d) differs from the Coq definition (%d, %d)' % (
                        ref_fuel(case, K), nm_fuel(case, K), v['ref_fuel'], v['nm_fuel']), rj, no_input=True)
                if case['tmax'] is not None and not v['bounded']:
                    run.violation('C13/proof/C13x-domain', 'rules_boundedb rejects a case the harness put in domain (A)', rj, no_input=True)
                if v['rows'] is None or v['refok'] is None:
                    run.violation('C13/proof/C13x-terminates', 'the Coq model / reference run did not end within the proven fuel on a case inside the domain', rj, no_input=True)
                elif v['rows'] != len(impl['rows']) and not case['full']:
                    run.violation('C13/%s/rows-count' % ENTRY, 'the model run at fuel nm_fuel returns %d rows, the implementation %d' % (v['rows'], len(impl['rows'])), rj)
    fsis_part(run, tier, EoN, sim, per)
    per['zero_durations_zero_delays_call'] = zero_rules_probe(C.REPO)
    return per


def run(run, tier):
    props = C.check_props('C13x')
    if not props['ok']:
        run.violation('C13/proof/C13x', 'Props/C13x.v no longer checks: %s' % props['log'][-400:], {'broken': 'coq/Props/C13x.v', 'log': props['log']}, no_input=True)
    per = part(run, tier, None, {})
    C.proof_coverage(run, props, per['A_cases'] + per['B_cases'], per['A_cases'] + per['B_cases'],
                     'fast_nonMarkov_SIS on deterministic rule tables. (A) random graphs <= 7 nodes, distinct dyadic durations in (1/8,2) and ascending delay lists, finite tmax: '
                     'delta = least duration, K = ceil((tmax-tmin)/delta), budget nm_fuel. (B) the same tables cut at ordinal K in {1,2,3}, tmax = inf, full data: budget nm_fuel and, '
                     'when event times are pairwise distinct, outputs = plain agenda oracle with no horizon. Queue events counted by wrapping myQueue.pop_and_run from outside. '
                     'Sampled cases are evaluated in Coq (ref_fuel, nm_fuel, rules_boundedb, nm_run and ref_sis at the proven fuel).',
                     [], {'per': per})


def replay(rp):
    EoN = C.import_eon()
    import EoN.simulation as sim
    r = rp['replay']
    case = L.case_from_json(r)
    K = r.get('K', 1)
    limit = r.get('nm_fuel') or nm_fuel(case, K)
    impl = run_budget(EoN, sim, case, limit)
    print('implementation:', impl['status'], impl.get('err', ''), 'queue events', impl['pops'], 'bound', limit)
    if impl['status'] != 'OK': return 1
    bad = L.oracle_ref(case, dict(impl, log=[], used=0))
    print('agenda oracle:', bad or 'holds')
    return 1 if bad else 0
