"""Cross-cutting properties C04 / C05 / C09 / C10 for the discrete-time simulators
(discrete_SIR, basic_discrete_SIR, basic_discrete_SIS, percolation_based_discrete_SIR):
theorem files coq/Props/C04disc.v, C05disc.v, C09disc.v, C10disc.v and the extracted checkers
of coq/Model/DiscreteChk.v (dwf_rowsb, dinit_okb, dtx_okb) and consistent_b of
coq/Model/Investigation.v applied to the IMPLEMENTATION's own arrays, node histories and
transmissions().  `part()` is called from harness/c04.py, c05.py, c09.py, c10.py;
`./check discx` is the stand-alone form."""
import os
from fractions import Fraction as F
from . import common as C
from . import simrun as R
from . import disc_lib as DL

XCOMP = 'discx'
INF = float('inf')

CLAIM = dict(
    claimed=False,
    text="Machine-checked theorems (coq/Props/C04disc.v, C05disc.v, C09disc.v, C10disc.v, closed under the global context) for discrete_SIR (any transmission rule "
         "as a sampler program, with or without test_recovery), basic_discrete_SIR and basic_discrete_SIS, for EVERY graph, initial sets, tmin/tmax, iteration order and "
         "EVERY draw script: the run is a chain of status maps, one per unit step from tmin, linked by legal moves; the rows are their censuses; node histories record "
         "exactly the status changes; transmissions() has one entry per infection, dated by the contact step, from a neighbour infectious at that step. The decidable "
         "checkers are proved sound, accepted on every model run, extracted and applied to the implementation's outputs.",
    design='DESIGN.md section 4, C04 / C05 / C09 / C10',
    technique='Coq proof (relational run specification drun established by invariant over the generation loop, reach semantics of the sampler monad) + extracted checkers on implementation outputs',
    note='stand-alone form of the discrete-time part of C04/C05/C09/C10')

WHICH = {'C04': ('traj', 'dwf_rowsb', 'C04disc'), 'C05': ('init', 'dinit_okb', 'C05disc'),
         'C09': ('tx', 'dtx_okb', 'C09disc'), 'C10': ('cons', 'consistent_b', 'C10disc')}
PROVED = {'DSIR': True, 'BSIR': True, 'SIS': True, 'PSIR': True}


def in_domain(case, rho_ok=False):
    """the domain of the theorems and of the property's discrete-time clause: initial_infecteds given
    (duplicate-free: sampled without replacement), no rho, a horizon of a whole number of steps.
    rho_ok (C04 only: the row checker does not need the initial sets): also the rho path -- by
    C05_discrete_SIR_rho_selects_round_N_rho_distinct_nodes a rho run is a run from an explicit duplicate-free set --
    without initial_recovereds (rho together with initial_recovereds is rejected with EoNError: Props/C05disc.v)"""
    if case['i0'] is None:
        if not (rho_ok and case.get('r0') is None): return False
        n = len(case['gc'].order)
        k = 1 if case['rho'] is None else int(round(n * float(case['rho'])))
        if not 0 <= k <= n: return False
    elif case['rho'] is not None: return False
    if case['kind'] == 'SIS' and case['tmax'] is None: return False
    return DL.integer_horizon(case)


def dxchk_line(case, rows=None, trans=None, hist=None):
    gc = case['gc']; im = gc.idmap
    sir = case['kind'] != 'SIS'
    nl = lambda l: '%d %s' % (len(l or []), ' '.join(str(im[u]) for u in (l or [])))
    onestep = not (case['kind'] == 'DSIR' and case.get('rec') is not None)
    toks = ['DXCHK', gc.tokens(), '1' if sir else '0', '1' if onestep else '0', nl(case['i0']), nl(case['r0'] if sir else None),
            C.qtok(case['tmin']), R.opt_q(case['tmax'])]
    if rows is None: toks.append('0')
    else:
        toks.append('1 %d %s' % (len(rows), ' '.join('%s %d %s' % (C.qtok(F(t)), len(c), ' '.join(str(int(x)) for x in c)) for t, c in rows)))
    if trans is None: toks.append('0')
    else:
        toks.append('1 %d %s' % (len(trans), ' '.join('%s %s %d' % (C.qtok(F(t)), '0' if s is None else '1 %d' % s, v) for t, s, v in trans)))
    if hist is None: toks.append('0')
    else:
        n = len(gc.order)
        toks.append('1 %d %s' % (n, ' '.join('%d %s' % (len(hist[i]), ' '.join('%s %d' % (C.qtok(F(t)), s) for t, s in hist[i])) for i in range(n))))
    return ' '.join(toks)


def parse(line):
    if not line or not line.startswith('OK'):
        return {'fail': line}
    d = {}
    for tok in line.split()[1:]:
        k, v = tok.split('=')
        d[k] = None if v == '-' else v == '1'
    return d


def gen_cases(rng, tier, per_kind=None, rho_ok=False):
    n = per_kind or (110 if tier == 'quick' else 1500)
    cases = []
    for kind in DL.KINDS:
        k = 0; tries = 0
        while k < n and tries < 20 * n:
            tries += 1
            c = DL.gen_case(rng, kind, nmax=7)
            if not in_domain(c, rho_ok): continue
            cases.append(c); k += 1
    # EXHAUSTIVE: every labelled graph on <= 3 (thorough: 4) nodes x every table of outcomes over the contacts x initial
    # sets (the generator of harness/c12.py): every outcome of the coins
    from . import c12
    cases += [c for c in c12.exhaustive(rng, 3 if tier == 'quick' else 4, tier) if in_domain(c, rho_ok)]
    return cases


def chk_impl(EoN, sim, cases):
    """run the implementation in both return modes on the same table of outcomes and apply the
    extracted checkers to ITS outputs.  Returns [(case, verdict, plain, full)]."""
    fin = lambda x: x == x and abs(x) != INF
    lines, runs = [], []
    for case in cases:
        draws = [F(case['gc'].order.index(case['gc'].order[0]) + (len(case['tt']) % max(1, len(case['gc'].order))))] if case['i0'] is None else []
        plain = DL.run_impl(EoN, sim, case, draws, full=False)
        full = DL.run_impl(EoN, sim, case, draws, full=True)
        bad = None
        if plain['status'] != 'OK' or full['status'] != 'OK' or isinstance(plain.get('rows'), (str, tuple)) or isinstance(full.get('trans'), str) \
                or any(isinstance(h, str) for h in full.get('hist', {}).values()):
            bad = (plain['status'], plain.get('err'), full['status'], full.get('err'),
                   plain.get('rows') if isinstance(plain.get('rows'), (str, tuple)) else None,
                   full.get('trans') if isinstance(full.get('trans'), str) else None)
        elif not (all(fin(t) for t, _ in plain['rows']) and all(fin(t) for t, _, _ in full['trans'])
                  and all(fin(t) for h in full['hist'].values() for t, _ in h)):
            bad = ('non-finite time in the outputs',)
        runs.append((case, bad, plain, full))
        lines.append(dxchk_line(case) if bad else dxchk_line(case, plain['rows'], full['trans'], full['hist']))
    outs = C.run_model(lines, XCOMP) if lines else []
    res = []
    for (case, bad, plain, full), o in zip(runs, outs):
        d = parse(o)
        if bad is not None: d['impl_failed'] = bad
        res.append((case, d, plain, full))
    return res


def run_seeded_case(EoN, case):
    """one case of the seeded battery: (bad, plain, full)"""
    import random as pyrandom
    gc = case['gc']; kind = case['kind']; p = case['seeded']['p']; seed = case['seeded']['seed']
    kw = dict(initial_infecteds=list(case['i0']), tmin=float(case['tmin']))
    if case['tmax'] is not None: kw['tmax'] = float(case['tmax'])
    if case['r0'] is not None: kw['initial_recovereds'] = list(case['r0'])
    f = {'DSIR': lambda **k: EoN.discrete_SIR(gc.G, args=(p,), **k), 'BSIR': lambda **k: EoN.basic_discrete_SIR(gc.G, p, **k),
         'SIS': lambda **k: EoN.basic_discrete_SIS(gc.G, p, **k), 'PSIR': lambda **k: EoN.percolation_based_discrete_SIR(gc.G, p, **k)}[kind]
    try:
        pyrandom.seed(seed); arrs = f(return_full_data=False, **kw)
        pyrandom.seed(seed + 1); inv = f(return_full_data=True, **kw)
        plain = {'rows': R.canon_arrays(arrs)}
        hist, trans = R.canon_full(inv, gc, DL.CODE)
        cols = [inv.t(), inv.S(), inv.I()] + ([inv.R()] if kind != 'SIS' else [])
        full = {'hist': hist, 'trans': trans, 'rows': R.canon_arrays(cols)}
        bad = None
        if isinstance(plain['rows'], tuple) or isinstance(trans, str) or any(isinstance(h, str) for h in hist.values()) or isinstance(full['rows'], tuple):
            bad = ('unusable outputs', plain['rows'] if isinstance(plain['rows'], tuple) else None, trans if isinstance(trans, str) else None)
    except Exception as e:
        plain = full = None; bad = ('raised', type(e).__name__, str(e)[:100])
    return bad, plain, full


def seeded_verdict(case, bad, plain, full):
    lines = [dxchk_line(case) if bad else dxchk_line(case, plain['rows'], None, None),
             dxchk_line(case) if bad else dxchk_line(case, full['rows'], full['trans'], full['hist'])]
    return lines


def merge_seeded(a, b, bad):
    if 'fail' in a or 'fail' in b:
        d = {'fail': (a.get('fail'), b.get('fail'))}
    else:
        d = {'wf': a.get('wf'), 'traj': a.get('traj'), 'init': (a.get('init') is not False) and b.get('init'), 'tx': b.get('tx'), 'cons': b.get('cons')}
        if b.get('init') is None: d['init'] = a.get('init')
    if bad is not None: d['impl_failed'] = bad
    return d


def seeded_battery(EoN, rng, tier):
    """the implementation under the REAL random module (seeded), larger graphs (12-40 nodes, density ~ 3/n),
    the four simulators with the default rule and a random p, 1-3 initial infected, 0-2 initial recovered,
    whole-step horizons; both return modes (they are different epidemics here: the plain arrays are judged by
    dwf_rowsb, the full-data object by dinit_okb / dtx_okb / consistent_b against its own summary()).
    Returns [(case, verdict, plain, full)] like chk_impl."""
    import random as pyrandom
    n_cases = 120 if tier == 'quick' else 1200
    lines, runs = [], []
    for i in range(n_cases):
        kind = DL.KINDS[i % 4]
        n = rng.randint(12, 40)
        gc = R.gen_graph(rng, nmax=n, nmin=n, directed=(kind in ('DSIR', 'BSIR', 'SIS') and rng.random() < 0.25), density=min(1.0, 3.0 / n))
        order = gc.order
        k0 = rng.randint(1, 3)
        sel = rng.sample(order, k0)
        rest = [u for u in order if u not in sel]
        r0 = rng.sample(rest, rng.randint(0, 2)) if kind != 'SIS' and rng.random() < 0.4 else None
        tmin = F(rng.choice([0, 0, 5, -3]), rng.choice([1, 2]))
        tmax = tmin + rng.randint(2, 8) if (kind == 'SIS' or rng.random() < 0.5) else None
        p = rng.choice([0.2, 0.35, 0.5, 0.8])
        seed = rng.randint(0, 10 ** 6)
        case = {'kind': kind, 'gc': gc, 'i0': sel, 'r0': r0, 'rho': None, 'tmin': tmin, 'tmax': tmax, 'rec': None,
                'seeded': {'p': p, 'seed': seed}}
        bad, plain, full = run_seeded_case(EoN, case)
        runs.append((case, bad, plain, full))
        lines += seeded_verdict(case, bad, plain, full)
    outs = C.run_model(lines, XCOMP) if lines else []
    res = []
    for i, (case, bad, plain, full) in enumerate(runs):
        res.append((case, merge_seeded(parse(outs[2 * i]), parse(outs[2 * i + 1]), bad), plain, full))
    return res


def shown(field, plain, full):
    if field == 'traj': return plain['rows'][:8]
    if field == 'init': return (plain['rows'][:1], {k: v[:2] for k, v in list(full['hist'].items())[:5]})
    if field == 'tx': return (full['trans'][:8], {k: v for k, v in list(full['hist'].items())[:5]})
    return ({k: v for k, v in list(full['hist'].items())[:5]}, plain['rows'][:8])


def part(run, tier, pid, props, per):
    """the discrete-time part of property pid (C04 / C05 / C09 / C10): re-checks Props/<pid>disc.v (its theorems join
    the obligations of pid) and applies the extracted checker of that property to the implementation's own outputs;
    a rejection is a failing input of the property."""
    EoN = C.import_eon()
    import EoN.simulation as sim
    field, chk, pname = WHICH[pid]
    if os.path.exists(os.path.join(C.COQ, 'Props', pname + '.v')):
        xp = C.check_props(pname)
        props['theorems'] = list(props['theorems']) + list(xp['theorems'])
        props['axioms'] = dict(props['axioms'], **xp['axioms'])
        if not xp['ok']:
            props['ok'] = False
            props['log'] = (props.get('log') or '') + ' | ' + xp['log'][-400:]
            run.violation('%s/proof/%s' % (pid, pname), 'Props/%s.v no longer checks: %s' % (pname, xp['log'][-400:]),
                          {'broken': 'coq/Props/%s.v' % pname, 'log': xp['log']}, no_input=True)
    ok, log = C.build_driver(XCOMP)
    if not ok:
        run.violation('%s/build/discx' % pid, 'extracted checkers do not build: ' + log[-500:], {'log': log[-3000:]}, no_input=True)
        return
    cases = gen_cases(run.rng, tier, rho_ok=(pid == 'C04'))
    stat = {}
    results = chk_impl(EoN, sim, cases)
    try:
        results += seeded_battery(EoN, run.rng, tier)
    except Exception as e:
        import traceback
        run.violation('%s/discx/harness-crash' % pid, 'the seeded battery of discx crashed: %s' % e, {'traceback': traceback.format_exc()}, no_input=True)
    for case, v, plain, full in results:
        entry = DL.ENTRY[case['kind']]
        st = stat.setdefault(entry, {'judged': 0, 'rejected': 0, 'nontrivial': 0, 'seeded_judged': 0})
        if 'seeded' in case:
            st['seeded_judged'] += 1
            rj = {'kind': case['kind'], 'graph': case['gc'].to_json(), 'i0': [repr(u) for u in case['i0']], 'r0': None if case['r0'] is None else [repr(u) for u in case['r0']],
                  'tmin': str(case['tmin']), 'tmax': None if case['tmax'] is None else str(case['tmax']), 'seeded': case['seeded'], 'entry': entry, 'discx': chk}
        else:
            rj = dict(DL.case_json(case, []), entry=entry, discx=chk)
        if 'fail' in v:
            run.violation('%s/discx/driver' % pid, 'checker driver failed: %r' % (v['fail'],), rj, no_input=True); continue
        if not v.get('wf'):
            continue
        if 'impl_failed' in v:
            if pid == 'C04':
                run.violation('C04/%s/returns' % entry, 'inside the domain (wf_inputb, whole-step horizon) the implementation did not return usable outputs in both modes: %r' % (v['impl_failed'],), rj)
            continue
        st['judged'] += 1
        if len(plain['rows']) >= 3: st['nontrivial'] += 1
        if v.get(field) is False:
            st['rejected'] += 1
            run.violation('%s/%s/%s' % (pid, entry, chk),
                          'the extracted checker %s (Model/DiscreteChk.v%s) rejects the implementation\'s output %r' % (
                              chk, '; proved sound and accepted on every model run, Props/%s.v' % pname if PROVED[case['kind']] else '', shown(field, plain, full)), rj)
    for entry, st in stat.items():
        per[entry + '/extracted-checker'] = dict(st, proved=PROVED[[k for k, e in DL.ENTRY.items() if e == entry][0]], props='Props/%s.v' % pname, checker=chk)


def replay(rp):
    EoN = C.import_eon(); import EoN.simulation as sim
    j = rp['replay']
    C.build_driver(XCOMP)
    if j.get('seeded'):
        ev = lambda l: None if l is None else [eval(x) for x in l]
        case = {'kind': j['kind'], 'gc': R.GraphCase.from_json(j['graph']), 'i0': ev(j['i0']), 'r0': ev(j['r0']), 'rho': None,
                'tmin': F(j['tmin']), 'tmax': None if j['tmax'] is None else F(j['tmax']), 'rec': None, 'seeded': j['seeded']}
        bad, plain, full = run_seeded_case(EoN, case)
        a, b = C.run_model(seeded_verdict(case, bad, plain, full), XCOMP)
        v = merge_seeded(parse(a), parse(b), bad)
    else:
        case = DL.case_from_json(j)
        (_, v, plain, full), = chk_impl(EoN, sim, [case])
    print('verdict of the extracted checkers on the implementation outputs:', v)
    return 1 if any(v.get(k) is False for k in ('traj', 'init', 'tx', 'cons')) or 'impl_failed' in v else 0


def run(run, tier):
    props = {'ok': True, 'theorems': [], 'axioms': {}, 'log': ''}
    per = {}
    for pid in ('C04', 'C05', 'C09', 'C10'):
        p = {'ok': True, 'theorems': [], 'axioms': {}, 'log': ''}
        part(run, tier, pid, p, per)
        props['ok'] = props['ok'] and p['ok']; props['theorems'] += p['theorems']; props['axioms'].update(p['axioms'])
    n = sum(v.get('judged', 0) for v in per.values()); nt = sum(v.get('nontrivial', 0) for v in per.values())
    C.proof_coverage(run, props, max(n, 1), nt,
                     'the four discrete-time simulators, EXHAUSTIVE: all labelled graphs <= 3 (thorough 4) nodes x all outcome tables x initial sets; RANDOM: graphs <= 7 nodes incl. directed, table-driven outcomes, with/without test_recovery, 0-3 initial infected, '
                     '0-2 initial recovered, tmin in {0,5,-3,5/2,..}, whole-step horizons; both return modes; extracted dwf_rowsb / dinit_okb / dtx_okb / consistent_b on the outputs',
                     [], {'simulators': per})


if __name__ == '__main__':
    # python -m harness.discx <replay.json>: re-execute a recorded discx replay against /repo (or EON_REPO).
    # (./check replay routes through harness/c0x.py, whose replay functions do not know this module yet: one
    #  dispatch line `if rp['replay'].get('discx'): from . import discx; return discx.replay(rp)` there would do.)
    import sys, json
    sys.exit(replay(json.load(open(sys.argv[1]))))
