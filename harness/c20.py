"""C20: subsample / get_time_shift / degree-distribution helpers.
Theorems: coq/Props/C20.v.  Tie: the extracted model (Model/Aux.v) and the
implementation are run on the same inputs; the L0 specification is evaluated
directly on the implementation's outputs to look for a failing input."""
import itertools, math
from fractions import Fraction as F
from . import common as C

CLAIM = dict(
    text="Machine-checked theorems (coq/Props/C20.v, closed under the global context) over an executable model of subsample/get_time_shift/"
         "get_Pk/PGF helpers/get_Pnk/estimate_R0 for ALL grids, series and degree sequences; the model is tied to /repo on every run by "
         "running the extracted model and the implementation on the same inputs (exhaustive small grids + random) and by evaluating the L0 "
         "specification on the implementation's outputs.",
    design='DESIGN.md section 4, C20',
    technique='Coq proof over hand-written model + extracted-model/implementation correspondence',
    note="Derivative clause is proved as: psi' and psi'' are the formal derivatives of the polynomial psi, and the formal derivative satisfies the difference-quotient identity (algebraic statement over Q, no real analysis).")


def gen_grid(rng, n, lo=0):
    """non-decreasing dyadic grid with ties and repeats"""
    t = F(lo); out = []
    for _ in range(n):
        if rng.random() < 0.65:
            t += F(rng.choice([1, 1, 2, 3, 5]), rng.choice([1, 2, 4]))
        out.append(t)
    return out


def spec_subsample(reports, times, vals):
    out = []
    for r in reports:
        idx = [i for i, t in enumerate(times) if t <= r]
        if not idx:
            return None
        out.append(vals[max(idx)])
    return out


def run(run, tier):
    EoN = C.import_eon()
    import numpy as np, networkx as nx
    rng = run.rng
    props = C.check_props('C20')
    ok, log = C.build_driver("base")
    if not ok:
        run.violation('C20/build', 'extracted model does not build: ' + log[-500:], {'log': log[-3000:]}, no_input=True)
        C.proof_coverage(run, props, 1, 0, 'build failed', [log[-300:]])
        return
    cases = []   # (kind, payload, model_line)
    # ---- subsample: exhaustive small grids --------------------------------
    vals3 = [0, 1, 2]
    def sorted_seqs(maxlen):
        for n in range(1, maxlen + 1):
            for s in itertools.combinations_with_replacement(vals3, n):
                yield list(s)
    maxlen = 3 if tier == 'quick' else 4
    for times in sorted_seqs(maxlen):
        for reports in sorted_seqs(maxlen):
            vals = [10 + i for i in range(len(times))]
            cases.append(('sub', (reports, times, [vals]), None))
    n_exh = len(cases)
    # ---- subsample: random -------------------------------------------------
    nrand = 600 if tier == 'quick' else 8000
    for i in range(nrand):
        times = gen_grid(rng, rng.randint(1, 12), lo=rng.choice([0, 0, -2, 3]))
        if rng.random() < 0.9:
            start = times[0] + F(rng.choice([0, 0, 1, 3]), 2)
        else:
            start = times[0] - F(1, 2)          # malformed: report before first observation
        reports = [start + x for x in gen_grid(rng, rng.randint(1, 10))]
        nser = rng.choice([1, 1, 2, 3])
        sers = [[rng.randint(0, 50) for _ in times] for _ in range(nser)]
        cases.append(('sub', (reports, times, sers), None))
    # ---- get_time_shift ----------------------------------------------------
    for i in range(300 if tier == 'quick' else 4000):
        n = rng.randint(1, 10)
        times = gen_grid(rng, n)
        L = [F(rng.randint(0, 12), rng.choice([1, 2])) for _ in range(n)]
        thr = F(rng.randint(0, 14), rng.choice([1, 2]))
        cases.append(('ts', (times, L, thr), None))
    # ---- degree helpers ----------------------------------------------------
    graphs = []
    for i in range(150 if tier == 'quick' else 1500):
        n = rng.randint(2, 12)
        labels = rng.choice([list(range(n)), ['n%d' % j for j in range(n)], [(j // 3, j % 3) for j in range(n)]])
        labels = list(labels); rng.shuffle(labels)
        G = nx.Graph(); G.add_nodes_from(labels)
        for u, v in itertools.combinations(labels, 2):
            if rng.random() < rng.choice([0.2, 0.4, 0.7]):
                G.add_edge(u, v)
        if G.number_of_edges() == 0:
            G.add_edge(labels[0], labels[1])
        x = F(rng.randint(1, 16), 16)
        T = F(rng.randint(0, 8), 8)
        cases.append(('deg', (G, x, T), None))
        cases.append(('pnk', (G,), None))
        # the degree distribution is the histogram of G.degree(): graphs on which the degree is NOT the number of distinct
        # neighbours -- a self-loop (counts 2), parallel edges of a MultiGraph (raw configuration_model output), a DiGraph (in + out)
        if i % 3 == 0:
            kind = (i // 3) % 3
            H = nx.Graph(G) if kind == 0 else nx.MultiGraph(G) if kind == 1 else nx.DiGraph()
            if kind == 0:
                for u in rng.sample(labels, rng.randint(1, 2)): H.add_edge(u, u)
            elif kind == 1:
                es = list(G.edges())
                for u, v in rng.sample(es, min(len(es), rng.randint(1, 3))): H.add_edge(u, v)
                if rng.random() < 0.5: H.add_edge(labels[0], labels[0])
            else:
                H.add_nodes_from(labels)
                for u, v in G.edges():
                    r = rng.random()
                    if r < 0.45: H.add_edge(u, v)
                    elif r < 0.9: H.add_edge(v, u)
                    else: H.add_edge(u, v); H.add_edge(v, u)
            if any(d > 0 for _, d in H.degree()):
                cases.append(('deg', (H, x, T), None))

    # ---- model lines -------------------------------------------------------
    def ql(l): return '%d %s' % (len(l), ' '.join(C.qtok(x) for x in l))
    lines = []
    for kind, p, _ in cases:
        if kind == 'sub':
            reports, times, sers = p
            lines.append('SUB %s %s %d %s' % (ql(reports), ql(times), len(sers), ' '.join(ql(s) for s in sers)))
        elif kind == 'ts':
            times, L, thr = p
            lines.append('TS %s %s %s' % (ql(times), ql(L), C.qtok(thr)))
        elif kind == 'deg':
            G, x, T = p
            ds = [d for _, d in G.degree()]
            lines.append('DEG %d %s %s %s' % (len(ds), ' '.join(map(str, ds)), C.qtok(x), C.qtok(T)))
        else:
            G, = p
            parts = []
            for u in G.nodes():
                nb = [G.degree(v) for v in G.neighbors(u)]
                parts.append('%d %d %s' % (G.degree(u), len(nb), ' '.join(map(str, nb))))
            lines.append('PNK %d %s' % (G.order(), ' '.join(parts)))
    outs = C.run_model(lines, "base")

    # ---- run the implementation and compare -------------------------------
    stats = {'sub_ok': 0, 'sub_err': 0, 'ts': 0, 'deg': 0, 'pnk': 0, 'ties': 0, 'beyond_end': 0, 'multi_series': 0}
    distinct = set(); mism = []; samples = []
    def parse_q(s): return F(s)
    for (kind, p, _), line, mo in zip(cases, lines, outs):
        distinct.add(line)
        if 'DRIVERFAIL' in mo or 'BADCMD' in mo:
            mism.append((kind, line, 'model driver failure: ' + mo, None)); continue
        if kind == 'sub':
            reports, times, sers = p
            try:
                args = [np.array([float(x) for x in reports]), np.array([float(x) for x in times])] + [np.array(s) for s in sers]
                r = EoN.subsample(*args)
                if len(sers) == 1: r = (r,)
                impl = ('OK', [list(map(int, a)) for a in r])
            except Exception as e:
                impl = ('ERR', type(e).__name__)
            if mo.startswith('OK'):
                body = mo[2:].strip()
                model = ('OK', [[int(F(x)) for x in part.split()] for part in body.split(';')] if body else [[]])
            else:
                model = ('ERR', mo.split()[1])
            spec = [spec_subsample(reports, times, s) for s in sers]
            spec_ok = None
            if reports[0] >= times[0]:
                spec_ok = (impl[0] == 'OK' and impl[1] == spec)
            else:
                spec_ok = (impl == ('ERR', 'EoNError'))
            if impl[0] == 'OK':
                stats['sub_ok'] += 1
                if len(set(times)) < len(times): stats['ties'] += 1
                if reports[-1] > times[-1]: stats['beyond_end'] += 1
                if len(sers) > 1: stats['multi_series'] += 1
            else:
                stats['sub_err'] += 1
            spec_ok = None if spec_ok is None else bool(spec_ok)
            if impl != model or spec_ok is False:
                mism.append((kind, line, 'impl=%r model=%r spec=%r' % (impl, model, spec), spec_ok))
            elif len(samples) < 2:
                samples.append({'subsample': {'report_times': [str(x) for x in reports], 'times': [str(x) for x in times], 'series': sers, 'out': impl[1]}})
        elif kind == 'ts':
            times, L, thr = p
            try:
                impl = ('OK', float(EoN.get_time_shift(np.array([float(x) for x in times]), np.array([float(x) for x in L]), float(thr))))
            except Exception as e:
                impl = ('ERR', type(e).__name__)
            model = ('OK', float(F(mo.split()[1]))) if mo.startswith('OK') else ('ERR', mo.split()[1])
            idx = [i for i, l in enumerate(L) if l >= thr]
            spec_ok = (impl == ('OK', float(times[idx[0]]))) if idx else None
            stats['ts'] += 1
            spec_ok = None if spec_ok is None else bool(spec_ok)
            if impl != model or spec_ok is False:
                mism.append((kind, line, 'impl=%r model=%r' % (impl, model), spec_ok))
        elif kind == 'deg':
            G, x, T = p
            try:
                Pk = EoN.get_Pk(G)
                psi, psiP, psiDP = EoN.get_PGF(Pk), EoN.get_PGFPrime(Pk), EoN.get_PGFDPrime(Pk)
                mk = max(Pk.keys())
                impl = [float(Pk.get(k, 0)) for k in range(mk + 1)] + [float(psi(float(x))), float(psiP(float(x))), float(psiDP(float(x)))]
                r0 = float(EoN.estimate_R0(G, transmissibility=float(T)))
                impl.append(r0)
                ds = [d for _, d in G.degree()]; N = len(ds)
                mean = sum(ds) / N; m2 = sum(d * d - d for d in ds) / N
                spec_ok = (C.close(sum(Pk.values()), 1) and all(C.close(Pk[k] * N, ds.count(k)) for k in Pk)
                           and C.close(psi(1.0), 1) and C.close(psiP(1.0), mean) and C.close(psiDP(1.0), m2)
                           and C.close(r0, float(T) * m2 / mean))
                # derivative relation by central differences at x (polynomials: error O(h^2))
                h = 1e-5
                xf = float(x)
                if xf - h > 0:
                    spec_ok = spec_ok and abs((psi(xf + h) - psi(xf - h)) / (2 * h) - psiP(xf)) < 1e-5 * max(1, abs(psiP(xf))) \
                        and abs((psiP(xf + h) - psiP(xf - h)) / (2 * h) - psiDP(xf)) < 1e-5 * max(1, abs(psiDP(xf)))
                # psi, psi', psi'' are functions of the distribution they were BUILT from: refilling the caller's dict afterwards
                # (a parameter sweep reusing one dict) must not change them
                xf_ = float(x); before = (float(psi(xf_)), float(psiP(xf_)), float(psiDP(xf_))); keep_ = dict(Pk)
                Pk.clear(); Pk.update({1: 0.25, 4: 0.75})
                after = (float(psi(xf_)), float(psiP(xf_)), float(psiDP(xf_)))
                Pk.clear(); Pk.update(keep_)
                if not all(C.close(a_, b_) for a_, b_ in zip(before, after)):
                    spec_ok = False
                    impl.append('the closures built from Pk changed their values at x=%s from %r to %r when the dict was refilled afterwards' % (x, before, after))
                impl = ('OK', impl)
                # the helpers are functions of the graph AS IT IS NOW: move one edge of the same graph object (same number of nodes and
                # edges, another degree sequence) and ask again -- nothing remembered from the first call may leak into the answer
                if type(G) is nx.Graph and spec_ok and stats['deg'] % 2 == 0:
                    es = [e_ for e_ in G.edges() if e_[0] != e_[1]]; nodes_ = list(G.nodes())
                    non = [(a, b) for a in nodes_ for b in nodes_ if repr(a) < repr(b) and not G.has_edge(a, b)]
                    if es and non:
                        (u_, v_), (a_, b_) = es[len(es) // 2], non[len(non) // 3]
                        G.remove_edge(u_, v_); G.add_edge(a_, b_)
                        ds2 = [d for _, d in G.degree()]; mean2 = sum(ds2) / N; m22 = sum(d * d - d for d in ds2) / N
                        Pk2 = EoN.get_Pk(G); r02 = float(EoN.estimate_R0(G, transmissibility=float(T)))
                        again = all(C.close(Pk2.get(k, 0) * N, ds2.count(k)) for k in set(ds2) | set(Pk2)) and (mean2 == 0 or C.close(r02, float(T) * m22 / mean2))
                        stats['rewired_same_object'] = stats.get('rewired_same_object', 0) + 1
                        if not again:
                            spec_ok = False
                            impl = ('OK', impl[1] + ['after moving edge %r to %r on the same graph object: get_Pk=%r estimate_R0=%r, degree histogram %r, T<k^2-k>/<k>=%r' % (
                                (u_, v_), (a_, b_), dict(Pk2), r02, sorted(ds2), float(T) * m22 / mean2 if mean2 else None)])
                        G.remove_edge(a_, b_); G.add_edge(u_, v_)
            except Exception as e:
                impl = ('ERR', type(e).__name__); spec_ok = False
            tk = mo.split()
            i_psi = tk.index('PSI'); i_r0 = tk.index('R0')
            model = [float(F(z)) for z in tk[1:i_psi]] + [float(F(z)) for z in tk[i_psi + 1:i_r0]] + [float(F(tk[i_r0 + 1]))]
            stats['deg'] += 1
            same = impl[0] == 'OK' and len(impl[1]) == len(model) and all(C.close(a, b) for a, b in zip(impl[1], model))
            spec_ok = None if spec_ok is None else bool(spec_ok)      # numpy.bool_ is not the object False
            if not same or spec_ok is False:
                mism.append((kind, line, 'impl=%r model=%r' % (impl, model), spec_ok))
            elif len(samples) < 4:
                samples.append({'degree_helpers': {'degrees': [d for _, d in G.degree()], 'x': str(x), 'T': str(T), 'out': impl[1]}})
        else:
            G, = p
            try:
                Pnk = EoN.get_Pnk(G)
                mk = max(d for _, d in G.degree())
                impl = [float(Pnk.get(k1, {}).get(k2, 0)) if k1 in Pnk else 0.0 for k1 in range(mk + 1) for k2 in range(mk + 1)]
                spec_ok = all(C.close(sum(Pnk[k1].values()), 1) for k1 in Pnk if k1 >= 1)
                impl = ('OK', impl)
            except Exception as e:
                impl = ('ERR', type(e).__name__); spec_ok = False
            model = [float(F(z)) for z in mo.split()[1:]]
            stats['pnk'] += 1
            same = impl[0] == 'OK' and len(impl[1]) == len(model) and all(C.close(a, b) for a, b in zip(impl[1], model))
            spec_ok = None if spec_ok is None else bool(spec_ok)      # numpy.bool_ is not the object False
            if not same or spec_ok is False:
                mism.append((kind, line, 'impl=%r model=%r' % (impl, model), spec_ok))

    # ---- verdicts -----------------------------------------------------------
    names = {'sub': 'subsample', 'ts': 'get_time_shift', 'deg': 'get_Pk/PGF/estimate_R0', 'pnk': 'get_Pnk'}
    for kind in names:
        ms = [m for m in mism if m[0] == kind]
        if not ms:
            continue
        bad = [m for m in ms if m[3] is False]
        if bad:
            m = min(bad, key=lambda m: len(m[1]))
            run.violation('C20/%s/spec' % names[kind], '%s violates its specification on a concrete input: %s' % (names[kind], m[2][:300]),
                          {'entry': names[kind], 'model_case_line': m[1], 'detail': m[2]})
        else:
            m = min(ms, key=lambda m: len(m[1]))
            run.violation('C20/%s/correspondence' % names[kind],
                          'correspondence Model/Aux.v <-> %s no longer checks (theorems of Props/C20.v are about the model); specification oracle found no failing input: %s' % (names[kind], m[2][:300]),
                          {'entry': names[kind], 'broken': 'correspondence Model/Aux.v vs EoN.%s' % names[kind], 'model_case_line': m[1], 'detail': m[2]}, no_input=True)
    if not props['ok']:
        run.violation('C20/proof', 'Props/C20.v no longer checks: %s' % props['log'][-400:], {'broken': 'coq/Props/C20.v', 'log': props['log']}, no_input=True)
    nontriv = stats['sub_ok'] + stats['ts'] + stats['deg'] + stats['pnk']
    C.proof_coverage(run, props, len(cases), min(len(distinct), nontriv),
                     'subsample: every pair of sorted grids of length <=%d over {0,1,2} (%d cases, exhaustive) + random dyadic grids with ties/repeats/reports beyond the end/1-3 series (+10%% malformed: first report before first observation); get_time_shift random; degree helpers on random graphs (int/str/tuple labels) at rational x in (0,1]. Non-trivial = implementation returned a value (not the error stream); distinct = distinct model input lines' % (maxlen, n_exh),
                     samples, {'distribution': stats, 'mismatches': len(mism), 'exhaustive_part': 'sorted grids <=%d over 3 values' % maxlen})
    run.assumptions += ['numpy dot / ** / linspace used through their documented semantics', 'float comparison of PGF values with relative tolerance 1e-9 against the exact rational model']
