"""C08, tree clause, algebraic part (called from harness/c08.py; theorems: coq/Props/C08t.v).

What is PROVED (Props/C08t.v, closed under the global context): the master equation of the Markovian SIR process
is an executable function of any graph and any rate functions (coq/Model/Master.v); (1) every pure / product-form
initial condition lies in the algebraic set M_{j,U} (2x2 minors of the slice "j susceptible" vanish) for every cut;
(2) for EVERY graph and every cut vertex the master-equation vector field is tangent to M_{j,U} (the derivative of
each minor is an explicit combination of minors); (3) on M, and p >= 0, the pair-based right-hand side REGENERATED
from EoN/analytic.py equals the marginals of the master equation, on the path with 3 nodes, the path with 4 nodes
and the 3-star, with arbitrary direction-dependent transmission and node-dependent recovery rate functions.

What this module does on every run:
  * re-checks Props/C08t.v (its cone contains Gen/Rhs2.v, regenerated from the working tree; a right-hand side that
    no longer matches breaks Proofs/Rhs2GenP.v and with it these theorems) -- `... no longer checks` is a violation
    without failing input;
  * TIE: the extracted definitions (component `master`) against a master equation, marginals and moment system built
    independently here in numpy, and the extracted GENERATED right-hand side against the Python function
    _dSIR_pair_based_ at the marginals of random dyadic probability vectors, on random trees (rel 1e-9);
  * the identities the proof uses, evaluated exactly (rationals) by the extracted code on random trees up to 5 nodes,
    beyond the three graphs they are proved for: unclosed moment equations, d(minor)/dt = expansion, closure
    residual = sum of minors;
  * FAILING-INPUT SEARCH: points of M are produced by integrating the master equation (scipy expm) from pure initial
    conditions on random trees with random rates; there the real _dSIR_pair_based_ must equal the marginals of the
    master equation (rel 1e-8), and the minors must vanish.  A discrepancy with rates the public entry point can
    express (tau * symmetric edge weight, gamma * node weight) is re-run through SIR_pair_based_pure_IC against the
    master equation (c08.case_tree); when that fails too it is reported as a failing input of the property."""
import itertools, json
from fractions import Fraction as F

# text for the integrator to merge into CLAIM of harness/c08.py (this module is not a cnn.py and is not read by tools/mkmanifest.py)
CLAIM_ADDENDUM = dict(
    text="Tree clause beyond one edge (coq/Props/C08t.v, closed under the global context): the master equation of the Markovian SIR process as an executable "
         "function of any graph and any direction-dependent transmission / node-dependent recovery rate functions (coq/Model/Master.v, extracted and compared "
         "with a numpy master equation on every run).  For EVERY graph accepted by the executable check tree_okb (every tree; evaluated on all trees up to "
         "7/8 nodes on every run; graphs with a cycle are rejected), C08t_tree_pure_ic_partial: (1) every pure initial condition lies in the algebraic set M "
         "(2x2 minors of each slice 'j susceptible' across each branch cut vanish = conditional independence across a susceptible cut vertex); (2) the "
         "master-equation vector field is tangent to M -- the derivative of every minor is an explicit p-independent linear combination of minors "
         "(C08t_tangent_eq, any graph, any cut vertex); (3) on M and p>=0 the pair-based right-hand side REGENERATED from EoN/analytic.py, evaluated at the "
         "marginals of p, equals the marginals of the master equation (C08t_open_general: unclosed moment equations for every loop-free graph; "
         "C08t_residual_eq: closure residual = sum of minors; C08t_closed_eq_open_on_M).  The trees with 3 and 4 nodes are proved a second time by evaluation.",
    note="Cited: the ODE lift from these identities to the returned curves (linear uniqueness for the minors, nonnegativity of the master solution, "
         "Picard-Lindeloef for the pair-based system).  Not proved as a statement about all trees: that tree_okb accepts every tree.")
from . import common as C

COMP = 'master'
S_, I_, R_ = 0, 1, 2


# ------------------------------------------------------------------ trees, rates ----
def rand_tree(rng, n):
    """random labelled tree on 0..n-1 as ordered adjacency lists (random attachment, shuffled labels)"""
    lab = list(range(n)); rng.shuffle(lab)
    adj = [[] for _ in range(n)]
    for k in range(1, n):
        a = lab[k]; b = lab[rng.randrange(k)]
        adj[a].append(b); adj[b].append(a)
    for l in adj:
        rng.shuffle(l)
    return adj


def fixed_tree(name):
    return {'path3': [[1], [0, 2], [1]], 'path4': [[1], [0, 2], [1, 3], [2]], 'star3': [[1, 2, 3], [0], [0], [0]],
            'edge': [[1], [0]]}[name]


def rand_rates(rng, adj, symmetric):
    """tr[(u, v)] = rate at which susceptible u is infected by infected v (trans_rate_fxn(u, v)); rc[u]"""
    n = len(adj); tr = {}; rc = [F(rng.randint(1, 16), 8) for _ in range(n)]
    if symmetric:
        tau = F(rng.choice([1, 2, 3, 4]), 2); gam = F(rng.choice([1, 2, 3]), 2)
        w = {}
        for u in range(n):
            for v in adj[u]:
                if (v, u) not in w:
                    w[(u, v)] = w[(v, u)] = F(rng.choice([1, 2, 3, 4, 6]), 2)
        nwt = [F(rng.choice([1, 2, 4]), 2) for _ in range(n)]
        for (u, v), x in w.items():
            tr[(u, v)] = tau * x
        rc = [gam * x for x in nwt]
        return tr, rc, {'tau': tau, 'gamma': gam, 'w': {'%d,%d' % k: str(x) for k, x in w.items()}, 'nw': [str(x) for x in nwt]}
    for u in range(n):
        for v in adj[u]:
            tr[(u, v)] = F(rng.randint(1, 24), 8)
    return tr, rc, None


def cuts_of(adj):
    """every (j, U, i, k): j with >= 2 neighbours, i != k neighbours of j, U = the branch of i (component of T - j)"""
    out = []
    n = len(adj)
    for j in range(n):
        if len(adj[j]) < 2:
            continue
        for i in adj[j]:
            comp = {i}; todo = [i]
            while todo:
                x = todo.pop()
                for y in adj[x]:
                    if y != j and y not in comp:
                        comp.add(y); todo.append(y)
            for k in adj[j]:
                if k != i:
                    out.append((j, sorted(comp), i, k))
    return out


# ------------------------------------------------------------------ independent numerics ----
def states(n):
    return list(itertools.product((S_, I_, R_), repeat=n))          # lexicographic = rank order of Model/Master.v


def master_matrix(adj, tr, rc):
    """dense A with dp/dt = A p; column = source state, row = target state"""
    import numpy as np
    n = len(adj); st = states(n); rank = {s: i for i, s in enumerate(st)}
    A = np.zeros((len(st), len(st)))
    for s in st:
        a = rank[s]
        for u in range(n):
            if s[u] == I_:
                r = float(rc[u]); t = s[:u] + (R_,) + s[u + 1:]
            elif s[u] == S_:
                r = sum(float(tr[(u, v)]) for v in adj[u] if s[v] == I_); t = s[:u] + (I_,) + s[u + 1:]
            else:
                continue
            if r:
                A[rank[t], a] += r; A[a, a] -= r
    return A, st


def marginals_np(adj, st, p):
    import numpy as np
    n = len(adj)
    X = np.zeros(n); Y = np.zeros(n); XY = np.zeros((n, n)); XX = np.zeros((n, n))
    for s, x in zip(st, p):
        for i in range(n):
            if s[i] == S_:
                X[i] += x
                for j in adj[i]:
                    if s[j] == I_: XY[i, j] += x
                    elif s[j] == S_: XX[i, j] += x
            elif s[i] == I_:
                Y[i] += x
    return np.concatenate((X, Y, XY.ravel(), XX.ravel()))


def py_rhs(EoN, adj, tr, rc, V):
    """the real _dSIR_pair_based_ of the working tree at the state vector V"""
    import numpy as np, networkx as nx
    n = len(adj)
    G = nx.Graph(); G.add_nodes_from(range(n))
    for u in range(n):
        for v in adj[u]:
            G.add_edge(u, v)
    trf = lambda u, v: float(tr[(u, v)])
    rcf = lambda u: float(rc[u])
    with np.errstate(all='ignore'):
        return np.array(EoN.analytic._dSIR_pair_based_(np.array(V, dtype=float), 0.0, G, list(range(n)), {u: u for u in range(n)}, trf, rcf), dtype=float)


def minors_max(adj, st, p, j, U):
    """largest |minor| over the slice s_j = S for the cut (j, U)"""
    rank = {s: i for i, s in enumerate(st)}
    sl = [s for s in st if s[j] == S_]
    Us = set(U); n = len(adj); worst = 0.0
    for s1 in sl:
        if p[rank[s1]] == 0:
            pass
        for s2 in sl:
            m12 = tuple(s1[k] if k in Us else s2[k] for k in range(n))
            m21 = tuple(s2[k] if k in Us else s1[k] for k in range(n))
            worst = max(worst, abs(p[rank[s1]] * p[rank[s2]] - p[rank[m12]] * p[rank[m21]]))
    return worst


def close(a, b, tol):
    return abs(a - b) <= tol * max(1.0, abs(a), abs(b))


def vclose(a, b, tol):
    return len(a) == len(b) and all(close(float(x), float(y), tol) for x, y in zip(a, b))


# ------------------------------------------------------------------ driver lines ----
def prefix(adj, tr, rc, p):
    n = len(adj)
    toks = [str(n)]
    for u in range(n):
        toks.append('%d %s' % (len(adj[u]), ' '.join(str(v) for v in adj[u])))
    toks += [C.qtok(x) for x in rc]
    toks.append(str(len(tr)))
    for (u, v), x in tr.items():
        toks.append('%d %d %s' % (u, v, C.qtok(x)))
    toks.append('%d %s' % (len(p), ' '.join(C.qtok(x) for x in p)))
    return ' '.join(toks)


def parse(o):
    return [[F(x) for x in part.split()] for part in o[2:].split('|')]


def rand_prob(rng, m):
    w = [rng.randint(1, 16) for _ in range(m)]; tot = sum(w)
    return [F(x, tot) for x in w]


# ------------------------------------------------------------------ the M-point case (replayable) ----
def case_rhs(EoN, q):
    """at p(t) = expm(A t) delta_{s0}: (a) every minor of every cut vanishes, (b) _dSIR_pair_based_(marginals p) =
    marginals(A p).  Returns None when both hold, else a description"""
    import numpy as np
    from scipy.linalg import expm
    adj = q['adj']; n = len(adj)
    tr = {tuple(int(x) for x in k.split(',')): F(v) for k, v in q['tr'].items()}
    rc = [F(x) for x in q['rc']]
    A, st = master_matrix(adj, tr, rc)
    p0 = np.zeros(len(st)); p0[st.index(tuple(q['s0']))] = 1.0
    p = expm(A * float(F(q['t']))) @ p0
    p[np.abs(p) < 1e-300] = 0.0
    for (j, U, i, k) in cuts_of(adj):
        w = minors_max(adj, st, p, j, U)
        if w > 1e-11:
            return 'p(t) left M: a minor of the cut at %d, side %s, is %.3g (theory: 0 for all t)' % (j, U, w)
    V = marginals_np(adj, st, p)
    want = marginals_np(adj, st, A @ p)
    got = py_rhs(EoN, adj, tr, rc, V)
    if got.shape != want.shape or not np.all(np.isfinite(got)):
        return '_dSIR_pair_based_ returned shape %s / non-finite values at the marginals of p(t)' % (got.shape,)
    bad = [m for m in range(len(want)) if not close(got[m], want[m], 1e-8)]
    if bad:
        m = bad[0]; blk = ('dX', 'dY', 'dXY', 'dXX')[0 if m < n else 1 if m < 2 * n else 2 if m < 2 * n + n * n else 3]
        off = m - (0 if m < n else n if m < 2 * n else 2 * n if m < 2 * n + n * n else 2 * n + n * n)
        cell = off if m < 2 * n else (off // n, off % n)
        return ('on the tree %s, initial state %s, t = %s, rates trans_rate_fxn = %s, rec_rate_fxn = %s: _dSIR_pair_based_ at the exact marginals gives %s%s = %.12g, '
                'the master equation gives %.12g (%d of %d components differ)' % (adj, q['s0'], q['t'], {k: str(v) for k, v in q['tr'].items()}, q['rc'], blk, cell, got[m], want[m], len(bad), len(want)))
    return None


CASES = {'c08t_rhs': case_rhs}


def replay(rp):
    EoN = C.import_eon()
    r = rp.get('replay', {})
    res = CASES[r['kind']](EoN, r['params'])
    print('replay %s: %s' % (r['kind'], res or 'holds'))
    return 1 if res else 0


def entry_case(q, sym):
    """the same input through the public entry point (harness/c08.py case_tree), when the rates are expressible there"""
    adj = q['adj']; n = len(adj)
    edges = []
    for u in range(n):
        for v in adj[u]:
            if (v, u) not in edges: edges.append((u, v))
    inf = [i for i, x in enumerate(q['s0']) if x == I_]; rec = [i for i, x in enumerate(q['s0']) if x == R_]
    if not inf:
        return None
    from . import ode_oracles as O
    desc = {'nodes': [str(i) for i in range(n)], 'edges': [[str(u), str(v)] for u, v in edges]}
    order = list(O.graph_from_desc(desc).edges())               # the order in which c08._weights assigns the values
    return {'graph': desc, 'seed': inf, 'recovered': rec, 'tau': float(sym['tau']), 'gamma': float(sym['gamma']), 'tmax': 4.0, 'tcount': 9,
            'tw': {'attr': 'contact', 'values': [float(F(sym['w']['%d,%d' % (u, v)])) for u, v in order]},
            'rw': {'attr': 'frailty', 'values': [float(F(x)) for x in sym['nw']]}}


# ------------------------------------------------------------------ part ----
def part(run, EoN, tier, props, report, cases_registry=None):
    import numpy as np, random
    if cases_registry is not None:
        cases_registry.update(CASES)
    thorough = tier == 'thorough'
    rng = random.Random(run.seed * 7919 + 88)           # own stream: does not shift the cases of c08.py
    C.extra_props(run, 'C08', props, ['C08t'])
    info = {'props': 'coq/Props/C08t.v', 'ok': bool(props.get('ok'))}
    run.coverage['c08t'] = info
    ok, log = C.build_driver(COMP)
    tie_bad = []; ident_bad = []
    if not ok:
        # the cone of Extract/XMaster.v contains Proofs/Rhs2GenP.v (generated right-hand side = model): when that breaks the
        # extracted definitions are unavailable; the search for a failing input below does not need them
        report(run, 'C08/c08t/model-build', 'Extract/XMaster.v (cone: Model/Master.v, Gen/Rhs2.v, Proofs/Rhs2GenP.v, C08tF.v) / ocaml/master_driver.ml do not build: ' + log[-400:],
               {'log': log[-2000:]}, no_input=True)
    else:
        part_model(run, EoN, thorough, rng, info, tie_bad, ident_bad)
    part_search(run, EoN, thorough, rng, info, tie_bad, ident_bad, report)


def part_model(run, EoN, thorough, rng, info, tie_bad, ident_bad):
    import numpy as np
    # ---- 1. tie + exact identities on random trees ------------------------------------------------
    jobs = []          # (line, kind, data)
    trees = [('edge', fixed_tree('edge')), ('path3', fixed_tree('path3')), ('path4', fixed_tree('path4')), ('star3', fixed_tree('star3'))]
    for n, cnt in ((3, 3), (4, 6 if thorough else 3), (5, 8 if thorough else 2)):
        trees += [('random%d' % n, rand_tree(rng, n)) for _ in range(cnt)]
    for name, adj in trees:
        n = len(adj)
        for rep in range(2 if n <= 4 else 1):
            tr, rc, _ = rand_rates(rng, adj, symmetric=False)
            p = rand_prob(rng, 3 ** n)
            pre = prefix(adj, tr, rc, p)
            jobs.append(('EVAL %s 0 1' % pre, 'eval', (name, adj, tr, rc, p)))
            cs = cuts_of(adj)
            for (j, U, i, k) in (cs if n <= 4 else rng.sample(cs, min(len(cs), 3))):
                m = 3 ** n
                sl = [c for c, s in enumerate(states(n)) if s[j] == S_]
                pairs = [(a, b) for a in sl for b in sl] if n <= 3 else [(rng.choice(sl), rng.choice(sl)) for _ in range(40)]
                a = rng.choice([S_, I_]); b = rng.choice([S_, I_])
                jobs.append(('CUT %s %d %d %s %d %s %d %d %d %d' % (pre, j, len(U), ' '.join(map(str, U)), len(pairs), ' '.join('%d %d' % ab for ab in pairs), a, i, b, k),
                             'cut', (name, adj, tr, rc, p, j, U, i, k, pairs)))
    outs = C.run_model([l for l, _, _ in jobs], COMP, timeout=150, shards=8)
    n_eval = n_cut = n_pairs = 0
    for (line, kind, data), o in zip(jobs, outs):
        if not o.startswith('OK'):
            tie_bad.append(('driver', data[0], o[:200])); continue
        v = parse(o)
        if kind == 'eval':
            name, adj, tr, rc, p = data; n_eval += 1
            A, st = master_matrix(adj, tr, rc); pf = np.array([float(x) for x in p])
            V = marginals_np(adj, st, pf)
            if not vclose(v[0], A @ pf, 1e-9): tie_bad.append(('master_vec vs numpy master equation', name, adj))
            if not vclose(v[1], V, 1e-9): tie_bad.append(('marginals', name, adj))
            if not vclose(v[3], marginals_np(adj, st, A @ pf), 1e-9): tie_bad.append(('marginals of master_rhs', name, adj))
            if not vclose(v[4], py_rhs(EoN, adj, tr, rc, V), 1e-9):
                tie_bad.append(('generated _dSIR_pair_based_ (Gen/Rhs2.v) vs the Python function at the marginals', name, adj))
            if v[4] != v[5]: ident_bad.append(('generated = model (C08_generated_SIR_pair_based)', name, adj))
            if v[2] != v[3]: ident_bad.append(('unclosed moment equations: open_rhs p = marginals (master_rhs p)', name, adj))
        else:
            name, adj, tr, rc, p, j, U, i, k, pairs = data; n_cut += 1; n_pairs += len(pairs)
            trip = v[0]
            for m in range(len(pairs)):
                if trip[3 * m + 1] != trip[3 * m + 2]:
                    ident_bad.append(('tangency: dminor along the master equation = dminor_expand (C08t_tangent_eq)', name, adj, j, U, pairs[m])); break
            if v[1][0] != v[1][1]: ident_bad.append(('closure residual = sum of minors', name, adj, j, U, i, k))
            if v[1][2] != 1: ident_bad.append(('sepb rejects the branch cut of a tree', name, adj, j, U))
    info.update({'tie_evaluations': n_eval, 'cut_evaluations': n_cut, 'minor_pairs_checked_exactly': n_pairs,
                 'trees': sorted({d[0] for _, _, d in jobs})})
    # ---- 1b. the acceptance check of C08t_tree_pure_ic_partial on every tree up to the bound, and on graphs with a cycle
    from . import ode_oracles as O
    import networkx as nx
    tl = []; want = []
    for T in O.all_trees(8 if thorough else 7):
        nodes = list(T.nodes()); rng.shuffle(nodes); pos = {u: i for i, u in enumerate(nodes)}
        adj = [[] for _ in nodes]
        for u in nodes:
            nb = [pos[v] for v in T.neighbors(u)]; rng.shuffle(nb); adj[pos[u]] = nb
        tl.append('TREE ' + prefix(adj, {}, [F(1)] * len(adj), [F(1)])); want.append(('tree', adj, True))
    for n_ in (3, 4, 5, 6):
        for extra in range(2):
            adj = rand_tree(rng, n_)
            non = [(a, b) for a in range(n_) for b in range(a + 1, n_) if b not in adj[a]]
            if not non: adj = [[1, 2], [0, 2], [0, 1]]
            else:
                a, b = rng.choice(non); adj[a].append(b); adj[b].append(a)
            tl.append('TREE ' + prefix(adj, {}, [F(1)] * len(adj), [F(1)])); want.append(('one cycle', adj, False))
    touts = C.run_model(tl, COMP, timeout=150, shards=8)
    acc = rej = 0
    for (kind, adj, exp), o in zip(want, touts):
        got = o.split()[1] == '1' if o.startswith('OK') else None
        if got is not exp:
            ident_bad.append(('tree_okb (acceptance check of C08t_tree_pure_ic_partial) answers %r on a %s' % (o[:40], kind), adj))
        elif exp: acc += 1
        else: rej += 1
    info.update({'tree_okb_accepts_every_tree_up_to': 8 if thorough else 7, 'trees_accepted': acc, 'graphs_with_a_cycle_rejected': rej})


def part_search(run, EoN, thorough, rng, info, tie_bad, ident_bad, report):
    # ---- 2. failing-input search at points of M ---------------------------------------------------
    found = 0; n_pts = 0; worst = 0.0
    pts = []
    pool = [fixed_tree('path3'), fixed_tree('path4'), fixed_tree('star3')]
    for n, cnt in ((3, 2), (4, 4 if thorough else 3), (5, 8 if thorough else 3), (6, 4 if thorough else 0)):
        pool += [rand_tree(rng, n) for _ in range(cnt)]
    for adj in pool:
        n = len(adj)
        for sym in (False, True):
            tr, rc, symd = rand_rates(rng, adj, symmetric=sym)
            k_inf = rng.randint(1, 2 if n >= 4 else 1)
            inf = rng.sample(range(n), k_inf)
            rec = [x for x in rng.sample(range(n), 1) if x not in inf] if rng.random() < 0.3 else []
            s0 = [I_ if x in inf else R_ if x in rec else S_ for x in range(n)]
            for t in (F(1, 4), F(1), F(5, 2)):
                pts.append(({'adj': adj, 'tr': {'%d,%d' % k_: str(v) for k_, v in tr.items()}, 'rc': [str(x) for x in rc], 's0': s0, 't': str(t)}, symd))
    for q, symd in pts:
        n_pts += 1
        try:
            res = case_rhs(EoN, q)
        except Exception as e:
            res = 'CRASH %s: %s' % (type(e).__name__, str(e)[:200])
        if res is None:
            continue
        ec = entry_case(q, symd) if symd else None
        confirmed = None
        if ec is not None:
            try:
                from . import c08
                confirmed = c08.case_tree(EoN, ec)
            except Exception as e:
                confirmed = 'CRASH %s: %s' % (type(e).__name__, str(e)[:200])
        if confirmed:
            found += report(run, 'C08/SIR_pair_based_pure_IC/tree-weighted/rhs-not-exact-on-M',
                            'SIR_pair_based_pure_IC: %s; right-hand side: %s' % (confirmed, res), {'kind': 'tree', 'params': ec, 'detail': confirmed, 'rhs_level': q})
        else:
            tie_bad.append(('_dSIR_pair_based_ is not the marginal of the master equation at a point of M', res, q))
    info.update({'points_of_M': n_pts, 'failing_inputs': found, 'tie_mismatches': len(tie_bad), 'identity_failures': len(ident_bad)})
    # ---- 3. what broke without a public failing input ---------------------------------------------
    if ident_bad:
        report(run, 'C08/c08t/identity', 'an identity of Props/C08t.v fails when evaluated by the extracted definitions: %r (%d failures)' % (ident_bad[0], len(ident_bad)),
               {'failures': [repr(x) for x in ident_bad[:5]]}, no_input=True)
    if tie_bad and not found:
        x = tie_bad[0]
        rp = {'mismatches': [repr(y)[:600] for y in tie_bad[:5]]}
        if isinstance(x[-1], dict) and 'adj' in x[-1]:
            rp.update({'kind': 'c08t_rhs', 'params': x[-1]})
        report(run, 'C08/_dSIR_pair_based_/tree-rhs-exact', 'tree exactness of the pair-based right-hand side: %s (%d mismatches); no failing input of the public entry point was found '
               '(direction-dependent rates are not expressible there)' % (repr(x[:2])[:700], len(tie_bad)), rp, no_input=True)
    run.assumptions += ['C08t: the lift from the right-hand-side identities on M to the returned curves is ODE uniqueness (cited); that the executable check tree_okb accepts '
                        'every tree is evaluated (all trees up to the size bound of the run), not proved as a statement about all trees']
