"""Gillespie_SIR / Gillespie_SIS: case generation, model lines for the `gil` driver,
running the implementation on a draw script, comparison (trace + outputs)."""
from fractions import Fraction as F
from . import common as C
from . import simrun as R

COMP = 'gil'
CODE = {'S': 0, 'I': 1, 'R': 2}
FUEL = 400


def gen_case(rng, kind, nmax=7, malformed=False):
    ewl = rng.choice([None, None, 'tw']); nwl = rng.choice([None, None, 'rw'])
    gc = R.gen_graph(rng, nmax=nmax, ewl=ewl, nwl=nwl)
    n = len(gc.order)
    dy = lambda: R.dyadic(rng)
    case = {'kind': kind, 'gc': gc, 'tau': dy(), 'gamma': dy(), 'full': rng.random() < 0.5,
            'tmin': F(rng.choice([0, 0, 5, -3]), rng.choice([1, 2])), 'rho': None, 'r0': None, 'i0_form': 'list'}
    case['tmax'] = rng.choice([None, None, case['tmin'] + F(rng.randint(1, 8), 2)]) if kind == 'SIR' else case['tmin'] + F(rng.randint(1, 10), 2)
    r = rng.random()
    if malformed and r < 0.5:
        case['i0'] = [gc.order[0]]; case['rho'] = F(1, 4)            # both given: EoNError
    elif malformed and kind == 'SIR' and r < 0.75:
        case['i0'] = None; case['rho'] = F(1, 4); case['r0'] = [gc.order[-1]]     # rho + initial_recovereds: EoNError (Gillespie_SIR)
    elif r < 0.12:
        case['i0'] = None; case['rho'] = rng.choice([None, None, F(1, 4), F(1, 2), F(3, 8), F(1)])
        if kind == 'SIR' and case['rho'] is None and rng.random() < 0.6:      # default start node with initially recovered nodes given
            case['r0'] = rng.sample(gc.order, rng.randint(0, max(0, n - 1)))
    else:
        k = rng.randint(1, min(3, n)) if rng.random() < 0.95 else 0
        sel = rng.sample(gc.order, k)
        case['i0'] = sel
        case['i0_form'] = rng.choice(['list', 'tuple', 'set', 'single'] if k == 1 else ['list', 'tuple', 'set', 'dictkeys'])
        if kind == 'SIR' and rng.random() < 0.35:
            rest = [u for u in gc.order if u not in sel]
            case['r0'] = rng.sample(rest, min(len(rest), rng.randint(0, 2)))
    return case


def model_line(case, mode):
    gc = case['gc']; im = gc.idmap
    nl = lambda l: '0' if l is None else '1 %d %s' % (len(l), ' '.join(str(im[u]) for u in l))
    return ' '.join(['GIL', '0' if case['kind'] == 'SIR' else '1', gc.tokens(), C.qtok(case['tau']), C.qtok(case['gamma']),
                     nl(case['i0']), nl(case['r0']), R.opt_q(case['rho']), C.qtok(case['tmin']), R.opt_q(case['tmax']),
                     '1' if case['full'] else '0', str(FUEL), mode])


def shape_i0(case):
    i0 = case['i0']
    if i0 is None: return None
    f = case['i0_form']
    if f == 'single': return i0[0]
    if f == 'tuple': return tuple(i0)
    if f == 'set': return set(i0)
    if f == 'dictkeys': return {u: 1 for u in i0}.keys()
    return list(i0)


def call_impl(EoN, case, full=None):
    gc = case['gc']
    kw = dict(initial_infecteds=shape_i0(case), rho=None if case['rho'] is None else float(case['rho']),
              tmin=float(case['tmin']), tmax=float('inf') if case['tmax'] is None else float(case['tmax']),
              transmission_weight=gc.ewl, recovery_weight=gc.nwl,
              return_full_data=case['full'] if full is None else full)
    if case['kind'] == 'SIR':
        if case['r0'] is not None: kw['initial_recovereds'] = list(case['r0'])
        return EoN.Gillespie_SIR(gc.G, float(case['tau']), float(case['gamma']), **kw)
    return EoN.Gillespie_SIS(gc.G, float(case['tau']), float(case['gamma']), **kw)


def run_impl(EoN, sim, case, draws, full=None):
    gc = case['gc']
    s = R.Scripted(draws, gc.idmap)
    st, val = R.run_impl(lambda: call_impl(EoN, case, full), s, sim)
    out = {'status': st, 'log': s.log, 'used': s.i}
    if st == 'EXC': out['err'] = val
    if st == 'OK':
        isfull = case['full'] if full is None else full
        if isfull:
            inv = val
            out['hist'], out['trans'] = R.canon_full(inv, gc, CODE)
            try:
                cols = [inv.t(), inv.S(), inv.I()] + ([inv.R()] if case['kind'] == 'SIR' else [])
                out['rows'] = R.canon_arrays(cols)
            except Exception as e:
                out['rows'] = 'EXC ' + type(e).__name__
            out['inv'] = inv
        else:
            out['rows'] = R.canon_arrays(val)
    return out


def compare(case, m, impl):
    """None when model and implementation agree on trace and outputs"""
    if m['status'] == 'DRIVERFAIL':
        return 'model driver failure: %r' % (m.get('raw'),)
    d = R.compare_trace(impl['log'], m['trace'])
    if d: return d
    if m['status'] == 'ERR':
        if m['err'] in ('OutOfDraws', 'OutOfFuel'):
            return None if impl['status'] in ('OUT', 'OK') else 'model %s, implementation raised %s' % (m['err'], impl.get('err'))
        if impl['status'] != 'EXC' or R.ERRMAP.get(impl['err'], impl['err']) != m['err']:
            return 'model raises %s, implementation %s %s' % (m['err'], impl['status'], impl.get('err', ''))
        return None
    if impl['status'] != 'OK':
        return 'model returns, implementation %s %s' % (impl['status'], impl.get('err', ''))
    if isinstance(impl['rows'], str):
        return 'implementation arrays: ' + impl['rows']
    d = R.rows_equal(impl['rows'], m['rows'])
    if d: return d
    if 'hist' in m:
        if 'hist' not in impl: return 'model has full data, implementation has not'
        return R.hist_equal(impl['hist'], m['hist']) or R.trans_equal(impl['trans'], m['trans'])
    return None


def case_json(case, draws=None):
    j = {'kind': case['kind'], 'graph': case['gc'].to_json(), 'tau': str(case['tau']), 'gamma': str(case['gamma']),
         'i0': None if case['i0'] is None else [repr(u) for u in case['i0']], 'i0_form': case['i0_form'],
         'r0': None if case['r0'] is None else [repr(u) for u in case['r0']],
         'rho': None if case['rho'] is None else str(case['rho']), 'tmin': str(case['tmin']),
         'tmax': None if case['tmax'] is None else str(case['tmax']), 'full': case['full']}
    if draws is not None: j['draws'] = [str(d) for d in draws]
    return j


def case_from_json(j):
    ev = lambda l: None if l is None else [eval(x) for x in l]
    fq = lambda x: None if x is None else F(x)
    return {'kind': j['kind'], 'gc': R.GraphCase.from_json(j['graph']), 'tau': F(j['tau']), 'gamma': F(j['gamma']),
            'i0': ev(j['i0']), 'i0_form': j['i0_form'], 'r0': ev(j['r0']), 'rho': fq(j['rho']), 'tmin': F(j['tmin']),
            'tmax': fq(j['tmax']), 'full': j['full']}


# ---------------------------------------------------------------- L0 oracle ----
def oracle_generator(case, impl, m=None):
    """Replays the implementation's OWN trace against the continuous-time Markov chain of
    the property (independent of the Coq model): in every state the run visits, the rate
    handed to expovariate must be the chain's total rate, the branch taken on the uniform
    draw must be the one the chain's recovery/transmission odds give, and the candidates
    offered to random.choice must be exactly the infectious nodes resp. the I-S links
    (zero-weight entries optional).  Also checks the rows against the replayed statuses."""
    bad = []
    if impl['status'] == 'OUT':
        return bad
    gc = case['gc']; G = gc.G; im = gc.idmap; inv = {i: u for u, i in im.items()}
    kind = case['kind']; tau = case['tau']; gamma = case['gamma']
    draws = [F(x) for x in (m['draws'] if m else [])]
    log = impl['log']
    nw = (lambda i: F(G.nodes[inv[i]][gc.nwl])) if gc.nwl else (lambda i: F(1))
    ew = (lambda i, j: F(G.adj[inv[i]][inv[j]][gc.ewl])) if gc.ewl else (lambda i, j: F(1))
    nbrs = {im[u]: [im[v] for v in G.neighbors(u)] for u in gc.order}
    n = len(gc.order)
    if case['rho'] is not None and case['i0'] is not None:
        if not (impl['status'] == 'EXC' and impl['err'] == 'EoNError'):
            bad.append(('rho+initial_infecteds', 'giving both rho and initial_infecteds was not rejected with EoNError (got %s %s)' % (impl['status'], impl.get('err'))))
        return bad
    if case['rho'] is not None and case['r0'] is not None and kind == 'SIR':
        # rho together with initial_recovereds: Gillespie_SIR rejects it (fast_SIR does too); a run that went ahead could
        # have drawn an initially recovered node as initially infected
        if not (impl['status'] == 'EXC' and impl['err'] == 'EoNError'):
            bad.append(('rho+initial_recovereds', 'giving both rho and initial_recovereds was not rejected with EoNError (got %s %s)' % (impl['status'], impl.get('err'))))
        return bad
    pos = 0; di = 0
    def nxt():
        nonlocal pos, di
        e = log[pos] if pos < len(log) else None
        if e is not None:
            pos += 1
            if not (e[0] == 'E' and e[1] == 0.0): di += 1
        return e
    # initial condition
    if case['i0'] is None:
        k = 1 if case['rho'] is None else int(round(n * float(case['rho'])))
        e = nxt()
        excl = {im[u] for u in (case['r0'] or [])} if kind == 'SIR' else set()
        want = [(i,) for i in range(n) if i not in excl]
        if e is None or e[0] != 'S' or e[1] != k or sorted(e[2]) != want:
            bad.append(('rho/sample', 'initial infected nodes not drawn as random.sample(all nodes that are not initially recovered, %d): %r' % (k, e))); return bad
        if k > len(want):
            return bad
        r = int(draws[di - 1])
        if r >= len(want): r = 0        # as simrun.Scripted.sample / exec's rotate
        pop = sorted(e[2]); I0 = [x[0] for x in (pop[r:] + pop[:r])[:k]]
    else:
        I0 = [im[u] for u in case['i0']]
    R0 = [im[u] for u in (case['r0'] or [])] if kind == 'SIR' else []
    st = {i: 'S' for i in range(n)}
    for i in I0: st[i] = 'I'
    for i in R0: st[i] = 'R'
    counts = lambda: [sum(1 for v in st.values() if v == s) for s in (('S', 'I', 'R') if kind == 'SIR' else ('S', 'I'))]
    exp_rows = [(case['tmin'], counts())]
    t = case['tmin']; tmax = case['tmax']
    steps = 0
    while True:
        Iset = [i for i in range(n) if st[i] == 'I']
        links = [(i, j) for i in Iset for j in nbrs[i] if st[j] == 'S']
        trec = gamma * sum(nw(i) for i in Iset); ttr = tau * sum(ew(i, j) for i, j in links)
        tot = trec + ttr
        if tot <= 0:
            break
        e = nxt()
        if e is None:
            if impl['status'] == 'OK':
                bad.append(('state/stops-early', 'run ended in a state with infected nodes and positive total rate %s without drawing a waiting time' % tot))
            break
        if e[0] != 'E' or not C.close(e[1], float(tot)):
            bad.append(('state/total-rate', 'after %d events the waiting time was drawn with %r; the chain\'s total rate in that state is %s (recovery %s + transmission %s)' % (steps, e, tot, trec, ttr)))
            break
        t = t + draws[di - 1]
        if not Iset or (tmax is not None and t >= tmax):
            break
        e = nxt()
        if e is None: break
        if e[0] != 'U':
            bad.append(('state/branch', 'expected the recovery-or-transmission draw, got %r' % (e,))); break
        u = draws[di - 1]
        ratio = trec / tot
        if abs(u - ratio) < F(1, 2 ** 34):
            break                                   # a tie of a random draw: never judged
        want_rec = u < ratio
        # selection (rejection rounds: P then A, until an accepted one)
        chosen = None
        while True:
            e = nxt()
            if e is None: break
            if e[0] != 'P':
                bad.append(('state/choice', 'expected a random.choice call, got %r' % (e,))); break
            cands = e[1]
            truth = [(i,) for i in Iset] if want_rec else links
            must = [c for c in truth if (nw(c[0]) if want_rec else ew(*c)) > 0] if (gc.nwl if want_rec else gc.ewl) else truth
            if not (set(must) <= set(cands) <= set(truth)):
                what = 'infectious nodes' if want_rec else 'I-S links'
                bad.append(('state/candidates', 'after %d events (u=%s, recovery odds %s): candidates %r offered; the %s of the state are %r' % (steps, u, ratio, cands, what, truth)))
                break
            pick = sorted(cands)[int(draws[di - 1])]
            weighted = gc.nwl if want_rec else gc.ewl
            if weighted:
                e2 = nxt()
                if e2 is None: break
                if e2[0] != 'A':
                    bad.append(('state/accept', 'expected the accept test of choose_random, got %r' % (e2,))); break
                w = nw(pick[0]) if want_rec else ew(*pick)
                if w > 0: chosen = pick; break
            else:
                chosen = pick; break
        if bad or chosen is None:
            break
        if want_rec:
            st[chosen[0]] = 'R' if kind == 'SIR' else 'S'
        else:
            st[chosen[1]] = 'I'
        steps += 1
        exp_rows.append((t, counts()))
    if not bad and impl['status'] == 'OK' and pos >= len(log) and not isinstance(impl.get('rows'), str):
        d = R.rows_equal(impl['rows'], exp_rows)
        if d: bad.append(('rows', 'returned arrays differ from the replayed chain: ' + d))
    elif not bad and impl['status'] == 'EXC':
        bad.append(('crash', 'raised %s on a valid input' % impl['err']))
    return bad


# ------------------------------------------------------------ standard run ----
def exhaustive_cases(kind, nmax, rng):
    """every labelled graph on <= nmax nodes x weight modes x every non-empty initial set of
    size <= 2 (SIR: also one initially recovered node), fixed dyadic rates"""
    import itertools
    out = []
    for n in range(1, nmax + 1):
        for edges in R.all_graphs(n):
            for mode in (0, 1, 2, 3):
                ewl = 'tw' if mode & 1 else None; nwl = 'rw' if mode & 2 else None
                if mode and (not edges and mode & 1): continue
                labels = R.make_labels(rng, n)
                ew = [F(rng.choice([1, 2, 4]), rng.choice([1, 2])) for _ in edges]
                nw = [F(rng.choice([1, 2, 3]), rng.choice([1, 2])) for _ in range(n)]
                gc = R.graph_from_edges(n, edges, labels, False, ewl, nwl, ew, nw)
                for k in (1, 2):
                    for sel in itertools.combinations(range(n), k):
                        i0 = [labels[i] for i in sel]
                        rest = [labels[i] for i in range(n) if i not in sel]
                        r0s = [None] + ([[rest[0]]] if kind == 'SIR' and rest else [])
                        for r0 in r0s:
                            tmin = F(rng.choice([0, 1, -2]))
                            out.append({'kind': kind, 'gc': gc, 'tau': F(1), 'gamma': F(1, 2), 'full': bool(len(out) % 2),
                                        'tmin': tmin, 'tmax': None if kind == 'SIR' else tmin + F(7, 4), 'rho': None,
                                        'r0': r0, 'i0': i0, 'i0_form': 'list'})
    return out


def standard_run(run, EoN, sim, kind, tier, res=None):
    from . import sim_check as SC
    import sys
    lib = sys.modules[__name__]
    rng = run.rng
    nontriv = lambda case, m, impl: m['status'] == 'OK' and len(m.get('rows', [])) >= 3
    # corpus first
    corpus = [case_from_json(j) for j in C.load_corpus('gil_' + kind)]
    res = SC.run_cases(lib, EoN, sim, corpus, ['D %d %s' % (len(j['draws']), R.qtoks([F(x) for x in j['draws']])) for j in C.load_corpus('gil_' + kind)],
                       oracle_generator, nontriv, res, 'corpus')
    # model-guided exhaustive exploration of small graphs
    ex = exhaustive_cases(kind, 3 if tier == 'quick' else 4, rng)
    if tier == 'quick':
        pass
    elif len(ex) > 6000:
        ex = ex[::len(ex) // 6000 + 1]
    modes = ['A %d %d 1 %s' % (40 if kind == 'SIR' else 16, 120 if tier == 'quick' else 300, C.qtok(F(1, 2))) for _ in ex]
    res = SC.run_cases(lib, EoN, sim, ex, modes, oracle_generator, nontriv, res, 'exhaustive')
    # random
    n = 3000 if tier == 'quick' else 40000
    cases = [gen_case(rng, kind, nmax=7 if i % 4 else 12, malformed=(i % 25 == 0)) for i in range(n)]
    res = SC.run_cases(lib, EoN, sim, cases, ['W ' + R.ent_tokens(rng) for _ in cases], oracle_generator, nontriv, res, 'random')
    return res


def replay(rp):
    EoN = C.import_eon()
    import EoN.simulation as sim
    j = rp['replay']
    case = case_from_json(j)
    draws = [F(x) for x in j.get('draws', [])]
    impl = run_impl(EoN, sim, case, draws)
    print('case:', {k: v for k, v in j.items() if k != 'graph'}); print('graph:', j['graph'])
    print('implementation:', {k: v for k, v in impl.items() if k not in ('inv',)})
    bad = oracle_generator(case, impl, {'draws': draws})
    print('oracle verdict:', bad or 'holds')
    return 1 if bad else 0
