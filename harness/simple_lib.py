"""Gillespie_simple_contagion: generation of model specifications (SIS, SIR, SIRS, SEIR,
competing / cooperating diseases, vaccination, random 2-4 status specs, oddities such as
A->A and (A,A) pairs), model lines for the `simple` driver, running the implementation
on a draw script, comparison (trace + outputs), and the L0 oracle that replays the
implementation's own trace against the specification (independent of the Coq model)."""
import contextlib, io, itertools
from collections import defaultdict
from fractions import Fraction as F
from . import common as C
from . import simrun as R

COMP = 'simple'
FUEL = 300
PAD = 3
ENTRY = 'Gillespie_simple_contagion'


# ------------------------------------------------------------------ statuses ----
class Opq:
    """a hashable status without an order: sorted() of the spec edges raises TypeError and
    the code falls back to list(graph.edges())"""
    def __init__(self, name): self.name = name
    def __hash__(self): return hash(('Opq', self.name))
    def __eq__(self, o): return isinstance(o, Opq) and o.name == self.name
    def __repr__(self): return 'Opq(%r)' % self.name


def render(name, form):
    if form == 'str': return name
    if form == 'tuple': return tuple(name)
    return Opq(name)


FORMS = ('str', 'str', 'tuple', 'opaque')


# ------------------------------------------------------------------ families ----
def fam_sis(rng): return ['S', 'I'], [('I', 'S')], [('I', 'S', 'I')]
def fam_sir(rng): return ['S', 'I', 'R'], [('I', 'R')], [('I', 'S', 'I')]
def fam_sirs(rng): return ['S', 'I', 'R'], [('I', 'R'), ('R', 'S')], [('I', 'S', 'I')]
def fam_seir(rng): return ['S', 'E', 'I', 'R'], [('E', 'I'), ('I', 'R')], [('I', 'S', 'E')]


def fam_vacc(rng):
    ind = [('I', 'S', 'I')] + ([('I', 'V', 'I')] if rng.random() < 0.5 else [])
    return ['S', 'I', 'R', 'V'], [('S', 'V'), ('I', 'R')] + ([('V', 'S')] if rng.random() < 0.3 else []), ind


def two_diseases(cooperate):
    names = [a + b for a in 'SIR' for b in 'SIR']
    sp = []; ind = []
    for x in names:
        if x[0] == 'I': sp.append((x, 'R' + x[1]))
        if x[1] == 'I': sp.append((x, x[0] + 'R'))
    for src in names:
        for tgt in names:
            if src[0] == 'I' and tgt[0] == 'S' and (cooperate or tgt[1] == 'S'):
                ind.append((src, tgt, 'I' + tgt[1]))
            if src[1] == 'I' and tgt[1] == 'S' and (cooperate or tgt[0] == 'S'):
                ind.append((src, tgt, tgt[0] + 'I'))
    return names, sp, ind


def fam_compete(rng): return two_diseases(False)
def fam_cooperate(rng): return two_diseases(True)


def fam_random(rng):
    k = rng.randint(2, 4); names = list('ABCD'[:k])
    sp = []; ind = []
    for a in names:
        for b in names:
            if (a != b and rng.random() < 0.3) or (a == b and rng.random() < 0.06): sp.append((a, b))
    for a in names:
        for b in names:
            for c in names:
                if (b != c and rng.random() < 0.2) or (b == c and rng.random() < 0.03): ind.append((a, b, c))
    if not sp and not ind: ind.append((names[0], names[1], names[0]))
    return names, sp, ind


def fam_odd(rng):
    """(A,A) pairs, old == new, a status that induces on itself"""
    return ['A', 'B', 'C'], [('A', 'A'), ('B', 'C')] if rng.random() < 0.5 else [('B', 'A')], \
        [('A', 'A', 'B'), ('B', 'A', 'A'), ('B', 'B', 'B')][:rng.randint(1, 3)] + ([('C', 'A', 'C')] if rng.random() < 0.5 else [])


FAMILIES = {'SIS': fam_sis, 'SIR': fam_sir, 'SIRS': fam_sirs, 'SEIR': fam_seir, 'vaccination': fam_vacc,
            'compete': fam_compete, 'cooperate': fam_cooperate, 'random': fam_random, 'odd': fam_odd}
TERMINATING = ('SIR', 'SEIR', 'compete', 'cooperate')
KINDS = ['SIS', 'SIR', 'SIRS', 'SEIR', 'vaccination', 'compete', 'cooperate', 'random', 'random', 'random', 'odd']


def rate(rng):
    return F(rng.choice([0, 1, 1, 2, 2, 3, 4, 4, 6, 6, 8, 12]), rng.choice([1, 1, 2, 4]))


def weight(rng, tiny=False):
    if tiny and rng.random() < 0.3: return F(rng.choice([1, 3]), 2 ** 30)
    return F(rng.choice([0, 1, 1, 2, 3, 4, 6]), rng.choice([1, 2, 4]))


def make_case(rng, gc, kind, form=None, weights=True, full=None, malformed=False, partial=False, tmax_steps=None):
    """gc: a GraphCase WITHOUT weight attributes (they are added here)"""
    G = gc.G; directed = G.is_directed()
    names, sp, ind = FAMILIES[kind](rng)
    form = form or rng.choice(FORMS)
    rng.shuffle(sp); rng.shuffle(ind)
    node_tabs = {}; edge_tabs = {}
    tiny = rng.random() < 0.08
    def node_tab(tid):
        if tid not in node_tabs: node_tabs[tid] = {u: weight(rng, tiny) for u in gc.order}
        return tid
    def edge_tab(tid, symmetric):
        if tid not in edge_tabs:
            t = {}
            for u, v in G.edges():
                t[(u, v)] = weight(rng, tiny)
                if not directed: t[(v, u)] = t[(u, v)] if symmetric else weight(rng, tiny)
            edge_tabs[tid] = t
        return tid
    def wsrc(kindw, i):
        r = rng.random()
        if not weights or r < 0.55: return None
        if r < 0.78:
            tid = '%sl%d' % (kindw, rng.choice([0, i]))        # labels are sometimes shared between transitions
            return ('label', node_tab(tid) if kindw == 'n' else edge_tab(tid, True))
        tid = '%sf%d' % (kindw, i)
        return ('fun', node_tab(tid) if kindw == 'n' else edge_tab(tid, False))
    spont = [{'a': a, 'b': b, 'rate': rate(rng), 'w': wsrc('n', i)} for i, (a, b) in enumerate(sp)]
    induced = [{'a': a, 'b': b, 'a2': a, 'c': c, 'rate': rate(rng), 'w': wsrc('e', i)} for i, (a, b, c) in enumerate(ind)]
    shape = 'valid'
    if malformed:
        shape = 'malformed'
        r = rng.random()
        if r < 0.4 and induced:
            tr = rng.choice(induced); tr['a2'] = rng.choice([x for x in names if x != tr['a']])
            # the changed target node must not collide with an existing edge's meaning; a DiGraph edge is unique by its end points
        elif r < 0.7 and spont:
            tr = rng.choice(spont); tr['w'] = ('both', node_tab('nl0'), node_tab('nfb'))
        elif induced:
            tr = rng.choice(induced); tr['w'] = ('both', edge_tab('el0', True), edge_tab('efb', False))
        elif spont:
            tr = rng.choice(spont); tr['w'] = ('both', node_tab('nl0'), node_tab('nfb'))
    # de-duplicate induced edges that became equal as DiGraph edges
    seen = set(); induced2 = []
    for tr in induced:
        k = (tr['a'], tr['b'], tr['a2'], tr['c'])
        if k not in seen: seen.add(k); induced2.append(tr)
    induced = induced2
    missing = {}
    if partial:
        shape = 'partial-label'
        labs = sorted({tr['w'][1] for tr in spont + induced if tr['w'] and tr['w'][0] == 'label'})
        if labs:
            lab = rng.choice(labs)
            if lab in node_tabs: missing[lab] = [rng.choice(gc.order)]
            elif G.number_of_edges(): missing[lab] = [rng.choice(list(G.edges()))]
        if not missing: shape = 'valid'
    used = sorted({x for a, b in sp for x in (a, b)} | {x for a, b, c in ind for x in (a, b, c)})
    pool = used * 3 + names
    ic = {u: rng.choice(pool) for u in gc.order}
    if rng.random() < 0.85:                       # make sure something can happen
        E = list(G.edges())
        for tr in rng.sample(induced, min(2, len(induced))):
            if E:
                u, v = rng.choice(E); ic[u] = tr['a']; ic[v] = tr['b']
        if spont and rng.random() < 0.5: ic[rng.choice(gc.order)] = rng.choice(spont)['a']
    r = rng.random()
    rstat = list(names)
    if r < 0.25: rstat = rng.sample(names, rng.randint(1, len(names)))
    elif r < 0.30: rstat = names + [names[0]]
    elif r < 0.35: rstat = names + ['Z']
    elif r < 0.5: rng.shuffle(rstat)
    tmin = F(rng.choice([0, 0, 5, -3]), rng.choice([1, 2]))
    if kind in TERMINATING and rng.random() < 0.3: tmax = None
    else: tmax = tmin + F(rng.randint(1, tmax_steps or 12), 2)
    case = {'gc': gc, 'kind': kind, 'form': form, 'names': names, 'spont': spont, 'induced': induced,
            'node_tabs': node_tabs, 'edge_tabs': edge_tabs, 'missing': missing, 'ic': ic,
            'ic_form': rng.choice(['dict', 'defaultdict']), 'rstat': rstat, 'tmin': tmin, 'tmax': tmax,
            'full': (rng.random() < 0.5) if full is None else full, 'shape': shape,
            'kwargs': rng.random() < 0.2, 'isolated_status_nodes': rng.random() < 0.5, 'entry': ENTRY}
    if case['full'] and not covers(case): case['shape'] += '+full-subset'
    if case['full'] and len(set(rstat)) != len(rstat): case['shape'] += '+full-dup'
    return case


def gen_case(rng, kind=None, nmax=6, malformed=False, partial=False, directed=None, full=None):
    kind = kind or rng.choice(KINDS)
    directed = (rng.random() < 0.5) if directed is None else directed
    gc = R.gen_graph(rng, nmax=nmax if kind not in ('compete', 'cooperate') else min(nmax, 5), directed=directed,
                     nmin=1 if rng.random() < 0.1 else 2, density=rng.choice([0.3, 0.5, 0.7, 0.9]))
    return make_case(rng, gc, kind, malformed=malformed, partial=partial, full=full)


def covers(case):
    """every status a node can ever have is a return status (then summary() of the full-data
    object is defined and must equal the arrays)"""
    reach = set(case['ic'].values()) | {tr['b'] for tr in case['spont']} | {tr['c'] for tr in case['induced']}
    return reach <= set(case['rstat'])


# ------------------------------------------------------------------ encoding ----
def universe(case):
    names = list(case['names'])
    for x in list(case['ic'].values()) + list(case['rstat']) + [t['a2'] for t in case['induced']]:
        if x not in names: names.append(x)
    return names


def status_codes(case):
    """name -> N: rank in Python's order of the rendered statuses when sortable, first appearance otherwise"""
    names = universe(case)
    if case['form'] == 'opaque':
        return {x: i for i, x in enumerate(names)}, False
    ranked = sorted(names, key=lambda x: render(x, case['form']))
    return {x: i for i, x in enumerate(ranked)}, True


def build_spec_graphs(case):
    """the two networkx DiGraphs handed to the implementation"""
    import networkx as nx
    form = case['form']; rd = lambda x: render(x, form)
    H = nx.DiGraph(); J = nx.DiGraph()
    if case['isolated_status_nodes']:
        for x in case['names']: H.add_node(rd(x))
    scale = 2 if case['kwargs'] else 1
    def attrs(tr, node_level):
        a = {'rate': float(tr['rate'])}
        w = tr['w']
        tabs = case['node_tabs'] if node_level else case['edge_tabs']
        def fun(tid):
            t = tabs[tid]
            if node_level:
                return (lambda G, node, scale=1: float(t[node]) * scale) if case['kwargs'] else (lambda G, node: float(t[node]))
            return (lambda G, s, d, scale=1: float(t[(s, d)]) * scale) if case['kwargs'] else (lambda G, s, d: float(t[(s, d)]))
        if w:
            if w[0] in ('label', 'both'): a['weight_label'] = w[1]
            if w[0] == 'fun': a['rate_function'] = fun(w[1])
            if w[0] == 'both': a['rate_function'] = fun(w[2])
        return a
    for tr in case['spont']:
        H.add_edge(rd(tr['a']), rd(tr['b']), **attrs(tr, True))
    for tr in case['induced']:
        J.add_edge((rd(tr['a']), rd(tr['b'])), (rd(tr['a2']), rd(tr['c'])), **attrs(tr, False))
    return H, J


def contact_graph(case):
    """the contact network with the weight-label attributes of the case (a copy)"""
    gc = case['gc']; G = gc.G.copy()
    used = {tr['w'][1] for tr in case['spont'] + case['induced'] if tr['w'] and tr['w'][0] in ('label', 'both')}
    for lab in used:
        miss = case['missing'].get(lab, [])
        if lab in case['node_tabs']:
            for u in gc.order:
                if u not in miss: G.nodes[u][lab] = float(case['node_tabs'][lab][u])
        else:
            for u, v in G.edges():
                if (u, v) not in miss and (v, u) not in miss: G.adj[u][v][lab] = float(case['edge_tabs'][lab][(u, v)])
    return G


def spec_order(case, H, J):
    """transitions in the order list(graph.edges()) yields them, as dictionaries of the case"""
    form = case['form']; rd = lambda x: render(x, form)
    sp = {(rd(t['a']), rd(t['b'])): t for t in case['spont']}
    ind = {((rd(t['a']), rd(t['b'])), (rd(t['a2']), rd(t['c']))): t for t in case['induced']}
    return [sp[e] for e in H.edges()], [ind[e] for e in J.edges()]


def wtokens(case, tr, node_level, G, scale):
    gc = case['gc']; im = gc.idmap
    w = tr['w']
    if not w: return '0'
    if w[0] == 'both': return '3'
    tabs = case['node_tabs'] if node_level else case['edge_tabs']
    t = tabs[w[1]]
    if w[0] == 'label':
        if node_level:
            ent = [((im[u],), t[u]) for u in gc.order if w[1] in G.nodes[u]]
        else:
            ent = [((im[u], im[v]), t[(u, v)]) for u, v in G.edges() if w[1] in G.adj[u][v]]
        code = '1'
    else:
        if node_level: ent = [((im[u],), t[u] * scale) for u in gc.order]
        else: ent = [((im[u], im[v]), t[(u, v)] * scale) for (u, v) in t]
        code = '2'
    return ' '.join([code, str(len(ent))] + ['%d %s %s' % (len(k), ' '.join(map(str, k)), C.qtok(q)) for k, q in ent])


def model_line(case, mode):
    gc = case['gc']
    codes, sortable = status_codes(case)
    H, J = build_spec_graphs(case)
    G = contact_graph(case)
    sp, ind = spec_order(case, H, J)
    scale = 2 if case['kwargs'] else 1
    t = ['SIMPLE', gc.tokens(), '1' if sortable else '0', str(len(sp))]
    for tr in sp:
        t += [str(codes[tr['a']]), str(codes[tr['b']]), C.qtok(tr['rate']), wtokens(case, tr, True, G, scale)]
    t.append(str(len(ind)))
    for tr in ind:
        t += [str(codes[tr['a']]), str(codes[tr['b']]), str(codes[tr['a2']]), str(codes[tr['c']]), C.qtok(tr['rate']), wtokens(case, tr, False, G, scale)]
    t += [str(codes[case['ic'][u]]) for u in gc.order]
    t += [str(len(case['rstat']))] + [str(codes[x]) for x in case['rstat']]
    t += [C.qtok(case['tmin']), R.opt_q(case['tmax']), '1' if case['full'] else '0', str(FUEL), mode]
    return ' '.join(t)


# ------------------------------------------------------------ implementation ----
def call_impl(EoN, case, full=None):
    form = case['form']; rd = lambda x: render(x, form)
    H, J = build_spec_graphs(case)
    G = contact_graph(case)
    if case['ic_form'] == 'defaultdict':
        IC = defaultdict(lambda: rd(case['names'][0])); IC.update({u: rd(s) for u, s in case['ic'].items()})
    else:
        IC = {u: rd(s) for u, s in case['ic'].items()}
    rs = [rd(x) for x in case['rstat']]
    kw = dict(tmin=float(case['tmin']), tmax=float('inf') if case['tmax'] is None else float(case['tmax']),
              return_full_data=case['full'] if full is None else full)
    if case['kwargs']:
        kw['spont_kwargs'] = {'scale': 2}; kw['nbr_kwargs'] = {'scale': 2}
    fn = getattr(EoN, case.get('entry', ENTRY))
    if case.get('entry') == 'Gillespie_Arbitrary' and case.get('alias_sim_kwargs'):
        kw['sim_kwargs'] = {}                      # the legacy alias does **sim_kwargs: None is not a mapping
    with contextlib.redirect_stdout(io.StringIO()):
        return fn(G, H, J, IC, tuple(rs) if len(rs) % 2 else rs, **kw)


def run_impl(EoN, sim, case, draws, full=None):
    gc = case['gc']
    codes, _ = status_codes(case)
    rcode = {render(x, case['form']): c for x, c in codes.items()}
    # a few spare draws after the model's script: an implementation that asks for more than the
    # model predicts shows the extra calls (with their arguments) in its log instead of just stopping
    padded = list(draws) + [F(1, 2)] * PAD
    s = R.Scripted(padded, gc.idmap)
    st, val = R.run_impl(lambda: call_impl(EoN, case, full), s, sim)
    out = {'status': st, 'log': s.log, 'used': s.i, 'draws': padded}
    if st == 'EXC': out['err'] = val
    if st == 'OK':
        isfull = case['full'] if full is None else full
        if isfull:
            inv = val
            out['hist'], out['trans'] = R.canon_full(inv, gc, rcode)
            try:
                tt, D = inv.summary()
                out['rows'] = R.canon_arrays([tt] + [D[render(x, case['form'])] for x in case['rstat']])
            except Exception as e:
                out['rows'] = 'EXC ' + type(e).__name__
            out['inv'] = inv
        else:
            out['rows'] = R.canon_arrays(val)
    return out


def all_initial_in_rstat(case):
    """summary() of the full-data object counts every node (none skipped) and has one column
    per return status (a repeated return status makes summary() append twice per time)"""
    return set(case['ic'].values()) <= set(case['rstat']) and len(set(case['rstat'])) == len(case['rstat'])


def compare(case, m, impl):
    """None when model and implementation agree on trace and outputs"""
    if m['status'] == 'DRIVERFAIL':
        return 'model driver failure: %r' % (m.get('raw'),)
    if m['status'] == 'ERR' and m['err'] in ('OutOfDraws', 'OutOfFuel'):
        # the script was cut (draw budget of the walker): only the common prefix of the calls is comparable
        k = min(len(impl['log']), len(m['trace']))
        return R.compare_trace(impl['log'][:k], m['trace'][:k])
    d = R.compare_trace(impl['log'], m['trace'])
    if d: return d
    if m['status'] == 'ERR':
        if impl['status'] != 'EXC' or R.ERRMAP.get(impl['err'], impl['err']) != m['err']:
            return 'model raises %s, implementation %s %s' % (m['err'], impl['status'], impl.get('err', ''))
        return None
    if impl['status'] != 'OK':
        return 'model returns, implementation %s %s' % (impl['status'], impl.get('err', ''))
    if 'hist' in m:
        if 'hist' not in impl: return 'model has full data, implementation has not'
        d = R.hist_equal(impl['hist'], m['hist']) or R.trans_equal(impl['trans'], m['trans'])
        if d: return d
        # the model's rows are the `data` lists of the loop; summary() of the full-data object
        # skips nodes whose first status is not a return status, so it is comparable only when
        # every initial status is one (the rest of that question belongs to C10)
        if not all_initial_in_rstat(case): return None
    if isinstance(impl['rows'], str):
        return 'implementation arrays: ' + impl['rows']
    return R.rows_equal(impl['rows'], m['rows'])


# ---------------------------------------------------------------- replays ----
def case_json(case, draws=None):
    gc = case['gc']
    j = {'graph': gc.to_json(), 'kind': case['kind'], 'form': case['form'], 'names': case['names'],
         'spont': [dict(t, rate=str(t['rate'])) for t in case['spont']],
         'induced': [dict(t, rate=str(t['rate'])) for t in case['induced']],
         'node_tabs': {k: [[repr(u), str(w)] for u, w in t.items()] for k, t in case['node_tabs'].items()},
         'edge_tabs': {k: [[repr(u), repr(v), str(w)] for (u, v), w in t.items()] for k, t in case['edge_tabs'].items()},
         'missing': {k: [repr(x) for x in v] for k, v in case['missing'].items()},
         'ic': [[repr(u), s] for u, s in case['ic'].items()], 'ic_form': case['ic_form'], 'rstat': case['rstat'],
         'tmin': str(case['tmin']), 'tmax': None if case['tmax'] is None else str(case['tmax']), 'full': case['full'],
         'shape': case['shape'], 'kwargs': case['kwargs'], 'isolated_status_nodes': case['isolated_status_nodes'],
         'entry': case.get('entry', ENTRY), 'alias_sim_kwargs': case.get('alias_sim_kwargs', False)}
    if draws is not None: j['draws'] = [str(d) for d in draws]
    return j


def case_from_json(j):
    fix = lambda t: dict(t, rate=F(t['rate']), w=None if t['w'] is None else tuple(t['w']))
    return {'gc': R.GraphCase.from_json(j['graph']), 'kind': j['kind'], 'form': j['form'], 'names': j['names'],
            'spont': [fix(t) for t in j['spont']], 'induced': [fix(t) for t in j['induced']],
            'node_tabs': {k: {eval(u): F(w) for u, w in t} for k, t in j['node_tabs'].items()},
            'edge_tabs': {k: {(eval(u), eval(v)): F(w) for u, v, w in t} for k, t in j['edge_tabs'].items()},
            'missing': {k: [eval(x) for x in v] for k, v in j['missing'].items()},
            'ic': {eval(u): s for u, s in j['ic']}, 'ic_form': j['ic_form'], 'rstat': j['rstat'],
            'tmin': F(j['tmin']), 'tmax': None if j['tmax'] is None else F(j['tmax']), 'full': j['full'],
            'shape': j['shape'], 'kwargs': j['kwargs'], 'isolated_status_nodes': j['isolated_status_nodes'],
            'entry': j.get('entry', ENTRY), 'alias_sim_kwargs': j.get('alias_sim_kwargs', False)}


# ---------------------------------------------------------------- L0 oracle ----
def is_malformed(case):
    return any(t['w'] and t['w'][0] == 'both' for t in case['spont'] + case['induced']) or any(t['a'] != t['a2'] for t in case['induced'])


def cascade_order(case):
    """the order in which the cascade walks through the transitions: sorted spontaneous then
    sorted induced edges (documented: reproducibility), insertion order when not sortable"""
    H, J = build_spec_graphs(case)
    sp, ind = spec_order(case, H, J)
    if case['form'] != 'opaque':
        rd = lambda x: render(x, case['form'])
        sp = sorted(sp, key=lambda t: (rd(t['a']), rd(t['b'])))
        ind = sorted(ind, key=lambda t: ((rd(t['a']), rd(t['b'])), (rd(t['a2']), rd(t['c']))))
    return sp, ind


def oracle_spec(case, impl, m=None):
    """Replays the implementation's OWN trace against the specification of the property, in
    plain Python from the case tables: in every state the run visits, the rate handed to
    expovariate must be the sum over spec edges of rate x (sum of the enabled actors' weights);
    the cascade cell selected by the uniform draw must be the one the true rates give; the
    candidates offered to random.choice must be exactly the enabled actors of that transition
    (zero-weight entries optional); the status change applied is the transition's; rows,
    histories and transmissions track the replayed statuses; the run stops iff the total
    rate is 0 or t >= tmax; EoNError iff the specification is malformed."""
    bad = []
    if case['missing']:
        return bad                                   # partial weight labels are outside the property's domain
    if is_malformed(case):
        if not (impl['status'] == 'EXC' and impl['err'] == 'EoNError'):
            bad.append(('malformed-spec', 'a malformed specification (induced transition changing its first component, or both weight_label and rate_function) was not rejected with EoNError: %s %s' % (impl['status'], impl.get('err'))))
        return bad
    gc = case['gc']; G = gc.G; im = gc.idmap; n = len(gc.order)
    scale = 2 if case['kwargs'] else 1
    sp, ind = cascade_order(case)
    trs = [('sp', t) for t in sp] + [('in', t) for t in ind]
    draws = [F(x) for x in (impl.get('draws') or (m['draws'] if m else []))]
    log = impl['log']
    nbrs = {u: list(G.neighbors(u)) for u in gc.order}
    st = dict(case['ic'])
    def w_of(kind, t, actor):
        w = t['w']
        if not w: return F(1)
        tab = (case['node_tabs'] if kind == 'sp' else case['edge_tabs'])[w[1]]
        return tab[actor] * (scale if w[0] == 'fun' else 1)
    def enabled(kind, t):
        if kind == 'sp': return [u for u in gc.order if st[u] == t['a']]
        return [(u, v) for u in gc.order if st[u] == t['a'] for v in nbrs[u] if st[v] == t['b']]
    def kid(kind, a): return (im[a],) if kind == 'sp' else (im[a[0]], im[a[1]])
    counts = lambda: [sum(1 for v in st.values() if v == s) for s in case['rstat']]
    exp_rows = [(case['tmin'], counts())]
    exp_hist = {im[u]: [(case['tmin'], st[u])] for u in gc.order}; exp_trans = []
    pos = 0; di = 0
    def nxt():
        nonlocal pos, di
        e = log[pos] if pos < len(log) else None
        if e is not None:
            pos += 1
            if not ((e[0] == 'E' and e[1] == 0.0) or (e[0] == 'P' and e[1] == [])): di += 1
        return e
    t = case['tmin']; tmax = case['tmax']; steps = 0; judged = True
    while True:
        en = [enabled(k, tr) for k, tr in trs]
        rates = [tr['rate'] * sum(w_of(k, tr, a) for a in e) for (k, tr), e in zip(trs, en)]
        tot = sum(rates)
        if tot <= 0:
            if pos < len(log):
                bad.append(('state/continues', 'after %d events no transition is enabled (total rate 0) but the run went on: %r' % (steps, log[pos])))
            break
        e = nxt()
        if e is None:
            if impl['status'] == 'OK':
                bad.append(('state/stops-early', 'after %d events the run ended although the total rate of the enabled transitions is %s and t=%s < tmax' % (steps, tot, t)))
            break
        if e[0] != 'E' or not C.close(e[1], float(tot)):
            bad.append(('state/total-rate', 'after %d events the waiting time was drawn with %r; the specification\'s total rate in that state is %s (per transition %s)' % (steps, e, tot, [str(r) for r in rates])))
            break
        if di - 1 >= len(draws): judged = False; break
        if not (draws[di - 1] >= 0): judged = False; break
        t = t + draws[di - 1]
        if tmax is not None and t == tmax:
            judged = False; break                      # an exact tie of a random waiting time with tmax is never judged
        if tmax is not None and t >= tmax:
            if pos < len(log):
                bad.append(('state/beyond-tmax', 'event after t=%s >= tmax=%s: %r' % (t, tmax, log[pos])))
            break
        e = nxt()
        if e is None or di - 1 >= len(draws): judged = False; break
        if e[0] != 'U':
            bad.append(('state/cascade', 'expected the transition-selecting uniform draw, got %r' % (e,))); break
        u = draws[di - 1]
        cum = F(0); cell = None; tie = False
        for i, r in enumerate(rates):
            cum += r / tot
            if abs(u - cum) < F(1, 2 ** 34) and cum < 1: tie = True
            if cell is None and u < cum: cell = i
        if tie or cell is None:
            judged = False; break                      # a tie of a random draw is never judged
        kind, tr = trs[cell]
        weighted = bool(tr['w'])
        truth = [kid(kind, a) for a in en[cell]]
        wid = {kid(kind, a): w_of(kind, tr, a) for a in en[cell]}
        chosen = None
        while True:
            e = nxt()
            if e is None: break
            if e[0] != 'P':
                bad.append(('state/choice', 'expected a random.choice call, got %r' % (e,))); break
            cands = e[1]
            must = [c for c in truth if wid[c] > 0] if weighted else truth
            if not (set(must) <= set(cands) <= set(truth)) or len(set(cands)) != len(cands):
                bad.append(('state/candidates', 'after %d events, transition %s (cell %d, u=%s): candidates %r offered; the enabled actors of that transition are %r' % (steps, descr(kind, tr), cell, u, cands, sorted(truth))))
                break
            if not cands: break
            if di - 1 >= len(draws) or int(draws[di - 1]) >= len(cands): break      # the script no longer fits: not judged further
            pick = sorted(cands)[int(draws[di - 1])]
            if weighted:
                e2 = nxt()
                if e2 is None: break
                if e2[0] != 'A':
                    bad.append(('state/accept', 'expected the accept test of choose_random, got %r' % (e2,))); break
                if wid[pick] > 0: chosen = pick; break
            else:
                chosen = pick; break
        if bad: break
        if chosen is None: judged = False; break
        if kind == 'sp':
            tgt = chosen[0]; new = tr['b']
        else:
            tgt = chosen[1]; new = tr['c']; exp_trans.append((t, chosen[0], chosen[1]))
        st[gc.order[tgt]] = new
        exp_hist[tgt].append((t, new))
        steps += 1
        exp_rows.append((t, counts()))
    if bad or not judged:
        return bad
    if impl['status'] == 'OK':
        codes, _ = status_codes(case)
        if 'hist' in impl:
            eh = {u: [(a, codes[b]) for a, b in h] for u, h in exp_hist.items()}
            d = R.hist_equal(impl['hist'], eh) or R.trans_equal(impl['trans'], exp_trans)
            if d: bad.append(('full-data', 'histories / transmissions differ from the replayed chain: ' + d))
            elif all_initial_in_rstat(case) and covers(case) and not isinstance(impl.get('rows'), str):
                d = R.rows_equal(impl['rows'], exp_rows)
                if d: bad.append(('rows', 'summary() of the full-data object differs from the replayed chain: ' + d))
        elif not isinstance(impl.get('rows'), str):
            d = R.rows_equal(impl['rows'], exp_rows)
            if d: bad.append(('rows', 'returned arrays differ from the replayed chain: ' + d))
        else:
            bad.append(('rows', 'returned arrays: %s' % impl['rows']))
    elif impl['status'] == 'EXC':
        if impl['err'] in ('KeyError', 'IndexError') and (case['full'] and not covers(case)) and pos >= len(log):
            pass       # Simulation_Investigation's constructor on return_statuses that do not cover the statuses: see oracle_fulldata
        else:
            bad.append(('crash', 'raised %s on a valid input' % impl['err']))
    return bad


def oracle_fulldata(case, impl, m=None):
    """return_full_data=True with return_statuses that do not contain every status a node takes:
    the constructor of Simulation_Investigation raises KeyError / IndexError after the whole
    simulation has run (recorded for C10 / C04; not part of C03's statement)"""
    if impl['status'] == 'EXC' and impl['err'] in ('KeyError', 'IndexError') and case['full'] and not covers(case) and not case['missing'] and not is_malformed(case):
        return [('full-data/return_statuses-subset', 'return_full_data=True with return_statuses=%r raised %s after the simulation (statuses taken by nodes: not all returned)' % (case['rstat'], impl['err']))]
    return []


def descr(kind, tr):
    return '%s->%s' % (tr['a'], tr['b']) if kind == 'sp' else '(%s,%s)->(%s,%s)' % (tr['a'], tr['b'], tr['a2'], tr['c'])


def nontrivial(case, m, impl):
    return m.get('status') == 'OK' and len(m.get('rows', [])) >= 3
